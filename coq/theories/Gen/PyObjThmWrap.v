(* C18, F-PY-ARRWRAP: np.array(src, dtype) casts the elements of an ndarray of ANOTHER dtype like C (integers wrap around),
   so without a range check of the source an out-of-range element is stored as a different, in-range value.
   The generated template flag t_arr_precheck is never computed here: every statement fixes it with set_precheck. *)
From Coq Require Import List NArith ZArith Bool Arith Lia ZifyBool.
From Verif Require Import PyObj Gen_PyObj PyObjThm.
Import ListNotations.
Open Scope Z_scope.

Notation TGw b := (set_precheck b TG).

(* the scanned template is one of the two variants considered below *)
Theorem tmpl_live : TG = set_precheck (t_arr_precheck TG) TG.
Proof. reflexivity. Qed.

Theorem tmpl_live2 : TG = set_text_guard (t_text_guard TG) (set_precheck (t_arr_precheck TG) TG).
Proof. reflexivity. Qed.

(* ================================================================ assign_array for a fixed value of the flag *)
Definition slowGb (b q fixed : bool) (cap : nat) (e : etype) (y : pyval) : res pyval :=
  if int_src_ok (TGw b) e y then
    l <- np_array (dtype_of PW e) y ;;
    if lenG fixed (length l) cap then (if float_src_ok TG q e y then chkG q e l else Raise ValueError) else Raise ValueError
  else Raise ValueError.
Definition assignGb (b q fixed : bool) (cap : nat) (e : etype) (x1 : pyval) : res pyval :=
  match x1 with
  | PBytes s => if fast_bytesG e && lenG fixed (length s) cap
                then chkG q e (map (fun c => PInt (Z.of_N (c mod 256))) s)
                else if t_text_guard TG then Raise ValueError else slowGb b q fixed cap e x1
  | PStr _ => if t_text_guard TG then Raise ValueError else slowGb b q fixed cap e x1
  | PArr dt' l => if dtype_eqb dt' (dtype_of PW e) && lenG fixed (length l) cap then chkG q e l else slowGb b q fixed cap e x1
  | _ => slowGb b q fixed cap e x1
  end.

Lemma assign_array_genb : forall b q fixed cap sl e x,
  assign_array (TGw b) PW q fixed cap sl e x = assignGb b q fixed cap e (strconv sl x).
Proof. intros. destruct fixed; reflexivity. Qed.

(* the range check of the source, with t_precheck_nd_only left as scanned: an ndarray is checked element by element; a list
   (anything else) leaf by leaf, unless t_precheck_nd_only holds and it contains a Python float (NumPy then infers float64 for
   the whole list, and the check leaves it to the cast, which raises OverflowError for a Python number out of range) *)
Definition src_checked_old (e : etype) (y : pyval) : bool :=
  match y with
  | PArr _ l => forallb (int_leaf_ok e) l
  | _ => match np_flat y with
         | Ok sl => (t_precheck_nd_only TG && existsb is_pyfloat (snd sl)) || forallb (int_leaf_ok e) (snd sl)
         | Raise _ => true
         end
  end.
(* ... and with t_src_exact (the helper _int_elements_ok_) every leaf, of whatever kind of source, must be an integer in range *)
Definition src_checked (e : etype) (y : pyval) : bool :=
  if t_src_exact TG
  then match np_flat y with Ok sl => forallb (int_leaf_exact e) (snd sl) | Raise _ => true end
  else src_checked_old e y.

(* the exact check is the stronger one *)
Lemma int_leaf_exact_ok : forall e x, int_leaf_exact e x = true -> int_leaf_ok e x = true.
Proof.
  intros e x H. destruct e as [[|w|w|w]|t]; try reflexivity; destruct x; try reflexivity; cbn [int_leaf_exact int_leaf_ok] in *; try exact H;
    (apply andb_true_iff in H; destruct H as [H Hr]; apply andb_true_iff in H; destruct H as [Hf Hi];
     assert (f_isnan bits = false) as -> by (unfold f_isnan; unfold f_isfinite in Hf; destruct (f_exp bits =? 2047)%N; [discriminate|reflexivity]);
     rewrite Hf; unfold f_floor, f_ceil; rewrite Hi; cbn [negb]; rewrite !andb_false_r, Hr; reflexivity).
Qed.

Lemma int_src_ok_b : forall b e y, int_src_ok (TGw b) e y = negb b || src_checked e y.
Proof. reflexivity. Qed.

Lemma slowGb_checked : forall q fixed cap e y v, slowGb true q fixed cap e y = Ok v -> src_checked e y = true.
Proof.
  intros q fixed cap e y v H. unfold slowGb in H. rewrite int_src_ok_b in H. cbn [negb orb] in H.
  destruct (src_checked e y); [reflexivity|discriminate].
Qed.

(* ================================================================ without the pre-check: the wrap *)
(* an int64 ndarray holding 256 assigned to uint8[<=4]: 0 is stored, nothing is raised - in BOTH variants of the element check,
   because the wrapped value is inside the range *)
Theorem array_elem_wrap_refuted : forall q,
  assign_array (set_precheck false TG) PW q false 4 false (EPrim (KU 8)) (PArr (DS 64) [PInt 256; PInt 1])
  = Ok (PArr (DU 8) [PInt 0; PInt 1]).
Proof. intros q; destruct q; vm_compute; reflexivity. Qed.

Theorem array_elem_wrap_signed_refuted : forall q,
  assign_array (set_precheck false TG) PW q true 2 false (EPrim (KS 16)) (PArr (DS 64) [PInt 70000; PInt 1])
  = Ok (PArr (DS 16) [PInt 4464; PInt 1]).
Proof. intros q; destruct q; vm_compute; reflexivity. Qed.

(* the trigger is the ndarray: Python ints (a list) are never wrapped, NumPy raises OverflowError for them; what is stored is the
   source, and it lies within the storage range (which is the F-PY-ARRELEM gap, not this one) *)
Lemma mapM_conv_ints_inv : forall dt zs l', (exists W, dt = DU W \/ dt = DS W) ->
  mapM (conv_leaf dt) (map PInt zs) = Ok l' -> l' = map PInt zs /\ Forall (fun z => fits dt (PInt z) = true) zs.
Proof.
  intros dt zs l' [W Hdt]. revert l'. induction zs as [|z r IH]; intros l' H.
  - cbn in H. inversion H. auto.
  - cbn [map mapM] in H.
    assert (Hz : exists b : bool, conv_leaf dt (PInt z) = (if b then Ok (PInt z) else Raise OverflowError) /\ fits dt (PInt z) = b).
    { destruct Hdt as [->| ->]; cbn [conv_leaf py_int bind fits]; eexists; split; reflexivity. }
    destruct Hz as (b & Ez & Fz). rewrite Ez in H. destruct b; cbn [bind] in H; [|discriminate].
    destruct (mapM (conv_leaf dt) (map PInt r)) as [r'|] eqn:Er; cbn [bind] in H; [|discriminate].
    inversion H; subst l'. destruct (IH r' eq_refl) as [-> Fr]. split; [reflexivity|]. constructor; assumption.
Qed.

Theorem array_src_partial : forall q fixed cap sl k zs v, (exists w, k = KU w \/ k = KS w) ->
  assign_array (set_precheck false TG) PW q fixed cap sl (EPrim k) (PList (map PInt zs)) = Ok v ->
  v = PArr (dtype_of PW (EPrim k)) (map PInt zs) /\
  Forall (fun z => fits (dtype_of PW (EPrim k)) (PInt z) = true) zs.
Proof.
  intros q fixed cap sl k zs v Hk H. rewrite assign_array_genb in H.
  replace (strconv sl (PList (map PInt zs))) with (PList (map PInt zs)) in H by (destruct sl; reflexivity).
  cbn [assignGb] in H. unfold slowGb in H. rewrite int_src_ok_b in H. cbn [negb orb] in H.
  rewrite np_array_pylist in H by apply pyatom_ints.
  destruct (mapM (conv_leaf (dtype_of PW (EPrim k))) (map PInt zs)) as [l'|] eqn:M; cbn [bind] in H; [|discriminate].
  apply mapM_conv_ints_inv in M.
  2:{ destruct Hk as [w [->| ->]]; cbn [dtype_of]; eexists; eauto. }
  destruct M as [-> F]. split; [|exact F].
  destruct (lenG fixed (length (map PInt zs)) cap); [|discriminate].
  destruct (float_src_ok TG q (EPrim k) (PList (map PInt zs))); [|discriminate].
  unfold chkG in H. destruct (q || forallb (elem_in_dsdl_range (EPrim k)) (map PInt zs)); inversion H; reflexivity.
Qed.

(* ================================================================ with the pre-check: no wrap, and the FIELD's range *)
(* whatever is accepted on the conversion path had all its integer leaves within the range of the field's element type
   (and its float leaves with floor and ceiling inside it) before the cast *)
Theorem array_src_checked_list : forall q fixed cap sl e l v,
  assign_array (set_precheck true TG) PW q fixed cap sl e (PList l) = Ok v ->
  forall shl, np_flat (PList l) = Ok shl ->
  (if t_src_exact TG then forallb (int_leaf_exact e) (snd shl)
   else (t_precheck_nd_only TG && existsb is_pyfloat (snd shl)) || forallb (int_leaf_ok e) (snd shl)) = true.
Proof.
  intros q fixed cap sl e l v H shl E. rewrite assign_array_genb in H.
  replace (strconv sl (PList l)) with (PList l) in H by (destruct sl; reflexivity).
  cbn [assignGb] in H. apply slowGb_checked in H. unfold src_checked, src_checked_old in H. rewrite E in H. exact H.
Qed.

(* a list of Python ints only (no float in it) is always checked leaf by leaf *)
Corollary array_src_checked_intlist : forall q fixed cap sl e zs v,
  assign_array (set_precheck true TG) PW q fixed cap sl e (PList (map PInt zs)) = Ok v ->
  forallb (int_leaf_ok e) (map PInt zs) = true.
Proof.
  intros q fixed cap sl e zs v H. destruct (np_flat_ints zs) as [sh E].
  pose proof (array_src_checked_list _ _ _ _ _ _ _ H _ E) as C. cbn [snd] in C.
  assert (existsb is_pyfloat (map PInt zs) = false) as N.
  { clear. induction zs as [|z r IH]; [reflexivity|]. cbn [map existsb is_pyfloat orb]. exact IH. }
  destruct (t_src_exact TG).
  - rewrite forallb_forall in *. intros x Hx. apply int_leaf_exact_ok. auto.
  - rewrite N, andb_false_r in C. exact C.
Qed.

Theorem array_src_checked_ndarray : forall q fixed cap k dt' l v, (exists w, k = KU w \/ k = KS w) ->
  dtype_eqb dt' (dtype_of PW (EPrim k)) = false ->
  assign_array (set_precheck true TG) PW q fixed cap false (EPrim k) (PArr dt' l) = Ok v ->
  forallb (int_leaf_ok (EPrim k)) l = true /\ (forall z, In (PInt z) l -> int_in_range k z = true).
Proof.
  intros q fixed cap k dt' l v Hk Hd H. rewrite assign_array_genb in H. cbn [strconv assignGb] in H.
  rewrite Hd in H. cbn [andb] in H.
  pose proof (slowGb_checked _ _ _ _ _ _ H) as F0.
  assert (F : forallb (int_leaf_ok (EPrim k)) l = true).
  { unfold src_checked in F0. destruct (t_src_exact TG); [|exact F0].
    destruct (np_flat_PArr dt' l) as [sh E]. rewrite E in F0. cbn [snd] in F0.
    rewrite forallb_forall in *. intros x Hx. apply int_leaf_exact_ok. auto. }
  split; [exact F|].
  intros z Hz. rewrite forallb_forall in F. specialize (F _ Hz).
  destruct Hk as [w [->| ->]]; exact F.
Qed.

(* hence an accepted integer ndarray is stored unchanged: the cast is the identity on the field's range *)
Lemma wrap_id_u : forall w W z, 0 <= w <= W -> urange w z = true -> wrap_int (DU W) z = z.
Proof.
  intros w W z Hw H. unfold urange in H. cbn [wrap_int]. apply Z.mod_small.
  assert (2 ^ w <= 2 ^ W) by (apply Z.pow_le_mono_r; lia). lia.
Qed.

Theorem array_src_checked_nowrap : forall q fixed cap w dt' zs v, 1 <= w <= 64 ->
  dtype_eqb dt' (DU (pwd PW w)) = false ->
  assign_array (set_precheck true TG) PW q fixed cap false (EPrim (KU w)) (PArr dt' (map PInt zs)) = Ok v ->
  v = PArr (DU (pwd PW w)) (map PInt zs) /\ Forall (fun z => urange w z = true) zs.
Proof.
  intros q fixed cap w dt' zs v Hw Hd H.
  destruct (array_src_checked_ndarray q fixed cap (KU w) dt' (map PInt zs) v (ex_intro _ w (or_introl eq_refl)) Hd H) as [_ R].
  assert (F : Forall (fun z => urange w z = true) zs).
  { apply Forall_forall. intros z Hz. apply (R z). apply in_map. exact Hz. }
  split; [|exact F].
  rewrite assign_array_genb in H. cbn [strconv assignGb dtype_of] in H. rewrite Hd in H. cbn [andb] in H.
  unfold slowGb in H. destruct (int_src_ok (TGw true) (EPrim (KU w)) (PArr dt' (map PInt zs))); [|discriminate].
  cbn [np_array dtype_of] in H.
  assert (M : mapM (conv_elem (DU (pwd PW w))) (map PInt zs) = Ok (map PInt zs)).
  { assert (Hp : w <= pwd PW w) by (destruct (pwd_cases w) as [[? E]|[[? E]|[[? E]|[[? E]|[? E]]]]]; lia).
    clear - F Hw Hp. induction F as [|z r Hz _ IH]; [reflexivity|]. cbn [map mapM conv_elem].
    rewrite (wrap_id_u w (pwd PW w) z) by (auto; lia). cbn [bind]. rewrite IH. reflexivity. }
  rewrite M in H. cbn [bind] in H.
  destruct (lenG fixed (length (map PInt zs)) cap); [|discriminate].
  destruct (float_src_ok TG q (EPrim (KU w)) (PArr dt' (map PInt zs))); [|discriminate].
  unfold chkG in H. destruct (q || forallb (elem_in_dsdl_range (EPrim (KU w))) (map PInt zs)); inversion H; reflexivity.
Qed.

(* not vacuous: an in-range int64 ndarray is accepted into uint8[<=4] and stored as it is; the one that would wrap is rejected *)
Theorem array_src_checked_example : forall q,
  assign_array (set_precheck true TG) PW q false 4 false (EPrim (KU 8)) (PArr (DS 64) [PInt 255; PInt 1])
    = Ok (PArr (DU 8) [PInt 255; PInt 1]) /\
  assign_array (set_precheck true TG) PW q false 4 false (EPrim (KU 8)) (PArr (DS 64) [PInt 256; PInt 1]) = Raise ValueError /\
  assign_array (set_precheck true TG) PW q true 2 false (EPrim (KS 16)) (PArr (DS 64) [PInt 70000; PInt 1]) = Raise ValueError.
Proof. intros q; destruct q; (split; [|split]); vm_compute; reflexivity. Qed.
