(* C18: the convenience aliases `Name_major = Name_major_minor` of a generated Python package (Namespace.j2 through the filter
   newest_minor_version_aliases).  Combinators with Python's semantics; Generated/Gen_PyAlias.v composes them as the `ast` of
   filter_newest_minor_version_aliases in /repo says (tools/translators/gen_c18.py, generator `pyalias`). *)
From Coq Require Import List Arith Bool.
Import ListNotations.

Record ver := { v_name : nat; v_major : nat; v_minor : nat; v_id : nat }.   (* a composite type of the namespace; numbers of any size *)

(* max(iterable, key=k): the FIRST element with the greatest key; None for an empty iterable (Python raises ValueError) *)
Fixpoint py_max_by {A} (k : A -> nat) (l : list A) : option A :=
  match l with
  | [] => None
  | a :: r => match py_max_by k r with
              | Some b => if Nat.ltb (k a) (k b) then Some b else Some a
              | None => Some a
              end
  end.

(* sorted({...}) of pairs: every pair once; the order does not matter for what is stated *)
Fixpoint insert_pair (p : nat * nat) (l : list (nat * nat)) : list (nat * nat) :=
  match l with
  | [] => [p]
  | q :: r =>
      if (Nat.ltb (fst p) (fst q)) || (Nat.eqb (fst p) (fst q) && Nat.ltb (snd p) (snd q)) then p :: l
      else if Nat.eqb (fst p) (fst q) && Nat.eqb (snd p) (snd q) then l
      else q :: insert_pair p r
  end.
Definition sorted_set (l : list (nat * nat)) : list (nat * nat) := fold_right insert_pair [] l.
