(* C19: the parts of an Environment option combination from which the lexer rule tables are built *)
From Verif Require Export Str.
Open Scope N_scope.

Record combo := {
  c_bs : str; c_be : str; c_vs : str; c_ve : str; c_cs : str; c_ce : str;     (* re.escape of the six delimiter strings *)
  c_lstrip : bool; c_trim : bool;
  c_order_bundled : list (str * str);   (* compile_rules(environment) of the bundled lexer: (name, pattern) in rule order *)
  c_order_stock : list (str * str)      (* compile_rules(environment) of the stock lexer *)
}.
