(* The built-in line post-processors (translated from /repo by T2: Generated/Gen_LinePP.v)
   assembled into a pipeline for the line-buffer model.  Executable part only. *)
From Verif Require Export LinePP Gen_Uni Gen_LinePP.
Open Scope N_scope.

Inductive pp :=
| PTrim
| PLimit (s : LimitEmptyLines_state).

Definition pp_step (p : pp) (l : line) : pp * line :=
  match p with
  | PTrim => (PTrim, TrimTrailingWhitespace_call py_uni l)
  | PLimit s => let '(s', l') := LimitEmptyLines_call s l in (PLimit s', l')
  end.

(* _filter_and_write_line: `for line_pp in line_pps: line_and_lineend = line_pp(line_and_lineend)` *)
Fixpoint pipe_step (ps : list pp) (l : line) : list pp * line :=
  match ps with
  | [] => ([], l)
  | p :: ps' =>
      let '(p', l1) := pp_step p l in
      let '(ps'', l2) := pipe_step ps' l1 in
      (p' :: ps'', l2)
  end.

Definition write_builtin (ps : list pp) (chunks : list str) : list pp * str :=
  write_rj pipe_step chunks ps.

(* the buffering loop WITHOUT the rejoin stage (the code before fix 982f275); kept to document why the stage is needed *)
Definition write_builtin_raw (ps : list pp) (chunks : list str) : list pp * str :=
  write pipe_step chunks ps.

(* the stream of (possibly elided) lines the limiter returns for a stream of input lines *)
Fixpoint limit_lines (s : LimitEmptyLines_state) (ls : list line) : list line :=
  match ls with
  | [] => []
  | l :: ls' => let '(s', l') := LimitEmptyLines_call s l in l' :: limit_lines s' ls'
  end.
