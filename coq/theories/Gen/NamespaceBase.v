(* C11: basic facts about the data structures of Gen/Namespace.v (decidable equalities, the store
   as a finite map, prefixes).  Shared by NamespaceBuildThm.v and NamespaceTreeThm.v. *)
From Verif Require Export NamespaceSpec.
From Coq Require Import Lia.
Open Scope N_scope.

Lemma key_eqb_spec a b : reflect (a = b) (key_eqb a b).
Proof.
  revert b; induction a as [|x a IH]; intros [|y b]; cbn [key_eqb]; try (constructor; congruence).
  destruct (str_eqb_spec x y) as [->|Hne]; cbn [andb].
  - destruct (IH b) as [->|Hne]; constructor; congruence.
  - constructor; congruence.
Qed.

Lemma key_eqb_refl a : key_eqb a a = true.
Proof. destruct (key_eqb_spec a a); congruence. Qed.

Lemma key_eqb_neq a b : a <> b -> key_eqb a b = false.
Proof. destruct (key_eqb_spec a b); congruence. Qed.

Lemma ty_eqb_spec a b : reflect (a = b) (ty_eqb a b).
Proof.
  destruct a as [n1 s1 a1 i1], b as [n2 s2 a2 i2]; unfold ty_eqb; cbn [t_ns t_short t_major t_minor].
  destruct (key_eqb_spec n1 n2); [|constructor; congruence].
  destruct (str_eqb_spec s1 s2); [|constructor; congruence].
  destruct (N.eqb_spec a1 a2); [|constructor; congruence].
  destruct (N.eqb_spec i1 i2); constructor; congruence.
Qed.

Lemma ty_eqb_refl a : ty_eqb a a = true.
Proof. destruct (ty_eqb_spec a a); congruence. Qed.

Lemma mem_spec k l : mem k l = true <-> In k l.
Proof.
  unfold mem; rewrite existsb_exists; split.
  - intros (x & Hx & He). destruct (key_eqb_spec k x); congruence.
  - intros H; exists k; split; [assumption | apply key_eqb_refl].
Qed.

Lemma mem_false k l : mem k l = false <-> ~ In k l.
Proof. rewrite <- mem_spec. destruct (mem k l); split; congruence. Qed.

(* ---- the store as a finite map ---------------------------------------------------------- *)
Lemma get_some_in s k n : get s k = Some n -> In k (keys s).
Proof.
  induction s as [|[k' n'] s IH]; cbn [get keys map fst]; [discriminate|].
  destruct (key_eqb_spec k' k); [left; assumption | right; apply IH; assumption].
Qed.

Lemma get_none s k : get s k = None <-> ~ In k (keys s).
Proof.
  induction s as [|[k' n'] s IH]; cbn [get keys map fst]; [split; [intros _ []|reflexivity]|].
  destruct (key_eqb_spec k' k); cbn [In]; [split; [discriminate | tauto] | unfold keys in IH; rewrite IH; tauto].
Qed.

Lemma in_keys_get s k : In k (keys s) -> exists n, get s k = Some n.
Proof.
  intros H. destruct (get s k) eqn:E; [eauto|]. apply get_none in E. contradiction.
Qed.

Lemma keys_upd s k f : keys (upd s k f) = keys s.
Proof.
  induction s as [|[k' n'] s IH]; cbn [upd keys map fst]; [reflexivity|].
  destruct (key_eqb k' k); cbn [map fst]; [reflexivity | unfold keys in IH; rewrite IH; reflexivity].
Qed.

Lemma get_upd s k f k' :
  get (upd s k f) k' = if key_eqb k k' then option_map f (get s k') else get s k'.
Proof.
  induction s as [|[k0 n0] s IH]; cbn [upd get].
  - destruct (key_eqb k k'); reflexivity.
  - destruct (key_eqb_spec k0 k) as [->|Hne]; cbn [get].
    + destruct (key_eqb_spec k k'); [reflexivity|reflexivity].
    + destruct (key_eqb_spec k0 k') as [->|Hne']; [|exact IH].
      rewrite key_eqb_neq by congruence. reflexivity.
Qed.

Lemma keys_app s k n : keys (s ++ [(k, n)]) = keys s ++ [k].
Proof. unfold keys; rewrite map_app; reflexivity. Qed.

Lemma get_app_new s k n k' :
  get (s ++ [(k, n)]) k' =
  match get s k' with Some x => Some x | None => if key_eqb k k' then Some n else None end.
Proof.
  induction s as [|[k0 n0] s IH]; cbn [app get]; [reflexivity|].
  destruct (key_eqb k0 k'); [reflexivity | exact IH].
Qed.

(* ---- prefixes ------------------------------------------------------------------------------ *)
Lemma in_prefixes k ns : In k (prefixes ns) <-> exists j, (1 <= j <= length ns)%nat /\ k = firstn j ns.
Proof.
  unfold prefixes; rewrite in_map_iff; split.
  - intros (j & <- & Hj). apply in_seq in Hj. exists j; split; [lia|reflexivity].
  - intros (j & Hj & ->). exists j; split; [reflexivity | apply in_seq; lia].
Qed.

Lemma in_nodes_of k types :
  In k (nodes_of types) <-> exists t j, In t types /\ (1 <= j <= length (t_ns t))%nat /\ k = firstn j (t_ns t).
Proof.
  unfold nodes_of; rewrite in_flat_map; split.
  - intros (t & Ht & Hk). apply in_prefixes in Hk. destruct Hk as (j & Hj & ->). eauto.
  - intros (t & j & Ht & Hj & ->). exists t; split; [assumption | apply in_prefixes; eauto].
Qed.

Lemma nodes_nonempty k types : In k (nodes_of types) -> k <> [].
Proof.
  intros H; apply in_nodes_of in H. destruct H as (t & j & _ & Hj & ->).
  destruct (t_ns t); cbn [length] in Hj; [lia|]. destruct j; [lia|]. cbn [firstn]. discriminate.
Qed.

Lemma nodes_self t types : In t types -> t_ns t <> [] -> In (t_ns t) (nodes_of types).
Proof.
  intros Ht Hne. apply in_nodes_of. exists t, (length (t_ns t)). split; [assumption|]. split.
  - destruct (t_ns t); [congruence | cbn [length]; lia].
  - symmetry; apply firstn_all.
Qed.

Lemma nodes_prefix_closed k types j :
  In k (nodes_of types) -> (1 <= j <= length k)%nat -> In (firstn j k) (nodes_of types).
Proof.
  intros H Hj; apply in_nodes_of in H. destruct H as (t & i & Ht & Hi & ->).
  apply in_nodes_of. exists t, j. rewrite firstn_length in Hj. split; [assumption|]. split; [lia|].
  rewrite firstn_firstn. f_equal. lia.
Qed.

Lemma removelast_firstn_pred (k : key) : removelast k = firstn (pred (length k)) k.
Proof. apply removelast_firstn_len. Qed.

Lemma parent_of_some k p : parent_of k = Some p <-> (2 <= length k)%nat /\ p = removelast k.
Proof.
  unfold parent_of. rewrite removelast_firstn_pred.
  destruct k as [|a [|b k]]; cbn [length pred firstn].
  - split; [discriminate | lia].
  - split; [discriminate | lia].
  - split; [intros [= <-]; split; [lia|reflexivity] | intros [_ ->]; reflexivity].
Qed.

Lemma parent_of_none k : parent_of k = None <-> (length k <= 1)%nat.
Proof.
  unfold parent_of. rewrite removelast_firstn_pred.
  destruct k as [|a [|b k]]; cbn [length pred firstn]; split; try reflexivity; try lia; discriminate.
Qed.

Lemma parent_of_snoc p x : p <> [] -> parent_of (p ++ [x]) = Some p.
Proof.
  intros Hp. unfold parent_of. rewrite removelast_last. destruct p; [congruence|reflexivity].
Qed.

Lemma parent_child_shape k p : parent_of k = Some p -> exists x, k = p ++ [x].
Proof.
  intros H. apply parent_of_some in H. destruct H as [Hl ->].
  destruct (@exists_last _ k) as (l & a & ->); [destruct k; [cbn in Hl; lia | discriminate]|].
  exists a. rewrite removelast_last. reflexivity.
Qed.

Lemma nodes_parent_closed k p types : In k (nodes_of types) -> parent_of k = Some p -> In p (nodes_of types).
Proof.
  intros Hk Hp. apply parent_of_some in Hp. destruct Hp as [Hl ->].
  rewrite removelast_firstn_pred. apply nodes_prefix_closed; [assumption | lia].
Qed.

Lemma nodes_root r types k : one_root r types -> In k (nodes_of types) -> exists rest, k = r :: rest.
Proof.
  intros Hr Hk. apply in_nodes_of in Hk. destruct Hk as (t & j & Ht & Hj & ->).
  destruct (Hr t Ht) as (rest & ->). destruct j; [lia|]. cbn [firstn]. eauto.
Qed.

Lemma nodes_root_in r types t : one_root r types -> In t types -> In [r] (nodes_of types).
Proof.
  intros Hr Ht. apply in_nodes_of. exists t, 1%nat. destruct (Hr t Ht) as (rest & E). rewrite E.
  split; [assumption|]. cbn [length firstn]. split; [lia|reflexivity].
Qed.

(* ---- the fold trigger ---------------------------------------------------------------------- *)
Section FOLD.
  Variable strop : str -> str.

  Lemma ns_eqb_spec a b : ns_eqb strop a b = true <-> map strop a = map strop b.
  Proof. unfold ns_eqb. destruct (key_eqb_spec (map strop a) (map strop b)); split; congruence. Qed.

  Lemma ns_eqb_refl a : ns_eqb strop a a = true.
  Proof. apply ns_eqb_spec; reflexivity. Qed.

  Lemma ns_fold_false_inj types : ns_fold strop types = false -> ns_inj strop types.
  Proof.
    unfold ns_fold, ns_inj. intros H k1 k2 H1 H2 E.
    destruct (key_eqb_spec k1 k2) as [|Hne]; [assumption|exfalso].
    assert (X : existsb (fun k1 => existsb (fun k2 => ns_eqb strop k1 k2 && negb (key_eqb k1 k2)) (nodes_of types))
                        (nodes_of types) = true); [|congruence].
    apply existsb_exists. exists k1; split; [assumption|].
    apply existsb_exists. exists k2; split; [assumption|].
    rewrite (proj2 (ns_eqb_spec k1 k2) E), key_eqb_neq by assumption. reflexivity.
  Qed.

  Lemma ns_inj_fold_false types : ns_inj strop types -> ns_fold strop types = false.
  Proof.
    unfold ns_fold, ns_inj. intros H.
    destruct (existsb _ _) eqn:E; [exfalso|reflexivity].
    apply existsb_exists in E. destruct E as (k1 & H1 & E).
    apply existsb_exists in E. destruct E as (k2 & H2 & E).
    apply andb_true_iff in E. destruct E as [E1 E2]. apply ns_eqb_spec in E1.
    rewrite (H k1 k2 H1 H2 E1), key_eqb_refl in E2. discriminate.
  Qed.
End FOLD.
