(* C13: the state the PENDING fixes are expected to be in.  Each constant is compared (by `reflexivity`, Properties/C13.v) with
   the fact regenerated from /repo, so that the build says which state the tree is in.
   WHEN LANDING design_notes/C13_<name>_fix.patch: flip the constant to `true`, set the finding to "fixed", and drop the pre-fix
   alternative from tools/translators/gen_c13.py (named next to each constant).  Executable definitions only. *)
(* F-CFG-ALIASMAP  C13_alias_submap_fix.patch          gen_c13.py: `plain` in translate_deep_update *)
Definition expect_rebuilds_copy : bool := true.
(* F-CFG-WRAPPER   C13_defaultvalue_wrapper_fix.patch  gen_c13.py: `hs == DETACHED_BUILDER` in translate_create *)
Definition expect_strips_default_markers : bool := true.
(* F-CFG-EMPTYDOC  C13_empty_document_fix.patch        gen_c13.py: PIN_ALTERNATIVES become the pins (--repin) *)
Definition expect_empty_document_is_identity : bool := true.
(* F-CFG-REPEATC   C13_repeated_configuration_fix.patch gen_c13.py: action `None` in check_pins *)
Definition expect_configuration_accumulates : bool := true.
