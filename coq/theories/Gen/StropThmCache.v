(* C09 -- cache isolation: the lru_cache shared by all TokenEncoder objects of a process never changes what a call
   returns, for ANY family of configurations and ANY interleaving of calls (no hypothesis on the cache other than
   that it starts empty / was filled by such calls). *)
From Verif Require Import Strop.
Open Scope N_scope.

Lemma skey_eqb_eq a b : skey_eqb a b = true -> a = b.
Proof.
  destruct a as [[a1 a2] a3], b as [[b1 b2] b3]. unfold skey_eqb; cbn [fst snd]. intros H.
  apply andb_prop in H as [H H3]. apply andb_prop in H as [H1 H2]. apply Nat.eqb_eq in H1.
  destruct (str_eqb_spec a2 b2); [|discriminate]. destruct (str_eqb_spec a3 b3); [|discriminate]. congruence.
Qed.

Section SharedThm.
  Variable u : uni.
  Variable sp : ranges.
  Variable enc : nat -> strop_cfg.
  Variable maxsize : option nat.

  (* every entry was produced by the encoder named in its key *)
  Definition scache_ok (c : scache) : Prop := Forall (fun e => uncached u sp enc (fst e) = Ok (snd e)) c.

  Lemma scache_find_ok c k v : scache_ok c -> scache_find c k = Some v -> uncached u sp enc k = Ok v.
  Proof.
    induction 1 as [|[k0 v0] c H0 Hc IH]; cbn [scache_find]; [discriminate|].
    destruct (skey_eqb k k0) eqn:E; [|exact IH]. intros [= <-]. apply skey_eqb_eq in E. subst. exact H0.
  Qed.

  Lemma scache_remove_ok c k : scache_ok c -> scache_ok (scache_remove c k).
  Proof.
    induction 1 as [|[k0 v0] c H0 Hc IH]; cbn [scache_remove]; [constructor|].
    destruct (skey_eqb k k0); [exact Hc|constructor; assumption].
  Qed.

  Lemma firstn_ok n c : scache_ok c -> scache_ok (firstn n c).
  Proof.
    intros H. revert n. induction H as [|e c He Hc IH]; intros [|n]; cbn [firstn].
    - constructor.
    - constructor.
    - constructor.
    - constructor; [exact He|apply IH].
  Qed.

  Lemma trunc_ok c : scache_ok c -> scache_ok (trunc maxsize c).
  Proof. unfold trunc. destruct maxsize; [apply firstn_ok|auto]. Qed.

  Lemma strop_shared_transparent c i ty tok : scache_ok c ->
    snd (strop_shared u sp enc maxsize c i ty tok) = strop u sp (enc i) ty tok
    /\ scache_ok (fst (strop_shared u sp enc maxsize c i ty tok)).
  Proof.
    intros Hc. unfold strop_shared. destruct (scache_find c (i, tok, ty)) as [v|] eqn:E.
    - pose proof (scache_find_ok c _ v Hc E) as Hv. unfold uncached in Hv; cbn [fst snd] in Hv. cbn [fst snd]. split.
      + symmetry; exact Hv.
      + constructor; [exact Hv|apply scache_remove_ok; exact Hc].
    - destruct (strop u sp (enc i) ty tok) as [v| |] eqn:S; cbn [fst snd]; (split; [reflexivity|]); try exact Hc.
      apply trunc_ok. constructor; [exact S|exact Hc].
  Qed.

  (* any interleaving of calls on any encoders: every call returns its own encoder's uncached result *)
  Theorem run_calls_transparent calls : forall c, scache_ok c ->
    run_calls u sp enc maxsize c calls = map (uncached u sp enc) calls.
  Proof.
    induction calls as [|[[i tok] ty] rest IH]; intros c Hc; cbn [run_calls map]; [reflexivity|].
    destruct (strop_shared_transparent c i ty tok Hc) as [H1 H2]. rewrite H1, (IH _ H2). reflexivity.
  Qed.

  Corollary run_calls_from_empty calls : run_calls u sp enc maxsize [] calls = map (uncached u sp enc) calls.
  Proof. apply run_calls_transparent. constructor. Qed.
End SharedThm.
