(* C10: "generating a subset of the namespace gives, for every type of the subset, the file that generating everything gives",
   with EXISTENCE of the file on both sides. *)
From Verif Require Import GenState GenStateThm GenStateThmSolid LinePPThm LinePPRejoinThm LinePPInstThm.
From Coq Require Import Lia.
Open Scope N_scope.

(* the processors' constructed configuration never changes while files are written *)
Lemma pp_step_fresh p l : pp_fresh (fst (pp_step p l)) = pp_fresh p.
Proof.
  destruct p as [|s]; cbn [pp_step]; [reflexivity|].
  pose proof (limit_max_preserved s l) as H. destruct (LimitEmptyLines_call s l) as [s' l']. cbn [fst] in *.
  cbn [pp_fresh]. rewrite H. reflexivity.
Qed.

Lemma pipe_step_fresh ps : forall l, map pp_fresh (fst (pipe_step ps l)) = map pp_fresh ps.
Proof.
  induction ps as [|p ps IH]; intros l; cbn [pipe_step]; [reflexivity|].
  pose proof (pp_step_fresh p l) as Hp. destruct (pp_step p l) as [p' l1]. cbn [fst] in Hp.
  specialize (IH l1). destruct (pipe_step ps l1) as [ps'' l2]. cbn [fst map] in *. rewrite Hp, IH. reflexivity.
Qed.

Lemma linewise_from_fresh ls : forall ps out, map pp_fresh (fst (linewise_from pipe_step ps out ls)) = map pp_fresh ps.
Proof.
  induction ls as [|l ls IH]; intros ps out; unfold linewise_from; cbn [fold_left fst snd]; [reflexivity|].
  assert (H : map pp_fresh (fst (emit pipe_step ps out l)) = map pp_fresh ps).
  { unfold emit. pose proof (pipe_step_fresh ps l) as H0. destruct (pipe_step ps l); exact H0. }
  destruct (emit pipe_step ps out l) as [ps' out']. cbn [fst snd] in *. rewrite <- H. exact (IH ps' out').
Qed.

Lemma write_file_fresh ps chunks : map pp_fresh (fst (write_file ps chunks)) = map pp_fresh ps.
Proof.
  unfold write_file. destruct ps as [|p ps]; [reflexivity|].
  unfold write_builtin. rewrite write_rj_linewise. unfold linewise. apply linewise_from_fresh.
Qed.

Section Subset.
  Variable U : universe.
  Variable bases : N -> list N.
  Variable cname : N -> str.
  Variable fuel : nat.
  Variable sites : list site.
  Variable stores : list store.
  Variable rfacts : bool.
  Variable reads : list wread.
  Variable render : ambient -> list (list N) -> N -> option str -> tyobj -> prog.
  Variable cfun : ckey -> str.
  Variable maxsize : option nat.
  Variable resets lel : bool.

  Notation gen_file := (gen_file bases cname fuel sites stores rfacts reads render cfun maxsize resets lel).
  Notation run_types := (run_types U bases cname fuel sites stores rfacts reads render cfun maxsize resets lel).

  Lemma gen_file_fresh cf ts I memo u c ps sc o :
    map pp_fresh (snd (fst (gen_file cf ts I memo u c ps sc o))) = map pp_fresh ps.
  Proof.
    unfold GenState.gen_file. destruct (select bases cname fuel ts memo (obj_cls o)) as [memo1 tmpl].
    match goal with |- context [run_prog ?a ?b ?c ?v ?d ?e ?f ?g] => destruct (run_prog a b c v d e f g) as [[u1 c1] chunks] end.
    pose proof (write_file_fresh (if lel then ps else map pp_fresh ps) chunks) as H.
    destruct (write_file (if lel then ps else map pp_fresh ps) chunks) as [ps1 text]. cbn [fst snd] in *.
    rewrite H. destruct lel; [reflexivity|]. rewrite map_map. apply map_ext. intros p. destruct p as [|[m n]]; reflexivity.
  Qed.

  (* generate_all writes a file for every key of the order whose dependency closure is inside the input set *)
  Lemma run_types_entry cf ts ins k order : forall memo u c ps sc o,
    In k order -> resolve_in U ins k = Some o ->
    exists e, In e (snd (run_types cf ts ins memo u c ps sc order))
              /\ e_key e = k /\ e_cfg e = cf /\ e_tset e = ts /\ e_pps0 e = map pp_fresh ps.
  Proof.
    induction order as [|k0 order IH]; intros memo u c ps sc o Hin Hr; [destruct Hin|].
    cbn [GenState.run_types].
    destruct (resolve_in U ins k0) as [o0|] eqn:E0.
    - pose proof (gen_file_fresh cf ts ins memo u c ps sc o0) as Hf.
      destruct (gen_file cf ts ins memo u c ps sc o0) as [[[[m1 u1] c1] ps1] res]. cbn [fst snd] in Hf.
      destruct Hin as [->|Hin].
      + destruct (run_types cf ts ins m1 u1 c1 ps1 (sc ++ [k]) order) as [[[[[m2 u2] c2] ps2] sc2] es]. cbn [snd].
        eexists. split; [left; reflexivity|]. cbn. repeat split; reflexivity.
      + destruct (IH m1 u1 c1 ps1 (sc ++ [k0]) o Hin Hr) as (e & He & A & B & C & D).
        destruct (run_types cf ts ins m1 u1 c1 ps1 (sc ++ [k0]) order) as [[[[[m2 u2] c2] ps2] sc2] es]. cbn [snd] in *.
        exists e. split; [right; exact He|]. repeat split; try assumption. rewrite D. exact Hf.
    - destruct Hin as [->|Hin]; [congruence|]. exact (IH memo u c ps sc o Hin Hr).
  Qed.

  (* one interpreter, one generator over the input set ins, one generate_all in the order ord *)
  Definition single_run (cf : N) (ts : list (str * str)) (pps : list pp) (ins ord : list (list N)) (args : N) : list op :=
    [ONew cf ts pps ins; ORun 0 args false ord].

  Lemma single_run_entry cf ts pps ins ord args k o :
    In k ord -> resolve_in U ins k = Some o ->
    exists e, In e (log U bases cname fuel sites stores rfacts reads render cfun maxsize resets lel (single_run cf ts pps ins ord args))
              /\ e_key e = k /\ e_cfg e = ecfg cf args /\ e_tset e = ts /\ e_pps0 e = map pp_fresh pps.
  Proof.
    intros Hin Hr. unfold log, single_run, p_init. cbn [exec op_step p_gens app nth_error go_cfg go_tset go_inputs go_memo go_pps
                                                       p_uniq p_cache p_scratch].
    destruct (run_types_entry (ecfg cf args) ts ins k ord [] UniqueNameGenerator_init [] pps [] o Hin Hr) as (e & He & A).
    destruct (run_types (ecfg cf args) ts ins [] UniqueNameGenerator_init [] pps [] ord) as [[[[[m1 u1] c1] ps1] sc1] es].
    cbn [snd fst] in *. exists e. split; [|exact A]. rewrite app_nil_r. exact He.
  Qed.
End Subset.

(* THE SUBSET STATEMENT.  S ⊆ W (input sets), k is generated in both runs, the dependency closure of k lies inside S.  Then the
   file for k EXISTS in the run over S and in the run over W -- whatever the two processing orders -- and the two files come
   from the same template and are byte-identical. *)
Theorem subset_lemma
  (U : universe) (bases : N -> list N) (cname : N -> str) (fuel : nat) (rank : N -> nat)
  (Hsingle : forall c, (length (bases c) <= 1)%nat) (Hrank : forall c p, In p (bases c) -> (rank p < rank c)%nat)
  (Hfuel : forall c, (rank c < fuel)%nat)
  (sites : list site) (stores : list store) (rfacts : bool)
  (Hsites : forallb site_ok sites = true) (Hstores : forallb (store_ok rfacts) stores = true)
  (reads : list wread) (Hreads : forallb read_ok reads = true)
  (render : ambient -> list (list N) -> N -> option str -> tyobj -> prog)
  (render_pure : forall (a1 a2 : ambient) I cf tmpl o, render a1 I cf tmpl o = render a2 I cf tmpl o)
  (cfun : ckey -> str) (m1 m2 : option nat)
  (cf : N) (ts : list (str * str)) (pps : list pp) (args : N) (S W ordS ordW : list (list N)) (k : list N) (o : tyobj) :
  incl S W -> In k ordS -> In k ordW -> resolve_in U S k = Some o ->
  exists eS eW,
    In eS (log U bases cname fuel sites stores rfacts reads render cfun m1 true false (single_run cf ts pps S ordS args)) /\
    In eW (log U bases cname fuel sites stores rfacts reads render cfun m2 true false (single_run cf ts pps W ordW args)) /\
    e_key eS = k /\ e_key eW = k /\ e_tmpl eS = e_tmpl eW /\ e_text eS = e_text eW.
Proof.
  intros Hincl HinS HinW Hr.
  pose proof (resolve_mono U S W Hincl _ _ _ Hr) as HrW. fold (resolve_in U W k) in HrW.
  destruct (single_run_entry U bases cname fuel sites stores rfacts reads render cfun m1 true false cf ts pps S ordS args k o HinS Hr)
    as (eS & HeS & A1 & B1 & C1 & D1).
  destruct (single_run_entry U bases cname fuel sites stores rfacts reads render cfun m2 true false cf ts pps W ordW args k o HinW HrW)
    as (eW & HeW & A2 & B2 & C2 & D2).
  exists eS, eW. split; [exact HeS|]. split; [exact HeW|]. split; [exact A1|]. split; [exact A2|].
  apply (file_indep_lemma U bases cname fuel rank Hsingle Hrank Hfuel sites stores rfacts Hsites Hstores reads Hreads render render_pure cfun
           false m1 m2 _ _ eS eW HeS HeW); try congruence. left. reflexivity.
Qed.
