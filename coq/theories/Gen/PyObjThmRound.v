(* C18: NumPy's conversion of a double to float16/float32 (f_round of PyObj.v, the result again as a double) is idempotent:
   a value an array of such a dtype stores is a fixed point of the conversion.  Bit level: a rounded value is +-0, +-inf, the input
   itself, or f_encode of a short mantissa; decoding that double gives the mantissa back with trailing zeros, which the second
   rounding shifts out exactly. *)
From Coq Require Import List NArith ZArith Bool Arith Lia ZifyBool.
From Verif Require Import PyObj.
Open Scope N_scope.

Lemma P52 : 2 ^ 52 = 4503599627370496. Proof. reflexivity. Qed.
Lemma P63 : 2 ^ 63 = 9223372036854775808. Proof. reflexivity. Qed.

(* ---- decoding a normal double given by its fields *)
Lemma decode_fields : forall (s : bool) A B, 1 <= A <= 2046 -> B < 2 ^ 52 ->
  let x := f_signbit s + A * 2 ^ 52 + B in
  f_exp x = A /\ f_man x = B /\ f_neg x = s.
Proof.
  intros s A B HA HB x.
  assert (Hx : x = ((if s then 2048 else 0) + A) * 2 ^ 52 + B).
  { subst x. unfold f_signbit. destruct s; rewrite ?P63, ?P52; lia. }
  assert (Hd : x / 2 ^ 52 = (if s then 2048 else 0) + A).
  { symmetry. apply N.div_unique with B; [exact HB|]. rewrite Hx. lia. }
  assert (Hm : x mod 2 ^ 52 = B).
  { symmetry. apply N.mod_unique with ((if s then 2048 else 0) + A); [exact HB|]. rewrite Hx. lia. }
  split; [|split].
  - unfold f_exp. rewrite N.shiftr_div_pow2, Hd. change 2047 with (N.ones 11). rewrite N.land_ones.
    change (2 ^ 11) with 2048. destruct s.
    + symmetry. apply N.mod_unique with 1; lia.
    + apply N.mod_small. lia.
  - unfold f_man. change (2 ^ 52 - 1) with (N.ones 52). rewrite N.land_ones. exact Hm.
  - unfold f_neg. rewrite N.testbit_eqb.
    assert (x / 2 ^ 63 = if s then 1 else 0) as ->.
    { symmetry. apply N.div_unique with (A * 2 ^ 52 + B).
      - rewrite P63, P52 in *. lia.
      - subst x. unfold f_signbit. destruct s; rewrite ?P63, ?P52 in *; lia. }
    destruct s; reflexivity.
Qed.

(* ---- f_encode in the normal range *)
Lemma enc_normal : forall s M (E : Z), M <> 0 -> N.log2 M <= 52 ->
  (-1022 <= E + Z.of_N (N.log2 M) < 1024)%Z ->
  f_encode s M E = f_signbit s + Z.to_N (E + Z.of_N (N.log2 M) + 1023) * 2 ^ 52 + (M * 2 ^ (52 - N.log2 M) - 2 ^ 52).
Proof.
  intros s M E HM Hp He. unfold f_encode.
  destruct (M =? 0) eqn:E0; [apply N.eqb_eq in E0; contradiction|].
  destruct (1024 <=? E + Z.of_N (N.log2 M))%Z eqn:E1; [lia|].
  destruct (-1022 <=? E + Z.of_N (N.log2 M))%Z eqn:E2; [|lia].
  destruct (N.log2 M <=? 52) eqn:E3; [|lia]. rewrite N.shiftl_mul_pow2. reflexivity.
Qed.

Lemma log2_mul_pow2' : forall M k, M <> 0 -> N.log2 (M * 2 ^ k) = N.log2 M + k.
Proof. intros M k HM. rewrite N.add_comm. apply N.log2_mul_pow2; lia. Qed.

Lemma enc_shift : forall s M k (E : Z), M <> 0 -> N.log2 M + k <= 52 ->
  (-1022 <= E + Z.of_N (N.log2 M) < 1024)%Z ->
  f_encode s (M * 2 ^ k) (E - Z.of_N k) = f_encode s M E.
Proof.
  intros s M k E HM Hp He.
  assert (HM' : M * 2 ^ k <> 0) by (apply N.neq_mul_0; split; [exact HM|apply N.pow_nonzero; discriminate]).
  assert (HL : N.log2 (M * 2 ^ k) = N.log2 M + k) by (apply log2_mul_pow2'; exact HM).
  rewrite (enc_normal s (M * 2 ^ k)); [|exact HM'|rewrite HL; exact Hp|rewrite HL; lia].
  rewrite (enc_normal s M E HM); [|lia|exact He]. rewrite HL.
  replace (E - Z.of_N k + Z.of_N (N.log2 M + k) + 1023)%Z with (E + Z.of_N (N.log2 M) + 1023)%Z by lia.
  replace (M * 2 ^ k * 2 ^ (52 - (N.log2 M + k))) with (M * 2 ^ (52 - N.log2 M)); [reflexivity|].
  rewrite <- N.mul_assoc, <- N.pow_add_r. f_equal. f_equal. lia.
Qed.

(* ---- rounding shift *)
Lemma rne_exact : forall a sh, sh <> 0 -> rne_shift (a * 2 ^ sh) sh = a.
Proof.
  intros a sh Hs. unfold rne_shift. destruct (sh =? 0) eqn:E0; [apply N.eqb_eq in E0; contradiction|].
  assert (H2 : 2 ^ sh <> 0) by (apply N.pow_nonzero; discriminate).
  rewrite N.shiftr_div_pow2, N.div_mul by exact H2.
  replace (2 ^ sh - 1) with (N.ones sh) by (rewrite N.ones_equiv, N.sub_1_r; reflexivity).
  rewrite N.land_ones, N.mod_mul by exact H2.
  assert (0 < 2 ^ (sh - 1)) by (apply N.neq_0_lt_0; apply N.pow_nonzero; discriminate).
  destruct (0 <? 2 ^ (sh - 1)) eqn:E1; [reflexivity|lia].
Qed.

Lemma rne_bound : forall M sh, rne_shift M sh <= M / 2 ^ sh + 1.
Proof.
  intros M sh. unfold rne_shift. destruct (sh =? 0) eqn:E0.
  - apply N.eqb_eq in E0. subst sh. rewrite N.pow_0_r, N.div_1_r. lia.
  - rewrite N.shiftr_div_pow2.
    destruct (N.land M (2 ^ sh - 1) <? 2 ^ (sh - 1)); [lia|].
    destruct (2 ^ (sh - 1) <? N.land M (2 ^ sh - 1)); [lia|].
    destruct (N.even (M / 2 ^ sh)); lia.
Qed.

Lemma log2_bounds : forall M, M <> 0 -> 2 ^ 52 <= M * 2 ^ (52 - N.log2 M) /\ (N.log2 M <= 52 -> M * 2 ^ (52 - N.log2 M) < 2 ^ 53).
Proof.
  intros M HM. assert (H0 : 0 < M) by lia. destruct (N.log2_spec M H0) as [Hl Hu].
  destruct (N.le_gt_cases (N.log2 M) 52) as [Hp|Hp].
  - assert (E : 2 ^ 52 = 2 ^ N.log2 M * 2 ^ (52 - N.log2 M)) by (rewrite <- N.pow_add_r; f_equal; lia).
    assert (E' : 2 ^ 53 = 2 ^ N.succ (N.log2 M) * 2 ^ (52 - N.log2 M)) by (rewrite <- N.pow_add_r; f_equal; lia).
    assert (Hpos : 0 < 2 ^ (52 - N.log2 M)) by (apply N.neq_0_lt_0; apply N.pow_nonzero; discriminate).
    split.
    + rewrite E. apply N.mul_le_mono_r. exact Hl.
    + intros _. rewrite E'. apply N.mul_lt_mono_pos_r; assumption.
  - split; [|lia]. replace (52 - N.log2 M) with 0 by lia. rewrite N.pow_0_r, N.mul_1_r.
    eapply N.le_trans; [|exact Hl]. apply N.pow_le_mono_r; lia.
Qed.

Lemma decode_enc : forall s Mr (qe : Z), Mr <> 0 -> N.log2 Mr <= 52 ->
  (-1022 <= qe + Z.of_N (N.log2 Mr) <= 1023)%Z ->
  let y := f_encode s Mr qe in
  f_isfinite y = true /\ f_M y = Mr * 2 ^ (52 - N.log2 Mr) /\ f_E y = (qe + Z.of_N (N.log2 Mr) - 52)%Z /\ f_neg y = s.
Proof.
  intros s Mr qe HM Hp He y. subst y. rewrite enc_normal by (auto; lia).
  destruct (log2_bounds Mr HM) as [Hl Hu]. specialize (Hu Hp).
  set (A := Z.to_N (qe + Z.of_N (N.log2 Mr) + 1023)). set (m := Mr * 2 ^ (52 - N.log2 Mr)) in *.
  assert (HA : 1 <= A <= 2046) by (subst A; lia).
  assert (HB : m - 2 ^ 52 < 2 ^ 52) by (rewrite P52 in *; change (2 ^ 53) with 9007199254740992 in Hu; lia).
  destruct (decode_fields s A (m - 2 ^ 52) HA HB) as (Hexp & Hman & Hneg).
  unfold f_isfinite, f_M, f_E. rewrite Hexp, Hman.
  assert (A =? 2047 = false) as -> by lia. assert (A =? 0 = false) as -> by lia.
  split; [reflexivity|]. split; [rewrite P52 in *; lia|]. split; [subst A; lia|exact Hneg].
Qed.

Section RoundTo.
  Variables ebits mbits : Z.
  Let emax := (2 ^ (ebits - 1) - 1)%Z.
  Let qmin := (1 - emax - mbits)%Z.
  Hypothesis Hmb : (1 <= mbits <= 51)%Z.
  Hypothesis Hemax : (0 <= emax /\ emax + mbits <= 1000)%Z.

  Lemma round_enc_fix : forall s Mr (qe : Z), Mr <> 0 -> (Z.of_N (N.log2 Mr) <= mbits)%Z -> (qmin <= qe)%Z ->
    (qe + Z.of_N (N.log2 Mr) <= emax)%Z ->
    f_round_to ebits mbits (f_encode s Mr qe) = f_encode s Mr qe.
  Proof.
    intros s Mr qe HM Hp Hq He. set (p := N.log2 Mr) in *.
    assert (Hp52 : p <= 52) by lia.
    assert (Hrange : (-1022 <= qe + Z.of_N p <= 1023)%Z) by (subst qmin; lia).
    destruct (decode_enc s Mr qe HM Hp52 Hrange) as (Hfin & HMy & HEy & Hneg). fold p in HMy, HEy.
    set (y := f_encode s Mr qe) in *.
    unfold f_round_to. cbv zeta. rewrite Hfin. cbn [negb]. rewrite HMy, HEy, Hneg. fold emax. fold qmin.
    set (m := Mr * 2 ^ (52 - p)).
    assert (Hm0 : m <> 0) by (subst m; apply N.neq_mul_0; split; [exact HM|apply N.pow_nonzero; discriminate]).
    assert (Hlm : N.log2 m = 52) by (subst m; rewrite log2_mul_pow2' by exact HM; fold p; lia).
    assert (m =? 0 = false) as -> by lia. rewrite Hlm.
    set (qe' := Z.max (qe + Z.of_N p - 52 + Z.of_N 52 - mbits) qmin).
    destruct (qe' <=? qe + Z.of_N p - 52)%Z eqn:Ex; [reflexivity|].
    set (sh := Z.to_N (qe' - (qe + Z.of_N p - 52))).
    assert (Hsh : sh <> 0 /\ sh + p <= 52) by (subst sh qe' qmin; lia).
    set (k := 52 - p - sh).
    assert (Em : m = (Mr * 2 ^ k) * 2 ^ sh).
    { subst m. rewrite <- N.mul_assoc, <- N.pow_add_r. f_equal. f_equal. subst k. lia. }
    rewrite Em, rne_exact by tauto.
    assert (Hk0 : Mr * 2 ^ k <> 0) by (apply N.neq_mul_0; split; [exact HM|apply N.pow_nonzero; discriminate]).
    assert (Mr * 2 ^ k =? 0 = false) as -> by lia.
    rewrite log2_mul_pow2' by exact HM. fold p.
    assert ((emax <? qe' + Z.of_N (p + k))%Z = false) as -> by (subst qe' k sh qmin; lia).
    replace qe' with (qe - Z.of_N k)%Z by (subst qe' k sh qmin; lia).
    apply enc_shift; [exact HM | fold p; subst k; lia | fold p; lia].
  Qed.

  Lemma signbit_facts : forall s, f_isfinite (f_signbit s) = true /\ f_M (f_signbit s) = 0.
  Proof. intros s; destruct s; split; vm_compute; reflexivity. Qed.
  Lemma inf_facts : forall s, f_isfinite (f_inf s) = false.
  Proof. intros s; destruct s; vm_compute; reflexivity. Qed.

  Lemma round_cases : forall x,
    f_round_to ebits mbits x = x \/ (exists s, f_round_to ebits mbits x = f_signbit s) \/
    (exists s, f_round_to ebits mbits x = f_inf s) \/
    (exists s Mr qe, f_round_to ebits mbits x = f_encode s Mr qe /\ Mr <> 0 /\ Mr <= 2 ^ (Z.to_N mbits + 1) /\
                     (qmin <= qe)%Z /\ (qe + Z.of_N (N.log2 Mr) <= emax)%Z).
  Proof.
    intros x. unfold f_round_to. cbv zeta. fold emax. fold qmin.
    destruct (negb (f_isfinite x)); [left; reflexivity|].
    destruct (f_M x =? 0) eqn:EM; [left; reflexivity|].
    set (M := f_M x) in *. set (E := f_E x). set (L := N.log2 M).
    set (qe := Z.max (E + Z.of_N L - mbits) qmin).
    destruct (qe <=? E)%Z eqn:Ex; [left; reflexivity|].
    set (sh := Z.to_N (qe - E)). set (Mr := rne_shift M sh).
    destruct (Mr =? 0) eqn:E0; [right; left; eexists; reflexivity|].
    destruct (emax <? qe + Z.of_N (N.log2 Mr))%Z eqn:Eo; [right; right; left; eexists; reflexivity|].
    right; right; right. exists (f_neg x), Mr, qe. split; [reflexivity|]. split; [lia|]. split; [|subst qe; lia].
    assert (HM : 0 < M) by lia. destruct (N.log2_spec M HM) as [_ Hu]. fold L in Hu.
    assert (H2 : 2 ^ sh <> 0) by (apply N.pow_nonzero; discriminate).
    assert (Hd : M / 2 ^ sh < 2 ^ (Z.to_N mbits + 1)).
    { apply N.div_lt_upper_bound; [exact H2|]. rewrite <- N.pow_add_r. eapply N.lt_le_trans; [exact Hu|].
      apply N.pow_le_mono_r; [discriminate|]. subst sh qe. lia. }
    pose proof (rne_bound M sh) as Hb. fold Mr in Hb. lia.
  Qed.

  Theorem f_round_to_idem : forall x, f_round_to ebits mbits (f_round_to ebits mbits x) = f_round_to ebits mbits x.
  Proof.
    intros x. destruct (round_cases x) as [H|[[s H]|[[s H]|(s & Mr & qe & H & HM & Hb & Hq & He)]]]; rewrite H.
    - exact H.
    - destruct (signbit_facts s) as [Hf Hm]. unfold f_round_to. cbv zeta. rewrite Hf, Hm. reflexivity.
    - unfold f_round_to. cbv zeta. rewrite inf_facts. reflexivity.
    - assert (Hl : N.log2 Mr <= Z.to_N mbits + 1).
      { rewrite <- (N.log2_pow2 (Z.to_N mbits + 1)) by lia. apply N.log2_le_mono. exact Hb. }
      destruct (N.le_gt_cases (N.log2 Mr) (Z.to_N mbits)) as [Hs|Hs].
      + apply round_enc_fix; auto. lia.
      + assert (El : N.log2 Mr = Z.to_N mbits + 1) by lia.
        assert (EM : Mr = 2 ^ (Z.to_N mbits + 1)).
        { apply N.le_antisymm; [exact Hb|]. rewrite <- El. apply N.log2_spec. lia. }
        assert (Hpow : 2 ^ Z.to_N mbits <> 0) by (apply N.pow_nonzero; discriminate).
        assert (Hlp : N.log2 (2 ^ Z.to_N mbits) = Z.to_N mbits) by (apply N.log2_pow2; lia).
        assert (Ee : f_encode s Mr qe = f_encode s (2 ^ Z.to_N mbits) (qe + 1)).
        { rewrite EM, N.pow_add_r. replace qe with ((qe + 1) - Z.of_N 1)%Z at 1 by lia.
          apply enc_shift; [exact Hpow | rewrite Hlp; lia | rewrite Hlp; subst qmin; lia]. }
        rewrite Ee. apply round_enc_fix; [exact Hpow | rewrite Hlp; lia | lia | rewrite Hlp; lia].
  Qed.
End RoundTo.

Theorem f_round_idem : forall w x, f_round w (f_round w x) = f_round w x.
Proof.
  intros w x. unfold f_round. destruct (w =? 16)%Z.
  - apply f_round_to_idem; simpl; lia.
  - destruct (w =? 32)%Z; [|reflexivity]. apply f_round_to_idem; simpl; lia.
Qed.
