(* Proofs about the rejoin stage (_rejoin_split_crlf) of _generate_with_line_buffer: its output has the same
   concatenation as its input and never separates a CR from the LF that follows it; hence writing through the line
   buffer is chunking-independent for EVERY chunking. *)
From Verif Require Import LinePP LinePPThm.
From Coq Require Import Lia.
Open Scope N_scope.

Lemma removelast_app_last (l : str) : l <> [] -> removelast l ++ [last l 0] = l.
Proof. intro H. symmetry. apply app_removelast_last. exact H. Qed.

Lemma ends_cr_split (p : str) : ends_cr p = true -> p = removelast p ++ [CR].
Proof.
  destruct p as [|c p']; cbn [ends_cr]; [discriminate|].
  intro H. apply N.eqb_eq in H.
  rewrite <- H. symmetry. apply removelast_app_last. discriminate.
Qed.

(* (a) rejoin preserves the text *)
Lemma concat_rejoin chunks : forall carry,
    concat (rejoin carry chunks) = (if carry then [CR] else []) ++ concat chunks.
Proof.
  induction chunks as [|p ps IH]; intro carry.
  - cbn [rejoin concat]. destruct carry; reflexivity.
  - cbn [rejoin]. set (part := (if carry then [CR] else []) ++ p).
    destruct (ends_cr part) eqn:E.
    + cbn [concat]. rewrite IH. cbn [app].
      change (removelast part ++ CR :: concat ps) with (removelast part ++ [CR] ++ concat ps).
      rewrite app_assoc. rewrite <- (ends_cr_split part E).
      unfold part. rewrite <- app_assoc. reflexivity.
    + cbn [concat]. rewrite IH. cbn [app]. unfold part. rewrite <- app_assoc. reflexivity.
Qed.

Lemma last_not_cr_when_not_ends (p : str) : p <> [] -> ends_cr p = false -> (last p 0 =? CR) = false.
Proof. destruct p; [congruence|]. cbn [ends_cr]. auto. Qed.

(* (b) the rejoined chunk list never has a CR | LF seam *)
Lemma no_split_rejoin chunks :
  (forall pc, no_split_crlf pc (rejoin true chunks) = true) /\ no_split_crlf false (rejoin false chunks) = true.
Proof.
  induction chunks as [|p ps [IHt IHf]].
  - split; [intro pc|]; cbn [rejoin no_split_crlf]; [|reflexivity].
    cbn. rewrite Bool.andb_false_r. reflexivity.
  - split.
    + intro pc. cbn [rejoin]. cbn [app].
      destruct (ends_cr (CR :: p)) eqn:E.
      * destruct p as [|c p'].
        -- cbn [removelast no_split_crlf]. apply IHt.
        -- cbn [removelast]. cbn [no_split_crlf].
           replace (CR =? LF) with false by reflexivity. rewrite Bool.andb_false_r. cbn [negb andb].
           apply IHt.
      * cbn [no_split_crlf].
        replace (CR =? LF) with false by reflexivity. rewrite Bool.andb_false_r. cbn [negb andb].
        rewrite (last_not_cr_when_not_ends (CR :: p)); [apply IHf | discriminate | exact E].
    + cbn [rejoin]. cbn [app].
      destruct (ends_cr p) eqn:E.
      * destruct (removelast p) as [|c r] eqn:R.
        -- cbn [no_split_crlf]. apply IHt.
        -- cbn [no_split_crlf andb negb]. apply IHt.
      * destruct p as [|c p'].
        -- cbn [no_split_crlf]. exact IHf.
        -- cbn [no_split_crlf andb negb].
           rewrite (last_not_cr_when_not_ends (c :: p')); [exact IHf | discriminate | exact E].
Qed.

Section Main.
  Variable S : Type.
  Variable step : S -> line -> S * line.

  (* chunking independence of the function as it is now, for EVERY chunking *)
  Theorem write_rj_linewise chunks st :
    write_rj step chunks st = linewise step st (concat chunks).
  Proof.
    unfold write_rj.
    rewrite (write_chunks_partial S step (rejoin false chunks) st (proj2 (no_split_rejoin chunks))).
    rewrite (write_single_linewise S step).
    rewrite concat_rejoin. reflexivity.
  Qed.

  Corollary write_rj_chunk_indep chunks1 chunks2 st :
    concat chunks1 = concat chunks2 -> write_rj step chunks1 st = write_rj step chunks2 st.
  Proof. intro H. rewrite !write_rj_linewise, H. reflexivity. Qed.
End Main.

(* ---- identity pipelines through the repaired function ------------------------------------------ *)
Section IdentityRj.
  Variable S : Type.
  Variable step : S -> line -> S * line.
  Hypothesis step_id : forall st l, step st l = (st, l).

  Theorem identity_pipeline_rj chunks st : snd (write_rj step chunks st) = concat chunks.
  Proof.
    unfold write_rj. rewrite (identity_pipeline S step step_id). rewrite concat_rejoin. reflexivity.
  Qed.
End IdentityRj.

(* ---- _copy_header_using_line_pps: iterating a text file line by line (Python text mode: each yielded line ends
        with LF except possibly the last) and building (content, terminator) tuples equals split_lines of the text ---- *)
Fixpoint py_lines_aux (s cur : str) {struct s} : list str :=
  match s with
  | [] => match cur with [] => [] | _ => [cur] end
  | c :: s' => if c =? LF then (cur ++ [LF]) :: py_lines_aux s' [] else py_lines_aux s' (cur ++ [c])
  end.
Definition py_lines (s : str) : list str := py_lines_aux s [].

Definition no_lf (s : str) : bool := forallb (fun c => negb (c =? LF)) s.
Definition starts_lf (s : str) : bool := match s with c :: _ => c =? LF | [] => false end.

Lemma ends_cr_app_last (cur : str) (c : chr) : ends_cr (cur ++ [c]) = (c =? CR).
Proof.
  unfold ends_cr. destruct (cur ++ [c]) eqn:E; [destruct cur; discriminate|].
  rewrite <- E. rewrite last_last. reflexivity.
Qed.

Lemma ends_cr_rev (cur : str) : ends_cr cur = match rev cur with c :: _ => c =? CR | [] => false end.
Proof.
  destruct cur as [|a cur'] using rev_ind; [reflexivity|].
  rewrite ends_cr_app_last, rev_unit. reflexivity.
Qed.

Lemma copy_tuple_lf (cur : str) : ends_cr cur = false -> copy_line_tuple (cur ++ [LF]) = (cur, [LF]).
Proof.
  intro H. unfold copy_line_tuple. rewrite rev_unit.
  rewrite ends_cr_rev in H. destruct (rev cur) as [|c r] eqn:R.
  - apply (f_equal (@rev chr)) in R. rewrite rev_involutive in R. subst cur. reflexivity.
  - replace (LF =? LF) with true by reflexivity. rewrite H. cbn [andb].
    rewrite removelast_last. reflexivity.
Qed.

Lemma copy_tuple_crlf (cur : str) : copy_line_tuple (cur ++ [CR; LF]) = (cur, [CR; LF]).
Proof.
  unfold copy_line_tuple.
  replace (cur ++ [CR; LF]) with ((cur ++ [CR]) ++ [LF]) by (rewrite <- app_assoc; reflexivity).
  rewrite rev_unit, rev_unit.
  replace (LF =? LF) with true by reflexivity. replace (CR =? CR) with true by reflexivity. cbn [andb].
  unfold removelast2. rewrite removelast_last, removelast_last. reflexivity.
Qed.

Lemma copy_tuple_unterminated (cur : str) : no_lf cur = true -> copy_line_tuple cur = (cur, []).
Proof.
  intro H. unfold copy_line_tuple.
  destruct (rev cur) as [|l r] eqn:R.
  - apply (f_equal (@rev chr)) in R. rewrite rev_involutive in R. subst cur. reflexivity.
  - assert (Hl : (l =? LF) = false).
    { apply (f_equal (@rev chr)) in R. rewrite rev_involutive in R. subst cur. cbn [rev] in H.
      unfold no_lf in H. rewrite forallb_app in H. apply Bool.andb_true_iff in H. destruct H as [_ H].
      cbn in H. rewrite Bool.andb_true_r in H. apply Bool.negb_true_iff in H. exact H. }
    destruct r; rewrite Hl; reflexivity.
Qed.

Lemma no_lf_snoc (cur : str) (c : chr) : no_lf cur = true -> (c =? LF) = false -> no_lf (cur ++ [c]) = true.
Proof.
  intros H Hc. unfold no_lf in *. rewrite forallb_app, H. cbn. rewrite Hc. reflexivity.
Qed.

Lemma copy_lines_split text : forall cur,
    no_lf cur = true -> (ends_cr cur = true -> starts_lf text = false) ->
    map copy_line_tuple (py_lines_aux text cur) = split_lines_aux text cur.
Proof.
  remember (length text) as n eqn:Hn. revert text Hn.
  induction n as [n IH] using lt_wf_ind. intros text Hn cur Hnl Hcr.
  destruct text as [|c rest].
  - cbn [py_lines_aux split_lines_aux]. destruct cur as [|a cur']; [reflexivity|].
    cbn [map]. rewrite copy_tuple_unterminated by exact Hnl. reflexivity.
  - cbn [py_lines_aux split_lines_aux].
    destruct (c =? LF) eqn:Ec.
    + cbn [map]. rewrite copy_tuple_lf.
      * f_equal. apply (IH (length rest)); [subst n; cbn; lia | reflexivity | reflexivity | discriminate].
      * destruct (ends_cr cur) eqn:E; [|reflexivity]. specialize (Hcr eq_refl). cbn [starts_lf] in Hcr. congruence.
    + destruct rest as [|d rest'].
      * apply (IH 0%nat); [subst n; cbn; lia | reflexivity | apply no_lf_snoc; assumption | reflexivity].
      * destruct ((c =? CR) && (d =? LF)) eqn:E2.
        -- apply Bool.andb_true_iff in E2. destruct E2 as [E2c E2d].
           cbn [py_lines_aux]. rewrite E2d. cbn [map].
           apply N.eqb_eq in E2c. subst c.
           rewrite <- app_assoc. cbn [app]. rewrite copy_tuple_crlf. f_equal.
           apply (IH (length rest')); [subst n; cbn; lia | reflexivity | reflexivity | discriminate].
        -- apply (IH (length (d :: rest'))); [subst n; cbn; lia | reflexivity | apply no_lf_snoc; assumption |].
           intro Hend. rewrite ends_cr_app_last in Hend. rewrite Hend in E2. cbn [andb starts_lf] in *. exact E2.
Qed.

Section CopyHeaderThm.
  Variable S : Type.
  Variable step : S -> line -> S * line.

  (* copying a support file through the line post-processors = applying them line by line to its whole text *)
  Theorem copy_header_linewise text st :
    copy_header step (py_lines text) st = linewise step st text.
  Proof.
    unfold copy_header, linewise, split_lines, py_lines.
    rewrite copy_lines_split; [reflexivity | reflexivity | discriminate].
  Qed.
End CopyHeaderThm.

(* the last line of a file without final newline keeps its last character (repaired finding F-COPY-LASTCHAR) *)
Example copy_header_unterminated_last_line :
  map copy_line_tuple (py_lines [97; 10; 98; 99]) = [([97], [LF]); ([98; 99], [])].
Proof. vm_compute. reflexivity. Qed.
