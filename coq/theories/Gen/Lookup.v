(* Gen/Lookup.v -- executable model (no proofs) of nunavut's template resolution for C16:
     src/nunavut/jinja/loaders.py   DSDLTemplateLoader.__init__ / get_source / type_to_template /
                                    _type_to_template_internal (BFS over __bases__, memo shared by both walks)
     src/nunavut/jinja/__init__.py  filter_type_to_template, _create_instance_tests_for_type / _create_all_dsdl_tests
   Classes are numbers (ids of the regenerated table Generated/Gen_Lookup.v), template paths are strings.
   The memo `_type_to_template_lookup_cache` is ONE dict keyed by (walk, class) (since fix 1341207), walk = "fs" | "package".
   Quirk switches document what the code did before the fixes (not used for the live theorems):
     q_shared   : the package walk used the same key space as the file-system walk (memo keyed by class only)
     q_dt_only  : `_field_is_instance` looked ONLY at `.data_type` when the value is a pydsdl.Attribute *)
From Verif Require Import Str.
Import ListNotations.
Open Scope N_scope.

Notation cls := N (only parsing).
Notation path := (list N) (only parsing).

(* ---- strings ------------------------------------------------------------------------------- *)
Definition drop_last (k : nat) (s : str) : str := firstn (length s - k) s.                 (* s[:-k], k > 0 *)
Definition ends_with (s suf : str) : bool :=
  (length suf <=? length s)%nat && str_eqb (skipn (length s - length suf) s) suf.         (* s.endswith(suf) *)
Definition lower_chr (c : chr) : chr := if (65 <=? c) && (c <=? 90) then c + 32 else c.    (* ASCII names only (checked by the translator) *)
Definition lower (s : str) : str := map lower_chr s.
Fixpoint basename_aux (s acc : str) : str :=
  match s with [] => acc | c :: s' => if c =? 47 then basename_aux s' [] else basename_aux s' (acc ++ [c]) end.
Definition basename (s : str) : str := basename_aux s [].                                  (* pathlib.Path(s).name *)

(* pathlib (3.12) suffix / stem of a file name:  i = name.rfind('.');  0 < i < len(name) - 1 ? name[i:] / name[:i] : '' / name *)
Fixpoint rsplit_dot (s : str) : option (str * str) :=
  match s with
  | [] => None
  | c :: s' => match rsplit_dot s' with
               | Some (a, b) => Some (c :: a, b)
               | None => if c =? 46 then Some ([], c :: s') else None
               end
  end.
Definition dot_ok (a b : str) : bool := negb (match a with [] => true | _ => false end) && (1 <? length b)%nat.
Definition py_suffix (name : str) : str :=
  match rsplit_dot name with Some (a, b) => if dot_ok a b then b else [] | None => [] end.
Definition py_stem (name : str) : str :=
  match rsplit_dot name with Some (a, b) => if dot_ok a b then a else name | None => name end.

(* ---- list_templates() of the bundled loaders: FileSystemLoader returns sorted(set(names of all search paths)), PackageLoader
   sorts its names; Python compares str by code points, lexicographically ------------------------------------------------ *)
Fixpoint str_leb (a b : str) : bool :=
  match a, b with
  | [], _ => true
  | _ :: _, [] => false
  | x :: a', y :: b' => if x <? y then true else if x =? y then str_leb a' b' else false
  end.
Fixpoint insert_sorted (x : str) (l : list str) : list str :=
  match l with [] => [x] | y :: l' => if str_leb x y then x :: l else y :: insert_sorted x l' end.
Definition sort_str (l : list str) : list str := fold_right insert_sorted [] l.
Fixpoint dedup (l : list str) : list str :=
  match l with [] => [] | x :: l' => if str_in x l' then dedup l' else x :: dedup l' end.
Definition list_templates (raw : list path) : list path := sort_str (dedup raw).

(* ---- dict(map(lambda x: (Path(x).stem, Path(x)), listing)): later entries replace earlier ones ---------------- *)
Fixpoint aget {A : Type} (l : list (str * A)) (n : str) : option A :=
  match l with
  | [] => None
  | (k, v) :: l' => match aget l' n with Some x => Some x | None => if str_eqb k n then Some v else None end
  end.
Notation tset := (list (str * path)) (only parsing).       (* listing of one loader: (stem, relative path) *)

Definition memN (x : N) (l : list N) : bool := existsb (N.eqb x) l.

(* ---- the memo: dict keyed by (walk, class); walk false = "fs", true = "package" ---------------------- *)
Definition ckey := (bool * N)%type.
Definition ckey_eqb (a b : ckey) : bool := Bool.eqb (fst a) (fst b) && (snd a =? snd b).
Definition cache := list (ckey * path).
Fixpoint cget (c : cache) (k : ckey) : option path :=
  match c with [] => None | (k', v) :: c' => if ckey_eqb k' k then Some v else cget c' k end.
Definition cset (c : cache) (k : ckey) (v : path) : cache := (k, v) :: c.
Definition W_FS : bool := false.
Definition W_PKG : bool := true.

Inductive policy := FIND_FIRST | FIND_ALL.
Inductive source := SrcFs | SrcPkg.

Section Loader.
  Variable bases : cls -> list cls.          (* __bases__ without `object` *)

  (* for base_type in current.__bases__:
         if base_type != object and base_type not in discovered:
             search_queue.appendleft(base_type); discovered.add(current_search_type)
     The queue is kept with the next element to pop() at the head, so appendleft is a snoc. *)
  Fixpoint push_bases (cur : cls) (bs q disc : list cls) : list cls * list cls :=
    match bs with
    | [] => (q, disc)
    | b :: bs' => if memN b disc then push_bases cur bs' q disc else push_bases cur bs' (q ++ [b]) (cur :: disc)
    end.

  (* _type_to_template_internal; `fuel` bounds the while loop (the class graph is finite and acyclic) *)
  Fixpoint bfs (T : cls -> option path) (w : bool) (fuel : nat) (q disc : list cls) (ch : cache) : cache * option path :=
    match fuel with
    | O => (ch, None)
    | S f =>
      match q with
      | [] => (ch, None)
      | cur :: q' =>
        match cget ch (w, cur) with
        | Some p => (ch, Some p)
        | None =>
          match T cur with
          | Some p => (cset ch (w, cur) p, Some p)
          | None => let '(q2, d2) := push_bases cur (bases cur) q' disc in bfs T w f q2 d2 ch
          end
        end
      end
    end.

  (* type_to_template: the file-system walk (key "fs"), then -- only if it returned None -- the package walk (key "package").
     With q_shared (the code before fix 1341207) the package walk used the key space of the file-system walk. *)
  Definition type_to_template (q_shared : bool) (fs pkg : option (cls -> option path)) (fuel : nat)
             (ch : cache) (c : cls) : cache * option path :=
    let '(ch1, r1) := match fs with Some T => bfs T W_FS fuel [c] [] ch | None => (ch, None) end in
    match r1, pkg with
    | None, Some T => bfs T (if q_shared then W_FS else W_PKG) fuel [c] [] ch1
    | _, _ => (ch1, r1)
    end.

  Fixpoint run_seq (q_shared : bool) (fs pkg : option (cls -> option path)) (fuel : nat) (ch : cache) (cs : list cls)
    : list (option path) :=
    match cs with
    | [] => []
    | c :: cs' => let '(ch', r) := type_to_template q_shared fs pkg fuel ch c in r :: run_seq q_shared fs pkg fuel ch' cs'
    end.

  (* ---- the property's own definition: nearest class of the inheritance chain that has a template --------------- *)
  Fixpoint chain_n (n : nat) (c : cls) : list cls :=
    c :: match n with O => [] | S n' => match bases c with p :: _ => chain_n n' p | [] => [] end end.

  Fixpoint nearest (T : cls -> option path) (l : list cls) : option path :=
    match l with [] => None | c :: l' => match T c with Some p => Some p | None => nearest T l' end end.

  Definition spec_lookup (fs pkg : option (cls -> option path)) (ch : list cls) : option path :=
    match (match fs with Some T => nearest T ch | None => None end) with
    | Some p => Some p
    | None => match pkg with Some T => nearest T ch | None => None end
    end.

  (* the property's other reading: the nearest class of the chain with a template in ANY of the two sets (user wins on a tie) *)
  Fixpoint nearest_any (Tf Tp : cls -> option path) (l : list cls) : option path :=
    match l with
    | [] => None
    | c :: l' => match Tf c with Some p => Some p | None => match Tp c with Some p => Some p | None => nearest_any Tf Tp l' end end
    end.
  (* false iff a built-in template of a nearer class is passed over for a user template of a more general class *)
  Fixpoint shadow_freeb (Tf Tp : cls -> option path) (l : list cls) : bool :=
    match l with
    | [] => true
    | c :: l' => match Tf c, Tp c with
                 | Some _, _ => true
                 | None, Some _ => match nearest Tf l' with None => true | Some _ => false end
                 | None, None => shadow_freeb Tf Tp l'
                 end
    end.

  (* ---- instance tests ------------------------------------------------------------------------------------ *)
  Definition isinst (fuel : nat) (c root : cls) : bool := memN root (chain_n fuel c).
  Record value := { v_cls : cls; v_dt : cls }.       (* class of the object; class of its .data_type (attributes only) *)

  Definition field_is_instance (q_dt_only : bool) (fuel : nat) (attr_cls root : cls) (v : value) : bool :=
    if isinst fuel (v_cls v) attr_cls
    then (if q_dt_only then isinst fuel (v_dt v) root else isinst fuel (v_cls v) root || isinst fuel (v_dt v) root)
    else isinst fuel (v_cls v) root.

  Definition spec_test (fuel : nat) (attr_cls root : cls) (v : value) : bool :=
    isinst fuel (v_cls v) root || (isinst fuel (v_cls v) attr_cls && isinst fuel (v_dt v) root).
End Loader.

(* ---- DSDLTemplateLoader.__init__: which loaders exist ------------------------------------------------------- *)
Definition mk_loaders {A B : Type} (pol : policy) (dirs : option A) (pkg : option B) : option A * option B :=
  (dirs,
   match pkg with
   | Some t => match pol, dirs with FIND_ALL, _ => Some t | FIND_FIRST, None => Some t | FIND_FIRST, Some _ => None end
   | None => None
   end).

(* ---- get_source: FileSystemLoader (search paths in order), then PackageLoader as fallback -------------------------------- *)
Inductive origin := OUserDir (i : nat) | OPkg.
Definition has_file (l : list path) (name : path) : bool := existsb (fun e => str_eqb e name) l.     (* raw listing of one root *)
Fixpoint first_root (rs : list (list path)) (name : path) (i : nat) : option nat :=
  match rs with [] => None | r :: rs' => if has_file r name then Some i else first_root rs' name (S i) end.
Definition pkg_source (pkg : option (list path)) (name : path) : option origin :=
  match pkg with Some p => if has_file p name then Some OPkg else None | None => None end.
Definition get_source (fs : option (list (list path))) (pkg : option (list path)) (name : path) : option origin :=
  match fs with
  | Some rs => match first_root rs name 0 with Some i => Some (OUserDir i) | None => pkg_source pkg name end
  | None => pkg_source pkg name
  end.
(* what the file-system loader enumerates: the names of all search paths together *)
Definition fs_raw (rs : list (list path)) : list path := concat rs.

(* listing of a loader -> the index built by type_to_template:
     filtered = [f for f in listing if Path(f).suffix == TEMPLATE_SUFFIX];  dict(map(lambda x: (Path(x).stem, Path(x)), filtered))
   top_only = true: additionally `"/" not in f` (the fix for F-LOOKUP-SUBDIR-NAME: only templates directly under a templates
   directory are type templates); which of the two the code does is a regenerated fact (g_index_top_level_only) *)
Definition mk_tset (top_only : bool) (suffix : str) (listing : list path) : tset :=
  map (fun p => (py_stem (basename p), p))
      (filter (fun p => str_eqb (py_suffix (basename p)) suffix && (negb top_only || str_eqb (basename p) p)) listing).

(* template mapping of one loader for classes: templates[current_search_type.__name__] *)
Definition tmap (cname : cls -> str) (l : tset) : cls -> option path := fun c => aget l (cname c).

(* ---- _create_all_dsdl_tests: name -> root class, in the visiting order of the code (dict: later wins) ---------- *)
Definition dsdl_tests (cname : cls -> str) (alias : str -> str) (order : list cls) : list (str * N) :=
  flat_map (fun c => [(cname c, c); (alias (lower (cname c)), c)]) order.

Fixpoint nodup_strb (l : list str) : bool :=
  match l with [] => true | x :: l' => negb (str_in x l') && nodup_strb l' end.
Definition disjoint_strb (a b : list str) : bool := forallb (fun x => negb (str_in x b)) a.
