(* C12 -- one generator run as a function on the file system, built from the definitions the translator
   produced from /repo (Generated/Gen_Regen.v): the overwrite gate and SetFileMode are the translated
   functions, the per-file writers are the translated call skeletons run by the interpreter below,
   the phase order is the translated list.  No proofs in this file (it is also what gets extracted). *)
From Coq Require Import NArith List Bool.
From Verif Require Import RegenBase Gen_Regen.
Import ListNotations.
Open Scope N_scope.

Inductive ikind := IType | ISupport (template : bool).
Definition item := (path * ikind)%type.

Section Model.
  (* content id of the text that a run of content class c writes to path p: rendering is a function of the
     configuration and the path (that this is so is C07/C10's business, not C12's) *)
  Variable render : N -> path -> N.

  Definition guard_holds (c : cfg) (g : guard) : bool :=
    match g with
    | GNotDryrun => negb (c_dryrun c)
    | GNoLinePPs => negb (c_linepps c)
    | GHasLinePPs => c_linepps c
    end.

  (* for file_pp in file_pps: path = file_pp(path) *)
  Fixpoint run_filepps (e : env) (s : fs) (p : path) (pps : list filepp) : fs * result :=
    match pps with
    | [] => (s, Ok)
    | PPSetFileMode m :: r =>
        let sr := fst (SetFileMode_call e s m p) in
        let p' := snd (SetFileMode_call e s m p) in
        bind sr (fun s1 => run_filepps e s1 p' r)
    end.

  Definition run_act0 (e : env) (c : cfg) (p : path) (a : act) (s : fs) : fs * result :=
    match a with
    | AHandleOverwrite => handle_overwrite e s p (c_allow c)
    | AMkdirParents => if fs_exists s p || can_create e p then (s, Ok) else (s, Err EAccess)
    | AOpenWrite => fs_write e s p (render (c_class c) p)
    | AShutilCopy => fs_copy e s p (render (c_class c) p) (c_resmode c)
    | AFilePPs => run_filepps e s p (c_filepps c)
    | ACallGenerateCode | ACallCopyLinePPs => (s, Err EModel)
    end.

  Fixpoint run_skel0 (e : env) (c : cfg) (p : path) (k : skel) (s : fs) : fs * result :=
    match k with
    | [] => (s, Ok)
    | (gs, a) :: r =>
        bind (if forallb (guard_holds c) gs then run_act0 e c p a s else (s, Ok)) (run_skel0 e c p r)
    end.

  Definition run_act1 (e : env) (c : cfg) (p : path) (a : act) (s : fs) : fs * result :=
    match a with
    | ACallGenerateCode => run_skel0 e c p generate_code_skel s
    | ACallCopyLinePPs => run_skel0 e c p copy_header_using_line_pps_skel s
    | _ => run_act0 e c p a s
    end.

  Fixpoint run_skel1 (e : env) (c : cfg) (p : path) (k : skel) (s : fs) : fs * result :=
    match k with
    | [] => (s, Ok)
    | (gs, a) :: r =>
        bind (if forallb (guard_holds c) gs then run_act1 e c p a s else (s, Ok)) (run_skel1 e c p r)
    end.

  Definition skel_of_kind (k : ikind) : skel :=
    match k with
    | IType => generate_type_skel             (* DSDLCodeGenerator._generate_type *)
    | ISupport true => generate_header_skel   (* SupportGenerator._generate_header *)
    | ISupport false => copy_header_skel      (* SupportGenerator._copy_header *)
    end.

  Definition write_item (e : env) (c : cfg) (s : fs) (it : item) : fs * result :=
    run_skel1 e c (fst it) (skel_of_kind (snd it)) s.

  (* a for loop whose body may raise: the exception ends the loop (and the run) *)
  Fixpoint run_list {A : Type} (f : fs -> A -> fs * result) (s : fs) (l : list A) : fs * result :=
    match l with
    | [] => (s, Ok)
    | x :: r => bind (f s x) (fun s1 => run_list f s1 r)
    end.

  Definition phase_items (c : cfg) (ph : phase) : list item :=
    match ph with
    | PhSupport => if c_gen_support c then map (fun pb => (fst pb, ISupport (snd pb))) (c_support c) else []
    | PhTypes => if c_gen_types c then map (fun p => (p, IType)) (c_types c) else []
    end.

  Definition run_phase (e : env) (c : cfg) (s : fs) (ph : phase) : fs * result :=
    run_list (write_item e c) s (phase_items c ph).

  (* ArgparseRunner._generate *)
  Definition step (e : env) (s : fs) (c : cfg) : fs * result :=
    run_list (run_phase e c) s cli_generate_phases.

  (* any sequence of runs into the same directory; failed runs leave what they wrote *)
  Definition history (e : env) (s : fs) (h : list cfg) : fs :=
    fold_left (fun s c => fst (step e s c)) h s.

  (* ---- what the property talks about -------------------------------------------------------- *)
  Definition items (c : cfg) : list item := flat_map (phase_items c) cli_generate_phases.
  Definition targets (c : cfg) : list path := map fst (items c).

  Definition obs (o : option fmeta) : option (N * N) :=
    match o with Some f => Some (f_cid f, f_mode f) | None => None end.

  Fixpoint last_mode (pps : list filepp) (d : N) : N :=
    match pps with
    | [] => d
    | PPSetFileMode m :: r => last_mode r (N.land m 4095)
    end.

  (* the file a run of c is supposed to leave at target p: its own text with the requested mode *)
  Definition canonical (e : env) (c : cfg) (p : path) : option (N * N) :=
    Some (render (c_class c) p, last_mode (c_filepps c) (N.ldiff 438 (umask e))).

  (* the configuration the command line builds: SetFileMode(file_mode) is the only (modelled) file post-processor *)
  Definition cli_cfg (c : cfg) : Prop := exists m, c_filepps c = [PPSetFileMode m].
End Model.
