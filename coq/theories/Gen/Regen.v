(* C12 -- one generator run as a function on the output tree, built from the definitions the translator produced from
   /repo (Generated/Gen_Regen.v): the overwrite gate and SetFileMode are the translated functions, the per-file writers are
   the translated call skeletons flattened into action lists and run by the interpreter below, the phase order, the
   support-generation decision and the support-resource selection are the translated ones.  Interrupted runs are prefixes
   of the action lists.  No proofs in this file (it is also what gets extracted). *)
From Coq Require Import NArith List Bool.
From Verif Require Import RegenBase Gen_Regen.
Import ListNotations.
Open Scope N_scope.

Inductive ikind := IType | ISupport (template : bool).
Definition item := (path * ikind)%type.

Section Model.
  (* Content id of the text written to path p.  The text MAY depend on everything: the tree as it is when the file is
     opened (s), the ambient of the run (clock, process state: c_amb), the configuration class, the path.  That it depends
     on (class, path) only is the named premise [render_independent] of the content theorems; it is not C12's to prove:
     C10 (per-type output ignores siblings, order and earlier runs; no output file is read back) and C07 (output does not
     depend on clock, hash seed, process state) own it. *)
  Variable render : fs -> N -> N -> path -> N.

  Definition render_independent : Prop :=
    forall s a s' a' cl p, render s a cl p = render s' a' cl p.

  Definition guard_holds (c : cfg) (g : guard) : bool :=
    match g with
    | GNotDryrun => negb (c_dryrun c)
    | GNoLinePPs => negb (c_linepps c)
    | GHasLinePPs => c_linepps c
    end.

  (* for file_pp in file_pps: path = file_pp(path) *)
  Fixpoint run_filepps (e : env) (s : fs) (p : path) (pps : list filepp) : fs * result :=
    match pps with
    | [] => (s, Ok)
    | PPSetFileMode m :: r =>
        let sr := fst (SetFileMode_call e s m p) in
        let p' := snd (SetFileMode_call e s m p) in
        bind sr (fun s1 => run_filepps e s1 p' r)
    | PPExternal f :: r =>
        let sr := fst (ExternalProgram_call e s f p) in
        let p' := snd (ExternalProgram_call e s f p) in
        bind sr (fun s1 => run_filepps e s1 p' r)
    end.

  Definition no_external (pps : list filepp) : bool :=
    forallb (fun pp => match pp with PPExternal _ => false | _ => true end) pps.

  Definition run_act (e : env) (c : cfg) (p : path) (a : act) (s : fs) : fs * result :=
    match a with
    | AHandleOverwrite => handle_overwrite e s p (c_allow c)
    | AMkdirParents => mkdirs e None (ancestors e p) s
    | AOpenWrite => fs_write e s (resolve e p) (render s (c_amb c) (c_class c) p)          (* open() follows a link *)
    | AShutilCopy => fs_copy e s (resolve e p) (render s (c_amb c) (c_class c) p) (c_resmode c)
    | AFilePPs => run_filepps e s p (c_filepps c)
    | ACallGenerateCode | ACallCopyLinePPs => (s, Err EModel)
    end.

  Fixpoint run_acts (e : env) (c : cfg) (p : path) (l : list act) (s : fs) : fs * result :=
    match l with
    | [] => (s, Ok)
    | a :: r => bind (run_act e c p a s) (run_acts e c p r)
    end.

  (* a skeleton with its guards evaluated and its calls inlined (one level: the callees call nothing) *)
  Definition guarded (c : cfg) (k : skel) : list act :=
    flat_map (fun ga => if forallb (guard_holds c) (fst ga) then [snd ga] else []) k.

  Definition inline (c : cfg) (a : act) : list act :=
    match a with
    | ACallGenerateCode => guarded c generate_code_skel
    | ACallCopyLinePPs => guarded c copy_header_using_line_pps_skel
    | _ => [a]
    end.

  Definition skel_of_kind (k : ikind) : skel :=
    match k with
    | IType => generate_type_skel             (* DSDLCodeGenerator._generate_type *)
    | ISupport true => generate_header_skel   (* SupportGenerator._generate_header *)
    | ISupport false => copy_header_skel      (* SupportGenerator._copy_header *)
    end.

  Definition flat_acts (c : cfg) (k : ikind) : list act := flat_map (inline c) (guarded c (skel_of_kind k)).

  Definition write_item (e : env) (c : cfg) (s : fs) (it : item) : fs * result :=
    run_acts e c (fst it) (flat_acts c (snd it)) s.

  (* a for loop whose body may raise: the exception ends the loop (and the run) *)
  Fixpoint run_list {A : Type} (f : fs -> A -> fs * result) (s : fs) (l : list A) : fs * result :=
    match l with
    | [] => (s, Ok)
    | x :: r => bind (f s x) (fun s1 => run_list f s1 r)
    end.

  Definition phase_items (c : cfg) (ph : phase) : list item :=
    match ph with
    | PhSupport => if should_generate_support (c_gensup c) (c_omit c)
                   then map (fun pb => (fst pb, ISupport (snd pb))) (support_selection (c_omit c) (c_sersup c) (c_typesup c))
                   else []
    | PhTypes => if generates_types (c_gensup c) then map (fun p => (p, IType)) (c_types c) else []
    end.

  Definition run_phase (e : env) (c : cfg) (s : fs) (ph : phase) : fs * result :=
    run_list (write_item e c) s (phase_items c ph).

  (* ArgparseRunner._generate *)
  Definition step (e : env) (s : fs) (c : cfg) : fs * result :=
    run_list (run_phase e c) s cli_generate_phases.

  Definition items (c : cfg) : list item := flat_map (phase_items c) cli_generate_phases.

  (* an interrupted run (SIGKILL, power loss, exception in a template): the first n items were written completely, of the
     next one only the first j actions happened, and if junk = Some g the process died inside the following write, leaving
     the file opened for writing with whatever had been flushed (content id g) *)
  Definition step_crash (e : env) (s : fs) (c : cfg) (n j : nat) (junk : option N) : fs :=
    let x1 := run_list (write_item e c) s (firstn n (items c)) in
    match snd x1, nth_error (items c) n with
    | Ok, Some it =>
        let x2 := run_acts e c (fst it) (firstn j (flat_acts c (snd it))) (fst x1) in
        match snd x2, junk, nth_error (flat_acts c (snd it)) j with
        | Ok, Some g, Some AOpenWrite | Ok, Some g, Some AShutilCopy =>      (* died inside the write that comes next *)
            fst (fs_write e (fst x2) (resolve e (fst it)) g)
        | _, _, _ => fst x2
        end
    | _, _ => fst x1        (* the run had already ended with an exception, or there is no such item *)
    end.

  (* what can happen to the directory: complete runs (successful or failed) and interrupted ones *)
  Inductive event :=
  | Run (c : cfg)
  | Crash (c : cfg) (n j : nat) (junk : option N).

  Definition ev_cfg (ev : event) : cfg := match ev with Run c => c | Crash c _ _ _ => c end.

  Definition apply_event (e : env) (s : fs) (ev : event) : fs :=
    match ev with
    | Run c => fst (step e s c)
    | Crash c n j junk => step_crash e s c n j junk
    end.

  Definition history (e : env) (s : fs) (h : list event) : fs := fold_left (apply_event e) h s.

  (* ---- what the property talks about -------------------------------------------------------- *)
  Definition targets (c : cfg) : list path := map fst (items c).

  (* the only other paths a run can touch: directories above a target (created when missing), and the entry
     <target>/<resource name> when shutil.copy is one of the actions for that target *)
  Definition copies (c : cfg) (k : ikind) : bool :=
    existsb (fun a => match a with AShutilCopy => true | _ => false end) (flat_acts c k).
  Definition copy_targets (c : cfg) : list path :=
    map fst (filter (fun it => copies c (snd it)) (items c)).
  Definition dir_targets (e : env) (c : cfg) : list path := flat_map (ancestors e) (targets c).
  Definition child_targets (e : env) (c : cfg) : list path := map (child e) (copy_targets c).

  Definition obs (o : option fmeta) : option (N * N) :=
    match o with Some f => Some (f_cid f, f_mode f) | None => None end.

  Fixpoint last_mode (pps : list filepp) (d : N) : N :=
    match pps with
    | [] => d
    | PPSetFileMode m :: r => last_mode r (N.land m 4095)
    | PPExternal _ :: r => last_mode r d
    end.

  (* the file a run of c is supposed to leave at target p: its own text with the requested mode *)
  Definition canonical (e : env) (c : cfg) (p : path) : option (N * N) :=
    Some (render empty_fs 0 (c_class c) p, last_mode (c_filepps c) (N.ldiff 438 (umask e))).

  (* trigger of the copy-into-directory behaviour of shutil.copy: a directory sits at a target that is written with shutil.copy *)
  Definition dir_at_copy_target (c : cfg) (s : fs) : bool :=
    existsb (fun p => fs_is_dir s p) (copy_targets c).
End Model.
