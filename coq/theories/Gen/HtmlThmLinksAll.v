(* C20 -- the universal link theorem: every hyperlink of every namespace page, at any depth, resolves. *)
From Verif Require Import HtmlModel HtmlThm HtmlThmTree HtmlThmLinks.
Open Scope N_scope.

Notation hrefs := (vals_of k_href).

(* ---------- hrefs of the building blocks ---------- *)
Lemma hrefs_text s : hrefs [PText s] = [].
Proof. reflexivity. Qed.
Lemma hrefs_toggle b h i t : hrefs (toggle_anchor b h i t) = [h].
Proof. reflexivity. Qed.
Lemma hrefs_doc_docs b d : hrefs (doc_pre b [(k_class, s_docs)] d) = [].
Proof. reflexivity. Qed.
Lemma hrefs_doc_plain b d : hrefs (doc_pre b [] d) = [].
Proof. reflexivity. Qed.
Lemma hrefs_span c t : hrefs (span_cls c t) = [].
Proof. reflexivity. Qed.
Lemma hrefs_disp_type d : hrefs (disp_type d) = [].
Proof. induction d; cbn [disp_type]; rewrite ?vals_of_app, ?IHd; reflexivity. Qed.
Lemma hrefs_disp_inst di : hrefs (disp_inst di) = [].
Proof. destruct di; cbn [disp_inst]; rewrite ?vals_of_app, ?hrefs_disp_type; reflexivity. Qed.
Lemma hrefs_tx_markup b ps : hrefs ps = [] -> hrefs (tx_markup b ps) = [].
Proof. intros H. unfold tx_markup. destruct b; [reflexivity|exact H]. Qed.

Lemma hrefs_if (b : bool) x y : hrefs x = [] -> hrefs y = [] -> hrefs (if b then x else y) = [].
Proof. destruct b; auto. Qed.
Lemma hrefs_opt {A} (o : option A) f y : (forall a, hrefs (f a) = []) -> hrefs y = [] -> hrefs (match o with Some a => f a | None => y end) = [].
Proof. destruct o; auto. Qed.
Lemma hrefs_docp (d : str) (b : bool) x : hrefs x = [] -> hrefs (match d with [] => [] | _ :: _ => if b then [] else x end) = [].
Proof. destruct d; [reflexivity|]. destruct b; auto. Qed.

Section Hrefs.
Variable cf : cfg.
Variable up : str.
Variable P : str -> bool.
Hypothesis Pjs : P s_jsvoid = true.
Hypothesis Pjs2 : P s_jsvoid2 = true.

Definition type_href (c : cinfo) : str :=
  (if lk_up cf then tx (ae_ti cf) up else []) ++ tx (ae_ti cf) (filter_url_from_type (ci_t c)).

Ltac hsimpl :=
  repeat (rewrite ?vals_of_app, ?vals_of_elem, ?forallb_app, ?hrefs_text, ?hrefs_toggle, ?hrefs_doc_docs, ?hrefs_doc_plain, ?hrefs_span,
          ?(hrefs_tx_markup _ _ (hrefs_disp_type _)), ?(hrefs_tx_markup _ _ (hrefs_disp_inst _)), ?app_nil_r; cbn [forallb app andb]).

Lemma emit_ty_attrs_hrefs :
  (forall t st nm nested, (forall c, In c (refs_ty (lk_us cf) t nested) -> P (type_href c) = true) ->
                          forallb P (hrefs (snd (emit_ty cf up st t nm nested))) = true)
  /\ (forall a st, (forall c, In c (refs_attrs (lk_us cf) a) -> P (type_href c) = true) ->
                   forallb P (hrefs (snd (emit_attrs cf up st a))) = true).
Proof.
  apply ty_attrs_ind.
  - intros c a IHa st nm nested H. cbn [emit_ty]. cbv zeta. cbn [snd]. cbn [refs_ty] in H.
    assert (Ha : forall st', forallb P (hrefs (snd (emit_attrs cf up st' a))) = true).
    { intros st'. apply IHa. intros c0 Hc. apply H, in_or_app. right. exact Hc. }
    assert (Hc : nested = true -> linked (lk_us cf) c = true -> P (type_href c) = true).
    { intros -> EL. apply H. cbn [andb]. rewrite EL. left. reflexivity. }
    destruct nested; [destruct (linked (lk_us cf) c) eqn:EL|];
      rewrite !vals_of_app, !vals_of_elem, !vals_of_app;
      rewrite (hrefs_opt (ci_port c)), !hrefs_if, hrefs_docp, hrefs_toggle by reflexivity;
      change (attr_vals k_href [(k_class, dep_class (ae_ti cf) (ci_deprecated c))]) with (@nil str);
      match goal with |- context [attr_vals k_href [(k_class, ?x); (k_id, ?y)]] =>
        change (attr_vals k_href [(k_class, x); (k_id, y)]) with (@nil str) end;
      cbn [app]; rewrite ?app_nil_r; cbn [forallb]; rewrite Pjs; cbn [andb]; rewrite ?forallb_app;
      repeat (apply andb_true_intro; split);
      first [ exact (Hc eq_refl eq_refl) | reflexivity | (destruct a; [reflexivity|exact (Ha _)|exact (Ha _)]) | idtac ].
  - intros es dep d e IHe st nm nested H. cbn [emit_ty]. cbv zeta. cbn [snd]. cbn [refs_ty] in H.
    hsimpl. rewrite Pjs. cbn [andb]. rewrite (IHe _ _ _ H). reflexivity.
  - intros s st nm nested _. reflexivity.
  - intros st _. reflexivity.
  - intros nm doc t IHt rest IHr st H. cbn [emit_attrs]. cbv zeta. cbn [snd]. cbn [refs_attrs] in H. hsimpl.
    rewrite IHt, IHr; [reflexivity| |]; intros c Hc; apply H, in_or_app; [right|left]; exact Hc.
  - intros di isf lb doc rest IHr st H. cbn [emit_attrs]. cbv zeta. cbn [snd]. cbn [refs_attrs] in H.
    destruct isf; hsimpl; rewrite (IHr _ H); reflexivity.
Qed.

Lemma emit_types_hrefs ts : forall st, (forall c, In c (refs_types (lk_us cf) ts) -> P (type_href c) = true) ->
  forallb P (hrefs (snd (emit_types cf up st ts))) = true.
Proof.
  induction ts as [|[sn t] r IH]; intros st H; [reflexivity|]. cbn [emit_types]. unfold refs_types in H. cbn [flat_map fst snd] in H.
  fold (refs_types (lk_us cf) r) in H. destruct (str_eqb sn namespace_doc_key); [apply IH, H|]. cbv zeta. cbn [snd]. hsimpl.
  rewrite (proj1 emit_ty_attrs_hrefs), IH; [reflexivity| |]; intros c Hc; apply H, in_or_app; [right|left]; exact Hc.
Qed.

Lemma emit_ns_nsl_hrefs :
  (forall n st, (forall c, In c (refs_ns (lk_us cf) n) -> P (type_href c) = true) -> forallb P (hrefs (snd (emit_ns cf up st n))) = true)
  /\ (forall l st, (forall c, In c (refs_nsl (lk_us cf) l) -> P (type_href c) = true) -> forallb P (hrefs (snd (emit_nsl cf up st l))) = true).
Proof.
  apply nst_nsl_ind.
  - intros name docs types subs IH st H. cbn [emit_ns]. cbv zeta. cbn [snd]. cbn [refs_ns] in H. hsimpl. rewrite Pjs2. cbn [andb].
    rewrite emit_types_hrefs, IH; [|intros c Hc; apply H, in_or_app; right; exact Hc|intros c Hc; apply H, in_or_app; left; exact Hc].
    destruct (filter_namespace_doc docs); hsimpl; reflexivity.
  - intros st _. reflexivity.
  - intros n IHn r IHr st H. cbn [emit_nsl]. cbv zeta. cbn [snd]. cbn [refs_nsl] in H. hsimpl.
    rewrite IHn, IHr; [reflexivity| |]; intros c Hc; apply H, in_or_app; [right|left]; exact Hc.
Qed.
End Hrefs.

(* ---------- URL algebra at any depth ---------- *)
Lemma url_shape t : filter_url_from_type t = s_up ++ ti_root_ns t ++ s_slash_hash ++ url_anchor t.
Proof.
  unfold filter_url_from_type, url_anchor, filter_tag_id, anchor_tinfo. cbv zeta.
  cbn [concat app s_up s_slash_hash ti_is_array ti_full_name ti_major ti_minor]. rewrite ?app_nil_r, <- ?app_assoc. reflexivity.
Qed.

Lemma split_on_length c s : forall cur, length (split_on c cur s) = S (length (filter (fun x => x =? c) s)).
Proof.
  induction s as [|x s IH]; intros cur; [reflexivity|]. cbn [split_on filter]. destruct (x =? c); cbn [length]; rewrite IH; reflexivity.
Qed.

Lemma ns_dir_length n : length (ns_dir n) = S (ndots (ns_name n)).
Proof. unfold ns_dir, split_dots, ndots. apply split_on_length. Qed.

Fixpoint ups (k : nat) : str := match k with O => [] | S k' => s_up ++ ups k' end.

Lemma up_of_ups s : up_of s = ups (ndots s).
Proof.
  unfold up_of, ndots. induction s as [|c s IH]; [reflexivity|]. cbn [flat_map filter].
  destruct (c =? 46); cbn [length ups app]; rewrite IH; reflexivity.
Qed.

Lemma ups_snoc k x : ups k ++ s_up ++ x = ups (S k) ++ x.
Proof. induction k as [|k IH]; [reflexivity|]. cbn [ups]. rewrite <- !app_assoc, IH. reflexivity. Qed.

Lemma take_while_pref p a b : forallb p a = true -> take_while p (a ++ b) = a ++ take_while p b.
Proof. induction a as [|x a IH]; intros H; [reflexivity|]. cbn in *. apply andb_prop in H as [Hx Ha]. rewrite Hx, (IH Ha). reflexivity. Qed.
Lemma drop_while_pref p a b : forallb p a = true -> drop_while p (a ++ b) = drop_while p b.
Proof. induction a as [|x a IH]; intros H; [reflexivity|]. cbn in *. apply andb_prop in H as [Hx Ha]. rewrite Hx. apply (IH Ha). Qed.

Lemma ups_no_hash k : forallb (fun c => negb (c =? 35)) (ups k) = true.
Proof. induction k as [|k IH]; [reflexivity|]. cbn [ups]. rewrite forallb_app, IH. reflexivity. Qed.

Lemma split_slash_ups k x : split_on 47 [] (ups k ++ x) = repeat s_dotdot k ++ split_on 47 [] x.
Proof. induction k as [|k IH]; [reflexivity|]. cbn [ups repeat]. rewrite <- app_assoc. cbn [s_up app split_on N.eqb Pos.eqb rev]. rewrite IH. reflexivity. Qed.

Lemma apply_segments_pop l : forall segs, apply_segments l (repeat s_dotdot (length l) ++ segs) = apply_segments [] segs.
Proof.
  induction l as [|x l IH]; intros segs; [reflexivity|]. cbn [length repeat app apply_segments].
  change (str_eqb s_dotdot s_dotdot) with true. cbv iota. apply IH.
Qed.

Lemma ups_head k x : exists r, ups (S k) ++ x = 46 :: 46 :: 47 :: r.
Proof. eexists. cbn [ups s_up app]. reflexivity. Qed.

(* the link written on the page of ANY namespace (any number of dots in its name) resolves to the directory of the
   root namespace R, with the anchor as fragment *)
Theorem resolve_type_url_any_depth name R a : seg_ok R = true ->
  resolve (split_dots name) (up_of name ++ s_up ++ R ++ s_slash_hash ++ a) = TDir [R] a.
Proof.
  intros HR. destruct (seg_not_special R HR) as (N1 & N2 & N3 & Hid).
  rewrite up_of_ups, ups_snoc. set (k := ndots name).
  assert (Hlen : length (rev (split_dots name)) = S k).
  { rewrite rev_length. unfold split_dots. rewrite split_on_length. reflexivity. }
  unfold resolve.
  assert (Htl : is_type_link (ups (S k) ++ R ++ s_slash_hash ++ a) = true) by reflexivity.
  rewrite Htl. cbn [negb]. destruct (ups_head k (R ++ s_slash_hash ++ a)) as (r & Er). rewrite Er. rewrite <- Er. clear Er r.
  unfold split_frag. change (s_slash_hash ++ a) with (47 :: 35 :: a).
  rewrite (take_while_pref _ _ _ (ups_no_hash (S k))), (drop_while_pref _ _ _ (ups_no_hash (S k))).
  rewrite (proj1 (take_drop_hash R a Hid)), (proj2 (take_drop_hash R a Hid)). cbn [fst snd].
  unfold split_slash. rewrite split_slash_ups. rewrite (split_on_seg R [] [] Hid). cbn [rev app split_on].
  rewrite <- Hlen. rewrite apply_segments_pop. cbn [apply_segments]. rewrite N1, N2, N3.
  change (str_eqb [] s_dotdot) with false. change (str_eqb [] []) with true. cbv iota. reflexivity.
Qed.

(* ---------- ids of namespaces on a page ---------- *)
Lemma emit_ns_ids_ns cf up :
  (forall n n', In n' (all_ns n) -> forall st, In (tx (ae_ni cf) (ns_id (ns_name n'))) (vals_of k_id (snd (emit_ns cf up st n))))
  /\ (forall l n', In n' (all_nsl l) -> forall st, In (tx (ae_ni cf) (ns_id (ns_name n'))) (vals_of k_id (snd (emit_nsl cf up st l)))).
Proof.
  apply nst_nsl_ind.
  - intros name docs types subs IH n' H st. cbn [all_ns] in H. cbn [emit_ns]. cbv zeta. cbn [snd].
    rewrite vals_of_app. apply in_or_app. right. rewrite vals_of_elem. destruct H as [<-|H].
    + apply in_or_app. left. cbn [ns_name].
      match goal with |- In ?v (attr_vals k_id [(k_class, ?x); (k_id, ?v)]) => change (attr_vals k_id [(k_class, x); (k_id, v)]) with [v] end.
      left. reflexivity.
    + apply in_or_app. right. rewrite !vals_of_app. apply in_or_app. right. apply in_or_app. right. apply IH, H.
  - intros n' [].
  - intros n IHn r IHr n' H st. cbn [all_nsl] in H. cbn [emit_nsl]. cbv zeta. cbn [snd]. rewrite vals_of_app. apply in_or_app.
    apply in_app_or in H as [H|H]; [left; apply IHn|right; apply IHr]; exact H.
Qed.

Lemma ns_ids_on_page cf n n' : In n' (all_ns n) -> In (tx (ae_ni cf) (ns_id (ns_name n'))) (page_ids cf n).
Proof.
  intros H. unfold page_ids, ns_page, ns_page_main. rewrite !vals_of_app. apply in_or_app. right. apply in_or_app. right.
  rewrite vals_of_elem. apply in_or_app. right. apply (proj1 (emit_ns_ids_ns cf _)). exact H.
Qed.

(* ---------- sidebar links are local and hit ids of the same page ---------- *)
Section Sidebar.
Variable cf : cfg.
Variable P : str -> bool.

Lemma sidebar_types_hrefs ts :
  (forall c, In c (listed ts) -> P (s_hash ++ tx (ae_sb cf) (filter_tag_id (ci_t c))) = true) ->
  forallb P (hrefs (sidebar_types cf ts)) = true.
Proof.
  induction ts as [|[sn t] r IH]; intros H; [reflexivity|]. cbn [sidebar_types]. unfold listed in H. cbn [flat_map fst snd] in H.
  fold (listed r) in H. rewrite vals_of_app, forallb_app. apply andb_true_intro. split.
  - destruct (str_eqb sn namespace_doc_key); [reflexivity|]. destruct (comp_info t) as [c|]; [|reflexivity].
    rewrite !vals_of_elem.
    match goal with |- context [attr_vals k_href [(k_id, ?x); (k_href, ?h); (k_class, ?y)]] =>
      change (attr_vals k_href [(k_id, x); (k_href, h); (k_class, y)]) with [h] end.
    match goal with |- context [attr_vals k_href [(k_class, ?x)]] => change (attr_vals k_href [(k_class, x)]) with (@nil str) end.
    cbn [app vals_of flat_map forallb]. rewrite H; [reflexivity|]. apply in_or_app. left. left. reflexivity.
  - apply IH. intros c Hc. apply H, in_or_app. right. exact Hc.
Qed.

Lemma emit_sidebar_hrefs :
  (forall n, (forall n', In n' (all_ns n) -> P (s_hash ++ tx (ae_sb cf) (ns_id (ns_name n'))) = true) ->
             (forall c, In c (all_listed n) -> P (s_hash ++ tx (ae_sb cf) (filter_tag_id (ci_t c))) = true) ->
             forallb P (hrefs (emit_sidebar cf n)) = true)
  /\ (forall l, (forall n', In n' (all_nsl l) -> P (s_hash ++ tx (ae_sb cf) (ns_id (ns_name n'))) = true) ->
                (forall c, In c (all_listed_l l) -> P (s_hash ++ tx (ae_sb cf) (filter_tag_id (ci_t c))) = true) ->
                forallb P (hrefs (emit_sidebar_l cf l)) = true).
Proof.
  apply nst_nsl_ind.
  - intros name docs types subs IH Hn Hc. cbn [emit_sidebar]. cbv zeta. cbn [all_ns all_listed] in *.
    rewrite !vals_of_app, !vals_of_elem, !vals_of_app, !vals_of_elem.
    match goal with |- context [attr_vals k_href [(k_target, ?x); (k_onclick, ?y); (k_controls, ?z)]] =>
      change (attr_vals k_href [(k_target, x); (k_onclick, y); (k_controls, z)]) with (@nil str) end.
    match goal with |- context [attr_vals k_href [(k_href, ?h); (k_class, ?y)]] =>
      change (attr_vals k_href [(k_href, h); (k_class, y)]) with [h] end.
    change (attr_vals k_href [(k_class, s_textnowrap)]) with (@nil str).
    match goal with |- context [attr_vals k_href [(k_class, ?x); (k_id, ?y)]] =>
      change (attr_vals k_href [(k_class, x); (k_id, y)]) with (@nil str) end.
    cbn [app vals_of flat_map]. rewrite ?app_nil_r. cbn [forallb].
    pose proof (Hn (NS name docs types subs) (or_introl eq_refl)) as Hself. cbn [ns_name] in Hself. rewrite Hself. cbn [andb].
    rewrite !forallb_app. apply andb_true_intro. split; [|apply andb_true_intro; split].
    + destruct (filter_namespace_doc docs); reflexivity.
    + apply sidebar_types_hrefs. intros c H. apply Hc, in_or_app. left. exact H.
    + apply IH; [intros n' H; apply Hn; right; exact H|intros c H; apply Hc, in_or_app; right; exact H].
  - intros _ _. reflexivity.
  - intros n IHn r IHr Hn Hc. cbn [emit_sidebar_l all_nsl all_listed_l] in *. rewrite vals_of_app, forallb_app.
    apply andb_true_intro. split; [apply IHn|apply IHr]; intros x Hx; (apply Hn || apply Hc); apply in_or_app; [left|left|right|right]; exact Hx.
Qed.
End Sidebar.

Lemma link_ok_local cf roots self f : link_ok cf roots self (s_hash ++ f) = str_in f (page_ids cf self).
Proof. reflexivity. Qed.
Lemma link_ok_js cf roots self : link_ok cf roots self s_jsvoid = true /\ link_ok cf roots self s_jsvoid2 = true.
Proof. split; reflexivity. Qed.

(* ---------- links_resolve, universal ---------- *)
Theorem links_resolve_universal cf roots self :
  ae_ti cf = false -> ae_ni cf = false -> ae_sb cf = false -> lk_up cf = true ->
  In self (site_pages roots) ->
  (forall c, In c (refs_ns (lk_us cf) self) -> ref_resolves roots c) ->
  page_links_ok cf roots self = true.
Proof.
  intros Hti Hni Hsb Hup Hself Hclosed. unfold page_links_ok, page_hrefs, ns_page, ns_page_sidebar, ns_page_main.
  rewrite !vals_of_app, !vals_of_elem, !forallb_app.
  change (attr_vals k_href [(k_id, s_sidebar)]) with (@nil str). change (attr_vals k_href [(k_id, s_nsinfo)]) with (@nil str).
  change (attr_vals k_href []) with (@nil str). cbn [app]. rewrite hrefs_text. cbn [forallb app andb].
  apply andb_true_intro. split.
  - (* sidebar: local links *)
    apply (proj1 (emit_sidebar_hrefs cf (link_ok cf roots self))).
    + intros n' H. rewrite link_ok_local, Hsb. cbn [tx]. apply str_in_spec.
      pose proof (ns_ids_on_page cf self n' H) as G. rewrite Hni in G. exact G.
    + intros c H. rewrite link_ok_local, Hsb. cbn [tx]. apply str_in_spec.
      pose proof (listed_ids_on_page cf self c H) as G. rewrite Hti in G. exact G.
  - (* main: type links *)
    destruct (link_ok_js cf roots self) as [J1 J2].
    apply (proj1 (emit_ns_nsl_hrefs cf (up_of (ns_name self)) (link_ok cf roots self) J1 J2)).
    intros c Hc. destruct (Hclosed c Hc) as (r' & Hin & Hname & Hseg & c' & Hl & Hid).
    unfold type_href. rewrite Hup, Hti. cbn [tx]. rewrite url_shape, <- Hname.
    unfold link_ok, ns_dir. rewrite (resolve_type_url_any_depth (ns_name self) (ns_name r') _ Hseg). cbn [target_ok].
    apply existsb_exists. exists r'. split; [apply root_is_page, Hin|].
    rewrite (root_dir r' Hseg), list_str_eqb_refl. cbn [andb]. apply str_in_spec.
    pose proof (listed_ids_on_page cf r' c' Hl) as G. rewrite Hti in G. cbn [tx] in G. rewrite Hid in G. exact G.
Qed.

(* the configuration regenerated from the working tree satisfies the side conditions *)
Theorem faithful_cfg_links : ae_ti faithful_cfg = false /\ ae_ni faithful_cfg = false /\ ae_sb faithful_cfg = false /\ lk_up faithful_cfg = true.
Proof. vm_compute. repeat split. Qed.

(* a single run that only LOOKS UP a referenced root namespace (--lookup-dir) does not generate its pages: the cross-root links
   of that run's tree dangle until a run for the other root writes into the same output directory *)
Theorem links_lookup_only_refuted :
  match w_site_ok with
  | r :: _ => page_links_ok faithful_cfg [r] r = false /\ forallb (page_links_ok faithful_cfg w_site_ok) (site_pages w_site_ok) = true
  | [] => False
  end.
Proof. vm_compute. split; reflexivity. Qed.

(* ---------- the link hypothesis, split: what the front end guarantees / what the generator must do ---------- *)
Lemma defined_listed ts sn c : In (sn, c) (defined ts) -> str_eqb sn namespace_doc_key = false -> In c (listed ts).
Proof.
  unfold defined, listed. intros H Hk. apply in_flat_map in H as (e & He & Hin). apply in_flat_map. exists e. split; [exact He|].
  destruct (comp_info (snd e)) as [c0|]; [|destruct Hin]. destruct Hin as [E|[]]. injection E as <- <-. rewrite Hk. left. reflexivity.
Qed.
Lemma all_defined_listed :
  (forall n sn c, In (sn, c) (all_defined n) -> str_eqb sn namespace_doc_key = false -> In c (all_listed n))
  /\ (forall l sn c, In (sn, c) (all_defined_l l) -> str_eqb sn namespace_doc_key = false -> In c (all_listed_l l)).
Proof.
  apply nst_nsl_ind.
  - intros name docs types subs IH sn c H Hk. cbn [all_defined all_listed] in *. apply in_or_app. apply in_app_or in H as [H|H];
      [left; apply (defined_listed _ _ _ H Hk)|right; apply (IH _ _ H Hk)].
  - intros sn c [].
  - intros n IHn r IHr sn c H Hk. cbn [all_defined_l all_listed_l] in *. apply in_or_app. apply in_app_or in H as [H|H];
      [left; apply (IHn _ _ H Hk)|right; apply (IHr _ _ H Hk)].
Qed.

Lemma tag_id_ext t1 t2 : ti_is_array t1 = false -> ti_is_array t2 = false -> ti_full_name t1 = ti_full_name t2 ->
  ti_major t1 = ti_major t2 -> ti_minor t1 = ti_minor t2 -> filter_tag_id t1 = filter_tag_id t2.
Proof. intros A1 A2 E1 E2 E3. unfold filter_tag_id. rewrite A1, A2, E1, E2, E3. reflexivity. Qed.

(* the generator's part: every DEFINED type that is not a `_` pseudo type is LISTED (gets an element with its tag id) -- so a
   reference that is written as a link (not to a `_` name) and is defined per the front end resolves *)
Theorem defined_resolves roots c : linked true c = true -> type_defined roots c -> ref_resolves roots c.
Proof.
  intros HL (r' & Hin & Hname & Hseg & sn & c' & Hd & Hsn & Harr & Hfn & HM & Hm).
  exists r'. split; [exact Hin|]. split; [exact Hname|]. split; [exact Hseg|]. exists c'. split.
  - apply (proj1 all_defined_listed _ _ _ Hd). rewrite Hsn, Hfn. unfold linked in HL. cbn [andb] in HL.
    destruct (str_eqb (last_component (link_name (ci_t c))) s_us) eqn:E; [discriminate HL|exact E].
  - unfold url_anchor. apply tag_id_ext; [exact Harr|reflexivity|exact Hfn|exact HM|exact Hm].
Qed.

Lemma refs_linked us :
  (forall t nested c, In c (refs_ty us t nested) -> linked us c = true) /\ (forall a c, In c (refs_attrs us a) -> linked us c = true).
Proof.
  apply ty_attrs_ind.
  - intros c a IHa nested c0 H. cbn [refs_ty] in H. apply in_app_or in H as [H|H]; [|apply IHa, H].
    destruct (nested && linked us c) eqn:E; [|destruct H]. destruct H as [<-|[]]. apply andb_prop in E as [_ E]. exact E.
  - intros es dep d e IHe nested c H. apply (IHe _ _ H).
  - intros s nested c [].
  - intros c [].
  - intros nm doc t IHt rest IHr c H. cbn [refs_attrs] in H. apply in_app_or in H as [H|H]; [apply (IHt _ _ H)|apply IHr, H].
  - intros di isf lb doc rest IHr c H. apply IHr, H.
Qed.
Lemma refs_ns_linked us :
  (forall n c, In c (refs_ns us n) -> linked us c = true) /\ (forall l c, In c (refs_nsl us l) -> linked us c = true).
Proof.
  apply nst_nsl_ind.
  - intros name docs types subs IH c H. cbn [refs_ns] in H. apply in_app_or in H as [H|H]; [|apply IH, H].
    unfold refs_types in H. apply in_flat_map in H as (e & _ & He). destruct (str_eqb (fst e) namespace_doc_key); [destruct He|].
    apply (proj1 (refs_linked us) _ _ _ He).
  - intros c [].
  - intros n IHn r IHr c H. cbn [refs_nsl] in H. apply in_app_or in H as [H|H]; [apply IHn, H|apply IHr, H].
Qed.

(* links_resolve with the hypothesis reduced to what the front end guarantees *)
Theorem links_resolve_defined cf roots self :
  ae_ti cf = false -> ae_ni cf = false -> ae_sb cf = false -> lk_up cf = true -> lk_us cf = true ->
  In self (site_pages roots) ->
  (forall c, In c (refs_ns true self) -> type_defined roots c) ->
  page_links_ok cf roots self = true.
Proof.
  intros A B C D E Hself H. apply links_resolve_universal; try assumption. rewrite E. intros c Hc.
  apply defined_resolves; [apply (proj1 (refs_ns_linked true) _ _ Hc)|apply H, Hc].
Qed.

(* and without the guard the link to a `_` type dangles although the front end accepts the reference (finding F-HTML-LINK-US) *)
Theorem links_us_by_state :
  page_links_ok (set_lk_us faithful_cfg false) [w_site_us] w_site_us = false
  /\ page_links_ok (set_lk_us faithful_cfg true) [w_site_us] w_site_us = true
  /\ page_links_ok faithful_cfg [w_site_us] w_site_us = lk_us faithful_cfg.
Proof. repeat split; vm_compute; reflexivity. Qed.

Theorem us_scheme_now : lk_us faithful_cfg = true.
Proof. vm_compute. reflexivity. Qed.
