(* C09 -- the stropping theorems, for ANY configuration record that passes the boolean side conditions
   `chk_sound` / `chk_id` (evaluated by vm_compute on the regenerated configuration in StropThmInst.v):

     strop_sound_gen : strop ty tok = Ok t, tok <> []  ->  t is a valid identifier, is not in the reserved
                       list, and matches no reserved pattern of `all` or of the requested type
     strop_id_gen    : a valid identifier that is not reserved, matches no reserved pattern (and, when the
                       configuration encodes double underscores, contains none) is returned unchanged
     strop_total     : strop only returns Ok / RuntimeError / ValueError (by construction), 'all' -> ValueError
     (cache isolation: StropThmCache.v; totality: StropThmTotal.v)                                      *)
From Verif Require Import Strop StropThmRe StropThmEnc.
Open Scope N_scope.

(* shape of every result of the C/C++ failure handler: `_`, then nothing or a character that is neither `_` nor A-Z *)
Definition hshape (t : str) : bool :=
  match t with
  | c0 :: tl => (c0 =? 95) && match tl with [] => true | c :: _ => negb (c =? 95) && negb (is_upper c) end
  | [] => false
  end.

Definition hs_second : list chr := filter (fun c => negb (c =? 95) && negb (is_upper c)) ident_list.
Definition ident_nound : list chr := filter (fun c => negb (c =? 95)) ident_list.
Definition ident_nodigit : list chr := filter (fun c => negb (is_digit c)) ident_list.

Lemma ident_nound_in c : ident_char c = true -> (c =? 95) = false -> In c ident_nound.
Proof. intros H E. unfold ident_nound. apply filter_In; split; [apply ident_list_in; exact H|rewrite E; reflexivity]. Qed.

Lemma ident_nodigit_in c : ident_char c = true -> is_digit c = false -> In c ident_nodigit.
Proof. intros H E. unfold ident_nodigit. apply filter_In; split; [apply ident_list_in; exact H|rewrite E; reflexivity]. Qed.

Lemma drop_und_hd s : match drop_und s with c :: _ => (c =? 95) = false | [] => True end.
Proof. induction s as [|c s IH]; cbn [drop_und]; [exact I|]. destruct (c =? 95) eqn:E; [exact IH|exact E]. Qed.

Lemma drop_und_ident s : all_ident s = true -> all_ident (drop_und s) = true.
Proof.
  induction s as [|c s IH]; cbn [drop_und]; [auto|]. intros H. destruct (c =? 95); [|exact H].
  apply IH. cbn in H. apply andb_prop in H; exact (proj2 H).
Qed.

Lemma handler_und_shape x t : handler_und x = Some t -> hshape t = true.
Proof.
  unfold handler_und. destruct x as [|c0 s0]; [discriminate|]. destruct (c0 =? 95); [|discriminate].
  intros H; injection H as <-. cbn [hshape]. rewrite N.eqb_refl. cbn [andb].
  pose proof (drop_und_hd s0) as Hd. destruct (drop_und s0) as [|c r]; [reflexivity|].
  destruct (is_upper c) eqn:Hu.
  - apply is_upper_iff in Hu. apply andb_true_intro; split; apply negb_true_iff.
    + apply N.eqb_neq; lia.
    + destruct (is_upper (c + 32)) eqn:E; [apply is_upper_iff in E; lia|reflexivity].
  - rewrite Hd, Hu; reflexivity.
Qed.

Lemma handler_und_ident x t : all_ident x = true -> handler_und x = Some t -> all_ident t = true.
Proof.
  unfold handler_und. destruct x as [|c0 s0]; [discriminate|]. destruct (c0 =? 95); [|discriminate].
  intros Hx H; injection H as <-.
  unfold all_ident in *. cbn [forallb] in Hx. apply andb_prop in Hx as [_ Hx].
  apply drop_und_ident in Hx. unfold all_ident in Hx.
  cbn [forallb]. change (ident_char 95) with true. cbn [andb].
  destruct (drop_und s0) as [|c r]; [reflexivity|]. cbn [forallb] in Hx. apply andb_prop in Hx as [Hc Hr].
  destruct (is_upper c) eqn:Hu; cbn [forallb]; rewrite Hr, ?andb_true_r.
  - apply ident_char_iff. apply is_upper_iff in Hu. lia.
  - exact Hc.
Qed.

Lemma lookup_in m k v : lookup m k = Some v -> exists k', In (k', v) m.
Proof.
  induction m as [|[k' v'] m IH]; cbn [lookup]; [discriminate|].
  destruct (str_eqb k k'); intros H.
  - injection H as ->. exists k'; left; reflexivity.
  - destruct (IH H) as (k2 & Hk2). exists k2; right; exact Hk2.
Qed.

Section Main.
  Variable u : uni.
  Variable sp : ranges.
  Variable cfg : strop_cfg.

  Local Notation R := (sc_reserved cfg).

  (* ---------------- boolean side conditions on the configuration ---------------- *)
  Definition chk_affixes : bool :=
    all_ident (sc_prefix cfg) && all_ident (sc_suffix cfg)
    && match sc_prefix cfg with [] => true | _ => hd_ok (sc_prefix cfg) end.

  Definition rules_digit_guard : bool := existsb (good_boldigit u) (rules_of cfg ty_all).
  Definition pats_digit_guard : bool := existsb (good_boldigit u) (pats_of cfg ty_all).

  Definition chk_handler : bool :=
    match sc_strop_handler cfg, sc_enc_handler cfg with
    | HNone, HNone => true
    | _, _ => forallb (fun w => negb (hshape w)) R
              && forallb (fun e => forallb (rch_none u true 95 hs_second) (snd e)) (sc_patterns cfg)
    end.

  (* what validity of the result needs, whatever the handlers do *)
  Definition chk_base : bool :=
    chk_enc_out cfg && chk_affixes && existsb good_clsplus (rules_of cfg ty_all)
    && (rules_digit_guard || pats_digit_guard).

  (* handler outputs: either strop re-verifies what it returns, or the two computed facts about handler-shaped tokens hold *)
  Definition chk_sound : bool := chk_base && (sc_reverify cfg || chk_handler).

  (* ---------------- the dry-run checks ---------------- *)
  Definition pat_hit (tyl t : str) : bool :=
    matches_pats u t (pats_of cfg ty_all) || matches_pats u t (pats_of cfg tyl).

  Lemma dry_pat tyl x : str_eqb tyl ty_all = false ->
    do_for_type_and_all (strop_by_pattern u cfg) x tyl true <> TRuntimeError -> pat_hit tyl x = false.
  Proof.
    intros Hty. unfold do_for_type_and_all, strop_by_pattern, pat_hit, pats_of. rewrite Hty.
    destruct (lookup (sc_patterns cfg) ty_all) as [psa|];
      [destruct (matches_pats u x psa) eqn:Ea|]; cbn [orb]; try congruence;
      (destruct (lookup (sc_patterns cfg) tyl) as [pst|];
       [destruct (matches_pats u x pst) eqn:Et|]; cbn; congruence).
  Qed.

  Lemma dry_kw tyl x :
    do_for_type_and_all (strop_by_keyword cfg) x tyl true <> TRuntimeError -> str_in x R = false.
  Proof.
    unfold do_for_type_and_all, strop_by_keyword. destruct (str_in x R); [congruence|reflexivity].
  Qed.

  (* ---------------- the non-dry stages keep an invariant ---------------- *)
  Lemma do_for_nd (f : str -> str -> bool -> tres) (P : str -> Prop) tok tyl :
    (forall t ty, P t -> match f t ty false with TOk t' => P t' | TKeyError => True | TRuntimeError => False end) ->
    P tok -> exists t', do_for_type_and_all f tok tyl false = TOk t' /\ P t'.
  Proof.
    intros Hf Htok. unfold do_for_type_and_all.
    assert (H1 : exists t1, match f tok ty_all false with TOk t => TOk t | TKeyError => TOk tok
                                                   | TRuntimeError => TRuntimeError end = TOk t1 /\ P t1).
    { pose proof (Hf tok ty_all Htok) as H. destruct (f tok ty_all false); [eauto|eauto|contradiction]. }
    destruct H1 as (t1 & -> & Ht1). destruct (str_eqb tyl ty_all); [eauto|].
    pose proof (Hf t1 tyl Ht1) as H. destruct (f t1 tyl false); [eauto|eauto|contradiction].
  Qed.

  Hypothesis Hchk : chk_sound = true.

  Lemma Hc_all : chk_enc_out cfg = true /\ chk_affixes = true /\ existsb good_clsplus (rules_of cfg ty_all) = true
                 /\ rules_digit_guard || pats_digit_guard = true /\ sc_reverify cfg || chk_handler = true.
  Proof.
    pose proof Hchk as H. unfold chk_sound, chk_base in H. apply andb_prop in H as [H H5]. apply andb_prop in H as [H H4].
    apply andb_prop in H as [H H3]. apply andb_prop in H as [H1 H2]. auto.
  Qed.
  Lemma Hc_out : chk_enc_out cfg = true. Proof. apply Hc_all. Qed.
  Lemma Hc_aff : chk_affixes = true. Proof. apply Hc_all. Qed.
  Lemma Hc_alpha : existsb good_clsplus (rules_of cfg ty_all) = true. Proof. apply Hc_all. Qed.
  Lemma Hc_digit : rules_digit_guard || pats_digit_guard = true. Proof. apply Hc_all. Qed.
  Lemma Hc_handler : sc_reverify cfg || chk_handler = true. Proof. apply Hc_all. Qed.

  (* invariant of the token from the end of the encoding stage on *)
  Definition Inv (x : str) : Prop :=
    all_ident x = true /\ x <> [] /\ (rules_digit_guard = true -> hd_ok x = true).

  Lemma wrap_inv x : Inv x -> Inv (wrap cfg x).
  Proof.
    intros (Hi & Hn & Hh). pose proof Hc_aff as Ha. unfold chk_affixes in Ha.
    apply andb_prop in Ha as [Ha Ha3]; apply andb_prop in Ha as [Ha1 Ha2]. unfold wrap. split; [|split].
    - rewrite !all_ident_app, Ha1, Hi, Ha2; reflexivity.
    - intros E. apply app_eq_nil in E as [_ E]. apply app_eq_nil in E as [E _]. contradiction.
    - intros G. specialize (Hh G). destruct (sc_prefix cfg) as [|p ps]; [|apply hd_ok_app; exact Ha3].
      cbn [app]. apply hd_ok_app; exact Hh.
  Qed.

  Lemma enc_stage tok tyl : tok <> [] ->
    exists e, do_for_type_and_all (encode u sp cfg) tok tyl false = TOk e /\ Inv e.
  Proof.
    intros Hne. unfold do_for_type_and_all, encode.
    pose proof Hc_alpha as Hal. pose proof Hc_out as Ho. unfold Inv, rules_digit_guard. unfold rules_of in *.
    destruct (lookup (sc_rules cfg) ty_all) as [ra|]; [|discriminate].
    rewrite (encode_rules_nd u sp cfg).
    assert (Ia : all_ident (sub_all u sp cfg ra tok) = true /\ sub_all u sp cfg ra tok <> []
                 /\ (existsb (good_boldigit u) ra = true -> hd_ok (sub_all u sp cfg ra tok) = true)).
    { split; [apply sub_all_est_ident; assumption|split; [apply sub_all_ne; assumption|]].
      intros G; apply sub_all_est_hd; assumption. }
    destruct (str_eqb tyl ty_all); [eexists; split; [reflexivity|exact Ia]|].
    destruct (lookup (sc_rules cfg) tyl) as [rt|]; [|eexists; split; [reflexivity|exact Ia]].
    rewrite (encode_rules_nd u sp cfg). eexists; split; [reflexivity|].
    destruct Ia as (I1 & I2 & I3). split; [apply sub_all_ident; assumption|split; [apply sub_all_ne; assumption|]].
    intros G; apply sub_all_hd; auto.
  Qed.

  Lemma kw_stage x tyl : Inv x ->
    exists k, do_for_type_and_all (strop_by_keyword cfg) x tyl false = TOk k /\ Inv k.
  Proof.
    apply do_for_nd. intros t ty Ht. unfold strop_by_keyword. destruct (str_in t R); [apply wrap_inv|]; exact Ht.
  Qed.

  Lemma pat_stage x tyl : Inv x ->
    exists k, do_for_type_and_all (strop_by_pattern u cfg) x tyl false = TOk k /\ Inv k.
  Proof.
    apply do_for_nd. intros t ty Ht. unfold strop_by_pattern.
    destruct (lookup (sc_patterns cfg) ty) as [ps|]; [|exact I].
    destruct (matches_pats u t ps); [apply wrap_inv|]; exact Ht.
  Qed.

  (* ---------------- facts about handler-shaped tokens ---------------- *)
  Definition some_handler : Prop := sc_strop_handler cfg <> HNone \/ sc_enc_handler cfg <> HNone.

  Lemma handler_facts : chk_handler = true -> some_handler ->
    forallb (fun w => negb (hshape w)) R = true
    /\ forallb (fun e => forallb (rch_none u true 95 hs_second) (snd e)) (sc_patterns cfg) = true.
  Proof.
    intros H Hs. unfold chk_handler in H. unfold some_handler in Hs.
    destruct (sc_strop_handler cfg), (sc_enc_handler cfg); try (apply andb_prop in H; exact H).
    destruct Hs; congruence.
  Qed.

  Lemma hshape_tail t : hshape t = true -> all_ident t = true ->
    exists tl, t = 95 :: tl /\ (tl = [] \/ exists c2 tl', tl = c2 :: tl' /\ In c2 hs_second).
  Proof.
    destruct t as [|c0 tl]; [discriminate|]. cbn [hshape]. intros H Hi. apply andb_prop in H as [H0 H1].
    apply N.eqb_eq in H0; subst c0. exists tl; split; [reflexivity|].
    destruct tl as [|c tl']; [left; reflexivity|right]. exists c, tl'; split; [reflexivity|].
    unfold hs_second. apply filter_In; split; [|exact H1].
    apply ident_list_in. unfold all_ident in Hi; cbn [forallb] in Hi.
    apply andb_prop in Hi as [_ Hi]. apply andb_prop in Hi as [Hi _]. exact Hi.
  Qed.

  Lemma hshape_not_reserved t : chk_handler = true -> some_handler -> hshape t = true -> str_in t R = false.
  Proof.
    intros Hch Hs Ht. destruct (str_in t R) eqn:E; [|reflexivity]. apply str_in_spec in E.
    destruct (handler_facts Hch Hs) as [H _]. rewrite forallb_forall in H. specialize (H t E).
    rewrite Ht in H; discriminate.
  Qed.

  Lemma hshape_no_pattern t ty : chk_handler = true -> some_handler -> hshape t = true -> all_ident t = true ->
    matches_pats u t (pats_of cfg ty) = false.
  Proof.
    intros Hch Hs Ht Hi. unfold pats_of. destruct (lookup (sc_patterns cfg) ty) as [ps|] eqn:L; [|reflexivity].
    apply lookup_in in L as (k' & Hin). destruct (handler_facts Hch Hs) as [_ H]. rewrite forallb_forall in H.
    specialize (H _ Hin). cbn [snd] in H. rewrite forallb_forall in H.
    destruct (hshape_tail t Ht Hi) as (tl & -> & Htl).
    unfold matches_pats. destruct (existsb _ ps) eqn:E; [|reflexivity].
    apply existsb_exists in E as (r & Hr & Hm). unfold re_matches, re_match in Hm.
    rewrite (rch_none_sound u true 95 hs_second tl Htl r _ (H r Hr)) in Hm. discriminate.
  Qed.

  (* ---------------- try: <check> except RuntimeError: handler ---------------- *)
  Lemma checked_cases chk h x y : checked chk h x = Ok y ->
    (chk <> TRuntimeError /\ y = x) \/ (h = HUnd /\ handler_und x = Some y).
  Proof.
    unfold checked, run_handler. destruct chk; intros H; try (left; split; congruence).
    right. destruct h; [discriminate|]. destruct (handler_und x); [|discriminate]. split; congruence.
  Qed.

  (* state after each of the three guarded checks, relative to the token p2 that left the non-dry stages *)
  Definition St (p2 x : str) (P : Prop) : Prop :=
    all_ident x = true /\ ((some_handler /\ hshape x = true) \/ (x = p2 /\ P)).

  Theorem strop_sound_gen ty tok t : tok <> [] -> strop u sp cfg ty tok = Ok t ->
    valid_ident t = true /\ is_reserved cfg t = false /\ matches_reserved_pattern u cfg ty t = false.
  Proof.
    intros Hne. unfold strop. set (tyl := lower ty). destruct (str_eqb tyl ty_all) eqn:Hty; [discriminate|].
    destruct (enc_stage tok tyl Hne) as (e & -> & He).
    destruct (kw_stage e tyl He) as (k & -> & Hk).
    destruct (pat_stage k tyl Hk) as (p2 & -> & Hp2).
    set (D1 := do_for_type_and_all (strop_by_pattern u cfg) p2 tyl true).
    destruct (checked D1 (sc_strop_handler cfg) p2) as [s1| |] eqn:C1; try discriminate.
    destruct (checked _ (sc_strop_handler cfg) s1) as [s2| |] eqn:C2; try discriminate.
    destruct (checked _ (sc_enc_handler cfg) s2) as [s3| |] eqn:C3; try discriminate.
    intros C4.
    destruct Hp2 as (Hi & Hn & Hh).
    (* step 1 *)
    assert (S1 : St p2 s1 (D1 <> TRuntimeError)).
    { apply checked_cases in C1 as [[Hd ->]|[Hh1 Hu]].
      - split; [exact Hi|right; auto].
      - split; [eapply handler_und_ident; eassumption|left; split; [left; congruence|eapply handler_und_shape; eassumption]]. }
    (* step 2 *)
    assert (S2 : St p2 s2 (D1 <> TRuntimeError /\ str_in p2 R = false)).
    { destruct S1 as (Hi1 & S1). apply checked_cases in C2 as [[Hd ->]|[Hh1 Hu]].
      - split; [exact Hi1|]. destruct S1 as [S1|[-> S1]]; [left; exact S1|right; split; [reflexivity|]].
        split; [exact S1|eapply dry_kw; exact Hd].
      - split; [eapply handler_und_ident; eassumption|left; split; [left; congruence|eapply handler_und_shape; eassumption]]. }
    (* step 3 *)
    assert (S3 : St p2 s3 (D1 <> TRuntimeError /\ str_in p2 R = false)).
    { destruct S2 as (Hi2 & S2). apply checked_cases in C3 as [[Hd ->]|[Hh1 Hu]].
      - split; assumption.
      - split; [eapply handler_und_ident; eassumption|left; split; [right; congruence|eapply handler_und_shape; eassumption]]. }
    clear S1 S2 C1 C2 C3.
    (* validity of s3, whichever way it was produced *)
    assert (Hvalid : valid_ident s3 = true).
    { destruct S3 as (Hit & [[Hs Hsh]|[-> [Hd1 Hr]]]).
      - unfold valid_ident. destruct s3 as [|c0 tl]; [discriminate|]. cbn [hshape] in Hsh.
        apply andb_prop in Hsh as [Hc0 _]. apply N.eqb_eq in Hc0; subst c0.
        change (is_digit 95) with false. cbn [negb andb]. exact Hit.
      - pose proof (dry_pat tyl p2 Hty Hd1) as Hp.
        unfold valid_ident. destruct p2 as [|c0 tl]; [congruence|]. fold (all_ident (c0 :: tl)). rewrite Hi, andb_true_r.
        pose proof Hc_digit as Hg. apply orb_prop in Hg as [Hg|Hg]; [exact (Hh Hg)|].
        unfold pats_digit_guard in Hg. apply existsb_exists in Hg as (r & Hrin & Hg).
        apply good_boldigit_mem in Hg as (kk & -> & Hkk).
        unfold pat_hit in Hp. apply orb_false_elim in Hp as [Hp _]. unfold matches_pats in Hp.
        destruct (is_digit c0) eqn:Hd0; [|reflexivity]. exfalso.
        assert (Hm : re_matches u (Seq Bol (Cls kk)) (c0 :: tl) = true).
        { unfold re_matches, re_match. rewrite bolcls_mt, (Hkk c0 Hd0). reflexivity. }
        assert (Hx : existsb (fun r => re_matches u r (c0 :: tl)) (pats_of cfg ty_all) = true)
          by (apply existsb_exists; eauto).
        congruence. }
    destruct (sc_reverify cfg) eqn:Hrv.
    - (* the tree re-verifies what it returns: the result passed the dry-run checks itself *)
      unfold reverified in C4.
      destruct (dry_ok (do_for_type_and_all (strop_by_pattern u cfg) s3 tyl true)) eqn:E1; [|discriminate].
      destruct (dry_ok (do_for_type_and_all (strop_by_keyword cfg) s3 tyl true)) eqn:E2; [|discriminate].
      destruct (dry_ok (do_for_type_and_all (encode u sp cfg) s3 tyl true)) eqn:E3; [|discriminate].
      destruct (negb (sc_full_check cfg) || full_ok u cfg tyl s3) eqn:E4; [|discriminate].
      cbn [andb] in C4. injection C4 as <-.
      split; [exact Hvalid|split].
      + apply (dry_kw tyl). intros E; rewrite E in E2; discriminate.
      + apply (dry_pat tyl s3 Hty). intros E; rewrite E in E1; discriminate.
    - injection C4 as <-. pose proof Hc_handler as Hch. rewrite Hrv in Hch. cbn [orb] in Hch.
      destruct S3 as (Hit & [[Hs Hsh]|[-> [Hd1 Hr]]]).
      + split; [exact Hvalid|split].
        * apply hshape_not_reserved; assumption.
        * unfold matches_reserved_pattern. rewrite !hshape_no_pattern by assumption. reflexivity.
      + split; [exact Hvalid|split; [exact Hr|exact (dry_pat tyl p2 Hty Hd1)]].
  Qed.
End Main.
