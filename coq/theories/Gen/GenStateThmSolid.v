(* A file whose last line has a non-blank character leaves every LimitEmptyLines counter at 0 (C10): the reason why the
   built-in templates never triggered F-LEL-LEAK.  Uses C15's theorem write_rj = linewise. *)
From Verif Require Import GenState GenStateThm LinePPThm LinePPRejoinThm LinePPInstThm.
From Coq Require Import Lia.
Open Scope N_scope.

Definition pp_wf (p : pp) : bool :=
  match p with PTrim => true | PLimit s => (0 <=? LimitEmptyLines_max_empty_lines s)%Z end.
Definition pps_wf (ps : list pp) : bool := forallb pp_wf ps.

(* the complete text of the file has at least one line and its last line is solid *)
Definition last_line_solid (text : str) : bool :=
  match rev (split_lines text) with [] => false | l :: _ => solid l end.

Lemma forallb_not_existsb (p : chr -> bool) w : forallb p w = true -> existsb (fun c => negb (p c)) w = false.
Proof.
  induction w as [|c w IH]; cbn; [reflexivity|]. intros H. apply andb_true_iff in H as [H1 H2]. rewrite H1, (IH H2). reflexivity.
Qed.

Lemma trim_solid l : solid l = true -> solid (TrimTrailingWhitespace_call py_uni l) = true.
Proof.
  destruct l as [c t]. rewrite trim_exact_lemma. unfold solid. cbn [fst].
  destruct (rstrip_decomp py_ws c) as (w & Hc & Hw). intros H. rewrite Hc in H at 1. rewrite existsb_app in H.
  change (fun c0 : N => negb (ws_char c0)) with (fun c0 : N => negb (py_ws c0)) in *.
  rewrite (forallb_not_existsb py_ws w Hw), orb_false_r in H. exact H.
Qed.

Lemma solid_nonempty l : solid l = true -> empty_content l = false.
Proof. unfold solid, empty_content. destruct (fst l); [discriminate|reflexivity]. Qed.

Lemma limit_solid s l :
  (0 <=? LimitEmptyLines_max_empty_lines s)%Z = true -> solid l = true ->
  snd (LimitEmptyLines_call s l) = l /\ LimitEmptyLines_empty_line_count (fst (LimitEmptyLines_call s l)) = 0%Z /\
  LimitEmptyLines_max_empty_lines (fst (LimitEmptyLines_call s l)) = LimitEmptyLines_max_empty_lines s.
Proof.
  intros Hm Hs. apply Z.leb_le in Hm. pose proof (solid_nonempty l Hs) as He.
  destruct (limit_keeps_nonempty_lemma s l Hm He) as [H1 H2]. split; [exact H1|]. split; [|exact H2].
  unfold LimitEmptyLines_call, empty_content in *. rewrite length_zero_iff. destruct (fst l); [discriminate|].
  cbn. destruct (0 >? LimitEmptyLines_max_empty_lines s)%Z; reflexivity.
Qed.

Lemma limit_max_preserved s l :
  LimitEmptyLines_max_empty_lines (fst (LimitEmptyLines_call s l)) = LimitEmptyLines_max_empty_lines s.
Proof.
  unfold LimitEmptyLines_call. destruct (Z.of_nat (length (fst l)) =? 0)%Z; cbn;
    match goal with |- context [if ?c then _ else _] => destruct c end; reflexivity.
Qed.

Lemma pipe_step_wf ps : forall l, pps_wf ps = true -> pps_wf (fst (pipe_step ps l)) = true.
Proof.
  induction ps as [|p ps IH]; intros l H; cbn [pipe_step]; [reflexivity|].
  cbn [pps_wf forallb] in H. apply andb_true_iff in H as [Hp Hps].
  destruct (pp_step p l) as [p' l1] eqn:E. specialize (IH l1 Hps). destruct (pipe_step ps l1) as [ps'' l2]. cbn [fst] in *.
  cbn [pps_wf forallb]. fold (pps_wf ps''). rewrite IH, andb_true_r.
  destruct p as [|s]; cbn [pp_step] in E.
  - inversion E; subst. reflexivity.
  - destruct (LimitEmptyLines_call s l) as [s' l'] eqn:E2. inversion E; subst. cbn [pp_wf] in *.
    pose proof (limit_max_preserved s l) as Hm. rewrite E2 in Hm. cbn [fst] in Hm. rewrite Hm. exact Hp.
Qed.

Lemma pipe_step_solid ps : forall l, pps_wf ps = true -> solid l = true ->
  pps_clean (fst (pipe_step ps l)) = true /\ solid (snd (pipe_step ps l)) = true.
Proof.
  induction ps as [|p ps IH]; intros l H Hs; cbn [pipe_step]; [split; [reflexivity|exact Hs]|].
  cbn [pps_wf forallb] in H. apply andb_true_iff in H as [Hp Hps].
  destruct (pp_step p l) as [p' l1] eqn:E.
  assert (Hp' : pp_clean p' = true /\ solid l1 = true).
  { destruct p as [|s]; cbn [pp_step] in E.
    - inversion E; subst. split; [reflexivity|apply trim_solid, Hs].
    - destruct (LimitEmptyLines_call s l) as [s' l'] eqn:E2. inversion E; subst.
      destruct (limit_solid s l Hp Hs) as (A & B & _). rewrite E2 in A, B. cbn [fst snd] in A, B. subst l1.
      split; [cbn [pp_clean]; rewrite B; reflexivity | exact Hs]. }
  destruct Hp' as [Hc Hs1]. destruct (IH l1 Hps Hs1) as [I1 I2]. destruct (pipe_step ps l1) as [ps'' l2]. cbn [fst snd] in *.
  split; [|exact I2]. cbn [pps_clean forallb]. fold (pps_clean ps''). rewrite Hc, I1. reflexivity.
Qed.

Lemma linewise_from_wf ls : forall ps out, pps_wf ps = true -> pps_wf (fst (linewise_from pipe_step ps out ls)) = true.
Proof.
  induction ls as [|l ls IH]; intros ps out H; unfold linewise_from; cbn [fold_left fst snd]; [exact H|].
  assert (Hw : pps_wf (fst (emit pipe_step ps out l)) = true).
  { unfold emit. pose proof (pipe_step_wf ps l H) as H0. destruct (pipe_step ps l); exact H0. }
  destruct (emit pipe_step ps out l) as [ps' out']. cbn [fst snd] in *. exact (IH ps' out' Hw).
Qed.

(* one file: processors constructed with non-negative limits, last line solid => every counter is 0 after the file *)
Theorem file_end_clean_lemma (ps : list pp) (chunks : list str) :
  pps_wf ps = true -> last_line_solid (concat chunks) = true ->
  pps_clean (fst (write_builtin ps chunks)) = true /\ pps_wf (fst (write_builtin ps chunks)) = true.
Proof.
  intros Hw Hl. unfold write_builtin. rewrite write_rj_linewise. unfold linewise.
  split; [|apply linewise_from_wf, Hw].
  unfold last_line_solid in Hl. destruct (rev (split_lines (concat chunks))) as [|l r] eqn:E; [discriminate|].
  assert (Hsl : split_lines (concat chunks) = rev r ++ [l]) by (rewrite <- (rev_involutive (split_lines _)), E; reflexivity).
  rewrite Hsl. unfold linewise_from. rewrite fold_left_app. cbn [fold_left].
  fold (linewise_from pipe_step ps [] (rev r)).
  pose proof (linewise_from_wf (rev r) ps [] Hw) as Hw'.
  destruct (linewise_from pipe_step ps [] (rev r)) as [ps1 out1]. cbn [fst snd] in *.
  unfold emit. destruct (pipe_step_solid ps1 l Hw' Hl) as [Hc _]. destruct (pipe_step ps1 l) as [ps2 l2]. exact Hc.
Qed.
