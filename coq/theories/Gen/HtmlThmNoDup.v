(* C20 -- pairwise distinctness of the ids of a page: decimal printing is injective, names issued by the UniqueNameGenerator
   are fresh (threaded counter invariant), nesting occurrences are pairwise distinct. *)
From Verif Require Import HtmlModel HtmlThm HtmlThmTree HtmlThmLinks HtmlThmLinksAll HtmlThmOk HtmlThmIds.
Open Scope N_scope.

(* ---------- dec_of_N is injective ---------- *)
Fixpoint dval (l : str) : N :=
  match l with [] => 0 | c :: r => (c - 48) * 10 ^ (N.of_nat (length r)) + dval r end.

Lemma dec_fuel_val f : forall n acc, n < 10 ^ N.of_nat f -> dval (dec_fuel f n acc) = n * 10 ^ N.of_nat (length acc) + dval acc.
Proof.
  induction f as [|f IH]; intros n acc H.
  - cbn in H. assert (n = 0) by lia. subst n. reflexivity.
  - cbn [dec_fuel]. rewrite Nat2N.inj_succ, N.pow_succ_r' in H.
    assert (Hm : n mod 10 < 10) by (apply N.mod_lt; discriminate).
    assert (Hd : n = 10 * (n / 10) + n mod 10) by (apply N.div_mod; discriminate).
    assert (Hs : 48 + n mod 10 - 48 = n mod 10) by (rewrite N.add_comm; apply N.add_sub).
    destruct (N.eqb_spec (n / 10) 0) as [E|E].
    + cbn [dval]. rewrite Hs. rewrite E in Hd. rewrite Hd at 2. replace (10 * 0 + n mod 10) with (n mod 10) by ring. reflexivity.
    + rewrite IH.
      * cbn [dval length]. rewrite Nat2N.inj_succ, N.pow_succ_r', Hs.
        remember (n / 10) as q eqn:Eq. remember (n mod 10) as m eqn:Em. remember (10 ^ N.of_nat (length acc)) as P eqn:EP.
        rewrite Hd. ring.
      * apply N.div_lt_upper_bound; [discriminate|exact H].
Qed.

Lemma dec_of_N_val n : dval (dec_of_N n) = n.
Proof.
  unfold dec_of_N. rewrite dec_fuel_val; [cbn; ring|].
  destruct n as [|p]; [reflexivity|]. rewrite Nat2N.inj_succ, N2Nat.id.
  pose proof (N.log2_spec (N.pos p) eq_refl) as [_ H].
  eapply N.lt_le_trans; [exact H|]. apply N.pow_le_mono_l. lia.
Qed.

Theorem dec_of_N_inj a b : dec_of_N a = dec_of_N b -> a = b.
Proof. intros E. rewrite <- (dec_of_N_val a), <- (dec_of_N_val b), E. reflexivity. Qed.

(* ---------- unique decomposition base ++ digits when the base ends in a non-digit ---------- *)
Definition base_ok (b : str) : bool := match rev b with c :: _ => negb (is_digit c) | [] => false end.

Lemma split_digits b1 b2 d1 d2 :
  base_ok b1 = true -> base_ok b2 = true -> forallb is_digit d1 = true -> forallb is_digit d2 = true ->
  b1 ++ d1 = b2 ++ d2 -> b1 = b2 /\ d1 = d2.
Proof.
  intros B1 B2 D1 D2 E. apply (f_equal (@rev N)) in E. rewrite !rev_app_distr in E.
  assert (S1 : forall b d, base_ok b = true -> forallb is_digit d = true -> take_while is_digit (rev d ++ rev b) = rev d /\ drop_while is_digit (rev d ++ rev b) = rev b).
  { intros b d Hb Hd. unfold base_ok in Hb. split.
    - apply take_while_app_stop; [rewrite forallb_rev; exact Hd|]. destruct (rev b); [discriminate|exact Hb].
    - rewrite drop_while_pref_all by (rewrite forallb_rev; exact Hd). destruct (rev b) as [|c r]; [discriminate|]. cbn.
      destruct (is_digit c); [discriminate|reflexivity]. }
  destruct (S1 b1 d1 B1 D1) as [T1 R1]. destruct (S1 b2 d2 B2 D2) as [T2 R2]. rewrite E in T1, R1.
  assert (Eb : rev b1 = rev b2) by exact (eq_trans (eq_sym R1) R2).
  assert (Ed : rev d1 = rev d2) by exact (eq_trans (eq_sym T1) T2).
  split; [rewrite <- (rev_involutive b1), Eb | rewrite <- (rev_involutive d1), Ed]; apply rev_involutive.
Qed.

(* ---------- the UniqueNameGenerator: counters, issued names, freshness ---------- *)
Definition k_html : str := [104; 116; 109; 108].
Definition cnt (st : ung) (b : str) : N :=
  match amap_get k_html st with Some m => match amap_get b m with Some i => i | None => 0 end | None => 0 end.

Lemma amap_get_set_same {V} k (v : V) m : amap_get k (amap_set k v m) = Some v.
Proof.
  induction m as [|[k' v'] m IH]; cbn; [rewrite str_eqb_refl; reflexivity|].
  destruct (str_eqb k k') eqn:E; cbn; [rewrite str_eqb_refl; reflexivity|rewrite E; exact IH].
Qed.
Lemma amap_get_set_other {V} k k2 (v : V) m : str_eqb k2 k = false -> amap_get k2 (amap_set k v m) = amap_get k2 m.
Proof.
  intros H. induction m as [|[k' v'] m IH]; cbn; [rewrite H; reflexivity|].
  destruct (str_eqb k k') eqn:E; cbn.
  - destruct (str_eqb_spec k k') as [Ek|]; [subst k'|discriminate]. rewrite H. reflexivity.
  - destruct (str_eqb k2 k'); [reflexivity|exact IH].
Qed.

Definition call (st : ung) (b : str) := ung_call st k_html b [] [].

Lemma call_name st b : snd (call st b) = b ++ dec_of_N (cnt st b).
Proof. unfold call, ung_call, cnt. cbn [snd app]. rewrite app_nil_r. destruct (amap_get k_html st) as [m|]; [|reflexivity]. reflexivity. Qed.
Lemma call_cnt_same st b : cnt (fst (call st b)) b = cnt st b + 1.
Proof.
  unfold call, ung_call, cnt. cbn [fst]. rewrite amap_get_set_same, amap_get_set_same.
  destruct (amap_get k_html st) as [m|]; [destruct (amap_get b m)|]; reflexivity.
Qed.
Lemma call_cnt_other st b b2 : str_eqb b2 b = false -> cnt (fst (call st b)) b2 = cnt st b2.
Proof.
  intros H. unfold call, ung_call, cnt. cbn [fst]. rewrite amap_get_set_same, (amap_get_set_other _ _ _ _ H).
  destruct (amap_get k_html st) as [m|]; reflexivity.
Qed.
Lemma call_cnt_mono st b b2 : cnt st b2 <= cnt (fst (call st b)) b2.
Proof.
  destruct (str_eqb b2 b) eqn:E.
  - destruct (str_eqb_spec b2 b) as [Eb|]; [subst b2|discriminate]. rewrite call_cnt_same. lia.
  - rewrite (call_cnt_other _ _ _ E). lia.
Qed.

(* names the generator has handed out so far (for bases that end in a non-digit) *)
Definition issued (st : ung) (x : str) : Prop := exists b k, base_ok b = true /\ x = b ++ dec_of_N k /\ k < cnt st b.

Lemma call_fresh st b : base_ok b = true -> ~ issued st (snd (call st b)).
Proof.
  intros Hb (b2 & k & Hb2 & E & Hk). rewrite call_name in E.
  destruct (split_digits _ _ _ _ Hb Hb2 (dec_N_digits _) (dec_N_digits _) E) as [<- Ed]. apply dec_of_N_inj in Ed. lia.
Qed.
Lemma call_issued st b : base_ok b = true -> issued (fst (call st b)) (snd (call st b)).
Proof. intros Hb. exists b, (cnt st b). split; [exact Hb|]. split; [apply call_name|]. rewrite call_cnt_same. lia. Qed.
Lemma call_issued_mono st b x : issued st x -> issued (fst (call st b)) x.
Proof. intros (b2 & k & H1 & H2 & H3). exists b2, k. split; [exact H1|]. split; [exact H2|]. eapply N.lt_le_trans; [exact H3|apply call_cnt_mono]. Qed.

(* a run of the generator over any sequence of bases *)
Fixpoint call_seq (st : ung) (bs : list str) : ung * list str :=
  match bs with
  | [] => (st, [])
  | b :: r => let c := call st b in let rr := call_seq (fst c) r in (fst rr, snd c :: snd rr)
  end.

Lemma call_seq_inv bs : forall st, forallb base_ok bs = true ->
  NoDup (snd (call_seq st bs))
  /\ (forall x, In x (snd (call_seq st bs)) -> ~ issued st x /\ issued (fst (call_seq st bs)) x)
  /\ (forall x, issued st x -> issued (fst (call_seq st bs)) x).
Proof.
  induction bs as [|b r IH]; intros st H.
  - cbn. split; [constructor|]. split; [intros x []|auto].
  - cbn [forallb] in H. apply andb_prop in H as [Hb Hr]. cbn [call_seq]. cbv zeta. cbn [fst snd].
    destruct (IH (fst (call st b)) Hr) as (N & F & M). split; [|split].
    + constructor; [|exact N]. intros Hin. destruct (F _ Hin) as [Hn _]. apply Hn, call_issued, Hb.
    + intros x [<-|Hin].
      * split; [apply call_fresh, Hb|apply M, call_issued, Hb].
      * destruct (F _ Hin) as [Hn Hi]. split; [|exact Hi]. intros Hx. apply Hn, call_issued_mono, Hx.
    + intros x Hx. apply M, call_issued_mono, Hx.
Qed.

(* THREADED COUNTER INVARIANT: whatever the start state and whatever the sequence of bases (each ending in a non-digit), the
   names handed out are pairwise distinct and distinct from every name handed out before *)
Theorem call_seq_nodup st bs : forallb base_ok bs = true -> NoDup (snd (call_seq st bs)).
Proof. intros H. exact (proj1 (call_seq_inv bs st H)). Qed.

(* make_unique is such a call, and the bases type_info.j2 passes (tag id ++ "-n") end in a non-digit *)
Definition mu_base (tok : str) : str :=
  html_escape (if (Z.of_nat (length tok) >? 0)%Z then py_lower_ascii (firstn 1 (skipn 0 tok)) ++ skipn 1 tok else tok).
Lemma make_unique_is_call st tok : filter_make_unique st tok = call st (mu_base tok).
Proof. unfold filter_make_unique, mu_base, call. destruct (Z.gtb _ _); reflexivity. Qed.
Lemma mu_base_ok s : base_ok (mu_base (s ++ s_dash_n)) = true.
Proof.
  assert (G : forall X, base_ok (html_escape (X ++ s_dash_n)) = true).
  { intros X. unfold base_ok. rewrite html_escape_app, rev_app_distr. reflexivity. }
  unfold mu_base. destruct (Z.gtb _ _); [|apply G]. destruct s as [|c r]; [exact (G [])|]. exact (G (ascii_lower_chr c :: r)).
Qed.

Fixpoint mu_seq (st : ung) (toks : list str) : ung * list str :=
  match toks with
  | [] => (st, [])
  | t :: r => let c := filter_make_unique st (t ++ nested_id_sep) in let rr := mu_seq (fst c) r in (fst rr, snd c :: snd rr)
  end.

Theorem make_unique_sequence_nodup st toks : nested_id_sep = s_dash_n -> NoDup (snd (mu_seq st toks)).
Proof.
  intros Hsep. assert (E : forall toks st, mu_seq st toks = call_seq st (map (fun t => mu_base (t ++ s_dash_n)) toks)).
  { induction toks0 as [|t r IH]; intros st0; [reflexivity|]. cbn [mu_seq map call_seq]. rewrite Hsep, make_unique_is_call, IH. reflexivity. }
  rewrite E. apply call_seq_nodup. induction toks as [|t r IH]; [reflexivity|]. cbn [map forallb]. rewrite mu_base_ok. exact IH.
Qed.
