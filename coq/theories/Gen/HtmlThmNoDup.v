(* C20 -- pairwise distinctness of the ids of a page: decimal printing is injective, names issued by the UniqueNameGenerator
   are fresh (threaded counter invariant), nesting occurrences are pairwise distinct. *)
From Verif Require Import HtmlModel HtmlThm HtmlThmTree HtmlThmLinks HtmlThmLinksAll HtmlThmOk HtmlThmIds.
Open Scope N_scope.

(* ---------- dec_of_N is injective ---------- *)
Fixpoint dval (l : str) : N :=
  match l with [] => 0 | c :: r => (c - 48) * 10 ^ (N.of_nat (length r)) + dval r end.

Lemma dec_fuel_val f : forall n acc, n < 10 ^ N.of_nat f -> dval (dec_fuel f n acc) = n * 10 ^ N.of_nat (length acc) + dval acc.
Proof.
  induction f as [|f IH]; intros n acc H.
  - cbn in H. assert (n = 0) by lia. subst n. reflexivity.
  - cbn [dec_fuel]. rewrite Nat2N.inj_succ, N.pow_succ_r' in H.
    assert (Hm : n mod 10 < 10) by (apply N.mod_lt; discriminate).
    assert (Hd : n = 10 * (n / 10) + n mod 10) by (apply N.div_mod; discriminate).
    assert (Hs : 48 + n mod 10 - 48 = n mod 10) by (rewrite N.add_comm; apply N.add_sub).
    destruct (N.eqb_spec (n / 10) 0) as [E|E].
    + cbn [dval]. rewrite Hs. rewrite E in Hd. rewrite Hd at 2. replace (10 * 0 + n mod 10) with (n mod 10) by ring. reflexivity.
    + rewrite IH.
      * cbn [dval length]. rewrite Nat2N.inj_succ, N.pow_succ_r', Hs.
        remember (n / 10) as q eqn:Eq. remember (n mod 10) as m eqn:Em. remember (10 ^ N.of_nat (length acc)) as P eqn:EP.
        rewrite Hd. ring.
      * apply N.div_lt_upper_bound; [discriminate|exact H].
Qed.

Lemma dec_of_N_val n : dval (dec_of_N n) = n.
Proof.
  unfold dec_of_N. rewrite dec_fuel_val; [cbn; ring|].
  destruct n as [|p]; [reflexivity|]. rewrite Nat2N.inj_succ, N2Nat.id.
  pose proof (N.log2_spec (N.pos p) eq_refl) as [_ H].
  eapply N.lt_le_trans; [exact H|]. apply N.pow_le_mono_l. lia.
Qed.

Theorem dec_of_N_inj a b : dec_of_N a = dec_of_N b -> a = b.
Proof. intros E. rewrite <- (dec_of_N_val a), <- (dec_of_N_val b), E. reflexivity. Qed.

(* ---------- unique decomposition base ++ digits when the base ends in a non-digit ---------- *)
Definition base_ok (b : str) : bool := match rev b with c :: _ => negb (is_digit c) | [] => false end.

Lemma split_digits b1 b2 d1 d2 :
  base_ok b1 = true -> base_ok b2 = true -> forallb is_digit d1 = true -> forallb is_digit d2 = true ->
  b1 ++ d1 = b2 ++ d2 -> b1 = b2 /\ d1 = d2.
Proof.
  intros B1 B2 D1 D2 E. apply (f_equal (@rev N)) in E. rewrite !rev_app_distr in E.
  assert (S1 : forall b d, base_ok b = true -> forallb is_digit d = true -> take_while is_digit (rev d ++ rev b) = rev d /\ drop_while is_digit (rev d ++ rev b) = rev b).
  { intros b d Hb Hd. unfold base_ok in Hb. split.
    - apply take_while_app_stop; [rewrite forallb_rev; exact Hd|]. destruct (rev b); [discriminate|exact Hb].
    - rewrite drop_while_pref_all by (rewrite forallb_rev; exact Hd). destruct (rev b) as [|c r]; [discriminate|]. cbn.
      destruct (is_digit c); [discriminate|reflexivity]. }
  destruct (S1 b1 d1 B1 D1) as [T1 R1]. destruct (S1 b2 d2 B2 D2) as [T2 R2]. rewrite E in T1, R1.
  assert (Eb : rev b1 = rev b2) by exact (eq_trans (eq_sym R1) R2).
  assert (Ed : rev d1 = rev d2) by exact (eq_trans (eq_sym T1) T2).
  split; [rewrite <- (rev_involutive b1), Eb | rewrite <- (rev_involutive d1), Ed]; apply rev_involutive.
Qed.

(* ---------- the UniqueNameGenerator: counters, issued names, freshness ---------- *)
Definition k_html : str := [104; 116; 109; 108].
Definition cnt (st : ung) (b : str) : N :=
  match amap_get k_html st with Some m => match amap_get b m with Some i => i | None => 0 end | None => 0 end.

Lemma amap_get_set_same {V} k (v : V) m : amap_get k (amap_set k v m) = Some v.
Proof.
  induction m as [|[k' v'] m IH]; cbn; [rewrite str_eqb_refl; reflexivity|].
  destruct (str_eqb k k') eqn:E; cbn; [rewrite str_eqb_refl; reflexivity|rewrite E; exact IH].
Qed.
Lemma amap_get_set_other {V} k k2 (v : V) m : str_eqb k2 k = false -> amap_get k2 (amap_set k v m) = amap_get k2 m.
Proof.
  intros H. induction m as [|[k' v'] m IH]; cbn; [rewrite H; reflexivity|].
  destruct (str_eqb k k') eqn:E; cbn.
  - destruct (str_eqb_spec k k') as [Ek|]; [subst k'|discriminate]. rewrite H. reflexivity.
  - destruct (str_eqb k2 k'); [reflexivity|exact IH].
Qed.

Definition call (st : ung) (b : str) := ung_call st k_html b [] [].

Lemma call_name st b : snd (call st b) = b ++ dec_of_N (cnt st b).
Proof. unfold call, ung_call, cnt. cbn [snd app]. rewrite app_nil_r. destruct (amap_get k_html st) as [m|]; [|reflexivity]. reflexivity. Qed.
Lemma call_cnt_same st b : cnt (fst (call st b)) b = cnt st b + 1.
Proof.
  unfold call, ung_call, cnt. cbn [fst]. rewrite amap_get_set_same, amap_get_set_same.
  destruct (amap_get k_html st) as [m|]; [destruct (amap_get b m)|]; reflexivity.
Qed.
Lemma call_cnt_other st b b2 : str_eqb b2 b = false -> cnt (fst (call st b)) b2 = cnt st b2.
Proof.
  intros H. unfold call, ung_call, cnt. cbn [fst]. rewrite amap_get_set_same, (amap_get_set_other _ _ _ _ H).
  destruct (amap_get k_html st) as [m|]; reflexivity.
Qed.
Lemma call_cnt_mono st b b2 : cnt st b2 <= cnt (fst (call st b)) b2.
Proof.
  destruct (str_eqb b2 b) eqn:E.
  - destruct (str_eqb_spec b2 b) as [Eb|]; [subst b2|discriminate]. rewrite call_cnt_same. lia.
  - rewrite (call_cnt_other _ _ _ E). lia.
Qed.

(* names the generator has handed out so far (for bases that end in a non-digit) *)
Definition issued (st : ung) (x : str) : Prop := exists b k, base_ok b = true /\ x = b ++ dec_of_N k /\ k < cnt st b.

Lemma call_fresh st b : base_ok b = true -> ~ issued st (snd (call st b)).
Proof.
  intros Hb (b2 & k & Hb2 & E & Hk). rewrite call_name in E.
  destruct (split_digits _ _ _ _ Hb Hb2 (dec_N_digits _) (dec_N_digits _) E) as [<- Ed]. apply dec_of_N_inj in Ed. lia.
Qed.
Lemma call_issued st b : base_ok b = true -> issued (fst (call st b)) (snd (call st b)).
Proof. intros Hb. exists b, (cnt st b). split; [exact Hb|]. split; [apply call_name|]. rewrite call_cnt_same. lia. Qed.
Lemma call_issued_mono st b x : issued st x -> issued (fst (call st b)) x.
Proof. intros (b2 & k & H1 & H2 & H3). exists b2, k. split; [exact H1|]. split; [exact H2|]. eapply N.lt_le_trans; [exact H3|apply call_cnt_mono]. Qed.

(* a run of the generator over any sequence of bases *)
Fixpoint call_seq (st : ung) (bs : list str) : ung * list str :=
  match bs with
  | [] => (st, [])
  | b :: r => let c := call st b in let rr := call_seq (fst c) r in (fst rr, snd c :: snd rr)
  end.

Lemma call_seq_inv bs : forall st, forallb base_ok bs = true ->
  NoDup (snd (call_seq st bs))
  /\ (forall x, In x (snd (call_seq st bs)) -> ~ issued st x /\ issued (fst (call_seq st bs)) x)
  /\ (forall x, issued st x -> issued (fst (call_seq st bs)) x).
Proof.
  induction bs as [|b r IH]; intros st H.
  - cbn. split; [constructor|]. split; [intros x []|auto].
  - cbn [forallb] in H. apply andb_prop in H as [Hb Hr]. cbn [call_seq]. cbv zeta. cbn [fst snd].
    destruct (IH (fst (call st b)) Hr) as (N & F & M). split; [|split].
    + constructor; [|exact N]. intros Hin. destruct (F _ Hin) as [Hn _]. apply Hn, call_issued, Hb.
    + intros x [<-|Hin].
      * split; [apply call_fresh, Hb|apply M, call_issued, Hb].
      * destruct (F _ Hin) as [Hn Hi]. split; [|exact Hi]. intros Hx. apply Hn, call_issued_mono, Hx.
    + intros x Hx. apply M, call_issued_mono, Hx.
Qed.

(* THREADED COUNTER INVARIANT: whatever the start state and whatever the sequence of bases (each ending in a non-digit), the
   names handed out are pairwise distinct and distinct from every name handed out before *)
Theorem call_seq_nodup st bs : forallb base_ok bs = true -> NoDup (snd (call_seq st bs)).
Proof. intros H. exact (proj1 (call_seq_inv bs st H)). Qed.

(* make_unique is such a call, and the bases type_info.j2 passes (tag id ++ "-n") end in a non-digit *)
Definition mu_base (tok : str) : str :=
  html_escape (if (Z.of_nat (length tok) >? 0)%Z then py_lower_ascii (firstn 1 (skipn 0 tok)) ++ skipn 1 tok else tok).
Lemma make_unique_is_call st tok : filter_make_unique st tok = call st (mu_base tok).
Proof. unfold filter_make_unique, mu_base, call. destruct (Z.gtb _ _); reflexivity. Qed.
Lemma mu_base_ok s : base_ok (mu_base (s ++ s_dash_n)) = true.
Proof.
  assert (G : forall X, base_ok (html_escape (X ++ s_dash_n)) = true).
  { intros X. unfold base_ok. rewrite html_escape_app, rev_app_distr. reflexivity. }
  unfold mu_base. destruct (Z.gtb _ _); [|apply G]. destruct s as [|c r]; [exact (G [])|]. exact (G (ascii_lower_chr c :: r)).
Qed.

Fixpoint mu_seq (st : ung) (toks : list str) : ung * list str :=
  match toks with
  | [] => (st, [])
  | t :: r => let c := filter_make_unique st (t ++ nested_id_sep) in let rr := mu_seq (fst c) r in (fst rr, snd c :: snd rr)
  end.

Theorem make_unique_sequence_nodup st toks : nested_id_sep = s_dash_n -> NoDup (snd (mu_seq st toks)).
Proof.
  intros Hsep. assert (E : forall toks st, mu_seq st toks = call_seq st (map (fun t => mu_base (t ++ s_dash_n)) toks)).
  { induction toks0 as [|t r IH]; intros st0; [reflexivity|]. cbn [mu_seq map call_seq]. rewrite Hsep, make_unique_is_call, IH. reflexivity. }
  rewrite E. apply call_seq_nodup. induction toks as [|t r IH]; [reflexivity|]. cbn [map forallb]. rewrite mu_base_ok. exact IH.
Qed.

(* ====================================================================================================== *)
(* page level: the ids of the emitter are EXACTLY the plain ids interleaved with one make_unique sequence  *)
(* ====================================================================================================== *)
Opaque nested_id_sep.
Ltac nilr := repeat match goal with |- context [?l ++ @nil (list N)] => rewrite (app_nil_r l) end.

Lemma mu_seq_app a : forall st b,
  mu_seq st (a ++ b) = (fst (mu_seq (fst (mu_seq st a)) b), snd (mu_seq st a) ++ snd (mu_seq (fst (mu_seq st a)) b)).
Proof.
  induction a as [|t r IH]; intros st b; [cbn; destruct (mu_seq st b); reflexivity|].
  cbn [app mu_seq]. cbv zeta. rewrite IH. reflexivity.
Qed.

Definition top (t : ty) : list str :=
  match t with Comp c _ => [filter_tag_id (ci_t c)] | Arr es _ _ _ => [filter_tag_id (arr_tinfo es)] | Prim _ => [] end.
Fixpoint toks_ty (t : ty) (nested : bool) {struct t} : list str :=
  match t with
  | Prim _ => []
  | Comp c a => (if nested then [filter_tag_id (ci_t c)] else []) ++ toks_attrs a
  | Arr es _ _ e => (if nested then [filter_tag_id (arr_tinfo es)] else []) ++ toks_ty e true
  end
with toks_attrs (a : attrs) {struct a} : list str :=
  match a with
  | ANil => []
  | ANested _ _ t r => toks_ty t true ++ toks_attrs r
  | APlain _ _ _ _ r => toks_attrs r
  end.

Lemma emit_attrs_nested cf up st nm doc t rest :
  emit_attrs cf up st (ANested nm doc t rest)
  = (fst (emit_attrs cf up (fst (emit_ty cf up st t nm true)) rest),
     snd (emit_ty cf up st t nm true) ++ doc_pre (de_ti cf) [(k_class, s_docs)] doc ++ snd (emit_attrs cf up (fst (emit_ty cf up st t nm true)) rest)).
Proof. reflexivity. Qed.

Section Exact.
Variable cf : cfg.
Variable up : str.
Notation B := (ae_ti cf).

Lemma emit_ty_exact :
  (forall t st nm nested,
     fst (emit_ty cf up st t nm nested) = fst (mu_seq st (toks_ty t nested))
     /\ ids (snd (emit_ty cf up st t nm nested)) = map (tx B) ((if nested then [] else top t) ++ snd (mu_seq st (toks_ty t nested))))
  /\ (forall a st,
        fst (emit_attrs cf up st a) = fst (mu_seq st (toks_attrs a))
        /\ ids (snd (emit_attrs cf up st a)) = map (tx B) (snd (mu_seq st (toks_attrs a)))).
Proof.
  apply ty_attrs_ind.
  - intros c a IHa st nm nested. cbn [emit_ty]. cbv zeta. cbn [fst snd].
    destruct nested.
    + split.
      * cbn [toks_ty app mu_seq]. cbv zeta. cbn [fst]. destruct a; [reflexivity|exact (proj1 (IHa _))|exact (proj1 (IHa _))].
      * rewrite !vals_of_app, !vals_of_elem, !vals_of_app;
        rewrite (ids_opt (ci_port c)), !ids_if, ids_docp, ids_toggle by reflexivity;
        change (attr_vals k_id [(k_class, dep_class (ae_ti cf) (ci_deprecated c))]) with (@nil str);
        match goal with |- context [attr_vals k_id [(k_class, ?x); (k_id, ?y)]] =>
          change (attr_vals k_id [(k_class, x); (k_id, y)]) with [y] end;
        cbn [app]; nilr; rewrite ?vals_of_elem; cbn [app vals_of flat_map attr_vals]; nilr;
        try change (str_eqb k_id k_href) with false; cbv iota; cbn [app toks_ty top mu_seq]; cbv zeta; cbn [fst snd map].
        f_equal. destruct a; [reflexivity|exact (proj2 (IHa _))|exact (proj2 (IHa _))].
    + split.
      * cbn [toks_ty app]. destruct a; [reflexivity|exact (proj1 (IHa _))|exact (proj1 (IHa _))].
      * rewrite !vals_of_app, !vals_of_elem, !vals_of_app;
        rewrite (ids_opt (ci_port c)), !ids_if, ids_docp, ids_toggle by reflexivity;
        change (attr_vals k_id [(k_class, dep_class (ae_ti cf) (ci_deprecated c))]) with (@nil str);
        match goal with |- context [attr_vals k_id [(k_class, ?x); (k_id, ?y)]] =>
          change (attr_vals k_id [(k_class, x); (k_id, y)]) with [y] end;
        cbn [app]; nilr; rewrite ?vals_of_elem; cbn [app vals_of flat_map attr_vals]; nilr;
        try change (str_eqb k_id k_href) with false; cbv iota; cbn [app toks_ty top]; cbn [map].
        f_equal. destruct a; [reflexivity|exact (proj2 (IHa _))|exact (proj2 (IHa _))].
  - intros es dep d e IHe st nm nested. cbn [emit_ty]. cbv zeta. cbn [fst snd].
    destruct nested; (split; [cbn [toks_ty app mu_seq]; cbv zeta; cbn [fst]; exact (proj1 (IHe _ _ _))|]);
      rewrite !vals_of_app, !vals_of_elem, !vals_of_app;
      rewrite ids_toggle, (ids_tx_markup _ _ (ids_disp_type _)), ids_span;
      change (attr_vals k_id [(k_class, dep_class (ae_ti cf) dep)]) with (@nil str);
      match goal with |- context [attr_vals k_id [(k_class, ?x); (k_id, ?y)]] => change (attr_vals k_id [(k_class, x); (k_id, y)]) with [y] end;
      cbn [app vals_of flat_map attr_vals]; nilr; cbn [app toks_ty top mu_seq]; cbv zeta; cbn [fst snd map]; f_equal; exact (proj2 (IHe _ _ _)).
  - intros s st nm nested. cbn [emit_ty fst snd toks_ty top mu_seq]. destruct nested; split; reflexivity.
  - intros st. split; reflexivity.
  - intros nm doc t IHt rest IHr st. rewrite emit_attrs_nested. cbn [fst snd toks_attrs]. rewrite mu_seq_app. cbn [fst snd].
    destruct (IHt st nm true) as [F1 I1]. cbn [app] in I1. rewrite <- F1. destruct (IHr (fst (emit_ty cf up st t nm true))) as [F2 I2].
    split; [exact F2|]. rewrite !vals_of_app, ids_doc_docs, I1, I2, map_app. reflexivity.
  - intros di isf lb doc rest IHr st. cbn [emit_attrs]. cbv zeta. cbn [fst snd toks_attrs]. destruct (IHr st) as [F2 I2].
    split; [exact F2|]. rewrite !vals_of_app, !vals_of_elem, !vals_of_app, ids_doc_docs.
    rewrite (ids_tx_markup _ _ (ids_disp_inst _)), ids_if by reflexivity. cbn [app]. exact I2.
Qed.
End Exact.

(* ---------- filters ---------- *)
Notation np := (fun x => negb (nested_shape x)).
Lemma filter_all {A} (p : A -> bool) l : forallb p l = true -> filter p l = l /\ filter (fun x => negb (p x)) l = [].
Proof.
  induction l as [|x l IH]; intros H; [split; reflexivity|]. cbn in *. apply andb_prop in H as [Hx Hl]. rewrite Hx. cbn.
  destruct (IH Hl) as [E1 E2]. rewrite E1, E2. split; reflexivity.
Qed.
Lemma filter_none {A} (p : A -> bool) l : forallb (fun x => negb (p x)) l = true -> filter p l = [] /\ filter (fun x => negb (p x)) l = l.
Proof.
  induction l as [|x l IH]; intros H; [split; reflexivity|]. cbn in *. apply andb_prop in H as [Hx Hl].
  destruct (p x); [discriminate|]. cbn. destruct (IH Hl) as [E1 E2]. rewrite E1, E2. split; reflexivity.
Qed.
Lemma map_tx_false l : map (tx false) l = l.
Proof. induction l as [|x l IH]; [reflexivity|]. cbn. rewrite IH. reflexivity. Qed.

Lemma mu_seq_all_nested st toks : nested_id_sep = s_dash_n -> forallb nested_shape (snd (mu_seq st toks)) = true.
Proof.
  intros Hsep. revert st. induction toks as [|t r IH]; intros st; [reflexivity|]. cbn [mu_seq]. cbv zeta. cbn [snd forallb].
  rewrite Hsep at 1. rewrite make_unique_shape. apply IH.
Qed.

Lemma ns_id_not_nested name : nested_shape (ns_id name) = false.
Proof. unfold nested_shape, ns_id. rewrite ns_scheme_now, rev_app_distr. reflexivity. Qed.

Lemma tag_not_nested t : ti_is_array t = false -> version_ok t = true -> nested_shape (filter_tag_id t) = false.
Proof.
  intros Harr Hv. destruct (version_ok_spec _ Hv) as [_ [Mi _]]. rewrite (tag_id_shape (proj1 id_scheme_now) t Harr). unfold dash_shape, nested_shape.
  rewrite rev_app_distr. cbn [rev]. rewrite <- app_assoc.
  rewrite (drop_while_pref_all is_digit _ _ (eq_trans (forallb_rev _ _) (dec_Z_digits _ Mi))). reflexivity.
Qed.

(* ---------- types of one namespace ---------- *)
Definition toks_types (ts : list (str * ty)) : list str :=
  flat_map (fun e => if str_eqb (fst e) namespace_doc_key then [] else toks_ty (snd e) false) ts.
Definition plain_types (ts : list (str * ty)) : list str := map (fun c => filter_tag_id (ci_t c)) (listed ts).
Definition type_ok (c : cinfo) : Prop := ti_is_array (ci_t c) = false /\ version_ok (ci_t c) = true.

Section Levels.
Variable cf : cfg.
Hypothesis Hti : ae_ti cf = false.
Hypothesis Hni : ae_ni cf = false.
Hypothesis Hsb : ae_sb cf = false.
Variable up : str.
Let Hsep := proj2 id_scheme_now.

Lemma emit_types_exact ts : forallb (fun e => is_comp (snd e)) ts = true -> (forall c, In c (listed ts) -> type_ok c) ->
  forall st, fst (emit_types cf up st ts) = fst (mu_seq st (toks_types ts))
             /\ filter nested_shape (ids (snd (emit_types cf up st ts))) = snd (mu_seq st (toks_types ts))
             /\ filter np (ids (snd (emit_types cf up st ts))) = plain_types ts.
Proof.
  induction ts as [|[sn t] r IH]; intros Hc Hok st; [repeat split; reflexivity|].
  cbn [forallb snd] in Hc. apply andb_prop in Hc as [Ht Hr]. unfold listed in Hok. cbn [flat_map fst snd] in Hok. fold (listed r) in Hok.
  unfold toks_types, plain_types, listed. cbn [flat_map fst snd emit_types]. fold (listed r). fold (toks_types r).
  destruct (str_eqb sn namespace_doc_key).
  - cbn [app]. apply IH; [exact Hr|]. intros c Hin. apply Hok. exact Hin.
  - destruct t as [c a| |]; try discriminate Ht. cbn [comp_info app map]. cbv zeta. cbn [fst snd].
    destruct (proj1 (emit_ty_exact cf up) (Comp c a) st [] false) as [F1 I1]. cbn [top app] in I1. rewrite Hti, map_tx_false in I1.
    assert (Hin : type_ok c) by (apply Hok; left; reflexivity). destruct Hin as [Ha Hv].
    destruct (IH Hr (fun c0 H0 => Hok c0 (or_intror H0)) (fst (emit_ty cf up st (Comp c a) [] false))) as (F2 & P2 & Q2).
    rewrite mu_seq_app. cbn [fst snd]. rewrite <- F1. split; [exact F2|].
    rewrite vals_of_app, !filter_app, I1, P2, Q2. cbn [filter]. rewrite (tag_not_nested _ Ha Hv). cbn [negb].
    destruct (filter_all nested_shape _ (mu_seq_all_nested st (toks_ty (Comp c a) false) Hsep)) as [A B]. rewrite A, B.
    split; reflexivity.
Qed.
End Levels.

(* ---------- namespace trees ---------- *)
Fixpoint toks_ns (n : nst) : list str := match n with NS _ _ ts subs => toks_types ts ++ toks_nsl subs end
with toks_nsl (l : nsl) : list str := match l with NNil => [] | NCons n r => toks_ns n ++ toks_nsl r end.
Fixpoint plain_ns (n : nst) : list str := match n with NS name _ ts subs => ns_id name :: plain_types ts ++ plain_nsl subs end
with plain_nsl (l : nsl) : list str := match l with NNil => [] | NCons n r => plain_ns n ++ plain_nsl r end.

Lemma emit_ns_unfold cf up st name docs types subs :
  emit_ns cf up st (NS name docs types subs)
  = (fst (emit_nsl cf up (fst (emit_types cf up st types)) subs),
     elem t_p [(k_class, s_fstitalic)] (toggle_anchor (ae_ni cf) s_jsvoid2 (ns_id name) s_toggle2 ++ [PText (tx (ae_ni cf) name)])
     ++ elem t_div [(k_class, s_collapse_ns); (k_id, tx (ae_ni cf) (ns_id name))]
          (match filter_namespace_doc docs with [] => [] | _ => doc_pre (de_ni cf) [] (filter_namespace_doc docs) end
           ++ snd (emit_types cf up st types) ++ snd (emit_nsl cf up (fst (emit_types cf up st types)) subs))).
Proof. reflexivity. Qed.
Lemma emit_nsl_cons cf up st n r :
  emit_nsl cf up st (NCons n r)
  = (fst (emit_nsl cf up (fst (emit_ns cf up st n)) r), snd (emit_ns cf up st n) ++ snd (emit_nsl cf up (fst (emit_ns cf up st n)) r)).
Proof. reflexivity. Qed.
Lemma emit_sidebar_unfold cf name docs types subs :
  emit_sidebar cf (NS name docs types subs)
  = elem t_p [(k_class, s_textnowrap)]
      (elem t_a [(k_target, s_hash ++ tx (ae_sb cf) (ns_id name) ++ s_sidebar_sfx);
                 (k_onclick, s_toggle1 ++ tx (ae_sb cf) (ns_id name) ++ s_sidebar_sfx ++ s_toggle2_sidebar);
                 (k_controls, tx (ae_sb cf) (ns_id name) ++ s_sidebar_sfx)] [PText s_plus]
       ++ elem t_a [(k_href, s_hash ++ tx (ae_sb cf) (ns_id name)); (k_class, s_sidebar_a_cls)] [PText (tx (ae_sb cf) name)])
    ++ elem t_div [(k_class, s_collapse); (k_id, tx (ae_sb cf) (ns_id name) ++ s_sidebar_sfx)]
         (match filter_namespace_doc docs with [] => [] | _ => doc_pre (de_sb cf) [] (filter_namespace_doc docs) end
          ++ sidebar_types cf types ++ emit_sidebar_l cf subs).
Proof. reflexivity. Qed.

Fixpoint types_ok_ns (n : nst) : Prop :=
  match n with NS _ _ ts subs => (forall c, In c (listed ts) -> type_ok c) /\ types_ok_nsl subs end
with types_ok_nsl (l : nsl) : Prop := match l with NNil => True | NCons n r => types_ok_ns n /\ types_ok_nsl r end.

Section Levels2.
Variable cf : cfg.
Hypothesis Hti : ae_ti cf = false.
Hypothesis Hni : ae_ni cf = false.
Hypothesis Hsb : ae_sb cf = false.
Variable up : str.
Let Hsep := proj2 id_scheme_now.

Lemma ids_doc_opt (b : bool) (d : str) : ids (match d with [] => [] | _ => doc_pre b [] d end) = [].
Proof. destruct d; reflexivity. Qed.

Lemma emit_ns_exact :
  (forall n st, tops_ok n = true -> types_ok_ns n ->
     fst (emit_ns cf up st n) = fst (mu_seq st (toks_ns n))
     /\ filter nested_shape (ids (snd (emit_ns cf up st n))) = snd (mu_seq st (toks_ns n))
     /\ filter np (ids (snd (emit_ns cf up st n))) = plain_ns n)
  /\ (forall l st, tops_ok_l l = true -> types_ok_nsl l ->
        fst (emit_nsl cf up st l) = fst (mu_seq st (toks_nsl l))
        /\ filter nested_shape (ids (snd (emit_nsl cf up st l))) = snd (mu_seq st (toks_nsl l))
        /\ filter np (ids (snd (emit_nsl cf up st l))) = plain_nsl l).
Proof.
  apply nst_nsl_ind.
  - intros name docs types subs IH st Hok Hty. cbn [tops_ok] in Hok. apply andb_prop in Hok as [Ht Hs]. cbn [types_ok_ns] in Hty. destruct Hty as [Hty Htys].
    rewrite emit_ns_unfold. cbn [fst snd toks_ns plain_ns]. rewrite mu_seq_app. cbn [fst snd].
    destruct (emit_types_exact cf Hti up types Ht Hty st) as (F1 & P1 & Q1).
    destruct (IH (fst (emit_types cf up st types)) Hs Htys) as (F2 & P2 & Q2). rewrite <- F1.
    split; [exact F2|].
    rewrite !vals_of_app, !vals_of_elem, !vals_of_app, ids_toggle, ids_doc_opt.
    change (attr_vals k_id [(k_class, s_fstitalic)]) with (@nil str).
    match goal with |- context [attr_vals k_id [(k_class, ?x); (k_id, ?y)]] => change (attr_vals k_id [(k_class, x); (k_id, y)]) with [y] end.
    cbn [app vals_of flat_map]. nilr. rewrite Hni. cbn [tx filter]. rewrite ns_id_not_nested. cbn [negb].
    rewrite !filter_app, P1, P2, Q1, Q2. split; reflexivity.
  - intros st _ _. repeat split; reflexivity.
  - intros n IHn r IHr st Hok Hty. cbn [tops_ok_l] in Hok. apply andb_prop in Hok as [Hn Hr]. cbn [types_ok_nsl] in Hty. destruct Hty as [Hty1 Hty2].
    rewrite emit_nsl_cons. cbn [fst snd toks_nsl plain_nsl]. rewrite mu_seq_app. cbn [fst snd].
    destruct (IHn st Hn Hty1) as (F1 & P1 & Q1). destruct (IHr (fst (emit_ns cf up st n)) Hr Hty2) as (F2 & P2 & Q2). rewrite <- F1.
    split; [exact F2|]. rewrite vals_of_app, !filter_app, P1, P2, Q1, Q2. split; reflexivity.
Qed.

Definition sfx_of (x : str) : str := x ++ s_sidebar_sfx.

Lemma sidebar_types_exact ts : ids (sidebar_types cf ts) = map sfx_of (plain_types ts).
Proof.
  induction ts as [|[sn t] r IH]; [reflexivity|]. unfold plain_types, listed in *. cbn [sidebar_types flat_map fst snd]. rewrite vals_of_app, map_app, map_app, IH.
  f_equal. destruct (str_eqb sn namespace_doc_key); [reflexivity|]. destruct (comp_info t) as [c|]; [|reflexivity].
  rewrite !vals_of_elem.
  match goal with |- context [attr_vals k_id [(k_id, ?x); (k_href, ?h); (k_class, ?y)]] =>
    change (attr_vals k_id [(k_id, x); (k_href, h); (k_class, y)]) with [x] end.
  match goal with |- context [attr_vals k_id [(k_class, ?x)]] => change (attr_vals k_id [(k_class, x)]) with (@nil str) end.
  cbn [app vals_of flat_map map]. rewrite Hsb. reflexivity.
Qed.

Lemma emit_sidebar_exact :
  (forall n, ids (emit_sidebar cf n) = map sfx_of (plain_ns n)) /\ (forall l, ids (emit_sidebar_l cf l) = map sfx_of (plain_nsl l)).
Proof.
  apply nst_nsl_ind.
  - intros name docs types subs IH. rewrite emit_sidebar_unfold. cbn [plain_ns map].
    rewrite !vals_of_app, !vals_of_elem, !vals_of_app, !vals_of_elem, ids_doc_opt, sidebar_types_exact, IH.
    match goal with |- context [attr_vals k_id [(k_target, ?x); (k_onclick, ?y); (k_controls, ?z)]] =>
      change (attr_vals k_id [(k_target, x); (k_onclick, y); (k_controls, z)]) with (@nil str) end.
    match goal with |- context [attr_vals k_id [(k_href, ?h); (k_class, ?y)]] => change (attr_vals k_id [(k_href, h); (k_class, y)]) with (@nil str) end.
    change (attr_vals k_id [(k_class, s_textnowrap)]) with (@nil str).
    match goal with |- context [attr_vals k_id [(k_class, ?x); (k_id, ?y)]] => change (attr_vals k_id [(k_class, x); (k_id, y)]) with [y] end.
    cbn [app vals_of flat_map]. nilr. rewrite Hsb, map_app. reflexivity.
  - reflexivity.
  - intros n IHn r IHr. change (emit_sidebar_l cf (NCons n r)) with (emit_sidebar cf n ++ emit_sidebar_l cf r).
    cbn [plain_nsl]. rewrite vals_of_app, map_app, IHn, IHr. reflexivity.
Qed.
End Levels2.

(* ---------- assembly ---------- *)
Lemma NoDup_partition {A} (p : A -> bool) l : NoDup (filter p l) -> NoDup (filter (fun x => negb (p x)) l) -> NoDup l.
Proof.
  induction l as [|x l IH]; intros H1 H2; [constructor|]. cbn [filter] in *. destruct (p x) eqn:E; cbn [negb] in *.
  - inversion H1 as [|? ? Hn Hr]; subst. constructor; [|apply IH; assumption]. intros Hin. apply Hn, filter_In. split; assumption.
  - inversion H2 as [|? ? Hn Hr]; subst. constructor; [|apply IH; assumption]. intros Hin. apply Hn, filter_In. split; [assumption|rewrite E; reflexivity].
Qed.

Lemma nodup_app_intro {A} (a b : list A) : NoDup a -> NoDup b -> (forall x, In x a -> In x b -> False) -> NoDup (a ++ b).
Proof.
  intros Ha Hb Hd. induction Ha as [|x a Hn Ha IH]; [exact Hb|]. cbn. constructor.
  - intros Hin. apply in_app_or in Hin as [Hin|Hin]; [exact (Hn Hin)|exact (Hd x (or_introl eq_refl) Hin)].
  - apply IH. intros y Hy Hy2. exact (Hd y (or_intror Hy) Hy2).
Qed.

Definition lastc (x : str) : N := match rev x with c :: _ => c | [] => 0 end.
Definition q_ok (x : str) : bool := negb (lastc x =? 114) && negb (lastc x =? 111).

Lemma ends_sfx_last x : ends_with x s_sidebar_sfx = true -> lastc x = 114.
Proof.
  unfold ends_with, lastc. cbn [rev s_sidebar_sfx app]. destruct (rev x) as [|c r]; [discriminate|]. cbn [starts_with].
  intros H. apply andb_prop in H as [H _]. apply N.eqb_eq in H. symmetry. exact H.
Qed.
Lemma q_ns name : q_ok (ns_id name) = true.
Proof. unfold q_ok, lastc, ns_id. rewrite ns_scheme_now, rev_app_distr. reflexivity. Qed.
Lemma q_tag t : ti_is_array t = false -> version_ok t = true -> q_ok (filter_tag_id t) = true.
Proof.
  intros Harr Hv. destruct (version_ok_spec _ Hv) as [_ [Mi _]]. rewrite (tag_id_shape (proj1 id_scheme_now) t Harr). unfold dash_shape, q_ok, lastc.
  destruct (dec_Z_nonempty _ Mi) as (d & r & Er & Hdg). rewrite rev_app_distr. cbn [rev]. rewrite <- app_assoc, Er. cbn [app].
  unfold is_digit in Hdg. destruct (N.eqb_spec d 114) as [->|]; [discriminate Hdg|]. destruct (N.eqb_spec d 111) as [->|]; [discriminate Hdg|]. reflexivity.
Qed.
Lemma q_nested x : nested_shape x = true -> q_ok x = true.
Proof.
  unfold nested_shape, q_ok, lastc. destruct (rev x) as [|c r]; [discriminate|]. cbn [drop_while]. destruct (is_digit c) eqn:D.
  - intros _. unfold is_digit in D. destruct (N.eqb_spec c 114) as [->|]; [discriminate D|]. destruct (N.eqb_spec c 111) as [->|]; [discriminate D|]. reflexivity.
  - intros H. destruct (N.eqb_spec c 114) as [->|]; [discriminate H|]. destruct (N.eqb_spec c 111) as [->|]; [discriminate H|]. reflexivity.
Qed.

Lemma q_plain_types ts : (forall c, In c (listed ts) -> type_ok c) -> forallb q_ok (plain_types ts) = true.
Proof.
  unfold plain_types. intros H. apply forallb_forall. intros x Hx. apply in_map_iff in Hx as (c & <- & Hc). destruct (H c Hc) as [A V]. apply q_tag; assumption.
Qed.
Lemma q_plain_ns :
  (forall n, types_ok_ns n -> forallb q_ok (plain_ns n) = true) /\ (forall l, types_ok_nsl l -> forallb q_ok (plain_nsl l) = true).
Proof.
  apply nst_nsl_ind.
  - intros name docs types subs IH [Hty Hs]. cbn [plain_ns forallb]. rewrite q_ns, forallb_app, (q_plain_types _ Hty), (IH Hs). reflexivity.
  - reflexivity.
  - intros n IHn r IHr [H1 H2]. cbn [plain_nsl]. rewrite forallb_app, (IHn H1), (IHr H2). reflexivity.
Qed.

Lemma NoDup_map_sfx l : NoDup l -> NoDup (map sfx_of l).
Proof.
  intros H. induction H as [|x l Hn Hl IH]; [constructor|]. cbn. constructor; [|exact IH].
  intros Hin. apply in_map_iff in Hin as (y & E & Hy). unfold sfx_of in E. apply app_inv_tail in E. subst y. exact (Hn Hy).
Qed.

(* PAGE-LEVEL NoDup: all ids of a namespace page are pairwise distinct *)
Theorem page_ids_nodup cf n :
  ae_ti cf = false -> ae_ni cf = false -> ae_sb cf = false ->
  tops_ok n = true -> types_ok_ns n -> NoDup (plain_ns n) ->
  NoDup (page_ids cf n).
Proof.
  intros Hti Hni Hsb Hok Hty Hpl.
  destruct (proj1 (emit_ns_exact cf Hti Hni (up_of (ns_name n))) n ung_reset Hok Hty) as (_ & P & Q).
  set (MN := ids (snd (emit_ns cf (up_of (ns_name n)) ung_reset n))) in *.
  assert (HMN : NoDup MN).
  { apply (NoDup_partition nested_shape); [rewrite P; apply make_unique_sequence_nodup, (proj2 id_scheme_now)|rewrite Q; exact Hpl]. }
  assert (QMN : forall x, In x MN -> q_ok x = true).
  { intros x Hx. destruct (nested_shape x) eqn:E; [apply q_nested, E|].
    assert (In x (filter np MN)) by (apply filter_In; split; [exact Hx|rewrite E; reflexivity]). rewrite Q in H.
    pose proof (proj1 q_plain_ns n Hty) as F. rewrite forallb_forall in F. apply F, H. }
  assert (E : page_ids cf n = s_sidebar :: map sfx_of (plain_ns n) ++ s_nsinfo :: MN).
  { unfold page_ids, ns_page, ns_page_sidebar, ns_page_main. rewrite !vals_of_app, !vals_of_elem.
    change (attr_vals k_id [(k_id, s_sidebar)]) with [s_sidebar]. change (attr_vals k_id [(k_id, s_nsinfo)]) with [s_nsinfo].
    change (attr_vals k_id []) with (@nil str). rewrite (proj1 (emit_sidebar_exact cf Hsb) n). cbn [app vals_of flat_map]. nilr. reflexivity. }
  rewrite E.
  assert (SBq : forall x, In x (map sfx_of (plain_ns n)) -> lastc x = 114 /\ ends_with x s_sidebar_sfx = true).
  { intros x Hx. apply in_map_iff in Hx as (y & <- & _). unfold sfx_of. split; [apply ends_sfx_last|]; apply ends_with_sfx. }
  assert (Qq : forall x, q_ok x = true -> lastc x <> 114 /\ lastc x <> 111).
  { intros x H. unfold q_ok in H. apply andb_prop in H as [A B]. split; intros Ex; rewrite Ex in *; discriminate. }
  constructor.
  - intros Hin. apply in_app_or in Hin as [Hin|[Hin|Hin]].
    + destruct (SBq _ Hin) as [_ Hend]. discriminate Hend.
    + discriminate Hin.
    + destruct (Qq _ (QMN _ Hin)) as [A _]. apply A. reflexivity.
  - apply nodup_app_intro; [apply NoDup_map_sfx, Hpl| |].
    + constructor; [|exact HMN]. intros Hin. destruct (Qq _ (QMN _ Hin)) as [_ B]. apply B. reflexivity.
    + intros x Hx [Hy|Hy].
      * subst x. destruct (SBq _ Hx) as [_ Hend]. discriminate Hend.
      * destruct (SBq _ Hx) as [L _]. destruct (Qq _ (QMN _ Hy)) as [A _]. exact (A L).
Qed.

(* ---------- NoDup (plain_ns n) from distinct names / (name, version) triples ---------- *)
Notation isns := (fun x => ends_with x s_ddns).
Lemma ns_is_ns name : ends_with (ns_id name) s_ddns = true.
Proof. unfold ns_id. rewrite ns_scheme_now. apply ends_with_sfx. Qed.
Lemma tag_not_ns t : ti_is_array t = false -> version_ok t = true -> ends_with (filter_tag_id t) s_ddns = false.
Proof.
  intros Harr Hv. destruct (version_ok_spec _ Hv) as [_ [Mi _]]. rewrite (tag_id_shape (proj1 id_scheme_now) t Harr). unfold dash_shape, ends_with.
  destruct (dec_Z_nonempty _ Mi) as (d & r & Er & Hdg). rewrite rev_app_distr. cbn [rev]. rewrite <- app_assoc, Er. cbn [app rev s_ddns starts_with].
  unfold is_digit in Hdg. destruct (N.eqb_spec 115 d) as [<-|]; [discriminate Hdg|reflexivity].
Qed.

Lemma plain_types_split ts : (forall c, In c (listed ts) -> type_ok c) ->
  filter isns (plain_types ts) = [] /\ filter (fun x => negb (ends_with x s_ddns)) (plain_types ts) = plain_types ts.
Proof.
  intros H. apply filter_none. apply forallb_forall. intros x Hx. unfold plain_types in Hx. apply in_map_iff in Hx as (c & <- & Hc).
  destruct (H c Hc) as [A V]. rewrite (tag_not_ns _ A V). reflexivity.
Qed.

Lemma plain_ns_split :
  (forall n, types_ok_ns n -> filter isns (plain_ns n) = page_LN n
                              /\ filter (fun x => negb (ends_with x s_ddns)) (plain_ns n) = page_L n)
  /\ (forall l, types_ok_nsl l -> filter isns (plain_nsl l) = map (fun n' => ns_id (ns_name n')) (all_nsl l)
                                  /\ filter (fun x => negb (ends_with x s_ddns)) (plain_nsl l) = map (fun c => filter_tag_id (ci_t c)) (all_listed_l l)).
Proof.
  apply nst_nsl_ind.
  - intros name docs types subs IH [Hty Hs]. unfold page_LN, page_L. cbn [plain_ns all_ns all_listed filter map ns_name].
    rewrite ns_is_ns. cbn [negb]. rewrite !filter_app. destruct (plain_types_split types Hty) as [A B]. destruct (IH Hs) as [C D].
    rewrite A, B, C, D, map_app. split; reflexivity.
  - intros _. split; reflexivity.
  - intros n IHn r IHr [H1 H2]. cbn [plain_nsl all_nsl all_listed_l]. rewrite !filter_app, !map_app.
    destruct (IHn H1) as [A B]. destruct (IHr H2) as [C D]. unfold page_LN, page_L in *. rewrite A, B, C, D. split; reflexivity.
Qed.

Lemma NoDup_map_factor {A B C} (f : A -> B) (g : A -> C) l :
  (forall x y, In x l -> In y l -> f x = f y -> g x = g y) -> NoDup (map g l) -> NoDup (map f l).
Proof.
  induction l as [|x l IH]; intros H Hg; [constructor|]. cbn in *. inversion Hg as [|? ? Hn Hr]; subst. constructor.
  - intros Hin. apply in_map_iff in Hin as (y & E & Hy). apply Hn. rewrite (H x y (or_introl eq_refl) (or_intror Hy) (eq_sym E)).
    apply in_map. exact Hy.
  - apply IH; [|exact Hr]. intros a b Ha Hb. apply H; right; assumption.
Qed.

Lemma types_ok_all :
  (forall n, types_ok_ns n -> forall c, In c (all_listed n) -> type_ok c) /\ (forall l, types_ok_nsl l -> forall c, In c (all_listed_l l) -> type_ok c).
Proof.
  apply nst_nsl_ind.
  - intros name docs types subs IH [Hty Hs] c Hc. cbn [all_listed] in Hc. apply in_app_or in Hc as [Hc|Hc]; [apply Hty, Hc|apply (IH Hs), Hc].
  - intros _ c [].
  - intros n IHn r IHr [H1 H2] c Hc. cbn [all_listed_l] in Hc. apply in_app_or in Hc as [Hc|Hc]; [apply (IHn H1), Hc|apply (IHr H2), Hc].
Qed.

Definition tkey (c : cinfo) : str * Z * Z := (ti_full_name (ci_t c), ti_major (ci_t c), ti_minor (ci_t c)).

Theorem plain_ns_nodup n :
  types_ok_ns n ->
  (forall c, In c (all_listed n) -> no_dash (ti_full_name (ci_t c)) = true) -> NoDup (map tkey (all_listed n)) ->
  (forall n', In n' (all_ns n) -> no_dash (ns_name n') = true) -> NoDup (map ns_name (all_ns n)) ->
  NoDup (plain_ns n).
Proof.
  intros Hty Hnd Hk Hnn Hns. destruct (proj1 plain_ns_split n Hty) as [A B].
  apply (NoDup_partition (fun x => ends_with x s_ddns)); [rewrite A|rewrite B].
  - unfold page_LN. apply (NoDup_map_factor _ ns_name); [|exact Hns]. intros x y Hx Hy E.
    apply (ns_id_injective ns_scheme_now); [apply Hnn, Hx|apply Hnn, Hy|exact E].
  - unfold page_L. apply (NoDup_map_factor _ tkey); [|exact Hk]. intros x y Hx Hy E.
    destruct (proj1 types_ok_all n Hty x Hx) as [Ax Vx]. destruct (proj1 types_ok_all n Hty y Hy) as [Ay Vy].
    destruct (tag_id_injective (proj1 id_scheme_now) _ _ Ax Ay (Hnd _ Hx) (Hnd _ Hy) Vx Vy E) as (E1 & E2 & E3).
    unfold tkey. rewrite E1, E2, E3. reflexivity.
Qed.

(* all ids of a namespace page are pairwise distinct, for every namespace tree whose namespaces have distinct dash-free names
   and whose listed types are composites with distinct (name, major, minor), dash-free names and versions in 0..255 *)
Theorem page_ids_nodup_full cf n :
  ae_ti cf = false -> ae_ni cf = false -> ae_sb cf = false ->
  tops_ok n = true -> types_ok_ns n ->
  (forall c, In c (all_listed n) -> no_dash (ti_full_name (ci_t c)) = true) -> NoDup (map tkey (all_listed n)) ->
  (forall n', In n' (all_ns n) -> no_dash (ns_name n') = true) -> NoDup (map ns_name (all_ns n)) ->
  NoDup (page_ids cf n).
Proof. intros A B C D E F G H I. apply page_ids_nodup; try assumption. apply plain_ns_nodup; assumption. Qed.
