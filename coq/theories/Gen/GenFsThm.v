(* Proofs about Gen/GenFs.v (C12; reused by C08).  The lemmas of section "translated bodies"
   are the only ones that look inside the regenerated definitions of Generated/Gen_GenFs.v:
   when /repo's _handle_overwrite, SetFileMode.__call__, _generate_code, _copy_header or
   ArgparseRunner._generate change, they are the ones that stop checking. *)
From Verif Require Import GenFs.
Open Scope N_scope.

(* ---- finite maps ---------------------------------------------------------------------- *)
Lemma lookup_update_same s p f : lookup (update s p f) p = Some f.
Proof.
  induction s as [|[q g] s IH]; cbn [update lookup].
  - rewrite str_eqb_refl; reflexivity.
  - destruct (str_eqb p q) eqn:E; cbn [lookup]; rewrite E; [reflexivity|exact IH].
Qed.

Lemma lookup_update_other s p q f : p <> q -> lookup (update s p f) q = lookup s q.
Proof.
  intros Hne; induction s as [|[r g] s IH]; cbn [update lookup].
  - destruct (str_eqb_spec q p); [congruence|reflexivity].
  - destruct (str_eqb_spec p r) as [->|Hpr]; cbn [lookup].
    + destruct (str_eqb_spec q r); [congruence|reflexivity].
    + destruct (str_eqb q r); [reflexivity|exact IH].
Qed.

Lemma lookup_in_dom s p : lookup s p <> None <-> In p (dom s).
Proof.
  induction s as [|[q g] s IH]; cbn [lookup dom map In fst].
  - split; [congruence|tauto].
  - destruct (str_eqb_spec p q) as [->|Hne].
    + split; [auto|congruence].
    + rewrite IH. split; [auto|intros [H|H]; [congruence|exact H]].
Qed.

Definition fx_path (e : effect) : path :=
  match e with FxChmod p _ | FxMkdirP p | FxOpenW p | FxWrite p _ => p end.

Lemma apply_fx_other w s e q : fx_path e <> q -> lookup (fst (apply_fx w s e)) q = lookup s q.
Proof.
  intros Hne; destruct e as [p m|p|p|p c]; cbn [apply_fx fx_path] in *; try reflexivity.
  - destruct (lookup s p) as [[c0 m0]|]; cbn [fst]; [apply lookup_update_other; exact Hne|reflexivity].
  - destruct (lookup s p) as [[c0 m0]|]; [destruct (superuser w || N.testbit m0 owner_write_bit)|destruct (superuser w || dir_writable w p)];
      cbn [fst]; try reflexivity; apply lookup_update_other; exact Hne.
  - destruct (lookup s p) as [[c0 m0]|]; cbn [fst]; [apply lookup_update_other; exact Hne|reflexivity].
Qed.

(* an operation on a state: what it may touch *)
Definition touches_only (p : path) (op : st -> st * result) : Prop :=
  forall s, (forall q, p <> q -> lookup (files (fst (op s))) q = lookup (files s) q)
            /\ out (fst (op s)) = out s
            /\ exists l, log (fst (op s)) = log s ++ l /\ Forall (fun e => fx_path e = p) l.

Lemma touches_exec w e : touches_only (fx_path e) (exec w e).
Proof.
  intros s; unfold exec. destruct (apply_fx w (files s) e) as [f r] eqn:E; cbn [fst files log out].
  repeat split.
  - intros q Hne. replace f with (fst (apply_fx w (files s) e)) by (rewrite E; reflexivity).
    apply apply_fx_other; exact Hne.
  - exists [e]; split; [reflexivity|constructor; [reflexivity|constructor]].
Qed.

Lemma touches_ret p r : touches_only p (fun s => (s, r)).
Proof.
  intros s; cbn [fst]. repeat split. exists []; split; [rewrite app_nil_r; reflexivity|constructor].
Qed.

Lemma touches_seq p a b : touches_only p a -> touches_only p b -> touches_only p (seq a b).
Proof.
  intros Ha Hb s; unfold seq. destruct (a s) as [s1 r] eqn:E.
  destruct (Ha s) as (Hf & Ho & l1 & Hl1 & HF1); rewrite E in *; cbn [fst] in *.
  destruct r.
  - destruct (Hb s1) as (Hf2 & Ho2 & l2 & Hl2 & HF2). repeat split.
    + intros q Hne. rewrite Hf2, Hf; auto.
    + congruence.
    + exists (l1 ++ l2); split; [rewrite Hl2, Hl1, app_assoc; reflexivity|apply Forall_app; split; assumption].
  - cbn [fst]. repeat split; [exact Hf|exact Ho|exists l1; split; assumption].
Qed.

Lemma touches_run_prog w allow fm p pr : touches_only p (run_prog w allow fm p pr).
Proof.
  induction pr as [|a IHa b IHb|t IHt e IHe|t IHt e IHe|m|e]; cbn [run_prog].
  - apply touches_ret.
  - apply touches_seq; assumption.
  - intros s. destruct (lookup (files s) p); [apply IHt|apply IHe].
  - destruct allow; assumption.
  - intros s. destruct (lookup (files s) p) as [[c0 m0]|];
      [apply (touches_exec w (FxChmod p (eval_mexpr m0 fm m)))|apply (touches_exec w (FxChmod p (eval_mexpr 0 fm m)))].
  - apply touches_ret.
Qed.

Section Render.
  Variable render : cfg -> target -> cid.
  Notation run_file_pps := (run_file_pps).
  Notation gen_target := (gen_target render).
  Notation gen_all := (gen_all render).
  Notation step := (step render).
  Notation step_fs := (step_fs render).
  Notation run_history := (run_history render).

  Lemma touches_file_pps w allow p fms : touches_only p (run_file_pps w allow p fms).
  Proof.
    induction fms as [|fm r IH]; cbn [GenFs.run_file_pps]; [apply touches_ret|].
    apply touches_seq; [apply touches_run_prog|exact IH].
  Qed.

  Lemma touches_gstep w c allow t g : touches_only (t_path t) (run_gstep render w c allow t g).
  Proof.
    destruct g; cbn [run_gstep].
    - apply touches_run_prog.
    - apply (touches_exec w (FxMkdirP (t_path t))).
    - apply touches_seq; [apply (touches_exec w (FxOpenW (t_path t)))|apply (touches_exec w (FxWrite (t_path t) _))].
    - destruct (c_line_pps c).
      + apply touches_seq; [apply (touches_exec w (FxOpenW (t_path t)))|apply (touches_exec w (FxWrite (t_path t) _))].
      + apply touches_seq; [apply (touches_exec w (FxOpenW (t_path t)))|].
        apply touches_seq; [apply (touches_exec w (FxWrite (t_path t) _))|apply (touches_exec w (FxChmod (t_path t) _))].
    - apply touches_file_pps.
  Qed.

  Lemma touches_skel w c allow t sk : touches_only (t_path t) (run_skel render w c allow t sk).
  Proof.
    induction sk as [|g r IH]; cbn [run_skel]; [apply touches_ret|].
    apply touches_seq; [apply touches_gstep|exact IH].
  Qed.

  Lemma touches_gen_target w c dry allow t : touches_only (t_path t) (gen_target w c dry allow t).
  Proof.
    unfold GenFs.gen_target. destruct (dry && guard_of (t_kind t)); [apply touches_ret|apply touches_skel].
  Qed.

  (* ---- translated bodies: what the regenerated definitions compute ------------------- *)
  Lemma handle_overwrite_none w allow p s :
    lookup (files s) p = None -> run_prog w allow 0 p handle_overwrite_prog s = (s, Ok).
  Proof. intros H; unfold handle_overwrite_prog; cbn [run_prog]; rewrite H; reflexivity. Qed.

  Lemma handle_overwrite_deny w p s f :
    lookup (files s) p = Some f -> run_prog w false 0 p handle_overwrite_prog s = (s, Err EExists).
  Proof. intros H; unfold handle_overwrite_prog; cbn [run_prog]; rewrite H; reflexivity. Qed.

  Lemma handle_overwrite_allow w p s c0 m0 :
    lookup (files s) p = Some (c0, m0) ->
    run_prog w true 0 p handle_overwrite_prog s = exec w (FxChmod p (N.lor m0 144)) s.
  Proof. intros H; unfold handle_overwrite_prog; cbn [run_prog eval_mexpr]; rewrite H; reflexivity. Qed.

  Lemma set_file_mode_some w allow fm p s c0 m0 :
    lookup (files s) p = Some (c0, m0) ->
    run_prog w allow fm p set_file_mode_prog s = exec w (FxChmod p fm) s.
  Proof. intros H; unfold set_file_mode_prog; cbn [run_prog eval_mexpr]; rewrite H; reflexivity. Qed.

  Lemma skel_type : generate_code_skel = [GHandleOverwrite; GMkdirParents; GOpenWrite; GFilePPs].
  Proof. reflexivity. Qed.

  Lemma skel_copy : copy_header_skel = [GHandleOverwrite; GMkdirParents; GCopyOrOpenWrite; GFilePPs].
  Proof. reflexivity. Qed.

  Lemma guards_true k : guard_of k = true.
  Proof. destruct k; reflexivity. Qed.

  (* both code paths (rendered files, copied support files) start with the same gate *)
  Lemma same_gate k : exists r, skel_of k = GHandleOverwrite :: GMkdirParents :: r.
  Proof. destruct k; cbn [skel_of]; rewrite ?skel_type, ?skel_copy; eexists; reflexivity. Qed.

  (* ---- primitive steps on a known state --------------------------------------------- *)
  Lemma exec_chmod_some w p m s c0 m0 :
    lookup (files s) p = Some (c0, m0) ->
    exec w (FxChmod p m) s = ({| files := update (files s) p (c0, m); log := log s ++ [FxChmod p m]; out := out s |}, Ok).
  Proof. intros H; unfold exec; cbn [apply_fx]; rewrite H; reflexivity. Qed.

  Lemma exec_write_some w p c s c0 m0 :
    lookup (files s) p = Some (c0, m0) ->
    exec w (FxWrite p c) s = ({| files := update (files s) p (c, m0); log := log s ++ [FxWrite p c]; out := out s |}, Ok).
  Proof. intros H; unfold exec; cbn [apply_fx]; rewrite H; reflexivity. Qed.

  Lemma exec_open_some_ok w p s c0 m0 :
    lookup (files s) p = Some (c0, m0) -> superuser w || N.testbit m0 owner_write_bit = true ->
    exec w (FxOpenW p) s = ({| files := update (files s) p (cid_trunc, m0); log := log s ++ [FxOpenW p]; out := out s |}, Ok).
  Proof. intros H Hw; unfold exec; cbn [apply_fx]; rewrite H, Hw; reflexivity. Qed.

  Lemma exec_open_none w p s :
    lookup (files s) p = None ->
    exec w (FxOpenW p) s =
      if superuser w || dir_writable w p
      then ({| files := update (files s) p (cid_trunc, default_mode w); log := log s ++ [FxOpenW p]; out := out s |}, Ok)
      else ({| files := files s; log := log s ++ [FxOpenW p]; out := out s |}, Err EAccess).
  Proof. intros H; unfold exec; cbn [apply_fx]; rewrite H. destruct (superuser w || dir_writable w p); reflexivity. Qed.

  Lemma exec_mkdir w p s :
    exec w (FxMkdirP p) s = ({| files := files s; log := log s ++ [FxMkdirP p]; out := out s |}, Ok).
  Proof. reflexivity. Qed.

  Lemma owner_write_after_gate m0 : N.testbit (N.lor m0 144) owner_write_bit = true.
  Proof. rewrite N.lor_spec. replace (N.testbit 144 owner_write_bit) with true by reflexivity. apply orb_true_r. Qed.

  Definition final_mode (c : cfg) (m : mode) : mode :=
    match requested_mode c with Some r => r | None => m end.

  Lemma file_pps_spec w allow p fms : forall s c0 m0,
    lookup (files s) p = Some (c0, m0) ->
    exists s', run_file_pps w allow p fms s = (s', Ok) /\
               lookup (files s') p = Some (c0, match rev fms with [] => m0 | r :: _ => r end).
  Proof.
    induction fms as [|fm r IH]; intros s c0 m0 H; cbn [GenFs.run_file_pps].
    - exists s; split; [reflexivity|exact H].
    - unfold seq. rewrite (set_file_mode_some w allow fm p s c0 m0 H), (exec_chmod_some w p fm s c0 m0 H).
      set (s1 := {| files := update (files s) p (c0, fm); log := log s ++ [FxChmod p fm]; out := out s |}).
      destruct (IH s1 c0 fm) as (s' & Hr & Hl); [apply lookup_update_same|].
      exists s'; split; [exact Hr|]. rewrite Hl. cbn [rev].
      destruct (rev r) as [|x y]; reflexivity.
  Qed.

  (* mode of a file after it was written and before the file post-processors run *)
  Definition base_mode (w : world) (c : cfg) (t : target) (old : option mode) : mode :=
    let m := match old with Some m0 => N.lor m0 144 | None => default_mode w end in
    match t_kind t with
    | KSupCopy => if c_line_pps c then m else t_res_mode t
    | _ => m
    end.

  (* THE per-file lemma: symbolic execution of the translated skeletons over the translated bodies *)
  Lemma gen_target_spec w c allow t s :
    let p := t_path t in
    let sr := gen_target w c false allow t s in
    match lookup (files s) p with
    | Some (c0, m0) =>
        if allow
        then snd sr = Ok /\ lookup (files (fst sr)) p = Some (render c t, final_mode c (base_mode w c t (Some m0)))
        else snd sr = Err EExists /\ fst sr = s
    | None =>
        if superuser w || dir_writable w p
        then snd sr = Ok /\ lookup (files (fst sr)) p = Some (render c t, final_mode c (base_mode w c t None))
        else snd sr = Err EAccess /\ files (fst sr) = files s
    end.
  Proof.
    cbv zeta. unfold GenFs.gen_target. cbn [andb].
    unfold final_mode, requested_mode, base_mode.
    destruct (lookup (files s) (t_path t)) as [[c0 m0]|] eqn:Hl.
    - destruct allow.
      + (* overwrite an existing file *)
        destruct (t_kind t) eqn:Hk; cbn [skel_of]; rewrite ?skel_type, ?skel_copy; cbn [run_skel run_gstep]; unfold seq at 1;
          rewrite (handle_overwrite_allow w _ s c0 m0 Hl), (exec_chmod_some w _ _ s c0 m0 Hl);
          set (s1 := {| files := update (files s) (t_path t) (c0, N.lor m0 144); log := _; out := _ |});
          assert (H1 : lookup (files s1) (t_path t) = Some (c0, N.lor m0 144)) by apply lookup_update_same;
          unfold seq at 1; rewrite exec_mkdir;
          set (s2 := {| files := files s1; log := log s1 ++ _; out := out s1 |});
          assert (H2 : lookup (files s2) (t_path t) = Some (c0, N.lor m0 144)) by exact H1;
          unfold seq at 1; try destruct (c_line_pps c); unfold seq at 1;
          rewrite (exec_open_some_ok w _ s2 c0 _ H2) by (rewrite owner_write_after_gate; apply orb_true_r);
          set (s3 := {| files := update (files s2) (t_path t) (cid_trunc, N.lor m0 144); log := _; out := _ |});
          assert (H3 : lookup (files s3) (t_path t) = Some (cid_trunc, N.lor m0 144)) by apply lookup_update_same.
        1,2,3: rewrite (exec_write_some w _ (render c t) s3 _ _ H3);
          set (s4 := {| files := update (files s3) (t_path t) (render c t, N.lor m0 144); log := _; out := _ |});
          assert (H4 : lookup (files s4) (t_path t) = Some (render c t, N.lor m0 144)) by apply lookup_update_same;
          destruct (file_pps_spec w true (t_path t) (c_file_modes c) s4 _ _ H4) as (s5 & Hr & H5);
          unfold seq; rewrite Hr; cbn [fst snd]; split; [reflexivity|rewrite H5; destruct (rev (c_file_modes c)); reflexivity].
        unfold seq at 1. rewrite (exec_write_some w _ (render c t) s3 _ _ H3).
        set (s4 := {| files := update (files s3) (t_path t) (render c t, N.lor m0 144); log := _; out := _ |}).
        assert (H4 : lookup (files s4) (t_path t) = Some (render c t, N.lor m0 144)) by apply lookup_update_same.
        rewrite (exec_chmod_some w _ _ s4 _ _ H4).
        set (s4' := {| files := update (files s4) (t_path t) (render c t, t_res_mode t); log := _; out := _ |}).
        assert (H4' : lookup (files s4') (t_path t) = Some (render c t, t_res_mode t)) by apply lookup_update_same.
        destruct (file_pps_spec w true (t_path t) (c_file_modes c) s4' _ _ H4') as (s5 & Hr & H5).
        unfold seq; rewrite Hr; cbn [fst snd]; split; [reflexivity|rewrite H5; destruct (rev (c_file_modes c)); reflexivity].
      + (* overwriting disallowed: raise before anything is touched *)
        destruct (same_gate (t_kind t)) as (r & ->). cbn [run_skel run_gstep]. unfold seq at 1.
        rewrite (handle_overwrite_deny w _ s _ Hl). split; reflexivity.
    - (* new file *)
      destruct (t_kind t) eqn:Hk; cbn [skel_of]; rewrite ?skel_type, ?skel_copy; cbn [run_skel run_gstep]; unfold seq at 1;
        rewrite (handle_overwrite_none w allow _ s Hl);
        unfold seq at 1; rewrite exec_mkdir;
        set (s2 := {| files := files s; log := log s ++ _; out := out s |});
        assert (H2 : lookup (files s2) (t_path t) = None) by exact Hl;
        unfold seq at 1; try destruct (c_line_pps c); unfold seq at 1;
        rewrite (exec_open_none w _ s2 H2);
        (destruct (superuser w || dir_writable w (t_path t)); [|split; reflexivity]);
        set (s3 := {| files := update (files s2) (t_path t) (cid_trunc, default_mode w); log := _; out := _ |});
        assert (H3 : lookup (files s3) (t_path t) = Some (cid_trunc, default_mode w)) by apply lookup_update_same.
      1,2,3: rewrite (exec_write_some w _ (render c t) s3 _ _ H3);
        set (s4 := {| files := update (files s3) (t_path t) (render c t, default_mode w); log := _; out := _ |});
        assert (H4 : lookup (files s4) (t_path t) = Some (render c t, default_mode w)) by apply lookup_update_same;
        destruct (file_pps_spec w allow (t_path t) (c_file_modes c) s4 _ _ H4) as (s5 & Hr & H5);
        unfold seq; rewrite Hr; cbn [fst snd]; split; [reflexivity|rewrite H5; destruct (rev (c_file_modes c)); reflexivity].
      unfold seq at 1. rewrite (exec_write_some w _ (render c t) s3 _ _ H3).
      set (s4 := {| files := update (files s3) (t_path t) (render c t, default_mode w); log := _; out := _ |}).
      assert (H4 : lookup (files s4) (t_path t) = Some (render c t, default_mode w)) by apply lookup_update_same.
      rewrite (exec_chmod_some w _ _ s4 _ _ H4).
      set (s4' := {| files := update (files s4) (t_path t) (render c t, t_res_mode t); log := _; out := _ |}).
      assert (H4' : lookup (files s4') (t_path t) = Some (render c t, t_res_mode t)) by apply lookup_update_same.
      destruct (file_pps_spec w allow (t_path t) (c_file_modes c) s4' _ _ H4') as (s5 & Hr & H5).
      unfold seq; rewrite Hr; cbn [fst snd]; split; [reflexivity|rewrite H5; destruct (rev (c_file_modes c)); reflexivity].
  Qed.
End Render.
