(* C11: sort_keys (the order of Namespace.get_nested_namespaces since fix 9b93945) is a permutation and yields a list
   sorted by the lexicographic order of the unstropped component lists. *)
From Verif Require Import NamespaceBase.
From Coq Require Import Sorted Lia.
Open Scope N_scope.

Lemma lex_leb_total {A} (leb eqb : A -> A -> bool) :
  (forall x y, eqb x y = eqb y x) -> (forall x y, leb x y = true \/ leb y x = true) ->
  forall a b, lex_leb leb eqb a b = true \/ lex_leb leb eqb b a = true.
Proof.
  intros Hs Ht a. induction a as [|x a IH]; intros [|y b]; cbn [lex_leb]; auto.
  rewrite (Hs y x). destruct (eqb x y); [apply IH | apply Ht].
Qed.

Lemma str_eqb_sym a b : str_eqb a b = str_eqb b a.
Proof. destruct (str_eqb_spec a b), (str_eqb_spec b a); congruence. Qed.

Lemma str_leb_total a b : str_leb a b = true \/ str_leb b a = true.
Proof.
  apply lex_leb_total; [apply N.eqb_sym|]. intros x y.
  destruct (N.leb_spec x y); [left; reflexivity|right]. apply N.leb_le. lia.
Qed.

Lemma key_leb_total a b : key_leb a b = true \/ key_leb b a = true.
Proof. apply lex_leb_total; [apply str_eqb_sym | apply str_leb_total]. Qed.

Definition key_le (a b : key) : Prop := key_leb a b = true.

Lemma insert_key_perm k l : Permutation (insert_key k l) (k :: l).
Proof.
  induction l as [|x r IH]; cbn [insert_key]; [apply Permutation_refl|].
  destruct (key_leb k x); [apply Permutation_refl|].
  eapply Permutation_trans; [apply perm_skip, IH | apply perm_swap].
Qed.

Lemma sort_keys_perm l : Permutation (sort_keys l) l.
Proof.
  induction l as [|k r IH]; cbn [sort_keys]; [constructor|].
  eapply Permutation_trans; [apply insert_key_perm | apply perm_skip, IH].
Qed.

Lemma insert_key_hd k l a : HdRel key_le a l -> key_le a k -> HdRel key_le a (insert_key k l).
Proof.
  intros H Hk. destruct l as [|x r]; cbn [insert_key]; [constructor; assumption|].
  destruct (key_leb k x); constructor; [assumption|]. inversion H; assumption.
Qed.

Lemma insert_key_sorted k l : Sorted key_le l -> Sorted key_le (insert_key k l).
Proof.
  induction l as [|x r IH]; intros H; cbn [insert_key]; [repeat constructor|].
  destruct (key_leb k x) eqn:E.
  - constructor; [assumption | constructor; exact E].
  - inversion H as [|? ? Hs Hh]; subst. constructor; [apply IH; assumption|].
    apply insert_key_hd; [assumption|]. destruct (key_leb_total k x) as [X|X]; [congruence | exact X].
Qed.

Lemma sort_keys_sorted l : Sorted key_le (sort_keys l).
Proof. induction l as [|k r IH]; cbn [sort_keys]; [constructor | apply insert_key_sorted; assumption]. Qed.
