(* C11: sort_keys (the order of Namespace.get_nested_namespaces since fix 9b93945) is a permutation and yields a list
   sorted by the lexicographic order of the unstropped component lists. *)
From Verif Require Import NamespaceBase.
From Coq Require Import Sorted Lia.
Open Scope N_scope.

Lemma lex_leb_total {A} (leb eqb : A -> A -> bool) :
  (forall x y, eqb x y = eqb y x) -> (forall x y, leb x y = true \/ leb y x = true) ->
  forall a b, lex_leb leb eqb a b = true \/ lex_leb leb eqb b a = true.
Proof.
  intros Hs Ht a. induction a as [|x a IH]; intros [|y b]; cbn [lex_leb]; auto.
  rewrite (Hs y x). destruct (eqb x y); [apply IH | apply Ht].
Qed.

Lemma str_eqb_sym a b : str_eqb a b = str_eqb b a.
Proof. destruct (str_eqb_spec a b), (str_eqb_spec b a); congruence. Qed.

Lemma str_leb_total a b : str_leb a b = true \/ str_leb b a = true.
Proof.
  apply lex_leb_total; [apply N.eqb_sym|]. intros x y.
  destruct (N.leb_spec x y); [left; reflexivity|right]. apply N.leb_le. lia.
Qed.

Lemma key_leb_total a b : key_leb a b = true \/ key_leb b a = true.
Proof. apply lex_leb_total; [apply str_eqb_sym | apply str_leb_total]. Qed.

Definition key_le (a b : key) : Prop := key_leb a b = true.

Lemma insert_key_perm k l : Permutation (insert_key k l) (k :: l).
Proof.
  induction l as [|x r IH]; cbn [insert_key]; [apply Permutation_refl|].
  destruct (key_leb k x); [apply Permutation_refl|].
  eapply Permutation_trans; [apply perm_skip, IH | apply perm_swap].
Qed.

Lemma sort_keys_perm l : Permutation (sort_keys l) l.
Proof.
  induction l as [|k r IH]; cbn [sort_keys]; [constructor|].
  eapply Permutation_trans; [apply insert_key_perm | apply perm_skip, IH].
Qed.

Lemma insert_key_hd k l a : HdRel key_le a l -> key_le a k -> HdRel key_le a (insert_key k l).
Proof.
  intros H Hk. destruct l as [|x r]; cbn [insert_key]; [constructor; assumption|].
  destruct (key_leb k x); constructor; [assumption|]. inversion H; assumption.
Qed.

Lemma insert_key_sorted k l : Sorted key_le l -> Sorted key_le (insert_key k l).
Proof.
  induction l as [|x r IH]; intros H; cbn [insert_key]; [repeat constructor|].
  destruct (key_leb k x) eqn:E.
  - constructor; [assumption | constructor; exact E].
  - inversion H as [|? ? Hs Hh]; subst. constructor; [apply IH; assumption|].
    apply insert_key_hd; [assumption|]. destruct (key_leb_total k x) as [X|X]; [congruence | exact X].
Qed.

Lemma sort_keys_sorted l : Sorted key_le (sort_keys l).
Proof. induction l as [|k r IH]; cbn [sort_keys]; [constructor | apply insert_key_sorted; assumption]. Qed.

(* ---- determinism: the order produced by sort_keys depends only on the SET of children ------------------------------------ *)
Section LEX.
  Context {A : Type} (leb eqb : A -> A -> bool).
  Hypothesis eqb_spec : forall x y, reflect (x = y) (eqb x y).
  Hypothesis leb_antisym : forall x y, leb x y = true -> leb y x = true -> x = y.
  Hypothesis leb_trans : forall x y z, leb x y = true -> leb y z = true -> leb x z = true.

  Lemma lex_leb_antisym a : forall b, lex_leb leb eqb a b = true -> lex_leb leb eqb b a = true -> a = b.
  Proof.
    induction a as [|x a IH]; intros [|y b]; cbn [lex_leb]; try discriminate; [reflexivity|].
    destruct (eqb_spec x y) as [->|Hne].
    - destruct (eqb_spec y y); [|congruence]. intros H1 H2. f_equal. apply IH; assumption.
    - destruct (eqb_spec y x); [congruence|]. intros H1 H2. exfalso. apply Hne. apply leb_antisym; assumption.
  Qed.

  Lemma lex_leb_trans a : forall b c, lex_leb leb eqb a b = true -> lex_leb leb eqb b c = true -> lex_leb leb eqb a c = true.
  Proof.
    induction a as [|x a IH]; intros [|y b] [|z c]; cbn [lex_leb]; try discriminate; try reflexivity.
    destruct (eqb_spec x y) as [->|Hxy]; destruct (eqb_spec y z) as [->|Hyz].
    - destruct (eqb_spec z z); [|congruence]. apply IH.
    - destruct (eqb_spec y z); [congruence|]. intros _ H; exact H.
    - destruct (eqb_spec x z); [congruence|]. intros H _; exact H.
    - intros H1 H2. destruct (eqb_spec x z) as [->|Hxz].
      + exfalso. apply Hxy. apply leb_antisym; assumption.
      + eapply leb_trans; eassumption.
  Qed.
End LEX.

Lemma N_leb_antisym x y : N.leb x y = true -> N.leb y x = true -> x = y.
Proof. rewrite !N.leb_le. lia. Qed.
Lemma N_leb_trans x y z : N.leb x y = true -> N.leb y z = true -> N.leb x z = true.
Proof. rewrite !N.leb_le. lia. Qed.

Lemma str_leb_antisym a b : str_leb a b = true -> str_leb b a = true -> a = b.
Proof. apply lex_leb_antisym; [apply N.eqb_spec | apply N_leb_antisym]. Qed.
Lemma str_leb_trans a b c : str_leb a b = true -> str_leb b c = true -> str_leb a c = true.
Proof. apply lex_leb_trans; [apply N.eqb_spec | apply N_leb_antisym | apply N_leb_trans]. Qed.

Lemma key_le_antisym a b : key_le a b -> key_le b a -> a = b.
Proof. apply lex_leb_antisym; [apply str_eqb_spec | apply str_leb_antisym]. Qed.
Lemma key_le_trans a b c : key_le a b -> key_le b c -> key_le a c.
Proof. apply lex_leb_trans; [apply str_eqb_spec | apply str_leb_antisym | apply str_leb_trans]. Qed.

Lemma sorted_unique (l1 : list key) : forall l2,
  StronglySorted key_le l1 -> StronglySorted key_le l2 -> NoDup l1 -> NoDup l2 ->
  (forall x, In x l1 <-> In x l2) -> l1 = l2.
Proof.
  induction l1 as [|a l1 IH]; intros [|b l2] S1 S2 N1 N2 H.
  - reflexivity.
  - exfalso. apply (proj2 (H b)). left; reflexivity.
  - exfalso. apply (proj1 (H a)). left; reflexivity.
  - inversion S1 as [|? ? S1' F1]; inversion S2 as [|? ? S2' F2]; inversion N1; inversion N2; subst.
    rewrite Forall_forall in F1, F2.
    assert (a = b).
    { destruct (proj1 (H a) (or_introl eq_refl)) as [E|Ha]; [congruence|].
      destruct (proj2 (H b) (or_introl eq_refl)) as [E|Hb]; [congruence|].
      apply key_le_antisym; [apply F1 | apply F2]; assumption. }
    subst b. f_equal. apply IH; try assumption. intros x; split; intros Hx.
    + destruct (proj1 (H x) (or_intror Hx)) as [E|]; [subst; contradiction | assumption].
    + destruct (proj2 (H x) (or_intror Hx)) as [E|]; [subst; contradiction | assumption].
Qed.

(* the visiting order of the children does not depend on the order in which the set was filled *)
Theorem sort_keys_set_determined l1 l2 :
  NoDup l1 -> NoDup l2 -> (forall x, In x l1 <-> In x l2) -> sort_keys l1 = sort_keys l2.
Proof.
  intros N1 N2 H. apply sorted_unique.
  - apply Sorted_StronglySorted; [exact key_le_trans | apply sort_keys_sorted].
  - apply Sorted_StronglySorted; [exact key_le_trans | apply sort_keys_sorted].
  - eapply Permutation_NoDup; [apply Permutation_sym, sort_keys_perm | assumption].
  - eapply Permutation_NoDup; [apply Permutation_sym, sort_keys_perm | assumption].
  - intros x. split; intros Hx.
    + eapply Permutation_in; [apply Permutation_sym, sort_keys_perm|]. apply H. eapply Permutation_in; [apply sort_keys_perm | exact Hx].
    + eapply Permutation_in; [apply Permutation_sym, sort_keys_perm|]. apply H. eapply Permutation_in; [apply sort_keys_perm | exact Hx].
Qed.
