(* Gen/LookupEnv.v -- executable model (no proofs) of the name collections of CodeGenEnvironment for C16
   (src/nunavut/jinja/environment.py: __init__, _add_to_environment, add_test, RESERVED_GLOBAL_NAMESPACES, RESERVED_GLOBAL_NAMES).
   Three dict-like collections (filters, tests, globals).  Every entry carries an owner tag so that "the name still maps to
   the same object" is a statement about tags.  Filters and tests are only ever written through _add_to_environment;
   globals are written directly by __init__ in the order modelled by `init_globals`.
   Quirk switch q_unchecked: additional_globals are checked against the reserved names only (the unchanged code). *)
From Verif Require Import Str.
Import ListNotations.
Open Scope N_scope.

Inductive owner := OBuiltin | OReserved | OLang | ODsdl | OUser (id : N).

Definition owner_eqb (a b : owner) : bool :=
  match a, b with
  | OBuiltin, OBuiltin | OReserved, OReserved | OLang, OLang | ODsdl, ODsdl => true
  | OUser x, OUser y => x =? y
  | _, _ => false
  end.

Definition coll := list (str * owner).
Fixpoint dget (d : coll) (n : str) : option owner :=
  match d with [] => None | (k, v) :: d' => if str_eqb k n then Some v else dget d' n end.
Fixpoint dset (d : coll) (n : str) (o : owner) : coll :=
  match d with
  | [] => [(n, o)]
  | (k, v) :: d' => if str_eqb k n then (k, o) :: d' else (k, v) :: dset d' n o
  end.

(* _add_to_environment(item_name, item, collection) -- None models `raise RuntimeError(f"{item_name} was already defined.")` *)
Definition add_to_environment (allow : bool) (d : coll) (n : str) (o : owner) : option coll :=
  match dget d n with
  | Some _ => if allow then Some (dset d n o) else None
  | None => Some (dset d n o)
  end.

Record env := { e_filters : coll; e_tests : coll; e_globals : coll }.

Inductive op :=
| OpFilter (n : str) (o : owner)        (* additional_filters item, filter_* method of add_conventional_methods_to_environment *)
| OpTest (n : str) (o : owner).         (* additional_tests item, add_test(...), is_* method *)

Definition step (allow : bool) (e : env) (x : op) : option env :=
  match x with
  | OpFilter n o => match add_to_environment allow (e_filters e) n o with
                    | Some f => Some {| e_filters := f; e_tests := e_tests e; e_globals := e_globals e |}
                    | None => None
                    end
  | OpTest n o => match add_to_environment allow (e_tests e) n o with
                  | Some t => Some {| e_filters := e_filters e; e_tests := t; e_globals := e_globals e |}
                  | None => None
                  end
  end.

Fixpoint run_ops (allow : bool) (e : env) (ops : list op) : option env :=
  match ops with
  | [] => Some e
  | x :: ops' => match step allow e x with Some e' => run_ops allow e' ops' | None => None end
  end.

(* ---- globals, in the order of CodeGenEnvironment.__init__ ---------------------------------------------------
     super().__init__()                       -> jinja DEFAULT_NAMESPACE           (OBuiltin)
     for name, value in additional_globals:   -> RuntimeError if reserved, else globals[name] = value
     for ns in RESERVED_GLOBAL_NAMESPACES:    -> globals[ns] = LanguageTemplateNamespace()
     globals["now_utc"] = ...                 -> (RESERVED_GLOBAL_NAMES)
     globals.update(target_language.get_globals())                                  (OLang)                     *)
Fixpoint add_user_globals (q_unchecked : bool) (reserved : list str) (g : coll) (user : list (str * N)) : option coll :=
  match user with
  | [] => Some g
  | (n, v) :: user' =>
      if str_in n reserved then None
      else if negb q_unchecked && (match dget g n with Some (OUser _) => false | Some _ => true | None => false end) then None
      else add_user_globals q_unchecked reserved (dset g n (OUser v)) user'
  end.

Definition set_all (g : coll) (names : list str) (o : owner) : coll := fold_left (fun g n => dset g n o) names g.

(* `reserved` = the names the gate rejects; `written` = the names __init__ then assigns itself (the namespaces and "now_utc") *)
Definition init_globals (q_unchecked : bool) (defaults reserved written lang : list str) (user : list (str * N)) : option coll :=
  match add_user_globals q_unchecked reserved (map (fun n => (n, OBuiltin)) defaults) user with
  | None => None
  | Some g => Some (set_all (set_all g written OReserved) lang OLang)
  end.

(* the whole constructor + DSDLCodeGenerator.__init__: user filters, user tests, then the DSDL instance tests *)
Definition user_ops (ufilters utests : list (str * N)) (dsdl : list str) : list op :=
  map (fun x => OpFilter (fst x) (OUser (snd x))) ufilters ++ map (fun x => OpTest (fst x) (OUser (snd x))) utests
      ++ map (fun n => OpTest n ODsdl) dsdl.

Definition env_create (allow q_unchecked : bool) (filters0 tests0 : coll) (defaults reserved written lang : list str)
           (uglobals ufilters utests : list (str * N)) (dsdl : list str) : option env :=
  match init_globals q_unchecked defaults reserved written lang uglobals with
  | None => None
  | Some g => run_ops allow {| e_filters := filters0; e_tests := tests0; e_globals := g |} (user_ops ufilters utests dsdl)
  end.
