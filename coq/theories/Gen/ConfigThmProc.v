(* C13 proofs, part 6: several builders and contexts in one process, with object identity of the LanguageConfig objects.
   Separation invariant + non-interference: when create() hands the context a fresh deep copy, NO operation other than the
   context's own get_supported_languages() changes what it reports. *)
From Verif Require Import Config ConfigThm.
Require Import Lia Bool List.
Import ListNotations.
Local Open Scope nat_scope.

Lemma upd_nth_length {A} (f : A -> A) l : forall i, length (upd_nth i f l) = length l.
Proof. induction l as [|x l IH]; intros [|i]; cbn; auto. Qed.

Lemma upd_nth_other {A} (f : A -> A) l : forall i j, i <> j -> nth_error (upd_nth j f l) i = nth_error l i.
Proof. induction l as [|x l IH]; intros [|i] [|j] H; cbn; auto; try congruence. Qed.

Lemma In_upd_nth {A} (f : A -> A) l : forall i y, In y (upd_nth i f l) -> In y l \/ exists x, nth_error l i = Some x /\ y = f x.
Proof.
  induction l as [|x l IH]; intros [|i] y H; cbn in *; auto.
  - destruct H as [<-|H]; [right; eauto | auto].
  - destruct H as [<-|H]; [auto|]. destruct (IH i y H) as [H1|H1]; auto.
Qed.

Lemma NoDup_snoc {A} (l : list A) a : NoDup l -> ~ In a l -> NoDup (l ++ [a]).
Proof.
  induction l as [|x l IH]; intros H N; cbn; [constructor; [auto|constructor]|].
  inversion H; subst. constructor.
  - rewrite in_app_iff. cbn. intros [H1|[H1|[]]]; [contradiction | subst; apply N; left; reflexivity].
  - apply IH; [assumption | intro; apply N; right; assumption].
Qed.

(* separation: every location held by a builder or a context exists; no context holds a builder's object; no two
   contexts hold the same object *)
Record sep (p : proc) : Prop := {
  sep_b : forall hb, In hb (p_builders p) -> hb_cfg hb < length (p_cfgs p);
  sep_c : forall x, In x (p_ctxs p) -> hc_cfg x < length (p_cfgs p);
  sep_bc : forall hb x, In hb (p_builders p) -> In x (p_ctxs p) -> hb_cfg hb <> hc_cfg x;
  sep_cc : NoDup (map hc_cfg (p_ctxs p))
}.

Lemma sep_empty : sep empty_proc.
Proof. split; cbn; try contradiction; constructor. Qed.

Lemma ctx_locs_distinct p c c' x x' :
  sep p -> nth_error (p_ctxs p) c = Some x -> nth_error (p_ctxs p) c' = Some x' -> c <> c' -> hc_cfg x <> hc_cfg x'.
Proof.
  intros S G G' N E. pose proof (sep_cc p S) as D.
  rewrite NoDup_nth_error in D. apply N, D.
  - rewrite map_length. apply nth_error_Some. congruence.
  - rewrite !nth_error_map, G, G'. cbn. congruence.
Qed.

(* one step with the detaching create(): the invariant is kept and every context other than the one observing itself
   reports exactly what it reported before *)
Lemma papply_detached_step builtin p o :
  sep p ->
  sep (papply true builtin p o)
  /\ forall c, c < length (p_ctxs p) -> pop_observes c o = false -> ctx_report (papply true builtin p o) c = ctx_report p c.
Proof.
  intros S. destruct o as [|i op|i|c']; cbn [papply].
  - (* new builder: a fresh object *)
    split.
    + split; cbn [p_cfgs p_builders p_ctxs]; rewrite ?app_length; cbn [length].
      * intros hb H. apply in_app_iff in H as [H|[<-|[]]]; [pose proof (sep_b p S hb H); lia | cbn; lia].
      * intros x H. pose proof (sep_c p S x H). lia.
      * intros hb x H Hx. apply in_app_iff in H as [H|[<-|[]]]; [apply (sep_bc p S); assumption|].
        cbn. pose proof (sep_c p S x Hx). lia.
      * apply (sep_cc p S).
    + intros c Hc _. unfold ctx_report. cbn [p_ctxs p_cfgs].
      destruct (nth_error (p_ctxs p) c) as [x|] eqn:G; [|reflexivity].
      apply nth_error_app1. apply (sep_c p S x). eapply nth_error_In; eauto.
  - (* builder call *)
    destruct (nth_error (p_builders p) i) as [hb|] eqn:Gb; [|split; [exact S | reflexivity]].
    assert (Hin : In hb (p_builders p)) by (eapply nth_error_In; eauto).
    split.
    + split; cbn [p_cfgs p_builders p_ctxs]; rewrite ?upd_nth_length.
      * intros hb' H. apply In_upd_nth in H as [H|(x & _ & ->)]; [apply (sep_b p S); assumption | cbn; apply (sep_b p S hb Hin)].
      * apply (sep_c p S).
      * intros hb' x H Hx. apply In_upd_nth in H as [H|(y & _ & ->)]; [apply (sep_bc p S); assumption | cbn; apply (sep_bc p S hb x Hin Hx)].
      * apply (sep_cc p S).
    + intros c Hc _. unfold ctx_report. cbn [p_ctxs p_cfgs].
      destruct (nth_error (p_ctxs p) c) as [x|] eqn:G; [|reflexivity].
      apply upd_nth_other. intro E. apply (sep_bc p S hb x Hin); [eapply nth_error_In; eauto | congruence].
  - (* create *)
    destruct (nth_error (p_builders p) i) as [hb|] eqn:Gb; [|split; [exact S | reflexivity]].
    assert (Hin : In hb (p_builders p)) by (eapply nth_error_In; eauto).
    destruct (bcreate_st true (view p hb)) as [[b' cs] oo].
    set (cfgs1 := upd_nth (hb_cfg hb) (fun _ => b_sections b') (p_cfgs p)).
    assert (L1 : length cfgs1 = length (p_cfgs p)) by apply upd_nth_length.
    assert (Keep : forall c, c < length (p_ctxs p) ->
              match nth_error (p_ctxs p) c with Some x => nth_error cfgs1 (hc_cfg x) | None => None end = ctx_report p c).
    { intros c Hc. unfold ctx_report. destruct (nth_error (p_ctxs p) c) as [x|] eqn:G; [|reflexivity].
      apply upd_nth_other. intro E. apply (sep_bc p S hb x Hin); [eapply nth_error_In; eauto | congruence]. }
    assert (S1 : sep {| p_cfgs := cfgs1; p_builders := p_builders p; p_ctxs := p_ctxs p |}).
    { split; cbn [p_cfgs p_builders p_ctxs]; rewrite ?L1; [apply (sep_b p S) | apply (sep_c p S) | apply (sep_bc p S) | apply (sep_cc p S)]. }
    destruct cs as [s|]; [destruct oo as [oo|]; [destruct (resolve_language (view p hb)) as [l|]|]|];
      try (split; [exact S1 | intros c Hc _; unfold ctx_report at 1; cbn [p_ctxs p_cfgs]; apply Keep; exact Hc]).
    split.
    + split; cbn [p_cfgs p_builders p_ctxs]; rewrite ?app_length, ?L1; cbn [length].
      * intros hb' H. pose proof (sep_b p S hb' H). lia.
      * intros x H. apply in_app_iff in H as [H|[<-|[]]]; [pose proof (sep_c p S x H); lia | cbn; lia].
      * intros hb' x H Hx. apply in_app_iff in Hx as [Hx|[<-|[]]]; [apply (sep_bc p S); assumption|].
        cbn. pose proof (sep_b p S hb' H). lia.
      * rewrite map_app. cbn [map hc_cfg]. apply NoDup_snoc; [apply (sep_cc p S)|].
        rewrite in_map_iff. intros (x & E & Hx). pose proof (sep_c p S x Hx). lia.
    + intros c Hc _. unfold ctx_report at 1. cbn [p_ctxs p_cfgs].
      rewrite nth_error_app1 by exact Hc.
      rewrite <- (Keep c Hc).
      destruct (nth_error (p_ctxs p) c) as [x|] eqn:G; [|reflexivity].
      apply nth_error_app1. rewrite L1. apply (sep_c p S x). eapply nth_error_In; eauto.
  - (* another context constructs its non-target languages *)
    destruct (nth_error (p_ctxs p) c') as [x'|] eqn:G'; [|split; [exact S | reflexivity]].
    split.
    + split; cbn [p_cfgs p_builders p_ctxs]; rewrite ?upd_nth_length;
        [apply (sep_b p S) | apply (sep_c p S) | apply (sep_bc p S) | apply (sep_cc p S)].
    + intros c Hc Ho. cbn [pop_observes] in Ho. apply Nat.eqb_neq in Ho.
      unfold ctx_report. cbn [p_ctxs p_cfgs].
      destruct (nth_error (p_ctxs p) c) as [x|] eqn:G; [|reflexivity].
      apply upd_nth_other. apply (ctx_locs_distinct p c c' x x' S G G' Ho).
Qed.

Lemma papply_ctxs_grow detach builtin p o : length (p_ctxs p) <= length (p_ctxs (papply detach builtin p o)).
Proof.
  destruct o as [|i op|i|c']; cbn [papply p_ctxs]; try lia.
  - destruct (nth_error (p_builders p) i); cbn [p_ctxs]; lia.
  - destruct (nth_error (p_builders p) i); [|lia].
    destruct (bcreate_st detach (view p h)) as [[b' cs] oo].
    destruct cs; [destruct oo; [destruct (resolve_language (view p h)); [destruct detach|]|]|]; cbn [p_ctxs]; rewrite ?app_length; cbn; lia.
  - destruct (nth_error (p_ctxs p) c'); cbn [p_ctxs]; lia.
Qed.

(* NON-INTERFERENCE, for every history: whatever is done in the process -- other builders, the SAME builder, further
   create() calls, other contexts constructing their languages -- a context reports what it reported, as long as it
   does not itself construct its non-target languages in between *)
Theorem context_noninterference builtin ops : forall p c,
  sep p -> c < length (p_ctxs p) ->
  forallb (fun o => negb (pop_observes c o)) ops = true ->
  ctx_report (prun true builtin ops p) c = ctx_report p c.
Proof.
  unfold prun. induction ops as [|o ops IH]; intros p c S Hc H; [reflexivity|].
  cbn [fold_left forallb] in *. apply andb_true_iff in H as [H1 H2]. apply negb_true_iff in H1.
  destruct (papply_detached_step builtin p o S) as [S' K].
  rewrite IH; [apply K; assumption | exact S' | | exact H2].
  pose proof (papply_ctxs_grow true builtin p o). lia.
Qed.

Lemma prun_sep builtin ops : forall p, sep p -> sep (prun true builtin ops p).
Proof.
  unfold prun. induction ops as [|o ops IH]; intros p S; [exact S|].
  cbn [fold_left]. apply IH. apply (papply_detached_step builtin p o S).
Qed.

Theorem context_noninterference_from_start builtin ops1 ops2 c :
  c < length (p_ctxs (prun true builtin ops1 empty_proc)) ->
  forallb (fun o => negb (pop_observes c o)) ops2 = true ->
  ctx_report (prun true builtin ops2 (prun true builtin ops1 empty_proc)) c = ctx_report (prun true builtin ops1 empty_proc) c.
Proof. intros. apply context_noninterference; auto. apply prun_sep, sep_empty. Qed.
