(* C11: the path map of Gen/Namespace.v (make_path / out_path / ns_path) -- shape, injectivity,
   containment below the output directory, include path = output path relative to outdir. *)
From Verif Require Import NamespaceSpec.
From Coq Require Import DecimalN Lia.
Open Scope N_scope.

(* ---- decimal rendering ------------------------------------------------------------------ *)
Lemma uint_str_digits u : Forall (fun c => 48 <= c <= 57) (uint_str u).
Proof. induction u; cbn [uint_str]; constructor; try assumption; lia. Qed.

Lemma dec_digits n : Forall (fun c => 48 <= c <= 57) (dec n).
Proof. apply uint_str_digits. Qed.

Lemma uint_str_inj u : forall v, uint_str u = uint_str v -> u = v.
Proof.
  induction u; intros [] H; cbn [uint_str] in H; try discriminate H; try reflexivity;
    injection H as H; f_equal; auto.
Qed.

Lemma dec_inj a b : dec a = dec b -> a = b.
Proof.
  unfold dec; intros H. apply uint_str_inj in H.
  rewrite <- (Unsigned.of_to a), <- (Unsigned.of_to b), H. reflexivity.
Qed.

Lemma dec_nonempty n : dec n <> [].
Proof.
  unfold dec; intros H.
  destruct (N.to_uint n) eqn:E; cbn [uint_str] in H; try discriminate H.
  pose proof (Unsigned.of_to n) as Hn. rewrite E in Hn. cbn in Hn. subst n. discriminate E.
Qed.

Lemma dec_no_uscore n : ~ In USCORE (dec n).
Proof.
  intros H. pose proof (dec_digits n) as HF. rewrite Forall_forall in HF.
  apply HF in H. unfold USCORE in H. lia.
Qed.

(* ---- splitting at the last separator is unique -------------------------------------------- *)
Lemma split_last_unique (s : N) (a : list N) : forall b c d,
  ~ In s b -> ~ In s d -> a ++ s :: b = c ++ s :: d -> a = c /\ b = d.
Proof.
  induction a as [|x a IH]; intros b [|y c] d Hb Hd H; cbn [app] in H.
  - injection H as H. split; [reflexivity|assumption].
  - injection H as _ H. exfalso; apply Hb. rewrite H. apply in_elt.
  - injection H as _ H. exfalso; apply Hd. rewrite <- H. apply in_elt.
  - injection H as Hx H. destruct (IH b c d Hb Hd H) as [-> ->]. subst y. split; reflexivity.
Qed.

Lemma base_name_inj t1 t2 : base_name t1 = base_name t2 ->
  t_short t1 = t_short t2 /\ t_major t1 = t_major t2 /\ t_minor t1 = t_minor t2.
Proof.
  unfold base_name; intros H.
  change (t_short t1 ++ USCORE :: dec (t_major t1) ++ USCORE :: dec (t_minor t1))
    with (t_short t1 ++ (USCORE :: dec (t_major t1)) ++ USCORE :: dec (t_minor t1)) in H.
  change (t_short t2 ++ USCORE :: dec (t_major t2) ++ USCORE :: dec (t_minor t2))
    with (t_short t2 ++ (USCORE :: dec (t_major t2)) ++ USCORE :: dec (t_minor t2)) in H.
  rewrite !app_assoc in H.
  apply split_last_unique in H; try apply dec_no_uscore.
  destruct H as [H Hm]. apply split_last_unique in H; try apply dec_no_uscore.
  destruct H as [Hs HM]. split; [assumption|]. split; apply dec_inj; assumption.
Qed.

(* ---- with_suffix ---------------------------------------------------------------------------- *)
Lemma rfind_none c s : ~ In c s -> rfind c s = None.
Proof.
  induction s as [|x s IH]; cbn [rfind In]; intros H; [reflexivity|].
  rewrite IH by tauto. destruct (N.eqb_spec x c); [tauto|reflexivity].
Qed.

Lemma with_suffix_no_dot name e : ~ In DOT name -> with_suffix name e = name ++ e.
Proof. intros H. unfold with_suffix. rewrite (rfind_none _ _ H). reflexivity. Qed.

(* ---- generic list facts --------------------------------------------------------------------- *)
Lemma map_inj_on (f : list N -> list N) : forall l1 l2 : list (list N),
  (forall x y, In x l1 -> In y l2 -> f x = f y -> x = y) -> map f l1 = map f l2 -> l1 = l2.
Proof.
  induction l1 as [|x l1 IH]; intros [|y l2] Hinj H; cbn [map] in H; try discriminate H;
    [reflexivity|].
  injection H as Hx H. f_equal.
  - apply Hinj; [left; reflexivity|left; reflexivity|assumption].
  - apply IH; [|assumption]. intros a b Ha Hb. apply Hinj; right; assumption.
Qed.

Lemma skipn_length_app {A} (l r : list A) : skipn (length l) (l ++ r) = r.
Proof. induction l as [|x l IH]; cbn [length app skipn]; [reflexivity|assumption]. Qed.

(* ---- safe components and lexical resolution -------------------------------------------------- *)
Lemma ident_like_safe x : ident_like x -> safe_comp x.
Proof.
  intros (Hne & Hs & Hd). repeat split; try assumption; intros ->; apply Hd; left; reflexivity.
Qed.

Lemma ident_like_ext_safe x e : ident_like x -> ~ In SLASH e -> safe_comp (x ++ e).
Proof.
  intros (Hne & Hs & Hd) He. destruct x as [|c x]; [congruence|].
  assert (Hc : c <> DOT) by (intros ->; apply Hd; left; reflexivity).
  repeat split.
  - discriminate.
  - intros H. apply in_app_or in H. tauto.
  - cbn [app]. intros H. injection H as H _. tauto.
  - cbn [app]. intros H. injection H as H _. tauto.
Qed.

Lemma resolve_safe rel : Forall safe_comp rel -> forall st, resolve st rel = rev rel ++ st.
Proof.
  induction 1 as [|c rel (Hne & Hs & H1 & H2) _ IH]; intros st; cbn [resolve rev app]; [reflexivity|].
  destruct (str_eqb_spec c [DOT]); [tauto|]. destruct (str_eqb_spec c [DOT; DOT]); [tauto|].
  rewrite IH, <- app_assoc. reflexivity.
Qed.

Lemma in_names_base types t : In t types -> In (base_name t) (names_of types).
Proof. intros H. unfold names_of. apply in_flat_map. exists t. split; [assumption|left; reflexivity]. Qed.

Lemma in_names_ns types t x : In t types -> In x (t_ns t) -> In x (names_of types).
Proof. intros H Hx. unfold names_of. apply in_flat_map. exists t. split; [assumption|right; assumption]. Qed.

Lemma firstn_in' {A} (x : A) n l : In x (firstn n l) -> In x l.
Proof.
  revert l; induction n as [|n IH]; intros [|a l]; cbn [firstn In]; try tauto.
  intros [H|H]; [left; assumption | right; apply IH; assumption].
Qed.

Lemma split_on_none c s : ~ In c s -> split_on c s = [s].
Proof.
  induction s as [|x r IH]; intros H; cbn [split_on]; [reflexivity|].
  rewrite IH by (intros X; apply H; right; exact X).
  destruct (N.eqb_spec x c) as [->|]; [exfalso; apply H; left; reflexivity | reflexivity].
Qed.

Lemma ident_like_stem_valid s : ident_like s -> stem_valid s = true.
Proof.
  intros (Hne & Hs & Hd). unfold stem_valid.
  destruct (str_eqb_spec s []); [contradiction|].
  destruct (str_eqb_spec s [46]) as [->|]; [exfalso; apply Hd; left; reflexivity|].
  destruct (str_eqb_spec s [46; 46]) as [->|]; [exfalso; apply Hd; left; reflexivity|].
  destruct (existsb (N.eqb 47) s) eqn:E; [|reflexivity].
  apply existsb_exists in E. destruct E as (x & Hx & Ex). apply N.eqb_eq in Ex. subst x. contradiction.
Qed.

Section PATH.
  Variable strop : str -> str.
  Variable es : bool.
  Variable ext stem : str.
  Variable outdir : path.

  Theorem path_shape t : ~ In DOT (pstrop strop es (base_name t)) ->
    out_path strop es ext outdir t
    = outdir ++ map (pstrop strop es) (t_ns t) ++ [pstrop strop es (base_name t) ++ ext].
  Proof. intros H. unfold out_path, make_path. rewrite (with_suffix_no_dot _ _ H). reflexivity. Qed.

  Lemma ns_path_valid k : stem_valid stem = true ->
    ns_path strop ext stem outdir k = outdir ++ map strop k ++ [with_suffix stem ext].
  Proof.
    intros H. unfold ns_path, stem_valid in *. apply andb_prop in H. destruct H as [H Hs].
    apply andb_prop in H. destruct H as [H _]. apply andb_prop in H. destruct H as [Hne Hd].
    apply negb_true_iff in Hs, Hne, Hd.
    assert (Hsl : ~ In SLASH stem).
    { intros X. assert (existsb (N.eqb 47) stem = true); [|congruence].
      apply existsb_exists. exists SLASH. split; [exact X | reflexivity]. }
    assert (Hsp : split_on 47 stem = [stem]) by (apply split_on_none; exact Hsl).
    assert (Ha : stem_abs stem = false).
    { unfold stem_abs. destruct stem as [|x r]; [reflexivity|]. destruct (N.eqb_spec x 47) as [->|]; [|reflexivity].
      exfalso. apply Hsl. left; reflexivity. }
    rewrite Ha. unfold stem_parts. rewrite Hsp. cbn [filter]. rewrite Hne, Hd. cbn [orb negb].
    unfold with_suffix_last. rewrite <- !app_assoc. rewrite app_assoc, rev_app_distr. cbn [rev app].
    rewrite rev_involutive, <- app_assoc. reflexivity.
  Qed.

  Theorem ns_path_shape k : stem_valid stem = true -> ~ In DOT stem ->
    ns_path strop ext stem outdir k = outdir ++ map strop k ++ [stem ++ ext].
  Proof. intros V H. rewrite (ns_path_valid k V). rewrite (with_suffix_no_dot _ _ H). reflexivity. Qed.

  Theorem path_injective types t1 t2 :
    (forall x y, In x (names_of types) -> In y (names_of types) ->
                 pstrop strop es x = pstrop strop es y -> x = y) ->
    (forall t, In t types -> ~ In DOT (pstrop strop es (base_name t))) ->
    In t1 types -> In t2 types ->
    out_path strop es ext outdir t1 = out_path strop es ext outdir t2 -> t1 = t2.
  Proof.
    intros Hinj Hdot H1 H2 H.
    rewrite (path_shape t1 (Hdot _ H1)), (path_shape t2 (Hdot _ H2)) in H.
    apply app_inv_head in H. apply app_inj_tail in H. destruct H as [Hns Hb].
    apply app_inv_tail in Hb.
    apply Hinj in Hb; try (apply in_names_base; assumption).
    apply map_inj_on in Hns.
    - apply base_name_inj in Hb. destruct Hb as (Hs & HM & Hm).
      destruct t1, t2; cbn in *. congruence.
    - intros x y Hx Hy. apply Hinj; [exact (in_names_ns _ _ _ H1 Hx)|exact (in_names_ns _ _ _ H2 Hy)].
  Qed.

  Theorem path_inside types t : In t types ->
    (forall x, In x (names_of types) -> ident_like (pstrop strop es x)) ->
    ~ In SLASH ext ->
    exists rel, out_path strop es ext outdir t = outdir ++ rel /\
                rel = make_path strop es ext t /\
                Forall safe_comp rel /\
                forall st, resolve st rel = rev rel ++ st.
  Proof.
    intros Ht Hid Hext. exists (make_path strop es ext t).
    assert (HF : Forall safe_comp (make_path strop es ext t)).
    { unfold make_path. apply Forall_app. split.
      - apply Forall_forall. intros c Hc. apply in_map_iff in Hc. destruct Hc as (x & <- & Hx).
        apply ident_like_safe, Hid. eapply in_names_ns; eassumption.
      - constructor; [|constructor].
        pose proof (Hid _ (in_names_base _ _ Ht)) as Hb.
        rewrite with_suffix_no_dot by apply Hb. apply ident_like_ext_safe; assumption. }
    split; [reflexivity|]. split; [reflexivity|]. split; [assumption|]. apply resolve_safe, HF.
  Qed.

  Theorem ns_path_inside k :
    (forall x, In x k -> ident_like (strop x)) -> ident_like stem -> ~ In SLASH ext ->
    exists rel, ns_path strop ext stem outdir k = outdir ++ rel /\
                Forall safe_comp rel /\
                forall st, resolve st rel = rev rel ++ st.
  Proof.
    intros Hid Hstem Hext. exists (map strop k ++ [with_suffix stem ext]).
    assert (HF : Forall safe_comp (map strop k ++ [with_suffix stem ext])).
    { apply Forall_app. split.
      - apply Forall_forall. intros c Hc. apply in_map_iff in Hc. destruct Hc as (x & <- & Hx).
        apply ident_like_safe, Hid, Hx.
      - constructor; [|constructor].
        rewrite with_suffix_no_dot by apply Hstem. apply ident_like_ext_safe; assumption. }
    split; [rewrite ns_path_valid by (apply ident_like_stem_valid; assumption); reflexivity|].
    split; [assumption|]. apply resolve_safe, HF.
  Qed.

  (* EVERY plain-file-name stem (dots allowed), with an extension pathlib accepts (".x..."): the namespace file is a safe name *)
  Definition valid_ext (e : str) : Prop := exists e', e = DOT :: e' /\ e' <> [] /\ ~ In SLASH e.

  Lemma with_suffix_valid_safe : stem_valid stem = true -> valid_ext ext -> safe_comp (with_suffix stem ext).
  Proof.
    intros V (e' & -> & He' & Hsl). unfold stem_valid in V. apply andb_prop in V. destruct V as [V Hs].
    apply andb_prop in V. destruct V as [V _]. apply andb_prop in V. destruct V as [Hne _].
    apply negb_true_iff in Hs, Hne.
    assert (Hns : ~ In SLASH stem).
    { intros X. assert (existsb (N.eqb 47) stem = true); [|congruence].
      apply existsb_exists. exists SLASH. split; [exact X | reflexivity]. }
    destruct stem as [|c0 s0] eqn:Es; [discriminate|]. rewrite <- Es in *.
    assert (G : forall p, p <> [] -> (forall x, In x p -> In x stem) -> safe_comp (p ++ DOT :: e')).
    { intros p Hp Hin. destruct p as [|a p]; [congruence|]. destruct e' as [|b e'']; [congruence|].
      split; [discriminate|]. split.
      - intros X. apply in_app_or in X. destruct X as [X|X]; [apply Hns, Hin, X | apply Hsl, X].
      - split; intros X; apply (f_equal (@length _)) in X; cbn [length app] in X; rewrite app_length in X; cbn [length] in X; lia. }
    unfold with_suffix. destruct (rfind DOT stem) as [i|].
    - destruct (Nat.ltb 0 i && Nat.ltb (S i) (length stem))%bool eqn:E.
      + apply andb_prop in E. destruct E as [E1 E2]. apply Nat.ltb_lt in E1. apply Nat.ltb_lt in E2. apply G.
        * intros X. apply (f_equal (@length _)) in X. rewrite firstn_length in X. cbn [length] in X. lia.
        * intros x Hx. eapply firstn_in'; eassumption.
      + apply G; [rewrite Es; discriminate | auto].
    - apply G; [rewrite Es; discriminate | auto].
  Qed.

  Theorem ns_path_inside_valid k :
    (forall x, In x k -> ident_like (strop x)) -> stem_valid stem = true -> valid_ext ext ->
    exists rel, ns_path strop ext stem outdir k = outdir ++ rel /\
                Forall safe_comp rel /\
                forall st, resolve st rel = rev rel ++ st.
  Proof.
    intros Hid V Hext. exists (map strop k ++ [with_suffix stem ext]).
    assert (HF : Forall safe_comp (map strop k ++ [with_suffix stem ext])).
    { apply Forall_app. split.
      - apply Forall_forall. intros c Hc. apply in_map_iff in Hc. destruct Hc as (x & <- & Hx).
        apply ident_like_safe, Hid, Hx.
      - constructor; [|constructor]. apply with_suffix_valid_safe; assumption. }
    split; [rewrite ns_path_valid by assumption; reflexivity|]. split; [assumption|]. apply resolve_safe, HF.
  Qed.

  Theorem include_path_eq_output_path t :
    out_path strop es ext outdir t = outdir ++ include_path strop es ext t /\
    relative_to_outdir outdir (out_path strop es ext outdir t) = include_path strop es ext t.
  Proof.
    split; [reflexivity|]. unfold relative_to_outdir, out_path, include_path.
    apply skipn_length_app.
  Qed.
End PATH.
