(* C11: the heap described by tree_ok / tree_full (NamespaceSpec.v) is a tree rooted at [r]:
   get_root_namespace reaches the root, the recursive generators enumerate every namespace and every
   type exactly once, and find_output_path_for_type finds every type from every namespace. *)
From Verif Require Import NamespaceBase.
From Coq Require Import Lia.
Open Scope N_scope.

(* ---- generic list facts ------------------------------------------------------------------ *)
Lemma NoDup_app_intro {A} (a b : list A) :
  NoDup a -> NoDup b -> (forall x, In x a -> ~ In x b) -> NoDup (a ++ b).
Proof.
  induction a as [|x a IH]; cbn [app]; intros Ha Hb Hd; [assumption|].
  inversion Ha as [|? ? Hx Ha']; subst. constructor.
  - intros Hin. apply in_app_or in Hin. destruct Hin as [Hin|Hin]; [contradiction|].
    apply (Hd x); [left; reflexivity | assumption].
  - apply IH; [assumption | assumption | intros y Hy; apply Hd; right; assumption].
Qed.

Lemma NoDup_flat_map {A B} (f : A -> list B) (l : list A) :
  NoDup l -> (forall x, In x l -> NoDup (f x)) ->
  (forall x y z, In x l -> In y l -> In z (f x) -> In z (f y) -> x = y) ->
  NoDup (flat_map f l).
Proof.
  induction l as [|a l IH]; cbn [flat_map]; intros Hl Hf Hd; [constructor|].
  inversion Hl as [|? ? Ha Hl']; subst. apply NoDup_app_intro.
  - apply Hf; left; reflexivity.
  - apply IH; [assumption | intros x Hx; apply Hf; right; assumption |].
    intros x y z Hx Hy; apply Hd; right; assumption.
  - intros z Hz Hz'. apply in_flat_map in Hz'. destruct Hz' as (y & Hy & Hzy).
    assert (a = y) by (apply (Hd a y z); [left; reflexivity | right; assumption | assumption | assumption]).
    subst y. contradiction.
Qed.

Lemma flat_map_flat_map {A B C} (f : A -> list B) (g : B -> list C) (l : list A) :
  flat_map g (flat_map f l) = flat_map (fun x => flat_map g (f x)) l.
Proof.
  induction l as [|a l IH]; cbn [flat_map]; [reflexivity|]. rewrite flat_map_app, IH. reflexivity.
Qed.

Lemma map_flat_map {A B C} (f : A -> list B) (g : B -> C) (l : list A) :
  map g (flat_map f l) = flat_map (fun x => map g (f x)) l.
Proof.
  induction l as [|a l IH]; cbn [flat_map map]; [reflexivity|]. rewrite map_app, IH. reflexivity.
Qed.

Lemma perm_flat_map_cons {A B} (g : A -> B) (h : A -> list B) (l : list A) :
  Permutation (flat_map (fun x => g x :: h x) l) (map g l ++ flat_map h l).
Proof.
  induction l as [|a l IH]; cbn [flat_map map app]; [constructor|].
  constructor. rewrite IH. rewrite !app_assoc. apply Permutation_app_tail. apply Permutation_app_comm.
Qed.

Lemma NoDup_map_pair {A B} (f : A -> B) (l : list A) : NoDup l -> NoDup (map (fun t => (t, f t)) l).
Proof.
  intros H. apply (NoDup_map_inv fst). rewrite map_map. cbn [fst]. rewrite map_id. exact H.
Qed.

Lemma dict_get_in (f : ty -> path) l t : In t l -> dict_get (map (fun t => (t, f t)) l) t = Some (f t).
Proof.
  induction l as [|a l IH]; cbn [map dict_get In]; [intros []|].
  intros H. destruct (ty_eqb_spec a t) as [->|Hne]; [reflexivity|].
  destruct H as [H|H]; [contradiction | apply IH; assumption].
Qed.

Lemma dict_get_notin (f : ty -> path) l t : ~ In t l -> dict_get (map (fun t => (t, f t)) l) t = None.
Proof.
  induction l as [|a l IH]; cbn [map dict_get In]; [reflexivity|].
  intros H. destruct (ty_eqb_spec a t) as [->|Hne]; [tauto|]. apply IH; tauto.
Qed.

(* ---- `k` is a prefix of `c` ---------------------------------------------------------------- *)
Definition under (k c : key) : Prop := firstn (length k) c = k.

Lemma under_refl k : under k k.
Proof. apply firstn_all. Qed.

Lemma under_len k c : under k c -> (length k <= length c)%nat.
Proof.
  unfold under; intros H. assert (E : length (firstn (length k) c) = length k) by (rewrite H; reflexivity).
  rewrite firstn_length in E. lia.
Qed.

Lemma under_eq_len k c : under k c -> (length c <= length k)%nat -> c = k.
Proof. unfold under; intros H Hl. rewrite firstn_all2 in H by assumption. assumption. Qed.

Lemma under_trans a b c : under a b -> under b c -> under a c.
Proof.
  intros Hab Hbc. pose proof (under_len _ _ Hab) as Hl. unfold under in *.
  rewrite <- Hbc in Hab. rewrite firstn_firstn in Hab.
  replace (Nat.min (length a) (length b)) with (length a) in Hab by lia. assumption.
Qed.

Lemma under_parent c k : parent_of c = Some k -> under k c /\ length c = S (length k).
Proof.
  intros H. destruct (parent_child_shape _ _ H) as (x & ->). split.
  - unfold under. rewrite firstn_app, firstn_all, Nat.sub_diag. cbn [firstn]. apply app_nil_r.
  - rewrite app_length. cbn [length]. lia.
Qed.

(* the unique child of k on the way to c *)
Lemma under_step k c :
  k <> [] -> under k c -> (length k < length c)%nat ->
  parent_of (firstn (S (length k)) c) = Some k /\ under (firstn (S (length k)) c) c.
Proof.
  intros Hne Hu Hl.
  assert (El : length (firstn (S (length k)) c) = S (length k)) by (apply firstn_length_le; lia).
  split.
  - apply parent_of_some. split.
    + rewrite El. destruct k; [congruence | cbn [length]; lia].
    + rewrite removelast_firstn_pred, El. cbn [pred]. rewrite firstn_firstn.
      replace (Nat.min (length k) (S (length k))) with (length k) by lia. symmetry; exact Hu.
  - unfold under. rewrite El. reflexivity.
Qed.

Lemma child_unique k a c : parent_of a = Some k -> under a c -> a = firstn (S (length k)) c.
Proof.
  intros Hp Hu. destruct (under_parent _ _ Hp) as [_ El]. unfold under in Hu. rewrite El in Hu.
  symmetry; assumption.
Qed.

Definition maxlen (s : store) : nat := list_max (map (fun kn : key * node => length (fst kn)) s).

Lemma key_len_le s k : In k (keys s) -> (length k <= maxlen s)%nat.
Proof.
  intros H. unfold maxlen.
  pose proof (proj1 (list_max_le (map (fun kn : key * node => length (fst kn)) s) _) (le_n _)) as F.
  rewrite Forall_forall in F. apply F. unfold keys in H. apply in_map_iff in H.
  destruct H as (kn & <- & Hin). apply in_map_iff. exists kn. split; [reflexivity | assumption].
Qed.

Lemma keys_length s : length (keys s) = length s.
Proof. apply map_length. Qed.

Section TREE.
  Variable strop : str -> str.
  Variable es : bool.
  Variable ext stem : str.
  Variable outdir : path.
  Variable cperm : list key -> list key.
  Hypothesis cperm_perm : forall l, Permutation (cperm l) l.
  Variable types : list ty.
  Variable s : store.
  Variable r : str.

  Notation opath := (out_path strop es ext outdir).
  Notation npath := (ns_path strop ext stem outdir).
  Notation TOK := (tree_ok strop es ext outdir types s).
  Notation TFULL := (tree_full strop es ext outdir types s).

  (* ---- T7 / T6 / T1 ------------------------------------------------------------------------- *)
  Theorem parent_shorter :
    TOK -> forall k n p, get s k = Some n -> n_parent n = Some p ->
    In p (keys s) /\ length k = S (length p) /\ firstn (length p) k = p.
  Proof.
    intros T k n p Hg Hp. rewrite (tk_parent _ _ _ _ _ _ T _ _ Hg) in Hp.
    destruct (under_parent _ _ Hp) as [Hu El]. split; [|split; assumption].
    apply (tk_keys _ _ _ _ _ _ T). apply (nodes_parent_closed k); [|assumption].
    apply (tk_keys _ _ _ _ _ _ T). eapply get_some_in; eassumption.
  Qed.

  Theorem single_root :
    TOK -> one_root r types -> forall k n, get s k = Some n -> (n_parent n = None <-> k = [r]).
  Proof.
    intros T Hr k n Hg. rewrite (tk_parent _ _ _ _ _ _ T _ _ Hg).
    assert (Hk : In k (nodes_of types)) by (apply (tk_keys _ _ _ _ _ _ T); eapply get_some_in; eassumption).
    destruct (nodes_root _ _ _ Hr Hk) as (rest & ->). rewrite parent_of_none. split.
    - destruct rest; [reflexivity | cbn [length]; lia].
    - intros [= ->]. cbn [length]. lia.
  Qed.

  Lemma climb_root :
    TOK -> one_root r types -> forall fuel k, In k (keys s) -> (length k <= fuel)%nat -> climb fuel s k = [r].
  Proof.
    intros T Hr. induction fuel as [|f IH]; intros k Hk Hl.
    - apply (tk_keys _ _ _ _ _ _ T) in Hk. apply nodes_nonempty in Hk. destruct k; [congruence | cbn [length] in Hl; lia].
    - cbn [climb]. destruct (in_keys_get _ _ Hk) as (n & Hg). rewrite Hg.
      destruct (n_parent n) as [p|] eqn:Ep.
      + destruct (parent_shorter T _ _ _ Hg Ep) as (Hp & El & _). apply IH; [assumption | lia].
      + apply (single_root T Hr _ _ Hg). assumption.
  Qed.

  Theorem root_reached :
    TOK -> one_root r types -> forall k, In k (keys s) -> get_root_namespace s k = [r].
  Proof.
    intros T Hr k Hk. unfold get_root_namespace, depth_fuel. apply (climb_root T Hr); [assumption|].
    pose proof (key_len_le _ _ Hk) as H. change (length k <= S (maxlen s))%nat. lia.
  Qed.

  (* ---- the sub-tree enumeration ------------------------------------------------------------- *)
  Lemma cperm_in l c : In c (cperm l) <-> In c l.
  Proof. split; apply Permutation_in; [apply cperm_perm | apply Permutation_sym, cperm_perm]. Qed.

  Lemma cperm_nodup l : NoDup l -> NoDup (cperm l).
  Proof. apply Permutation_NoDup. apply Permutation_sym, cperm_perm. Qed.

  Fixpoint sub (fuel : nat) (k : key) : list key :=
    match fuel with
    | O => []
    | S f => match get s k with
             | None => []
             | Some n => k :: flat_map (sub f) (cperm (n_children n))
             end
    end.

  Definition tys_at (k : key) : list (ty * path) :=
    match get s k with Some n => n_types n | None => [] end.

  Definition ity (tp : ty * path) : item := ITy (fst tp) (snd tp).

  Lemma gen_namespaces_sub fuel k :
    gen_namespaces strop ext stem outdir cperm fuel s k = map (fun c => (c, npath c)) (sub fuel k).
  Proof.
    revert k; induction fuel as [|f IH]; intros k; cbn [gen_namespaces sub]; [reflexivity|].
    destruct (get s k) as [n|]; [|reflexivity]. cbn [map]. f_equal.
    rewrite map_flat_map. apply flat_map_ext. intros c. apply IH.
  Qed.

  Lemma gen_datatypes_sub fuel k : gen_datatypes cperm fuel s k = flat_map tys_at (sub fuel k).
  Proof.
    revert k; induction fuel as [|f IH]; intros k; cbn [gen_datatypes sub]; [reflexivity|].
    destruct (get s k) as [n|] eqn:Hg; [|reflexivity]. cbn [flat_map].
    replace (tys_at k) with (n_types n) by (unfold tys_at; rewrite Hg; reflexivity). f_equal.
    rewrite flat_map_flat_map. apply flat_map_ext. intros c. apply IH.
  Qed.

  Lemma gen_all_sub fuel k :
    gen_all strop ext stem outdir cperm fuel s k =
    flat_map (fun c => INs c (npath c) :: map ity (tys_at c)) (sub fuel k).
  Proof.
    revert k; induction fuel as [|f IH]; intros k; cbn [gen_all sub]; [reflexivity|].
    destruct (get s k) as [n|] eqn:Hg; [|reflexivity]. cbn [flat_map].
    replace (tys_at k) with (n_types n) by (unfold tys_at; rewrite Hg; reflexivity).
    cbn [app]. f_equal. fold ity. f_equal.
    rewrite flat_map_flat_map. apply flat_map_ext. intros c. apply IH.
  Qed.

  Lemma sub_spec :
    TFULL -> forall fuel k, In k (keys s) -> (maxlen s < length k + fuel)%nat ->
    (forall c, In c (sub fuel k) <-> In c (keys s) /\ under k c) /\ NoDup (sub fuel k).
  Proof.
    intros F. pose proof (tf_ok _ _ _ _ _ _ F) as T.
    induction fuel as [|f IH]; intros k Hk Hf.
    - pose proof (key_len_le _ _ Hk). lia.
    - cbn [sub]. destruct (in_keys_get _ _ Hk) as (n & Hg). rewrite Hg.
      set (L := cperm (n_children n)).
      assert (HL : forall c, In c L -> In c (keys s) /\ parent_of c = Some k).
      { intros c Hc. unfold L in Hc. apply (proj1 (cperm_in _ _)) in Hc. exact (tk_child_sound _ _ _ _ _ _ T _ _ _ Hg Hc). }
      assert (HLn : NoDup L) by (apply cperm_nodup, (tf_child_nodup _ _ _ _ _ _ F _ _ Hg)).
      assert (Hkne : k <> []) by (apply (nodes_nonempty k types), (tk_keys _ _ _ _ _ _ T); assumption).
      assert (HIH : forall x, In x L ->
                (forall c, In c (sub f x) <-> In c (keys s) /\ under x c) /\ NoDup (sub f x)).
      { intros x Hx. destruct (HL x Hx) as [Hxk Hxp]. apply IH; [assumption|].
        destruct (under_parent _ _ Hxp) as [_ El]. lia. }
      split.
      + intros c. cbn [In]. rewrite in_flat_map. split.
        * intros [<-|(x & Hx & Hc)]; [split; [assumption | apply under_refl]|].
          destruct (HL x Hx) as [_ Hxp]. apply (HIH x Hx) in Hc. destruct Hc as [Hck Hu].
          split; [assumption|]. apply under_trans with x; [apply under_parent; assumption | assumption].
        * intros [Hck Hu]. destruct (Nat.eq_dec (length c) (length k)) as [E|E].
          -- left. symmetry. apply under_eq_len; [assumption | lia].
          -- right. pose proof (under_len _ _ Hu) as Hle.
             destruct (under_step k c Hkne Hu) as [Hp Hu']; [lia|].
             set (a := firstn (S (length k)) c) in *.
             assert (Hak : In a (keys s)).
             { apply (tk_keys _ _ _ _ _ _ T). apply nodes_prefix_closed;
                 [apply (tk_keys _ _ _ _ _ _ T); assumption | lia]. }
             assert (HaL : In a L).
             { unfold L. apply (proj2 (cperm_in _ _)). exact (tf_child_complete _ _ _ _ _ _ F _ _ _ Hg Hak Hp). }
             exists a. split; [assumption|]. apply (HIH a HaL). split; assumption.
      + constructor.
        * rewrite in_flat_map. intros (x & Hx & Hc). destruct (HL x Hx) as [_ Hxp].
          apply (HIH x Hx) in Hc. destruct Hc as [_ Hu]. apply under_len in Hu.
          destruct (under_parent _ _ Hxp) as [_ El]. lia.
        * apply NoDup_flat_map; [assumption | intros x Hx; apply (HIH x Hx) |].
          intros x y z Hx Hy Hzx Hzy. apply (HIH x Hx) in Hzx. apply (HIH y Hy) in Hzy.
          destruct (HL x Hx) as [_ Hxp]. destruct (HL y Hy) as [_ Hyp].
          etransitivity; [exact (child_unique k x z Hxp (proj2 Hzx)) |
                          symmetry; exact (child_unique k y z Hyp (proj2 Hzy))].
  Qed.

  Lemma sub_root_perm : TFULL -> one_root r types -> Permutation (sub (depth_fuel s) [r]) (keys s).
  Proof.
    intros F Hr. pose proof (tf_ok _ _ _ _ _ _ F) as T.
    destruct (get s [r]) as [n|] eqn:Hg.
    - assert (Hk : In [r] (keys s)) by (eapply get_some_in; eassumption).
      destruct (sub_spec F (depth_fuel s) [r] Hk) as [Hm Hn].
      { change (maxlen s < length [r] + S (maxlen s))%nat. cbn [length]. lia. }
      apply NoDup_Permutation; [assumption | apply (tk_nodup _ _ _ _ _ _ T) |].
      intros c. rewrite Hm. split; [tauto|]. intros Hc. split; [assumption|].
      apply (tk_keys _ _ _ _ _ _ T) in Hc. destruct (nodes_root _ _ _ Hr Hc) as (rest & ->). reflexivity.
    - unfold depth_fuel. cbn [sub]. rewrite Hg.
      destruct (keys s) as [|k0 l] eqn:Ek; [constructor|]. exfalso.
      apply get_none in Hg. apply Hg.
      assert (Hk0 : In k0 (nodes_of types)).
      { apply (tk_keys _ _ _ _ _ _ T). rewrite Ek. left; reflexivity. }
      apply in_nodes_of in Hk0. destruct Hk0 as (t & j & Ht & _).
      apply (tk_keys _ _ _ _ _ _ T). eapply nodes_root_in; eassumption.
  Qed.

  Theorem all_namespaces_once :
    TFULL -> one_root r types ->
    Permutation (get_all_namespaces strop ext stem outdir cperm s [r])
                (map (fun k => (k, ns_path strop ext stem outdir k)) (keys s)).
  Proof.
    intros F Hr. unfold get_all_namespaces. rewrite gen_namespaces_sub.
    apply Permutation_map, sub_root_perm; assumption.
  Qed.

  Lemma tys_at_spec :
    TOK -> forall k, In k (keys s) ->
    tys_at k = map (fun t => (t, opath t)) (filter (fun t => key_eqb (t_ns t) k) types).
  Proof.
    intros T k Hk. destruct (in_keys_get _ _ Hk) as (n & Hg). unfold tys_at. rewrite Hg.
    apply (tk_types _ _ _ _ _ _ T _ _ Hg).
  Qed.

  Lemma tns_key : TOK -> one_root r types -> forall t, In t types -> In (t_ns t) (keys s).
  Proof.
    intros T Hr t Ht. apply (tk_keys _ _ _ _ _ _ T). apply nodes_self; [assumption|].
    destruct (Hr t Ht) as (rest & ->). discriminate.
  Qed.

  Lemma types_partition :
    TOK -> NoDup types -> one_root r types ->
    Permutation (flat_map tys_at (keys s)) (map (fun t => (t, opath t)) types).
  Proof.
    intros T Hnd Hr.
    assert (Hin : forall k x, In k (keys s) ->
              (In x (tys_at k) <-> exists t, x = (t, opath t) /\ In t types /\ t_ns t = k)).
    { intros k x Hk. rewrite (tys_at_spec T k Hk), in_map_iff. split.
      - intros (t & <- & Ht). apply filter_In in Ht. destruct Ht as [Ht E]. exists t.
        split; [reflexivity|]. split; [assumption|]. destruct (key_eqb_spec (t_ns t) k); congruence.
      - intros (t & -> & Ht & <-). exists t. split; [reflexivity|]. apply filter_In.
        split; [assumption | apply key_eqb_refl]. }
    apply NoDup_Permutation.
    - apply NoDup_flat_map; [apply (tk_nodup _ _ _ _ _ _ T) | |].
      + intros k Hk. rewrite (tys_at_spec T k Hk). apply NoDup_map_pair, NoDup_filter; assumption.
      + intros x y z Hx Hy Hzx Hzy. apply (Hin x z Hx) in Hzx. apply (Hin y z Hy) in Hzy.
        destruct Hzx as (t & Ez & _ & Ex). destruct Hzy as (t' & Ez' & _ & Ey). congruence.
    - apply NoDup_map_pair; assumption.
    - intros x. rewrite in_flat_map, in_map_iff. split.
      + intros (k & Hk & Hx). apply (Hin k x Hk) in Hx. destruct Hx as (t & -> & Ht & _).
        exists t; split; [reflexivity | assumption].
      + intros (t & <- & Ht). exists (t_ns t). pose proof (tns_key T Hr t Ht) as Hk.
        split; [assumption|]. apply (Hin _ _ Hk). exists t. split; [reflexivity|]. split; [assumption | reflexivity].
  Qed.

  Theorem all_datatypes_once :
    TFULL -> NoDup types -> one_root r types ->
    Permutation (get_all_datatypes cperm s [r]) (map (fun t => (t, out_path strop es ext outdir t)) types).
  Proof.
    intros F Hnd Hr. unfold get_all_datatypes. rewrite gen_datatypes_sub.
    eapply Permutation_trans; [apply Permutation_flat_map, (sub_root_perm F Hr)|].
    apply types_partition; [apply (tf_ok _ _ _ _ _ _ F) | assumption | assumption].
  Qed.

  Theorem all_types_once :
    TFULL -> NoDup types -> one_root r types ->
    Permutation (get_all_types strop ext stem outdir cperm s [r])
                (map (ns_item strop ext stem outdir) (keys s) ++ map (ty_item strop es ext outdir) types).
  Proof.
    intros F Hnd Hr. unfold get_all_types. rewrite gen_all_sub.
    eapply Permutation_trans; [apply Permutation_flat_map, (sub_root_perm F Hr)|].
    eapply Permutation_trans;
      [apply (perm_flat_map_cons (fun c => INs c (npath c)) (fun c => map ity (tys_at c)))|].
    apply Permutation_app; [apply Permutation_refl|].
    rewrite <- (map_flat_map tys_at ity).
    eapply Permutation_trans;
      [apply Permutation_map, types_partition; [apply (tf_ok _ _ _ _ _ _ F) | assumption | assumption]|].
    rewrite map_map. apply Permutation_refl.
  Qed.

  (* ---- find_output_path_for_type -------------------------------------------------------------- *)
  Lemma dict_here :
    TOK -> forall k n t, get s k = Some n -> In t types -> k = t_ns t ->
    dict_get (n_types n) t = Some (opath t).
  Proof.
    intros T k n t Hg Ht ->. rewrite (tk_types _ _ _ _ _ _ T _ _ Hg). apply dict_get_in.
    apply filter_In. split; [assumption | apply key_eqb_refl].
  Qed.

  Lemma dict_elsewhere :
    TOK -> forall k n t, get s k = Some n -> k <> t_ns t -> dict_get (n_types n) t = None.
  Proof.
    intros T k n t Hg Hne. rewrite (tk_types _ _ _ _ _ _ T _ _ Hg). apply dict_get_notin.
    intros H. apply filter_In in H. destruct H as [_ E]. destruct (key_eqb_spec (t_ns t) k); congruence.
  Qed.

  Variable ek : str -> str.     (* eqkey of Namespace.__eq__ (skip test of the BFS) *)

  (* the BFS invariant; `visited` is the (ghost) list of namespaces already popped *)
  Lemma bfs_inv :
    TFULL -> ns_inj ek types -> one_root r types ->
    forall self t, In self (keys s) -> In t types -> self <> t_ns t ->
    forall fuel visited queue,
      NoDup (visited ++ queue) ->
      (forall c, In c (visited ++ queue) -> In c (keys s)) ->
      (forall c, In c (visited ++ queue) -> c = [r] \/ exists p, parent_of c = Some p /\ In p visited) ->
      (exists a, In a queue /\ under a (t_ns t)) ->
      (length s < fuel + length visited)%nat ->
      bfs ek cperm fuel s queue self t = Some (opath t).
  Proof.
    intros F Hinj Hr self t Hself Ht Hne. pose proof (tf_ok _ _ _ _ _ _ F) as T.
    pose proof (tns_key T Hr t Ht) as Htk.
    induction fuel as [|f IH]; intros visited queue Hnd Hks Hpar Htgt Hfuel.
    - exfalso.
      assert (H : (length (visited ++ queue) <= length (keys s))%nat)
        by (apply NoDup_incl_length; [assumption | exact Hks]).
      rewrite app_length, keys_length in H. cbn [plus] in Hfuel. lia.
    - destruct queue as [|h q]; [destruct Htgt as (a & [] & _)|].
      assert (Hhk : In h (keys s)) by (apply Hks, in_or_app; right; left; reflexivity).
      destruct (in_keys_get _ _ Hhk) as (nh & Hg). cbn [bfs]. rewrite Hg. cbv beta iota zeta.
      set (L := cperm (n_children nh)).
      assert (HL : forall c, In c L -> In c (keys s) /\ parent_of c = Some h).
      { intros c Hc. unfold L in Hc. apply (proj1 (cperm_in _ _)) in Hc.
        exact (tk_child_sound _ _ _ _ _ _ T _ _ _ Hg Hc). }
      assert (Hcont : h <> t_ns t -> bfs ek cperm f s (q ++ L) self t = Some (opath t)).
      { intros Hh.
        assert (E : (visited ++ [h]) ++ q ++ L = (visited ++ h :: q) ++ L)
          by (rewrite <- !app_assoc; reflexivity).
        apply (IH (visited ++ [h])).
        - rewrite E. apply NoDup_app_intro;
            [assumption | apply cperm_nodup, (tf_child_nodup _ _ _ _ _ _ F _ _ Hg) |].
          intros x Hx HxL. destruct (HL x HxL) as [_ Hxp].
          destruct (Hpar x Hx) as [->|(p & Hp & Hpv)].
          + unfold parent_of in Hxp. cbn in Hxp. discriminate.
          + rewrite Hxp in Hp. injection Hp as <-. apply NoDup_remove_2 in Hnd. apply Hnd.
            apply in_or_app; left; assumption.
        - rewrite E. intros c Hc. apply in_app_or in Hc.
          destruct Hc as [Hc|Hc]; [apply Hks; assumption | apply HL; assumption].
        - rewrite E. intros c Hc. apply in_app_or in Hc. destruct Hc as [Hc|Hc].
          + destruct (Hpar c Hc) as [->|(p & Hp & Hpv)]; [left; reflexivity|]. right. exists p.
            split; [assumption | apply in_or_app; left; assumption].
          + right. exists h. split; [apply HL; assumption | apply in_or_app; right; left; reflexivity].
        - destruct Htgt as (a & Ha & Hu). destruct Ha as [<-|Ha].
          + assert (Hhne : h <> [])
              by (apply (nodes_nonempty h types), (tk_keys _ _ _ _ _ _ T); assumption).
            pose proof (under_len _ _ Hu) as Hle.
            assert (Hlt : (length h < length (t_ns t))%nat).
            { destruct (Nat.eq_dec (length h) (length (t_ns t))) as [E'|E']; [|lia]. exfalso.
              apply Hh. symmetry. apply under_eq_len; [assumption | lia]. }
            destruct (under_step h (t_ns t) Hhne Hu Hlt) as [Hp Hu'].
            exists (firstn (S (length h)) (t_ns t)). split; [|assumption].
            apply in_or_app; right. unfold L. apply (proj2 (cperm_in _ _)).
            apply (tf_child_complete _ _ _ _ _ _ F _ _ _ Hg); [|assumption].
            apply (tk_keys _ _ _ _ _ _ T). apply nodes_prefix_closed;
              [apply (tk_keys _ _ _ _ _ _ T); assumption | lia].
          + exists a. split; [apply in_or_app; left; assumption | assumption].
        - rewrite app_length. cbn [length]. lia. }
      destruct (ns_eqb ek h self) eqn:Esk.
      + apply Hcont. apply ns_eqb_spec in Esk.
        assert (h = self)
          by (apply Hinj; [apply (tk_keys _ _ _ _ _ _ T); assumption
                          | apply (tk_keys _ _ _ _ _ _ T); assumption | assumption]).
        congruence.
      + destruct (key_eqb_spec h (t_ns t)) as [Eh|Eh].
        * rewrite (dict_here T _ _ _ Hg Ht Eh). reflexivity.
        * rewrite (dict_elsewhere T _ _ _ Hg Eh). apply Hcont; assumption.
  Qed.

  Theorem lookup_total :
    TFULL -> ns_inj ek types -> NoDup types -> one_root r types ->
    forall self t, In self (keys s) -> In t types ->
    find_output_path ek cperm s self t = Some (out_path strop es ext outdir t).
  Proof.
    intros F Hinj Hnd Hr self t Hself Ht. pose proof (tf_ok _ _ _ _ _ _ F) as T.
    unfold find_output_path. destruct (in_keys_get _ _ Hself) as (n & Hg). rewrite Hg.
    destruct (key_eqb_spec self (t_ns t)) as [E|E].
    - rewrite (dict_here T _ _ _ Hg Ht E). reflexivity.
    - rewrite (dict_elsewhere T _ _ _ Hg E). rewrite (root_reached T Hr _ Hself).
      apply (bfs_inv F Hinj Hr self t Hself Ht E (S (length s)) [] [[r]]).
      + cbn [app]. constructor; [intros [] | constructor].
      + cbn [app]. intros c [<-|[]]. apply (tk_keys _ _ _ _ _ _ T). eapply nodes_root_in; eassumption.
      + cbn [app]. intros c [<-|[]]. left; reflexivity.
      + exists [r]. split; [left; reflexivity|]. destruct (Hr t Ht) as (rest & ->). reflexivity.
      + cbn [length]. lia.
  Qed.
End TREE.
