(* C19: the regenerated source pins (Generated/Gen_JinjaPins.v) against the reviewed expectations (Gen/JinjaPins.v) *)
From Coq Require Import String.
From Verif Require Import JinjaPins.
Open Scope N_scope.

(* the print-statement / block-statement loop of the bundled parser is the stock loop once the three marker-specific pieces
   (inner def autoindent, `if marker: rv = autoindent(rv, token)`, `if marker: body.append(autoindent(...)) el`-arm) are removed *)
Lemma subparse_demarked_is_stock_lemma : subparse_bundled_demarked = subparse_stock.
Proof. vm_compute. reflexivity. Qed.

Lemma parser_methods_pinned_lemma :
  forallb method_ok parser_methods_bundled = true /\ parser_rest_bundled = expected_parser_rest.
Proof. vm_compute. split; reflexivity. Qed.

Lemma parser_has_subparse : existsb (fun nd => str_eqb (fst nd) subparse_name) parser_methods_bundled = true.
Proof. vm_compute. reflexivity. Qed.

Lemma extensions_pinned_lemma :
  pairs_eqb ext_methods expected_ext_methods = true /\
  pairs_eqb ext_class_members expected_ext_class_members = true /\
  ext_toplevel = expected_ext_toplevel /\
  ext_state_stores = [].
Proof. vm_compute. repeat split; reflexivity. Qed.
