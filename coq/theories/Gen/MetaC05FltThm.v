(* C05 proofs, part 4: the value of floating-point constants (exact model of round-to-nearest-even, Gen/MetaC05Float.v). *)
From Coq Require Import List NArith ZArith Bool Lia.
From Verif Require Import Str MetaC05Base MetaC05Rne Gen_C05 MetaC05 MetaC05LitThm MetaC05Float.
Import ListNotations.
Local Open Scope Z_scope.

(* Under the rule "division whenever both operands are below 2^1023" (the code before the repair of F-FLOAT-OPERAND-ROUNDING) the
   claim "within one ulp of the correctly rounded rational" is REFUTED for float64: each inexact operand is rounded to double before
   the division.  Witness: 1152921504606847105 / 1152921504606847359 evaluates to 1.0, two ulps above 0x1.ffffffffffffep-1 *)
Theorem float64_one_ulp_refuted : float_rule = DivIfBelowLimit -> exists n d,
  0 < d /\ d <> 1 /\ division_rendered n d = true /\
  forall rf, exists x, c_eval64 rf n d = Some x /\ ford binary64 x - ford binary64 (rne binary64 n d) = 2.
Proof.
  intro Hrule.
  first [ discriminate Hrule
        | exists 1152921504606847105, 1152921504606847359; split; [reflexivity|]; split; [discriminate|]; split; [vm_compute; reflexivity|];
          intro rf; eexists; split; [vm_compute; reflexivity|]; vm_compute; reflexivity ].
Qed.

(* the strongest true statements: the exported double IS the correctly rounded rational (0 ulp) when ... *)
(* ... the constant is integral (one decimal constant, rounded once by the compiler) *)
Theorem float64_integral_correct : forall rf n, c_eval64 rf n 1 = Some (rne binary64 n 1).
Proof. reflexivity. Qed.

(* ... both operands of the division are exactly representable doubles (the division is then a single IEEE operation on n and d) *)
Theorem float64_exact_operands_correct : forall rf n d, 0 < d -> d <> 1 -> division_rendered n d = true ->
  exact64 n = true -> exact64 d = true -> c_eval64 rf n d = Some (rne binary64 n d).
Proof.
  intros rf n d Hd Hd1 Hdiv Hn Hx. unfold c_eval64. destruct (Z.eqb_spec d 1); [contradiction|]. rewrite Hdiv.
  unfold exact64 in Hn, Hx. unfold fdiv.
  destruct (fval_q (rne binary64 n 1)) as [[a b]|]; [|discriminate].
  destruct (fval_q (rne binary64 d 1)) as [[a' b']|]; [|discriminate].
  apply andb_true_iff in Hn, Hx. destruct Hn as [Ha Hb]. destruct Hx as [Ha' Hb'].
  apply Z.eqb_eq in Ha, Hb, Ha', Hb'. subst a b a' b'.
  destruct (Z.eqb_spec d 0); [lia|]. rewrite Z.mul_1_r, Z.mul_1_l. destruct (Z.ltb_spec d 0); [lia|]. reflexivity.
Qed.

(* ... the oracle's decimal constant is rendered and its certificate (checked in Coq: the constant parses and its exact value rounds to
   the same double as n/d) holds -- assuming only that the compiler rounds decimal constants correctly *)
Theorem float64_oracle_certified_correct : forall rf n d, d <> 1 -> division_rendered n d = false ->
  oracle_certified rf n d = true ->
  const_float_expr rf n d = rf (n, d) /\
  exists x, c_eval64 rf n d = Some x /\ fbits binary64 x = fbits binary64 (rne binary64 n d).
Proof.
  intros rf n d Hd1 Hdiv Hc. split.
  - apply float_expr_out_of_range_is_oracle; assumption.
  - unfold c_eval64, oracle_certified in *. destruct (Z.eqb_spec d 1); [contradiction|]. rewrite Hdiv.
    destruct (parse_fdec (rf (n, d))) as [[a b]|]; [|discriminate].
    apply andb_true_iff in Hc. destruct Hc as [_ Hc]. apply Z.eqb_eq in Hc. eexists. split; [reflexivity|exact Hc].
Qed.

(* Under the rule "division only when both operands are exactly representable doubles" (repaired code) the claim HOLDS for every
   rational constant, with zero ulps: the exported double is the correctly rounded rational -- integral form, exact division, or the
   oracle's decimal constant whose certificate is checked in Coq whenever it is used *)
Theorem float64_one_ulp : float_rule = DivIfExactOperands -> forall rf n d, 0 < d ->
  (d <> 1 -> division_rendered n d = false -> oracle_certified rf n d = true) ->
  exists x, c_eval64 rf n d = Some x /\ fbits binary64 x = fbits binary64 (rne binary64 n d) /\
            ford binary64 x - ford binary64 (rne binary64 n d) = 0.
Proof.
  intros Hrule rf n d Hd Hcert.
  assert (Hres : exists x, c_eval64 rf n d = Some x /\ fbits binary64 x = fbits binary64 (rne binary64 n d)).
  { destruct (Z.eq_dec d 1) as [->|Hd1].
    - eexists. split; [apply float64_integral_correct|reflexivity].
    - destruct (division_rendered n d) eqn:Hdiv.
      + pose proof Hdiv as Hex. unfold division_rendered in Hex. rewrite Hrule in Hex. apply andb_true_iff in Hex. destruct Hex as [Hn Hx].
        eexists. split; [apply float64_exact_operands_correct; assumption|reflexivity].
      + destruct (float64_oracle_certified_correct rf n d Hd1 Hdiv (Hcert Hd1 eq_refl)) as [_ H]. exact H. }
  destruct Hres as [x [Hx Hb]]. exists x. split; [exact Hx|]. split; [exact Hb|]. unfold ford. rewrite Hb. lia.
Qed.
