(* C05 proofs, part 4: the value of floating-point constants (exact model of round-to-nearest-even, Gen/MetaC05Float.v). *)
From Coq Require Import List NArith ZArith Bool Lia.
From Verif Require Import Str MetaC05Base Gen_C05 MetaC05 MetaC05Float.
Import ListNotations.
Local Open Scope Z_scope.

(* REFUTED (finding F-FLOAT-OPERAND-ROUNDING): "within one ulp of the correctly rounded rational" is false for float64 constants
   rendered as a division whose operands are not exactly representable: each operand is rounded to double before the division.
   Witness: 1152921504606847105 / 1152921504606847359 evaluates to 1.0, two ulps above the correctly rounded 0x1.ffffffffffffep-1 *)
Theorem float64_one_ulp_refuted : exists n d,
  0 < d /\ d <> 1 /\ division_rendered n d = true /\
  forall rf, exists x, c_eval64 rf n d = Some x /\ ford binary64 x - ford binary64 (rne binary64 n d) = 2.
Proof.
  exists 1152921504606847105, 1152921504606847359. split; [reflexivity|]. split; [discriminate|]. split; [vm_compute; reflexivity|].
  intro rf. eexists. split; [vm_compute; reflexivity|]. vm_compute. reflexivity.
Qed.

(* the strongest true statements: the exported double IS the correctly rounded rational (0 ulp) when ... *)
(* ... the constant is integral (one decimal constant, rounded once by the compiler) *)
Theorem float64_integral_correct : forall rf n, c_eval64 rf n 1 = Some (rne binary64 n 1).
Proof. reflexivity. Qed.

(* ... both operands of the division are exactly representable doubles (the division is then a single IEEE operation on n and d) *)
Theorem float64_exact_operands_correct : forall rf n d, 0 < d -> d <> 1 -> division_rendered n d = true ->
  exact64 n = true -> exact64 d = true -> c_eval64 rf n d = Some (rne binary64 n d).
Proof.
  intros rf n d Hd Hd1 Hdiv Hn Hx. unfold c_eval64. destruct (Z.eqb_spec d 1); [contradiction|]. rewrite Hdiv.
  unfold exact64 in Hn, Hx. unfold fdiv.
  destruct (fval_q (rne binary64 n 1)) as [[a b]|]; [|discriminate].
  destruct (fval_q (rne binary64 d 1)) as [[a' b']|]; [|discriminate].
  apply andb_true_iff in Hn, Hx. destruct Hn as [Ha Hb]. destruct Hx as [Ha' Hb'].
  apply Z.eqb_eq in Ha, Hb, Ha', Hb'. subst a b a' b'.
  destruct (Z.eqb_spec d 0); [lia|]. rewrite Z.mul_1_r, Z.mul_1_l. destruct (Z.ltb_spec d 0); [lia|]. reflexivity.
Qed.

(* ... the oracle's decimal constant is rendered and its certificate (checked in Coq: the constant parses and its exact value rounds to
   the same double as n/d) holds -- assuming only that the compiler rounds decimal constants correctly *)
Theorem float64_oracle_certified_correct : forall rf n d, d <> 1 -> division_rendered n d = false ->
  oracle_certified rf n d = true ->
  const_float_expr rf n d = rf (n, d) /\
  exists x, c_eval64 rf n d = Some x /\ fbits binary64 x = fbits binary64 (rne binary64 n d).
Proof.
  intros rf n d Hd1 Hdiv Hc. split.
  - unfold const_float_expr, filter_literal_float_expr, float_division_expr. cbn [fst snd]. cbv zeta.
    destruct (Z.eqb_spec d 1); [contradiction|]. unfold division_rendered, division_operand_limit in Hdiv. rewrite Hdiv. reflexivity.
  - unfold c_eval64, oracle_certified in *. destruct (Z.eqb_spec d 1); [contradiction|]. rewrite Hdiv.
    destruct (parse_fdec (rf (n, d))) as [[a b]|]; [|discriminate].
    apply andb_true_iff in Hc. destruct Hc as [_ Hc]. apply Z.eqb_eq in Hc. eexists. split; [reflexivity|exact Hc].
Qed.
