(* C06 -- executable, code-shaped model of what decides whether generated files are closed under
   #include / import:

     nunavut._dependencies.DependencyBuilder.direct            (deps, flags)
     nunavut.lang._common.IncludeGenerator                      (make_path, generate_include_filepart_list)
     nunavut._namespace.Namespace.__init__/_add_data_type       (output paths of types and of namespace files)
     nunavut.jinja.SupportGenerator.generate_all                (support outputs)
     Language.get_includes of c / cpp                           (tables regenerated: Generated/Gen_Closure.v)
     nunavut.lang.py.filter_imports, py/templates/Namespace.j2  (imports, package __init__ chain)
     c|cpp/templates/base.j2 include guard, filter_to_snake_case, cpp filter_open/close_namespace

   Everything that turns a DSDL identifier into a target identifier goes through ONE parameter
   [sid : id_type -> token -> string] (Language.filter_id; instantiated with C09's stropping model in ClosureInst.v).
   No proofs in this file. *)
From Verif Require Export ClosureBase.
Open Scope N_scope.

(* ---------------------------------------------------------------------------------- *)
(* DSDL side                                                                          *)
(* ---------------------------------------------------------------------------------- *)
Record tyid := { ti_ns : list str;        (* full_namespace.split('.') *)
                 ti_short : str; ti_major : N; ti_minor : N }.

Inductive dt :=
| DBool | DInt | DFloat | DVoid
| DFix (e : dt) | DVar (e : dt)
| DComp (t : tyid).

(* what the top-level object is for DependencyBuilder: td_isunion = isinstance(t, pydsdl.UnionType)
   (false for a delimited union and for a service), td_hidden_union = some section is a union that
   isinstance does not see (only used by the conformant instantiation, see quirk below) *)
Record tdef := { td_id : tyid; td_isunion : bool; td_hidden_union : bool; td_service : bool;
                 td_attrs : list dt      (* _extract_data_types: attributes (request ++ response for a service) *) }.

Fixpoint str_list_eqb (a b : list str) : bool :=
  match a, b with
  | [], [] => true
  | x :: a', y :: b' => str_eqb x y && str_list_eqb a' b'
  | _, _ => false
  end.

Definition tyid_eqb (a b : tyid) : bool :=
  str_list_eqb (ti_ns a) (ti_ns b) && str_eqb (ti_short a) (ti_short b) && (ti_major a =? ti_major b) && (ti_minor a =? ti_minor b).

(* ---------------------------------------------------------------------------------- *)
(* Dependencies / DependencyBuilder.direct                                            *)
(* ---------------------------------------------------------------------------------- *)
Record deps := { d_comp : list tyid;
                 d_int : bool; d_float : bool; d_vla : bool; d_arr : bool; d_boolarr : bool; d_bool : bool; d_primarr : bool; d_union : bool }.

Definition deps0 : deps := {| d_comp := []; d_int := false; d_float := false; d_vla := false; d_arr := false; d_boolarr := false;
                              d_bool := false; d_primarr := false; d_union := false |}.

Definition add_comp (t : tyid) (d : deps) : deps :=
  if existsb (tyid_eqb t) (d_comp d) then d
  else {| d_comp := d_comp d ++ [t]; d_int := d_int d; d_float := d_float d; d_vla := d_vla d; d_arr := d_arr d; d_boolarr := d_boolarr d;
          d_bool := d_bool d; d_primarr := d_primarr d; d_union := d_union d |}.

Definition set_flag (f : flag) (d : deps) : deps :=
  {| d_comp := d_comp d;
     d_int := match f with FInt => true | _ => d_int d end;
     d_float := match f with FFloat => true | _ => d_float d end;
     d_vla := match f with FVla => true | _ => d_vla d end;
     d_arr := match f with FArr => true | _ => d_arr d end;
     d_boolarr := match f with FBoolArr => true | _ => d_boolarr d end;
     d_bool := match f with FBool => true | _ => d_bool d end;
     d_primarr := match f with FPrimArr => true | _ => d_primarr d end;
     d_union := match f with FUnion => true | _ => d_union d end |}.

Definition get_flag (d : deps) (f : flag) : bool :=
  match f with FInt => d_int d | FFloat => d_float d | FVla => d_vla d | FArr => d_arr d | FBoolArr => d_boolarr d
             | FBool => d_bool d | FPrimArr => d_primarr d | FUnion => d_union d end.

(* _extract_dependent_types_handle_array_type *)
Definition array_flag (variable : bool) (e : dt) : flag :=
  if variable then FVla
  else match e with
       | DBool => FBoolArr
       | DInt | DFloat => FPrimArr
       | _ => FArr
       end.

(* _extract_dependent_types, non-transitive (direct()) *)
Fixpoint extract (x : dt) (d : deps) : deps :=
  match x with
  | DComp t => add_comp t d
  | DFix e => extract e (set_flag (array_flag false e) d)
  | DVar e => extract e (set_flag (array_flag true e) d)
  | DInt => set_flag FInt d
  | DFloat => set_flag FFloat d
  | DBool => set_flag FBool d
  | DVoid => d
  end.

(* quirk q_union: true = the code as it is (isinstance(dependant, UnionType) only);
   false = conformant (any union section counts) -- used when known finding F-C06-CPP-VARIANT no longer reproduces *)
Definition direct (q_union : bool) (t : tdef) : deps :=
  let u := if q_union then td_isunion t else td_isunion t || td_hidden_union t in
  let d := if u then set_flag FUnion (set_flag FInt deps0) else deps0 in
  fold_left (fun acc a => extract a acc) (td_attrs t) d.

(* ---------------------------------------------------------------------------------- *)
(* paths                                                                              *)
(* ---------------------------------------------------------------------------------- *)
Definition us : chr := 95.       (* '_' *)
Definition dot : chr := 46.
Definition slash : chr := 47.

Fixpoint join (sep : str) (l : list str) : str :=
  match l with
  | [] => []
  | [x] => x
  | x :: r => x ++ sep ++ join sep r
  end.

(* pathlib.PurePath(name).with_suffix(ext) on one component: the part after the last '.', if that dot is not the first
   character, is replaced *)
Fixpoint last_dot (s : str) (i : nat) (best : option nat) : option nat :=
  match s with
  | [] => best
  | c :: r => last_dot r (S i) (if (c =? dot) && negb (Nat.eqb i 0) then Some i else best)
  end.
Definition stem (s : str) : str :=
  match last_dot s 0 None with
  | Some i => if Nat.eqb (S i) (length s) then s else firstn i s
  | None => s
  end.
Definition with_suffix (name ext : str) : str := stem name ++ ext.

Definition versioned (t : tyid) : str := ti_short t ++ [us] ++ dec_str (ti_major t) ++ [us] ++ dec_str (ti_minor t).

Section Model.
  Variable sid : str -> str -> str.           (* Language.filter_id(token, id_type): id_type first *)
  Variable stropping : bool.                  (* language.enable_stropping *)

  Definition sid_if (ty tok : str) : str := if stropping then sid ty tok else tok.

  (* Language.filter_short_reference_name(t, id_type=...) *)
  Definition short_ref (idt : str) (t : tyid) : str := sid_if idt (versioned t).

  (* IncludeGenerator.make_path(dt, language, ext) as a list of path components;
     [short_idt] / [ns_idt] are the id types the two filter calls pass (regenerated constants) *)
  Definition make_path (short_idt ns_idt ext : str) (t : tyid) : list str :=
    map (sid_if ns_idt) (ti_ns t) ++ [with_suffix (short_ref short_idt t) ext].

  Definition posix (p : list str) : str := join [slash] p.

  (* Namespace.__init__: output folder and namespace file of a namespace given by its components *)
  Definition ns_dir (dir_idt : str) (ns : list str) : list str := map (sid dir_idt) ns.
  Definition ns_file (dir_idt stem_ ext : str) (ns : list str) : list str := ns_dir dir_idt ns ++ [with_suffix stem_ ext].

  (* support files: include side  namespace_path / Path(p.name).with_suffix(ext)
                    output side   (target_path / resource.name).with_suffix(ext)   (with_suffix acts on the last component) *)
  Definition support_inc_path (sns : list str) (ext name : str) : list str := sns ++ [with_suffix name ext].
  Definition with_suffix_path (p : list str) (ext : str) : list str :=
    match rev p with
    | [] => []
    | l :: r => rev r ++ [with_suffix l ext]
    end.
  Definition support_out_path (sns : list str) (ext name : str) : list str := with_suffix_path (sns ++ [name]) ext.
End Model.

(* ---------------------------------------------------------------------------------- *)
(* std includes from the regenerated get_includes tables                              *)
(* ---------------------------------------------------------------------------------- *)
Fixpoint eval_cond (fl : flag -> bool) (std_types has_variant : bool) (c : cond) : bool :=
  match c with
  | CTrue => true
  | CFlag f => fl f
  | CStdTypes => std_types
  | CHasVariant => has_variant
  | CAnd a b => eval_cond fl std_types has_variant a && eval_cond fl std_types has_variant b
  | COr a b => eval_cond fl std_types has_variant a || eval_cond fl std_types has_variant b
  | CNot a => negb (eval_cond fl std_types has_variant a)
  end.

Definition angle (h : str) : str := [60] ++ h ++ [62].
Definition quote (h : str) : str := [34] ++ h ++ [34].

Definition table_includes (tbl : list (cond * str)) (fl : flag -> bool) (std_types has_variant : bool) : list str :=
  map (fun p => angle (snd p)) (filter (fun p => eval_cond fl std_types has_variant (fst p)) tbl).

(* the C++ tail: allocator_include if non-empty, variable_array_type_include if a VLA is used and it is non-empty (verbatim) *)
Definition cpp_tail (alloc vla_inc : str) (fl : flag -> bool) : list str :=
  (match alloc with [] => [] | _ => [alloc] end) ++
  (if fl FVla then match vla_inc with [] => [] | _ => [vla_inc] end else []).

(* ---------------------------------------------------------------------------------- *)
(* the include list of one type header and the output set of a type list              *)
(* ---------------------------------------------------------------------------------- *)
Record lang_cfg := {
  lc_sid : str -> str -> str;
  lc_stropping : bool;
  lc_ext : str;                                    (* extension the include side passes (filter_includes: language.extension) *)
  lc_out_ext : str;                                (* extension the output side passes (build_namespace_tree -> _add_data_type) *)
  lc_inc_short_idt : str; lc_inc_ns_idt : str;     (* id types used by the path function the include side calls *)
  lc_out_short_idt : str; lc_out_ns_idt : str;     (* id types used by the path function the output side calls *)
  lc_dir_idt : str;                                (* Namespace.__init__ *)
  lc_support_ns : list str;
  lc_support_files : list str;
  lc_prefer_system : bool;
  lc_std : deps -> list str;                       (* Language.get_includes(dep_types), already punctuated *)
  lc_ns_stem : str;
  lc_default_idt : str;                            (* default id_type of filter_id (imports, namespaces) *)
  lc_tmpl_inc : bool -> list str;                  (* literal #include lines of base.j2, by the omit flag *)
  lc_has_ns_files : bool                           (* has_standard_namespace_files: namespace files are generated *)
}.

Definition punct (l : lang_cfg) (p : str) : str := if lc_prefer_system l then angle p else quote p.

Definition inc_path (l : lang_cfg) (t : tyid) : str :=
  posix (make_path (lc_sid l) (lc_stropping l) (lc_inc_short_idt l) (lc_inc_ns_idt l) (lc_ext l) t).
Definition out_path (l : lang_cfg) (t : tyid) : str :=
  posix (make_path (lc_sid l) (lc_stropping l) (lc_out_short_idt l) (lc_out_ns_idt l) (lc_out_ext l) t).

Definition support_includes (l : lang_cfg) : list str :=
  map (fun n => posix (support_inc_path (lc_support_ns l) (lc_ext l) n)) (lc_support_files l).
Definition support_outputs (l : lang_cfg) : list str :=
  map (fun n => posix (support_out_path (lc_support_ns l) (lc_ext l) n)) (lc_support_files l).

(* IncludeGenerator.generate_include_filepart_list (unsorted; the templates sort, order is not an observable here) *)
Definition include_list (l : lang_cfg) (q_union omit : bool) (t : tdef) : list str :=
  let d := direct q_union t in
  map (fun c => punct l (inc_path l c)) (d_comp d)
  ++ (if omit then [] else map (punct l) (support_includes l))
  ++ lc_std l d
  ++ lc_tmpl_inc l omit.

Definition outputs (l : lang_cfg) (ts : list tdef) : list str := map (fun t => out_path l (td_id t)) ts.

(* every attribute that is (an array of) a composite refers to a definition of the set *)
Definition defined_in (ts : list tdef) (t : tyid) : bool := existsb (fun d => tyid_eqb (td_id d) t) ts.
Definition closed (q : bool) (ts : list tdef) : bool :=
  forallb (fun t => forallb (defined_in ts) (d_comp (direct q t))) ts.

(* ---------------------------------------------------------------------------------- *)
(* Python: filter_imports and the package __init__ chain                              *)
(* ---------------------------------------------------------------------------------- *)
Fixpoint comp_of (x : dt) : option tyid :=
  match x with
  | DComp t => Some t
  | DFix (DComp t) | DVar (DComp t) => Some t
  | _ => None
  end.

Fixpoint dedup_ns (l : list (list str)) (seen : list (list str)) : list (list str) :=
  match l with
  | [] => []
  | x :: r => if existsb (str_list_eqb x) seen then dedup_ns r seen else x :: dedup_ns r (x :: seen)
  end.

(* namespaces (as component lists) whose packages a type module imports *)
Definition import_namespaces (t : tdef) : list (list str) :=
  dedup_ns (flat_map (fun a => match comp_of a with Some c => [ti_ns c] | None => [] end) (td_attrs t)) [].

Definition py_imports (l : lang_cfg) (t : tdef) : list str :=
  map (fun ns => join [dot] (map (if lc_stropping l then lc_sid l (lc_default_idt l) else fun x => x) ns)) (import_namespaces t).

(* all non-empty prefixes of a namespace: the package chain a/ a/b/ a/b/c/ *)
Fixpoint prefixes_from (acc : list str) (l : list str) : list (list str) :=
  match l with
  | [] => []
  | x :: r => (acc ++ [x]) :: prefixes_from (acc ++ [x]) r
  end.
Definition prefixes (l : list str) : list (list str) := prefixes_from [] l.

(* build_namespace_tree + generate_all: one namespace file per namespace that is a prefix of some type's namespace *)
Definition all_namespaces (ts : list tdef) : list (list str) :=
  dedup_ns (flat_map (fun t => prefixes (ti_ns (td_id t))) ts) [].
Definition ns_outputs (l : lang_cfg) (ts : list tdef) : list str :=
  if lc_has_ns_files l
  then map (fun ns => posix (ns_file (lc_sid l) (lc_dir_idt l) (lc_ns_stem l) (lc_ext l) ns)) (all_namespaces ts)
  else [].

(* the file `import a.b.c` needs: <a>/<b>/<c>/__init__.py where each directory is named by the DIRECTORY stropping *)
Definition import_target (l : lang_cfg) (ns : list str) : str :=
  posix (ns_file (lc_sid l) (lc_dir_idt l) (lc_ns_stem l) (lc_ext l) ns).

(* ---------------------------------------------------------------------------------- *)
(* include guards                                                                     *)
(* ---------------------------------------------------------------------------------- *)
Definition is_up (c : chr) : bool := (65 <=? c) && (c <=? 90).
Definition is_lo (c : chr) : bool := (97 <=? c) && (c <=? 122).
Definition is_word (c : chr) : bool := is_up c || is_lo c || ((48 <=? c) && (c <=? 57)) || (c =? us).
Definition to_lo (c : chr) : chr := if is_up c then c + 32 else c.
Definition to_up (c : chr) : chr := if is_lo c then c - 32 else c.

(* pass 0: re.sub(r"[\W]+", "_", value)  (ASCII input; str.strip is the identity on identifiers) *)
Fixpoint sn_pass0 (s : str) (in_run : bool) : str :=
  match s with
  | [] => []
  | c :: r => if is_word c then c :: sn_pass0 r false
              else if in_run then sn_pass0 r true else us :: sn_pass0 r true
  end.

Fixpoint take_while (p : chr -> bool) (s : str) : str * str :=
  match s with
  | [] => ([], [])
  | c :: r => if p c then let (a, b) := take_while p r in (c :: a, b) else ([], s)
  end.

(* pass 1: (?<=[A-Z])([A-Z][a-z]+) -> "_" + lower;  non-overlapping, left to right; [prev] = character before the scan position
   in the ORIGINAL string (look-behind sees the subject, not the replacement) *)
Fixpoint sn_pass1 (fuel : nat) (s : str) (prev : chr) : str :=
  match fuel with
  | O => s
  | S f =>
    match s with
    | [] => []
    | c :: r =>
        let (lows, rest) := take_while is_lo r in
        if is_up prev && is_up c && negb (Nat.eqb (length lows) 0)
        then us :: to_lo c :: lows ++ sn_pass1 f rest (last lows c)
        else c :: sn_pass1 f r c
    end
  end.

(* pass 2: (?<=_)([A-Z])+ -> lower ; pass 3: (?<=[a-z])([A-Z])+ -> "_" + lower *)
Fixpoint sn_pass23 (third : bool) (fuel : nat) (s : str) (prev : chr) : str :=
  match fuel with
  | O => s
  | S f =>
    match s with
    | [] => []
    | c :: r =>
        let (ups, rest) := take_while is_up s in
        if (if third then is_lo prev else prev =? us) && negb (Nat.eqb (length ups) 0)
        then (if third then [us] else []) ++ map to_lo ups ++ sn_pass23 third f rest (last ups c)
        else c :: sn_pass23 third f r c
    end
  end.

Definition snake (s : str) : str :=
  let p0 := sn_pass0 s false in
  let p1 := sn_pass1 (S (length p0)) p0 0 in
  let p2 := sn_pass23 false (S (length p1)) p1 0 in
  let p3 := sn_pass23 true (S (length p2)) p2 0 in
  map to_lo p3.
Definition screaming (s : str) : str := map to_up (snake s).

Definition ty_macro : str := [109; 97; 99; 114; 111].   (* "macro" *)

Definition full_name (t : tyid) : str := join [dot] (ti_ns t ++ [ti_short t]).

(* ln.c.macrofy: screaming snake case, then filter_id(..., "macro") when stropping is enabled *)
Definition macrofy (sid : str -> str -> str) (stropping : bool) (s : str) : str :=
  if stropping then sid ty_macro (screaming s) else screaming s.

(* {{T.full_name | ln.c.macrofy}}_{{major}}_{{minor}}<tail>   tail = "_INCLUDED_" (C), "_HPP_INCLUDED" (C++) *)
Definition guard (sid : str -> str -> str) (stropping : bool) (tail : str) (t : tyid) : str :=
  macrofy sid stropping (full_name t) ++ [us] ++ dec_str (ti_major t) ++ [us] ++ dec_str (ti_minor t) ++ tail.

(* ---------------------------------------------------------------------------------- *)
(* C++ open_namespace / close_namespace as token streams                              *)
(* ---------------------------------------------------------------------------------- *)
Inductive tok := TOpen (name : str) | TClose (name : str).

(* for name in full_namespace.split("."): "namespace " + id(name) + "{"  *)
Definition open_namespace (sid : str -> str -> str) (stropping : bool) (idt : str) (ns : list str) : list tok :=
  map (fun n => TOpen (if stropping then sid idt n else n)) ns.
(* for name in reversed(full_namespace.split(".")): "}" + " // namespace " + id(name) *)
Definition close_namespace (sid : str -> str -> str) (stropping : bool) (idt : str) (ns : list str) : list tok :=
  map (fun n => TClose (if stropping then sid idt n else n)) (rev ns).

(* a bracket sequence is balanced when every close matches the innermost open name *)
Fixpoint balanced (stack : list str) (l : list tok) : bool :=
  match l with
  | [] => match stack with [] => true | _ => false end
  | TOpen n :: r => balanced (n :: stack) r
  | TClose n :: r => match stack with
                     | m :: st => str_eqb n m && balanced st r
                     | [] => false
                     end
  end.

(* ---------------------------------------------------------------------------------- *)
(* std_includes_cover (C): all tables are parameters here; ClosureInst.v plugs in the    *)
(* regenerated ones (names + guards scanned from the templates, header -> names asked of *)
(* the installed gcc).  Hand-written: only the FEATURE guards of the filter-emitted names *)
(* ---------------------------------------------------------------------------------- *)
Definition n_NULL : str := [78;85;76;76].
Definition n_bool : str := [98;111;111;108].
Definition n_true : str := [116;114;117;101].
Definition n_false : str := [102;97;108;115;101].
Definition n_size_t : str := [115;105;122;101;95;116].
Definition n_uint8_t : str := [117;105;110;116;56;95;116].
Definition n_isfinite : str := [105;115;102;105;110;105;116;101].
Definition n_memset : str := [109;101;109;115;101;116].

(* features of a type that decide which names its generated C header uses *)
Record feat := { f_int : bool; f_float : bool; f_vla : bool; f_arr : bool; f_boolarr : bool; f_bool : bool; f_primarr : bool; f_union : bool;
                 f_pod : bool;           (* --omit-serialization-support *)
                 f_empty : bool;         (* some section has no non-padding field: `uint8_t _dummy_` *)
                 f_boolvla : bool;       (* bool[<=n]: bit-packed uint8_t storage *)
                 f_any_union : bool;     (* a union section anywhere: tag field, is_*_ helpers returning bool *)
                 f_omit_float : bool     (* --omit-float-serialization-support *) }.

Definition feat_flags (e : feat) (f : flag) : bool :=
  match f with FInt => f_int e | FFloat => f_float e | FVla => f_vla e | FArr => f_arr e | FBoolArr => f_boolarr e
             | FBool => f_bool e | FPrimArr => f_primarr e | FUnion => f_union e end.

(* the feature record of a type definition: the flags ARE DependencyBuilder.direct's *)
Fixpoint has_boolvla (x : dt) : bool := match x with DVar DBool => true | DFix e | DVar e => has_boolvla e | _ => false end.
Definition feat_of (q pod omit_float empty_section : bool) (t : tdef) : feat :=
  let d := direct q t in
  {| f_int := d_int d; f_float := d_float d; f_vla := d_vla d; f_arr := d_arr d; f_boolarr := d_boolarr d; f_bool := d_bool d;
     f_primarr := d_primarr d; f_union := d_union d; f_pod := pod; f_empty := empty_section;
     f_boolvla := existsb has_boolvla (td_attrs t); f_any_union := td_isunion t || td_hidden_union t; f_omit_float := omit_float |}.

(* hand analysis, FEATURE part only: when do the type definitions (definitions.j2 through the filters) emit a filter-emitted name;
   a filter-emitted name without an entry counts as always used *)
Definition filter_guard (name : str) (e : feat) : bool :=
  if str_eqb name n_bool then f_bool e || f_any_union e
  else if str_eqb name n_uint8_t then f_int e || f_empty e || f_boolarr e || f_boolvla e || f_any_union e
  else if str_eqb name n_size_t || str_eqb name n_NULL || str_eqb name n_true || str_eqb name n_false then true
  else (* the remaining fixed-width integer names *) f_int e || f_any_union e.

(* feature refinement of template-literal names: isfinite only serialises floats, memset only clears primitive arrays *)
Definition tmpl_refine (name : str) (e : feat) : bool :=
  if str_eqb name n_isfinite then f_float e else true.

Definition lit_active (pod : bool) (g : lit_guard) : bool :=
  match g with LAlways => true | LOmitOnly => pod | LSerOnly => negb pod end.
Definition lit_includes (tbl : list (lit_guard * str)) (pod : bool) : list str :=
  map snd (filter (fun p => lit_active pod (fst p)) tbl).

Section Cover.
  Variable get_includes : list (cond * str).          (* regenerated: Language.get_includes *)
  Variable support_incs : list (bool * str).           (* regenerated: #include lines of the support header, true = only with float support *)
  Variable tmpl_incs : list (lit_guard * str).          (* regenerated: literal #include lines of base.j2 *)
  Variable tmpl_names : list (str * bool).              (* regenerated: std names in the templates, true = only under `not omit` *)
  Variable filter_names : list str.                     (* regenerated: names the filters emit *)
  Variable declares : list (str * list str).            (* regenerated: header -> needed names it makes visible (gcc -std=c11) *)
  Variable std_types : bool.

  (* every header a generated C type header pulls in *)
  Definition c_headers (e : feat) : list str :=
    table_includes get_includes (feat_flags e) std_types false
    ++ lit_includes tmpl_incs (f_pod e)
    ++ (if f_pod e then [] else map snd (filter (fun p => negb (fst p) || negb (f_omit_float e)) support_incs)).

  Definition declared_by (hs : list str) (name : str) : bool :=
    existsb (fun p => str_in (fst p) hs && str_in name (snd p)) declares.

  Definition used (name : str) (e : feat) : bool :=
    existsb (fun p => str_eqb (fst p) name && (negb (snd p) || negb (f_pod e)) && tmpl_refine name e) tmpl_names
    || (str_in name filter_names && filter_guard name e).

  Definition all_names : list str := map fst tmpl_names ++ filter_names.

  Definition c_covered (e : feat) : bool :=
    forallb (fun name => negb (used name e) || declared_by (c_headers e) name) all_names.
End Cover.

(* excluded: --omit-float-serialization-support with a float field (the option removes the float primitives; documented) *)
Definition c_float_trigger (e : feat) : bool := f_omit_float e && f_float e.
