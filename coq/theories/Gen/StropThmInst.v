(* C09 -- the generic stropping theorems instantiated with the configuration regenerated from /repo
   (Generated/Gen_Strop.v) and the Unicode tables of the running interpreter (Generated/Gen_Uni.v).
   The side conditions are recomputed by vm_compute from the regenerated data on every build. *)
From Verif Require Import StropInst StropThmRe StropThmEnc StropThm StropThmId StropThmPipe StropThmHandler StropThmTotal StropThmCache.
Open Scope N_scope.

Lemma chk_sound_c : chk_sound py_uni cfg_c = true.     Proof. vm_compute; reflexivity. Qed.
Lemma chk_sound_cpp : chk_sound py_uni cfg_cpp = true. Proof. vm_compute; reflexivity. Qed.
Lemma chk_sound_py : chk_sound py_uni cfg_py = true.   Proof. vm_compute; reflexivity. Qed.

Lemma chk_sound_lang l : chk_sound py_uni (cfg_of l) = true.
Proof. destruct l; [exact chk_sound_c|exact chk_sound_cpp|exact chk_sound_py]. Qed.

Lemma strop_sound_lang l ty tok t :
  tok <> [] -> strop_lang l ty tok = Ok t ->
  valid_ident t = true /\ reserved_lang l t = false /\ pattern_lang l ty t = false.
Proof. exact (strop_sound_gen py_uni py_isspace (cfg_of l) (chk_sound_lang l) ty tok t). Qed.

(* 'all' is not an identifier type: ValueError, whatever the token *)
Lemma strop_all_lang l ty tok : lower ty = ty_all -> strop_lang l ty tok = ErrValue.
Proof. intros H. unfold strop_lang, strop. rewrite H. reflexivity. Qed.

(* ---- identity ---- *)
Lemma chk_id_c : chk_id py_uni cfg_c false = true.     Proof. vm_compute; reflexivity. Qed.
Lemma chk_id_py : chk_id py_uni cfg_py false = true.   Proof. vm_compute; reflexivity. Qed.
Lemma chk_id_cpp : chk_id py_uni cfg_cpp true = true.  Proof. vm_compute; reflexivity. Qed.

Definition clean_lang (l : lang) (ty t : str) : bool :=
  valid_ident t && negb (reserved_lang l t) && negb (pattern_lang l ty t).

Lemma clean_split l ty t : clean_lang l ty t = true ->
  valid_ident t = true /\ is_reserved (cfg_of l) t = false /\ matches_reserved_pattern py_uni (cfg_of l) ty t = false.
Proof.
  unfold clean_lang, reserved_lang, pattern_lang. intros H. apply andb_prop in H as [H H3]. apply andb_prop in H as [H1 H2].
  apply negb_true_iff in H2, H3. auto.
Qed.

Lemma strop_id_c_thm ty t : str_eqb (lower ty) ty_all = false -> clean_lang LC ty t = true -> strop_c ty t = Ok t.
Proof.
  intros Hty H. apply clean_split in H as (H1 & H2 & H3).
  apply (strop_id_gen py_uni py_isspace cfg_c false chk_id_c); auto. discriminate.
Qed.

Lemma strop_id_py_thm ty t : str_eqb (lower ty) ty_all = false -> clean_lang LPy ty t = true -> strop_py ty t = Ok t.
Proof.
  intros Hty H. apply clean_split in H as (H1 & H2 & H3).
  apply (strop_id_gen py_uni py_isspace cfg_py false chk_id_py); auto. discriminate.
Qed.

Lemma strop_id_cpp_partial_thm ty t :
  str_eqb (lower ty) ty_all = false -> clean_lang LCpp ty t = true -> has_dunder t = false -> strop_cpp ty t = Ok t.
Proof.
  intros Hty H Hd. apply clean_split in H as (H1 & H2 & H3).
  apply (strop_id_gen py_uni py_isspace cfg_cpp true chk_id_cpp); auto.
Qed.

(* clause 3 of the property ("already valid, unreserved identifiers are returned unchanged"), for the DOCUMENTED alphabet:
   DSDL names are ASCII and the encoder's output alphabet is ASCII by design (rule [^a-zA-Z0-9_]+), so "valid identifier" is
   valid_ident = ASCII [A-Za-z_][A-Za-z0-9_]* for all three languages; "unreserved" is: not in the reserved list, no reserved
   pattern, and -- C++ [lex.name] 3.1 -- for cpp no `__` anywhere (the configuration expresses the leading/trailing case through
   the encoding rules ^_{2,} and _{2,}$ instead of a reserved pattern). *)
Definition std_reserved_extra (l : lang) (t : str) : bool := match l with LCpp => has_dunder t | _ => false end.
Definition clean_ascii (l : lang) (ty t : str) : bool := clean_lang l ty t && negb (std_reserved_extra l t).

Lemma strop_id_ascii_thm l ty t : str_eqb (lower ty) ty_all = false -> clean_ascii l ty t = true -> strop_lang l ty t = Ok t.
Proof.
  intros Hty H. unfold clean_ascii in H. apply andb_prop in H as [H Hx]. apply negb_true_iff in Hx. destruct l.
  - exact (strop_id_c_thm ty t Hty H).
  - exact (strop_id_cpp_partial_thm ty t Hty H Hx).
  - exact (strop_id_py_thm ty t Hty H).
Qed.

(* "__x": a valid identifier, not in the reserved list, matching no reserved pattern -- and yet rewritten (to zX005FzX005Fx)
   because the cpp configuration encodes leading/trailing runs of underscores (rules ^_{2,} and _{2,}$) *)
Lemma strop_id_cpp_refuted_thm :
  exists ty t, str_eqb (lower ty) ty_all = false /\ clean_lang LCpp ty t = true /\ strop_cpp ty t <> Ok t.
Proof. exists ty_any, [95; 95; 120]. vm_compute. repeat split; discriminate. Qed.

(* ---- the lru_cache shared by all encoders of a process never changes what a call returns ---- *)
Definition enc2 (A B : strop_cfg) (i : nat) : strop_cfg := match i with O => A | S _ => B end.

Lemma lru_shared_transparent_thm (enc : nat -> strop_cfg) maxsize calls :
  run_calls py_uni py_isspace enc maxsize [] calls = map (uncached py_uni py_isspace enc) calls.
Proof. apply run_calls_from_empty. Qed.

Lemma two_encoders_isolated_thm (A B : strop_cfg) maxsize calls :
  run_calls py_uni py_isspace (enc2 A B) maxsize [] calls
  = map (fun k : skey => strop py_uni py_isspace (match fst (fst k) with O => A | S _ => B end) (snd k) (snd (fst k))) calls.
Proof. rewrite run_calls_from_empty. reflexivity. Qed.

(* ---- configuration overrides ----
   In a tree whose strop re-verifies what it returns (sc_reverify = true: the fix for F-STROP-HANDLER-UNVERIFIED) soundness needs
   nothing about the handlers: only chk_base (alphabet, affixes, digit guard -- what makes the token a valid identifier). *)
Lemma strop_sound_reverify_gen cfg :
  sc_reverify cfg = true -> chk_base py_uni cfg = true ->
  forall ty s t, s <> [] -> strop py_uni py_isspace cfg ty s = Ok t ->
  valid_ident t = true /\ is_reserved cfg t = false /\ matches_reserved_pattern py_uni cfg ty t = false.
Proof.
  intros Hr Hb. apply strop_sound_gen. unfold chk_sound. rewrite Hb, Hr. reflexivity.
Qed.

(* /repo re-verifies the token strop returns (fix 2e53e9f); the quirk model of the tree before it: History/C09_history.v *)
Lemma strop_reverified_now_thm : strop_reverifies = true /\ forall l, sc_reverify (cfg_of l) = true.
Proof. split; [reflexivity|intros []; reflexivity]. Qed.

(* ---- Python's reserved list covers keyword.kwlist + dir(builtins) of the interpreter (independent table) ---- *)
Lemma py_reserved_covers_interpreter_thm :
  forall w, In w (py_kwlist ++ py_interpreter_reserved) -> reserved_lang LPy w = true.
Proof.
  assert (H : forallb (fun w => reserved_lang LPy w) (py_kwlist ++ py_interpreter_reserved) = true) by (vm_compute; reflexivity).
  rewrite forallb_forall in H. exact H.
Qed.

(* ---- the configurations under the exercised overrides: a fact about every entry of cfgs_ov gives one about cfg_sel ---- *)
Lemma cfg_sel_all (P : strop_cfg -> bool) :
  (forall l, P (cfg_of l) = true) ->
  forallb (fun t => P (pick LC t) && P (pick LCpp t) && P (pick LPy t)) cfgs_ov = true ->
  forall k l, P (cfg_sel k l) = true.
Proof.
  intros Hb Ha k l. unfold cfg_sel. destruct k as [|k]; [apply Hb|].
  destruct (nth_error cfgs_ov k) as [t|] eqn:E; [|apply Hb]. apply nth_error_In in E.
  rewrite forallb_forall in Ha. specialize (Ha t E). apply andb_prop in Ha as [Ha H3]. apply andb_prop in Ha as [H1 H2].
  destruct l; assumption.
Qed.

Lemma chk_sound_sel k l : chk_sound py_uni (cfg_sel k l) = true.
Proof. apply (cfg_sel_all (chk_sound py_uni)); [exact chk_sound_lang|vm_compute; reflexivity]. Qed.

Lemma strop_sound_sel k l ty tok t :
  tok <> [] -> strop_sel k l ty tok = Ok t ->
  valid_ident t = true /\ reserved_sel k l t = false /\ pattern_sel k l ty t = false.
Proof. exact (strop_sound_gen py_uni py_isspace (cfg_sel k l) (chk_sound_sel k l) ty tok t). Qed.

(* ---- the regenerated step list of TokenEncoder.strop ---- *)
Lemma pipeline_is_model_thm : strop_pipeline = model_pipeline strop_reverifies.
Proof. reflexivity. Qed.

Lemma reverify_sel k l : Bool.eqb (sc_reverify (cfg_sel k l)) strop_reverifies = true.
Proof.
  apply (cfg_sel_all (fun c => Bool.eqb (sc_reverify c) strop_reverifies)); [intros []; vm_compute; reflexivity|vm_compute; reflexivity].
Qed.

Lemma strop_is_regenerated_pipeline_thm k l ty s : strop_sel k l ty s = strop_sel_pipeline k l ty s.
Proof.
  unfold strop_sel, strop_sel_pipeline. rewrite strop_is_pipeline, pipeline_is_model_thm.
  rewrite (Bool.eqb_prop _ _ (reverify_sel k l)). reflexivity.
Qed.

(* ---- the translated failure handlers ---- *)
Lemma handlers_are_model_thm :
  handlers_translated = repeat (model_handler_pre, model_handler_grp, model_handler_tmpl) (length handlers_translated).
Proof. reflexivity. Qed.

Lemma handlers_translated_und_thm h : In h handlers_translated ->
  forall s, handler_gen py_uni (fst (fst h)) (snd (fst h)) (snd h) s = handler_und s.
Proof.
  rewrite handlers_are_model_thm. intros Hin s. apply repeat_spec in Hin. subst h. apply handler_gen_is_und.
Qed.

(* ---- totality on the shipped configurations (side conditions recomputed from the regenerated data) ---- *)
Ltac total_side := first [vm_compute; reflexivity | intros _; split; vm_compute; reflexivity | intros H; vm_compute in H; discriminate H].

Lemma strop_total_c_thm ty s : s <> [] -> str_eqb (lower ty) ty_all = false -> exists t, strop_c ty s = Ok t.
Proof. apply (strop_total_gen py_uni py_isspace cfg_c false); total_side. Qed.

Lemma strop_total_cpp_thm ty s : s <> [] -> str_eqb (lower ty) ty_all = false -> exists t, strop_cpp ty s = Ok t.
Proof. apply (strop_total_gen py_uni py_isspace cfg_cpp true); total_side. Qed.

Lemma strop_total_py_thm ty s : s <> [] -> str_eqb (lower ty) ty_all = false -> exists t, strop_py ty s = Ok t.
Proof. apply (strop_total_gen py_uni py_isspace cfg_py false); total_side. Qed.

Lemma strop_total_lang l ty s : s <> [] -> str_eqb (lower ty) ty_all = false -> exists t, strop_lang l ty s = Ok t.
Proof. destruct l; [apply strop_total_c_thm|apply strop_total_cpp_thm|apply strop_total_py_thm]. Qed.

(* every DSDL name ([A-Za-z_][A-Za-z0-9_]*, any length; pydsdl only removes names from this set) gets a token, and the
   token is a valid identifier, not reserved, free of reserved patterns *)
Lemma strop_dsdl_ident_thm l ty s : valid_ident s = true -> str_eqb (lower ty) ty_all = false ->
  exists t, strop_lang l ty s = Ok t /\ valid_ident t = true /\ reserved_lang l t = false /\ pattern_lang l ty t = false.
Proof.
  intros Hv Hty. assert (Hne : s <> []) by (destruct s; [discriminate|discriminate]).
  destruct (strop_total_lang l ty s Hne Hty) as (t & Ht). exists t; split; [exact Ht|].
  exact (strop_sound_lang l ty s t Hne Ht).
Qed.

(* the exact set of outcomes: a token, or ValueError for the type `all`; RuntimeError never *)
Lemma strop_outcomes_thm l ty s : s <> [] ->
  (str_eqb (lower ty) ty_all = true /\ strop_lang l ty s = ErrValue) \/ (str_eqb (lower ty) ty_all = false /\ exists t, strop_lang l ty s = Ok t).
Proof.
  intros Hne. destruct (str_eqb (lower ty) ty_all) eqn:E.
  - left; split; [reflexivity|]. unfold strop_lang, strop. rewrite E. reflexivity.
  - right; split; [reflexivity|]. apply strop_total_lang; assumption.
Qed.

(* ---- distinctness.  NOT part of C09's statement and false in general: a reserved word and its stropped form collide.
        What does hold: on clean names strop is the identity, hence injective (full alphabet, no length bound). ---- *)
Lemma strop_injective_refuted_thm :
  exists l ty s1 s2 t, s1 <> s2 /\ valid_ident s1 = true /\ valid_ident s2 = true
                       /\ strop_lang l ty s1 = Ok t /\ strop_lang l ty s2 = Ok t.
Proof. exists LC, ty_any, [105; 102], [95; 105; 102], [95; 105; 102]. vm_compute. repeat split; discriminate || reflexivity. Qed.

Lemma strop_injective_on_clean_thm l ty s1 s2 :
  str_eqb (lower ty) ty_all = false -> clean_lang l ty s1 = true -> clean_lang l ty s2 = true ->
  (l = LCpp -> has_dunder s1 = false /\ has_dunder s2 = false) ->
  strop_lang l ty s1 = strop_lang l ty s2 -> s1 = s2.
Proof.
  intros Hty H1 H2 Hd E. destruct l.
  - change (strop_c ty s1 = strop_c ty s2) in E. rewrite (strop_id_c_thm ty s1 Hty H1), (strop_id_c_thm ty s2 Hty H2) in E. congruence.
  - destruct (Hd eq_refl) as [D1 D2]. change (strop_cpp ty s1 = strop_cpp ty s2) in E.
    rewrite (strop_id_cpp_partial_thm ty s1 Hty H1 D1), (strop_id_cpp_partial_thm ty s2 Hty H2 D2) in E. congruence.
  - change (strop_py ty s1 = strop_py ty s2) in E. rewrite (strop_id_py_thm ty s1 Hty H1), (strop_id_py_thm ty s2 Hty H2) in E. congruence.
Qed.

Lemma strop_injective_on_clean_ascii_thm l ty s1 s2 :
  str_eqb (lower ty) ty_all = false -> clean_ascii l ty s1 = true -> clean_ascii l ty s2 = true ->
  strop_lang l ty s1 = strop_lang l ty s2 -> s1 = s2.
Proof. intros Hty H1 H2 E. rewrite (strop_id_ascii_thm l ty s1 Hty H1), (strop_id_ascii_thm l ty s2 Hty H2) in E. congruence. Qed.

(* ---- what exactly an (override) configuration must satisfy: chk_base spelled out as a decidable predicate ---- *)
Definition affix_ok (a : str) : Prop := all_ident a = true.                       (* only [A-Za-z0-9_] *)
Definition head_ok (a : str) : Prop := hd_ok a = true.                            (* non-empty, does not start with a digit *)

Lemma chk_base_spelled_out_thm cfg :
  chk_base py_uni cfg = true <->
  (   (* what the encoder inserts for an illegal character: encoding_prefix + 4 hex digits, or whitespace_encoding_char *)
      affix_ok (sc_enc_prefix cfg) /\ head_ok (sc_enc_prefix cfg)
   /\ match sc_ws_char cfg with Some w => affix_ok w /\ head_ok w | None => True end
      (* stropping_prefix / stropping_suffix: identifier characters only; a non-empty prefix does not start with a digit *)
   /\ affix_ok (sc_prefix cfg) /\ affix_ok (sc_suffix cfg) /\ (sc_prefix cfg = [] \/ head_ok (sc_prefix cfg))
      (* the `all` encoding rules contain  X a*  (e.g. X+) with X a negated plain class whose complement is within [A-Za-z0-9_] *)
   /\ existsb good_clsplus (rules_of cfg ty_all) = true
      (* a leading digit is dealt with: an `all` encoding rule or an `all` reserved pattern of the form ^X with 0-9 within X *)
   /\ (existsb (good_boldigit py_uni) (rules_of cfg ty_all) = true \/ existsb (good_boldigit py_uni) (pats_of cfg ty_all) = true)).
Proof.
  unfold chk_base, chk_enc_out, chk_affixes, rules_digit_guard, pats_digit_guard, affix_ok, head_ok.
  rewrite !andb_true_iff, orb_true_iff. destruct (sc_ws_char cfg) as [w|]; destruct (sc_prefix cfg) as [|p ps];
    rewrite ?andb_true_iff; intuition (auto; try discriminate).
Qed.

(* the CURRENT code with an affix outside the identifier alphabet: the dry-run of the encoding looks at the first character only
   (pattern.match), so the suffix gets through -- known finding F-STROP-ILLEGAL-AFFIX *)
Definition cfg_c_suffix (suf : str) : strop_cfg :=
  {| sc_reserved := sc_reserved cfg_c; sc_patterns := sc_patterns cfg_c; sc_rules := sc_rules cfg_c;
     sc_prefix := sc_prefix cfg_c; sc_suffix := suf; sc_enc_prefix := sc_enc_prefix cfg_c;
     sc_ws_char := sc_ws_char cfg_c; sc_collapse := sc_collapse cfg_c;
     sc_strop_handler := sc_strop_handler cfg_c; sc_enc_handler := sc_enc_handler cfg_c; sc_reverify := sc_reverify cfg_c |}.

Lemma strop_illegal_affix_refuted_thm :
  (* stropping_suffix "-":  if -> _if-          stropping_suffix "/../x", type path:  if -> _if/../x *)
  strop py_uni py_isspace (cfg_c_suffix [45]) ty_any [105; 102] = Ok [95; 105; 102; 45]
  /\ valid_ident [95; 105; 102; 45] = false
  /\ strop py_uni py_isspace (cfg_c_suffix [47; 46; 46; 47; 120]) [112; 97; 116; 104] [105; 102] = Ok [95; 105; 102; 47; 46; 46; 47; 120]
  /\ valid_ident [95; 105; 102; 47; 46; 46; 47; 120] = false
  /\ chk_base py_uni (cfg_c_suffix [45]) = false.
Proof. vm_compute. repeat split; reflexivity. Qed.
