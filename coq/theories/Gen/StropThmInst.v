(* C09 -- the generic stropping theorems instantiated with the configuration regenerated from /repo
   (Generated/Gen_Strop.v) and the Unicode tables of the running interpreter (Generated/Gen_Uni.v).
   The side conditions are recomputed by vm_compute from the regenerated data on every build. *)
From Verif Require Import StropInst StropThmRe StropThmEnc StropThm StropThmId StropThmPipe StropThmHandler.
Open Scope N_scope.

Lemma chk_sound_c : chk_sound py_uni cfg_c = true.     Proof. vm_compute; reflexivity. Qed.
Lemma chk_sound_cpp : chk_sound py_uni cfg_cpp = true. Proof. vm_compute; reflexivity. Qed.
Lemma chk_sound_py : chk_sound py_uni cfg_py = true.   Proof. vm_compute; reflexivity. Qed.

Lemma chk_sound_lang l : chk_sound py_uni (cfg_of l) = true.
Proof. destruct l; [exact chk_sound_c|exact chk_sound_cpp|exact chk_sound_py]. Qed.

Lemma strop_sound_lang l ty tok t :
  tok <> [] -> strop_lang l ty tok = Ok t ->
  valid_ident t = true /\ reserved_lang l t = false /\ pattern_lang l ty t = false.
Proof. exact (strop_sound_gen py_uni py_isspace (cfg_of l) (chk_sound_lang l) ty tok t). Qed.

(* 'all' is not an identifier type: ValueError, whatever the token *)
Lemma strop_all_lang l ty tok : lower ty = ty_all -> strop_lang l ty tok = ErrValue.
Proof. intros H. unfold strop_lang, strop. rewrite H. reflexivity. Qed.

(* ---- identity ---- *)
Lemma chk_id_c : chk_id py_uni cfg_c false = true.     Proof. vm_compute; reflexivity. Qed.
Lemma chk_id_py : chk_id py_uni cfg_py false = true.   Proof. vm_compute; reflexivity. Qed.
Lemma chk_id_cpp : chk_id py_uni cfg_cpp true = true.  Proof. vm_compute; reflexivity. Qed.

Definition clean_lang (l : lang) (ty t : str) : bool :=
  valid_ident t && negb (reserved_lang l t) && negb (pattern_lang l ty t).

Lemma clean_split l ty t : clean_lang l ty t = true ->
  valid_ident t = true /\ is_reserved (cfg_of l) t = false /\ matches_reserved_pattern py_uni (cfg_of l) ty t = false.
Proof.
  unfold clean_lang, reserved_lang, pattern_lang. intros H. apply andb_prop in H as [H H3]. apply andb_prop in H as [H1 H2].
  apply negb_true_iff in H2, H3. auto.
Qed.

Lemma strop_id_c_thm ty t : str_eqb (lower ty) ty_all = false -> clean_lang LC ty t = true -> strop_c ty t = Ok t.
Proof.
  intros Hty H. apply clean_split in H as (H1 & H2 & H3).
  apply (strop_id_gen py_uni py_isspace cfg_c false chk_id_c); auto. discriminate.
Qed.

Lemma strop_id_py_thm ty t : str_eqb (lower ty) ty_all = false -> clean_lang LPy ty t = true -> strop_py ty t = Ok t.
Proof.
  intros Hty H. apply clean_split in H as (H1 & H2 & H3).
  apply (strop_id_gen py_uni py_isspace cfg_py false chk_id_py); auto. discriminate.
Qed.

Lemma strop_id_cpp_partial_thm ty t :
  str_eqb (lower ty) ty_all = false -> clean_lang LCpp ty t = true -> has_dunder t = false -> strop_cpp ty t = Ok t.
Proof.
  intros Hty H Hd. apply clean_split in H as (H1 & H2 & H3).
  apply (strop_id_gen py_uni py_isspace cfg_cpp true chk_id_cpp); auto.
Qed.

(* "__x": a valid identifier, not in the reserved list, matching no reserved pattern -- and yet rewritten (to zX005FzX005Fx)
   because the cpp configuration encodes leading/trailing runs of underscores (rules ^_{2,} and _{2,}$) *)
Lemma strop_id_cpp_refuted_thm :
  exists ty t, str_eqb (lower ty) ty_all = false /\ clean_lang LCpp ty t = true /\ strop_cpp ty t <> Ok t.
Proof. exists ty_any, [95; 95; 120]. vm_compute. repeat split; discriminate. Qed.

(* ---- the lru_cache never changes what a call returns ---- *)
Definition cache_ok (l : lang) (c : cache) : Prop :=
  forall tok ty v, cache_find c (tok, ty) = Some v -> strop_lang l ty tok = Ok v.

Lemma ckey_eqb_eq a b : ckey_eqb a b = true -> a = b.
Proof.
  destruct a as [a1 a2], b as [b1 b2]. unfold ckey_eqb; cbn [fst snd]. intros H. apply andb_prop in H as [H1 H2].
  destruct (str_eqb_spec a1 b1); [|discriminate]. destruct (str_eqb_spec a2 b2); [|discriminate]. congruence.
Qed.

Lemma strop_cached_result l n c ty tok :
  cache_ok l c -> snd (strop_cached py_uni py_isspace (cfg_of l) n c ty tok) = strop_lang l ty tok.
Proof.
  intros Hc. unfold strop_cached. destruct (cache_find c (tok, ty)) as [v|] eqn:E.
  - cbn [snd]. symmetry. apply Hc; exact E.
  - fold (strop_lang l ty tok). destruct (strop_lang l ty tok); reflexivity.
Qed.

(* ---- configuration overrides ----
   In a tree whose strop re-verifies what it returns (sc_reverify = true: the fix for F-STROP-HANDLER-UNVERIFIED) soundness needs
   nothing about the handlers: only chk_base (alphabet, affixes, digit guard -- what makes the token a valid identifier). *)
Lemma strop_sound_reverify_gen cfg :
  sc_reverify cfg = true -> chk_base py_uni cfg = true ->
  forall ty s t, s <> [] -> strop py_uni py_isspace cfg ty s = Ok t ->
  valid_ident t = true /\ is_reserved cfg t = false /\ matches_reserved_pattern py_uni cfg ty t = false.
Proof.
  intros Hr Hb. apply strop_sound_gen. unfold chk_sound. rewrite Hb, Hr. reflexivity.
Qed.

(* The quirk-faithful model of a tree WITHOUT the final re-verification (sc_reverify := false), C configuration with
   reserved_identifiers overridden to ["a"; "_a"]:  "a" -> "_a" (keyword) -> dry-run keyword check fails -> handler returns "_a"
   unchanged -> returned although reserved.  The side condition chk_sound excludes exactly this. *)
Definition cfg_c_override : strop_cfg :=
  {| sc_reserved := [[97]; [95; 97]]; sc_patterns := sc_patterns cfg_c; sc_rules := sc_rules cfg_c;
     sc_prefix := sc_prefix cfg_c; sc_suffix := sc_suffix cfg_c; sc_enc_prefix := sc_enc_prefix cfg_c;
     sc_ws_char := sc_ws_char cfg_c; sc_collapse := sc_collapse cfg_c;
     sc_strop_handler := sc_strop_handler cfg_c; sc_enc_handler := sc_enc_handler cfg_c; sc_reverify := false |}.

Lemma strop_sound_override_refuted_thm :
  exists ty s t, s <> [] /\ strop py_uni py_isspace cfg_c_override ty s = Ok t /\ is_reserved cfg_c_override t = true.
Proof. exists ty_any, [97], [95; 97]. split; [discriminate|]. vm_compute. split; reflexivity. Qed.

Lemma chk_sound_override_false : chk_sound py_uni cfg_c_override = false.
Proof. vm_compute; reflexivity. Qed.

(* the same override on the configuration /repo has NOW (sc_reverify as regenerated) *)
Definition cfg_c_override_now : strop_cfg :=
  {| sc_reserved := [[97]; [95; 97]]; sc_patterns := sc_patterns cfg_c; sc_rules := sc_rules cfg_c;
     sc_prefix := sc_prefix cfg_c; sc_suffix := sc_suffix cfg_c; sc_enc_prefix := sc_enc_prefix cfg_c;
     sc_ws_char := sc_ws_char cfg_c; sc_collapse := sc_collapse cfg_c;
     sc_strop_handler := sc_strop_handler cfg_c; sc_enc_handler := sc_enc_handler cfg_c; sc_reverify := strop_reverifies |}.

(* which of the two holds is decided by the regenerated flag: with the fix, every override with chk_base is sound (and the
   witness override is rejected with RuntimeError); without it, the witness override returns the reserved `_a` *)
Definition override_state : Prop :=
  if strop_reverifies
  then (forall l, sc_reverify (cfg_of l) = true)
       /\ chk_sound py_uni cfg_c_override_now = true
       /\ strop py_uni py_isspace cfg_c_override_now ty_any [97] = ErrRuntime
  else strop py_uni py_isspace cfg_c_override_now ty_any [97] = Ok [95; 97] /\ is_reserved cfg_c_override_now [95; 97] = true.

Lemma override_state_thm : override_state.
Proof.
  unfold override_state. destruct strop_reverifies eqn:E.
  - first [vm_compute in E; discriminate E
          |split; [intros l; destruct l; vm_compute; reflexivity|split; vm_compute; reflexivity]].
  - first [vm_compute in E; discriminate E|split; vm_compute; reflexivity].
Qed.

(* ---- Python's reserved list covers keyword.kwlist + dir(builtins) of the interpreter (independent table) ---- *)
Lemma py_reserved_covers_interpreter_thm :
  forall w, In w (py_kwlist ++ py_interpreter_reserved) -> reserved_lang LPy w = true.
Proof.
  assert (H : forallb (fun w => reserved_lang LPy w) (py_kwlist ++ py_interpreter_reserved) = true) by (vm_compute; reflexivity).
  rewrite forallb_forall in H. exact H.
Qed.

(* ---- the configurations under the exercised overrides: a fact about every entry of cfgs_ov gives one about cfg_sel ---- *)
Lemma cfg_sel_all (P : strop_cfg -> bool) :
  (forall l, P (cfg_of l) = true) ->
  forallb (fun t => P (pick LC t) && P (pick LCpp t) && P (pick LPy t)) cfgs_ov = true ->
  forall k l, P (cfg_sel k l) = true.
Proof.
  intros Hb Ha k l. unfold cfg_sel. destruct k as [|k]; [apply Hb|].
  destruct (nth_error cfgs_ov k) as [t|] eqn:E; [|apply Hb]. apply nth_error_In in E.
  rewrite forallb_forall in Ha. specialize (Ha t E). apply andb_prop in Ha as [Ha H3]. apply andb_prop in Ha as [H1 H2].
  destruct l; assumption.
Qed.

Lemma chk_sound_sel k l : chk_sound py_uni (cfg_sel k l) = true.
Proof. apply (cfg_sel_all (chk_sound py_uni)); [exact chk_sound_lang|vm_compute; reflexivity]. Qed.

Lemma strop_sound_sel k l ty tok t :
  tok <> [] -> strop_sel k l ty tok = Ok t ->
  valid_ident t = true /\ reserved_sel k l t = false /\ pattern_sel k l ty t = false.
Proof. exact (strop_sound_gen py_uni py_isspace (cfg_sel k l) (chk_sound_sel k l) ty tok t). Qed.

(* ---- the regenerated step list of TokenEncoder.strop ---- *)
Lemma pipeline_is_model_thm : strop_pipeline = model_pipeline strop_reverifies.
Proof. reflexivity. Qed.

Lemma reverify_sel k l : Bool.eqb (sc_reverify (cfg_sel k l)) strop_reverifies = true.
Proof.
  apply (cfg_sel_all (fun c => Bool.eqb (sc_reverify c) strop_reverifies)); [intros []; vm_compute; reflexivity|vm_compute; reflexivity].
Qed.

Lemma strop_is_regenerated_pipeline_thm k l ty s : strop_sel k l ty s = strop_sel_pipeline k l ty s.
Proof.
  unfold strop_sel, strop_sel_pipeline. rewrite strop_is_pipeline, pipeline_is_model_thm.
  rewrite (Bool.eqb_prop _ _ (reverify_sel k l)). reflexivity.
Qed.

(* ---- the translated failure handlers ---- *)
Lemma handlers_are_model_thm :
  handlers_translated = repeat (model_handler_pre, model_handler_grp, model_handler_tmpl) (length handlers_translated).
Proof. reflexivity. Qed.

Lemma handlers_translated_und_thm h : In h handlers_translated ->
  forall s, handler_gen py_uni (fst (fst h)) (snd (fst h)) (snd h) s = handler_und s.
Proof.
  rewrite handlers_are_model_thm. intros Hin s. apply repeat_spec in Hin. subst h. apply handler_gen_is_und.
Qed.
