(* C09 -- the generic stropping theorems instantiated with the configuration regenerated from /repo
   (Generated/Gen_Strop.v) and the Unicode tables of the running interpreter (Generated/Gen_Uni.v).
   The side conditions are recomputed by vm_compute from the regenerated data on every build. *)
From Verif Require Import StropInst StropThmRe StropThmEnc StropThm StropThmId StropThmPipe StropThmHandler StropThmTotal StropThmCache StropThmFull.
Open Scope N_scope.

Lemma chk_sound_c : chk_sound py_uni cfg_c = true.     Proof. vm_compute; reflexivity. Qed.
Lemma chk_sound_cpp : chk_sound py_uni cfg_cpp = true. Proof. vm_compute; reflexivity. Qed.
Lemma chk_sound_py : chk_sound py_uni cfg_py = true.   Proof. vm_compute; reflexivity. Qed.

Lemma chk_sound_lang l : chk_sound py_uni (cfg_of l) = true.
Proof. destruct l; [exact chk_sound_c|exact chk_sound_cpp|exact chk_sound_py]. Qed.

Lemma strop_sound_lang l ty tok t :
  tok <> [] -> strop_lang l ty tok = Ok t ->
  valid_ident t = true /\ reserved_lang l t = false /\ pattern_lang l ty t = false.
Proof. exact (strop_sound_gen py_uni py_isspace (cfg_of l) (chk_sound_lang l) ty tok t). Qed.

(* 'all' is not an identifier type: ValueError, whatever the token *)
Lemma strop_all_lang l ty tok : lower ty = ty_all -> strop_lang l ty tok = ErrValue.
Proof. intros H. unfold strop_lang, strop. rewrite H. reflexivity. Qed.

(* ---- identity ---- *)
Lemma chk_id_c : chk_id py_uni cfg_c false = true.     Proof. vm_compute; reflexivity. Qed.
Lemma chk_id_py : chk_id py_uni cfg_py false = true.   Proof. vm_compute; reflexivity. Qed.
Lemma chk_id_cpp : chk_id py_uni cfg_cpp true = true.  Proof. vm_compute; reflexivity. Qed.
Lemma nn_c : rules_nonnull py_uni cfg_c = true.     Proof. vm_compute; reflexivity. Qed.
Lemma nn_py : rules_nonnull py_uni cfg_py = true.   Proof. vm_compute; reflexivity. Qed.
Lemma nn_cpp : rules_nonnull py_uni cfg_cpp = true. Proof. vm_compute; reflexivity. Qed.

Definition clean_lang (l : lang) (ty t : str) : bool :=
  valid_ident t && negb (reserved_lang l t) && negb (pattern_lang l ty t).

Lemma clean_split l ty t : clean_lang l ty t = true ->
  valid_ident t = true /\ is_reserved (cfg_of l) t = false /\ matches_reserved_pattern py_uni (cfg_of l) ty t = false.
Proof.
  unfold clean_lang, reserved_lang, pattern_lang. intros H. apply andb_prop in H as [H H3]. apply andb_prop in H as [H1 H2].
  apply negb_true_iff in H2, H3. auto.
Qed.

Lemma strop_id_c_thm ty t : str_eqb (lower ty) ty_all = false -> clean_lang LC ty t = true -> strop_c ty t = Ok t.
Proof.
  intros Hty H. apply clean_split in H as (H1 & H2 & H3).
  apply (strop_id_gen py_uni py_isspace cfg_c false chk_id_c nn_c); auto. discriminate.
Qed.

Lemma strop_id_py_thm ty t : str_eqb (lower ty) ty_all = false -> clean_lang LPy ty t = true -> strop_py ty t = Ok t.
Proof.
  intros Hty H. apply clean_split in H as (H1 & H2 & H3).
  apply (strop_id_gen py_uni py_isspace cfg_py false chk_id_py nn_py); auto. discriminate.
Qed.

Lemma strop_id_cpp_partial_thm ty t :
  str_eqb (lower ty) ty_all = false -> clean_lang LCpp ty t = true -> has_dunder t = false -> strop_cpp ty t = Ok t.
Proof.
  intros Hty H Hd. apply clean_split in H as (H1 & H2 & H3).
  apply (strop_id_gen py_uni py_isspace cfg_cpp true chk_id_cpp nn_cpp); auto.
Qed.

(* clause 3 of the property ("already valid, unreserved identifiers are returned unchanged"), for the DOCUMENTED alphabet:
   DSDL names are ASCII and the encoder's output alphabet is ASCII by design (rule [^a-zA-Z0-9_]+), so "valid identifier" is
   valid_ident = ASCII [A-Za-z_][A-Za-z0-9_]* for all three languages; "unreserved" is: not in the reserved list, no reserved
   pattern, and -- C++ [lex.name] 3.1 -- for cpp no `__` anywhere (the configuration expresses the leading/trailing case through
   the encoding rules ^_{2,} and _{2,}$ instead of a reserved pattern). *)
Definition std_reserved_extra (l : lang) (t : str) : bool := match l with LCpp => has_dunder t | _ => false end.
Definition clean_ascii (l : lang) (ty t : str) : bool := clean_lang l ty t && negb (std_reserved_extra l t).

Lemma strop_id_ascii_thm l ty t : str_eqb (lower ty) ty_all = false -> clean_ascii l ty t = true -> strop_lang l ty t = Ok t.
Proof.
  intros Hty H. unfold clean_ascii in H. apply andb_prop in H as [H Hx]. apply negb_true_iff in Hx. destruct l.
  - exact (strop_id_c_thm ty t Hty H).
  - exact (strop_id_cpp_partial_thm ty t Hty H Hx).
  - exact (strop_id_py_thm ty t Hty H).
Qed.

(* "__x": a valid identifier, not in the reserved list, matching no reserved pattern -- and yet rewritten (to zX005FzX005Fx)
   because the cpp configuration encodes leading/trailing runs of underscores (rules ^_{2,} and _{2,}$) *)
Lemma strop_id_cpp_refuted_thm :
  exists ty t, str_eqb (lower ty) ty_all = false /\ clean_lang LCpp ty t = true /\ strop_cpp ty t <> Ok t.
Proof. exists ty_any, [95; 95; 120]. vm_compute. repeat split; discriminate. Qed.

(* ---- the lru_cache shared by all encoders of a process never changes what a call returns ---- *)
Definition enc2 (A B : strop_cfg) (i : nat) : strop_cfg := match i with O => A | S _ => B end.

Lemma lru_shared_transparent_thm (enc : nat -> strop_cfg) maxsize calls :
  run_calls py_uni py_isspace enc maxsize [] calls = map (uncached py_uni py_isspace enc) calls.
Proof. apply run_calls_from_empty. Qed.

Lemma two_encoders_isolated_thm (A B : strop_cfg) maxsize calls :
  run_calls py_uni py_isspace (enc2 A B) maxsize [] calls
  = map (fun k : skey => strop py_uni py_isspace (match fst (fst k) with O => A | S _ => B end) (snd k) (snd (fst k))) calls.
Proof. rewrite run_calls_from_empty. reflexivity. Qed.

(* ---- configuration overrides ----
   In a tree whose strop re-verifies what it returns (sc_reverify = true: the fix for F-STROP-HANDLER-UNVERIFIED) soundness needs
   nothing about the handlers: only chk_base (alphabet, affixes, digit guard -- what makes the token a valid identifier). *)
Lemma strop_sound_reverify_gen cfg :
  sc_reverify cfg = true -> chk_base py_uni cfg = true ->
  forall ty s t, s <> [] -> strop py_uni py_isspace cfg ty s = Ok t ->
  valid_ident t = true /\ is_reserved cfg t = false /\ matches_reserved_pattern py_uni cfg ty t = false.
Proof.
  intros Hr Hb. apply strop_sound_gen. unfold chk_sound. rewrite Hb, Hr. reflexivity.
Qed.

(* /repo re-verifies the token strop returns (fix 2e53e9f); the quirk model of the tree before it: History/C09_history.v *)
Lemma strop_reverified_now_thm : strop_reverifies = true /\ forall l, sc_reverify (cfg_of l) = true.
Proof. split; [reflexivity|intros []; reflexivity]. Qed.

(* ---- Python's reserved list covers keyword.kwlist + dir(builtins) of the interpreter (independent table) ---- *)
Lemma py_reserved_covers_interpreter_thm :
  forall w, In w (py_kwlist ++ py_interpreter_reserved) -> reserved_lang LPy w = true.
Proof.
  assert (H : forallb (fun w => reserved_lang LPy w) (py_kwlist ++ py_interpreter_reserved) = true) by (vm_compute; reflexivity).
  rewrite forallb_forall in H. exact H.
Qed.

(* ---- the configurations under the exercised overrides: a fact about every entry of cfgs_ov gives one about cfg_sel ---- *)
Lemma cfg_sel_all (P : strop_cfg -> bool) :
  (forall l, P (cfg_of l) = true) ->
  forallb (fun t => P (pick LC t) && P (pick LCpp t) && P (pick LPy t)) cfgs_ov = true ->
  forall k l, P (cfg_sel k l) = true.
Proof.
  intros Hb Ha k l. unfold cfg_sel. destruct k as [|k]; [apply Hb|].
  destruct (nth_error cfgs_ov k) as [t|] eqn:E; [|apply Hb]. apply nth_error_In in E.
  rewrite forallb_forall in Ha. specialize (Ha t E). apply andb_prop in Ha as [Ha H3]. apply andb_prop in Ha as [H1 H2].
  destruct l; assumption.
Qed.

Lemma chk_sound_sel k l : chk_sound py_uni (cfg_sel k l) = true.
Proof. apply (cfg_sel_all (chk_sound py_uni)); [exact chk_sound_lang|vm_compute; reflexivity]. Qed.

Lemma strop_sound_sel k l ty tok t :
  tok <> [] -> strop_sel k l ty tok = Ok t ->
  valid_ident t = true /\ reserved_sel k l t = false /\ pattern_sel k l ty t = false.
Proof. exact (strop_sound_gen py_uni py_isspace (cfg_sel k l) (chk_sound_sel k l) ty tok t). Qed.

(* ---- the regenerated step list of TokenEncoder.strop ---- *)
Lemma pipeline_is_model_thm : strop_pipeline = model_pipeline strop_reverifies strop_full_check.
Proof. reflexivity. Qed.

Lemma reverify_sel k l : Bool.eqb (sc_reverify (cfg_sel k l)) strop_reverifies && Bool.eqb (sc_full_check (cfg_sel k l)) strop_full_check = true.
Proof.
  apply (cfg_sel_all (fun c => Bool.eqb (sc_reverify c) strop_reverifies && Bool.eqb (sc_full_check c) strop_full_check));
    [intros []; vm_compute; reflexivity|vm_compute; reflexivity].
Qed.

Lemma strop_is_regenerated_pipeline_thm k l ty s : strop_sel k l ty s = strop_sel_pipeline k l ty s.
Proof.
  unfold strop_sel, strop_sel_pipeline. rewrite strop_is_pipeline, pipeline_is_model_thm.
  pose proof (reverify_sel k l) as H. apply andb_prop in H as [H1 H2].
  rewrite (Bool.eqb_prop _ _ H1), (Bool.eqb_prop _ _ H2). reflexivity.
Qed.

(* ---- the translated failure handlers ---- *)
Lemma handlers_are_model_thm :
  handlers_translated = repeat (model_handler_pre, model_handler_grp, model_handler_tmpl) (length handlers_translated).
Proof. reflexivity. Qed.

Lemma handlers_translated_und_thm h : In h handlers_translated ->
  forall s, handler_gen py_uni (fst (fst h)) (snd (fst h)) (snd h) s = handler_und s.
Proof.
  rewrite handlers_are_model_thm. intros Hin s. apply repeat_spec in Hin. subst h. apply handler_gen_is_und.
Qed.

(* ---- totality on the shipped configurations (side conditions recomputed from the regenerated data) ---- *)
Ltac total_side := first [vm_compute; reflexivity | intros _; split; vm_compute; reflexivity | intros H; vm_compute in H; discriminate H].

(* Totality is proved for the tree WITHOUT the whole-token loop of _reverified (no_full cfg) and transferred with strop_no_full:
   the loop is one more filter, so what remains to show is that it accepts every token the other checks accept.  For c and py
   that is proved (a valid identifier passes: full_ok_valid).  For cpp it is proved for tokens without `__`; for tokens that
   contain `__` it is the NAMED PREMISE below (what is missing is the lemma "the cpp encoder's output never ends in `__`", i.e.
   stability of the rule _{2,}$ under re.sub) -- supported by the exhaustive model-vs-implementation sweep, not by proof.
   In a tree without the loop (strop_full_check = false) the premise is True. *)
Definition cpp_whole_token_premise : Prop :=
  if strop_full_check
  then forall ty s t, s <> [] -> strop py_uni py_isspace (no_full cfg_cpp) ty s = Ok t -> has_dunder t = true ->
                      full_ok py_uni cfg_cpp (lower ty) t = true
  else True.

Lemma cpp_premise_trivial_without_loop : strop_full_check = false -> cpp_whole_token_premise.
Proof. unfold cpp_whole_token_premise. intros ->. exact I. Qed.

Lemma nofull_sound l : chk_sound py_uni (no_full (cfg_of l)) = true.
Proof. destruct l; vm_compute; reflexivity. Qed.

Lemma nofull_total_c ty s : s <> [] -> str_eqb (lower ty) ty_all = false -> exists t, strop py_uni py_isspace (no_full cfg_c) ty s = Ok t.
Proof. apply (strop_total_gen py_uni py_isspace (no_full cfg_c) false); total_side. Qed.
Lemma nofull_total_cpp ty s : s <> [] -> str_eqb (lower ty) ty_all = false -> exists t, strop py_uni py_isspace (no_full cfg_cpp) ty s = Ok t.
Proof. apply (strop_total_gen py_uni py_isspace (no_full cfg_cpp) true); total_side. Qed.
Lemma nofull_total_py ty s : s <> [] -> str_eqb (lower ty) ty_all = false -> exists t, strop py_uni py_isspace (no_full cfg_py) ty s = Ok t.
Proof. apply (strop_total_gen py_uni py_isspace (no_full cfg_py) false); total_side. Qed.

Lemma nofull_valid l ty s t : s <> [] -> strop py_uni py_isspace (no_full (cfg_of l)) ty s = Ok t -> valid_ident t = true.
Proof. intros Hne H. exact (proj1 (strop_sound_gen py_uni py_isspace (no_full (cfg_of l)) (nofull_sound l) ty s t Hne H)). Qed.

Lemma strop_total_c_thm ty s : s <> [] -> str_eqb (lower ty) ty_all = false -> exists t, strop_c ty s = Ok t.
Proof.
  intros Hne Hty. unfold strop_c. rewrite strop_no_full. destruct (nofull_total_c ty s Hne Hty) as (t & E). rewrite E.
  rewrite (full_ok_valid py_uni cfg_c false chk_id_c nn_c (lower ty) t (nofull_valid LC ty s t Hne E)) by discriminate.
  rewrite orb_true_r. eexists; reflexivity.
Qed.

Lemma strop_total_py_thm ty s : s <> [] -> str_eqb (lower ty) ty_all = false -> exists t, strop_py ty s = Ok t.
Proof.
  intros Hne Hty. unfold strop_py. rewrite strop_no_full. destruct (nofull_total_py ty s Hne Hty) as (t & E). rewrite E.
  rewrite (full_ok_valid py_uni cfg_py false chk_id_py nn_py (lower ty) t (nofull_valid LPy ty s t Hne E)) by discriminate.
  rewrite orb_true_r. eexists; reflexivity.
Qed.

Lemma strop_total_cpp_thm ty s : cpp_whole_token_premise -> s <> [] -> str_eqb (lower ty) ty_all = false -> exists t, strop_cpp ty s = Ok t.
Proof.
  intros P Hne Hty. unfold strop_cpp. rewrite strop_no_full. destruct (nofull_total_cpp ty s Hne Hty) as (t & E). rewrite E.
  assert (F : negb (sc_reverify cfg_cpp) || negb (sc_full_check cfg_cpp) || full_ok py_uni cfg_cpp (lower ty) t = true).
  { destruct (has_dunder t) eqn:D.
    - unfold cpp_whole_token_premise in P. destruct strop_full_check eqn:Efc.
      + rewrite (P ty s t Hne E D). apply orb_true_r.
      + assert (Hf : sc_full_check cfg_cpp = strop_full_check) by reflexivity. rewrite Hf, Efc. cbn [negb]. rewrite orb_true_r. reflexivity.
    - rewrite (full_ok_valid py_uni cfg_cpp true chk_id_cpp nn_cpp (lower ty) t (nofull_valid LCpp ty s t Hne E)); [apply orb_true_r|].
      intros _; exact D. }
  rewrite F. eexists; reflexivity.
Qed.

Lemma strop_total_lang l ty s : cpp_whole_token_premise -> s <> [] -> str_eqb (lower ty) ty_all = false -> exists t, strop_lang l ty s = Ok t.
Proof. intros P. destruct l; [apply strop_total_c_thm|apply strop_total_cpp_thm; exact P|apply strop_total_py_thm]. Qed.

(* every DSDL name ([A-Za-z_][A-Za-z0-9_]*, any length; pydsdl only removes names from this set) gets a token, and the
   token is a valid identifier, not reserved, free of reserved patterns *)
Lemma strop_dsdl_ident_thm l ty s : cpp_whole_token_premise -> valid_ident s = true -> str_eqb (lower ty) ty_all = false ->
  exists t, strop_lang l ty s = Ok t /\ valid_ident t = true /\ reserved_lang l t = false /\ pattern_lang l ty t = false.
Proof.
  intros P Hv Hty. assert (Hne : s <> []) by (destruct s; [discriminate|discriminate]).
  destruct (strop_total_lang l ty s P Hne Hty) as (t & Ht). exists t; split; [exact Ht|].
  exact (strop_sound_lang l ty s t Hne Ht).
Qed.

(* the exact set of outcomes: a token, or ValueError for the type `all`; RuntimeError never *)
Lemma strop_outcomes_thm l ty s : cpp_whole_token_premise -> s <> [] ->
  (str_eqb (lower ty) ty_all = true /\ strop_lang l ty s = ErrValue) \/ (str_eqb (lower ty) ty_all = false /\ exists t, strop_lang l ty s = Ok t).
Proof.
  intros P Hne. destruct (str_eqb (lower ty) ty_all) eqn:E.
  - left; split; [reflexivity|]. unfold strop_lang, strop. rewrite E. reflexivity.
  - right; split; [reflexivity|]. apply strop_total_lang; assumption.
Qed.

(* ---- distinctness.  NOT part of C09's statement and false in general: a reserved word and its stropped form collide.
        What does hold: on clean names strop is the identity, hence injective (full alphabet, no length bound). ---- *)
Lemma strop_injective_refuted_thm :
  exists l ty s1 s2 t, s1 <> s2 /\ valid_ident s1 = true /\ valid_ident s2 = true
                       /\ strop_lang l ty s1 = Ok t /\ strop_lang l ty s2 = Ok t.
Proof. exists LC, ty_any, [105; 102], [95; 105; 102], [95; 105; 102]. vm_compute. repeat split; discriminate || reflexivity. Qed.

Lemma strop_injective_on_clean_thm l ty s1 s2 :
  str_eqb (lower ty) ty_all = false -> clean_lang l ty s1 = true -> clean_lang l ty s2 = true ->
  (l = LCpp -> has_dunder s1 = false /\ has_dunder s2 = false) ->
  strop_lang l ty s1 = strop_lang l ty s2 -> s1 = s2.
Proof.
  intros Hty H1 H2 Hd E. destruct l.
  - change (strop_c ty s1 = strop_c ty s2) in E. rewrite (strop_id_c_thm ty s1 Hty H1), (strop_id_c_thm ty s2 Hty H2) in E. congruence.
  - destruct (Hd eq_refl) as [D1 D2]. change (strop_cpp ty s1 = strop_cpp ty s2) in E.
    rewrite (strop_id_cpp_partial_thm ty s1 Hty H1 D1), (strop_id_cpp_partial_thm ty s2 Hty H2 D2) in E. congruence.
  - change (strop_py ty s1 = strop_py ty s2) in E. rewrite (strop_id_py_thm ty s1 Hty H1), (strop_id_py_thm ty s2 Hty H2) in E. congruence.
Qed.

Lemma strop_injective_on_clean_ascii_thm l ty s1 s2 :
  str_eqb (lower ty) ty_all = false -> clean_ascii l ty s1 = true -> clean_ascii l ty s2 = true ->
  strop_lang l ty s1 = strop_lang l ty s2 -> s1 = s2.
Proof. intros Hty H1 H2 E. rewrite (strop_id_ascii_thm l ty s1 Hty H1), (strop_id_ascii_thm l ty s2 Hty H2) in E. congruence. Qed.

(* ---- what exactly an (override) configuration must satisfy: chk_base spelled out as a decidable predicate ---- *)
Definition affix_ok (a : str) : Prop := all_ident a = true.                       (* only [A-Za-z0-9_] *)
Definition head_ok (a : str) : Prop := hd_ok a = true.                            (* non-empty, does not start with a digit *)

Lemma chk_base_spelled_out_thm cfg :
  chk_base py_uni cfg = true <->
  (   (* what the encoder inserts for an illegal character: encoding_prefix + 4 hex digits, or whitespace_encoding_char *)
      affix_ok (sc_enc_prefix cfg) /\ head_ok (sc_enc_prefix cfg)
   /\ match sc_ws_char cfg with Some w => affix_ok w /\ head_ok w | None => True end
      (* stropping_prefix / stropping_suffix: identifier characters only; a non-empty prefix does not start with a digit *)
   /\ affix_ok (sc_prefix cfg) /\ affix_ok (sc_suffix cfg) /\ (sc_prefix cfg = [] \/ head_ok (sc_prefix cfg))
      (* the `all` encoding rules contain  X a*  (e.g. X+) with X a negated plain class whose complement is within [A-Za-z0-9_] *)
   /\ existsb good_clsplus (rules_of cfg ty_all) = true
      (* a leading digit is dealt with: an `all` encoding rule or an `all` reserved pattern of the form ^X with 0-9 within X *)
   /\ (existsb (good_boldigit py_uni) (rules_of cfg ty_all) = true \/ existsb (good_boldigit py_uni) (pats_of cfg ty_all) = true)).
Proof.
  unfold chk_base, chk_enc_out, chk_affixes, rules_digit_guard, pats_digit_guard, affix_ok, head_ok.
  rewrite !andb_true_iff, orb_true_iff. destruct (sc_ws_char cfg) as [w|]; destruct (sc_prefix cfg) as [|p ps];
    rewrite ?andb_true_iff; intuition (auto; try discriminate).
Qed.

(* the CURRENT code with an affix outside the identifier alphabet: the dry-run of the encoding looks at the first character only
   (pattern.match), so the suffix gets through -- known finding F-STROP-ILLEGAL-AFFIX *)
Definition cfg_c_suffix (suf : str) : strop_cfg :=
  {| sc_reserved := sc_reserved cfg_c; sc_patterns := sc_patterns cfg_c; sc_rules := sc_rules cfg_c;
     sc_prefix := sc_prefix cfg_c; sc_suffix := suf; sc_enc_prefix := sc_enc_prefix cfg_c;
     sc_ws_char := sc_ws_char cfg_c; sc_collapse := sc_collapse cfg_c;
     sc_strop_handler := sc_strop_handler cfg_c; sc_enc_handler := sc_enc_handler cfg_c; sc_reverify := sc_reverify cfg_c;
     sc_full_check := false |}.

Lemma strop_illegal_affix_refuted_thm :
  (* stropping_suffix "-":  if -> _if-          stropping_suffix "/../x", type path:  if -> _if/../x *)
  strop py_uni py_isspace (cfg_c_suffix [45]) ty_any [105; 102] = Ok [95; 105; 102; 45]
  /\ valid_ident [95; 105; 102; 45] = false
  /\ strop py_uni py_isspace (cfg_c_suffix [47; 46; 46; 47; 120]) [112; 97; 116; 104] [105; 102] = Ok [95; 105; 102; 47; 46; 46; 47; 120]
  /\ valid_ident [95; 105; 102; 47; 46; 46; 47; 120] = false
  /\ chk_base py_uni (cfg_c_suffix [45]) = false.
Proof. vm_compute. repeat split; reflexivity. Qed.

(* ---- the illegal-affix override configurations (Gen_Strop.cfgs_aff) once the whole-token loop is in the tree ---- *)
Definition aff_ok (c : strop_cfg) : bool := negb strop_full_check || (sc_reverify c && sc_full_check c && chk_full py_uni c).

Lemma cfg_aff_ok k l : aff_ok (cfg_aff k l) = true.
Proof.
  assert (Hb : forall l, aff_ok (cfg_of l) = true) by (intros []; vm_compute; reflexivity).
  assert (Ha : forallb (fun t => aff_ok (pick LC t) && aff_ok (pick LCpp t) && aff_ok (pick LPy t)) cfgs_aff = true)
    by (vm_compute; reflexivity).
  unfold cfg_aff. destruct (nth_error cfgs_aff k) as [t|] eqn:E; [|apply Hb]. apply nth_error_In in E.
  rewrite forallb_forall in Ha. specialize (Ha t E). apply andb_prop in Ha as [Ha H3]. apply andb_prop in Ha as [H1 H2].
  destruct l; assumption.
Qed.

Lemma strop_sound_affix_overrides_thm : strop_full_check = true ->
  forall k l ty s t, s <> [] -> strop_aff k l ty s = Ok t ->
  valid_ident t = true /\ is_reserved (cfg_aff k l) t = false /\ matches_reserved_pattern py_uni (cfg_aff k l) ty t = false.
Proof.
  intros Hf k l ty s t Hne H. pose proof (cfg_aff_ok k l) as Hk. unfold aff_ok in Hk. rewrite Hf in Hk. cbn [negb orb] in Hk.
  apply andb_prop in Hk as [Hk H3]. apply andb_prop in Hk as [H1 H2].
  apply andb_prop in H3 as [H3 Hws]. 
  exact (strop_sound_full_gen py_uni py_isspace (cfg_aff k l) Hws H1 H2 (andb_true_intro (conj H3 Hws)) ty s t Hne H).
Qed.
