(* C05: an exact (integer / rational) executable model of IEEE-754 round-to-nearest-even for binary64 and binary32, and of how the
   rendered floating constant expressions are evaluated:
     C / C++   `((T) (N.0 / D.0))`: N.0 and D.0 are decimal floating constants (each correctly rounded to double by the compiler),
               the division is one IEEE binary64 operation, the cast to float rounds once more; `((T) N.0)`; or the decimal constant
               produced by the oracle (correctly rounded by the compiler);
     Python    `N / D` on ints: CPython's true division is correctly rounded (one rounding of the exact quotient).
   No proofs here (extracted by ExtractC05.v).  Assumptions about compilers / CPython are listed in design_notes/C05.md. *)
From Coq Require Import List NArith ZArith Bool.
From Verif Require Import Str MetaC05Base MetaC05Rne Gen_C05 MetaC05.
Import ListNotations.
Local Open Scope Z_scope.

(* IEEE division of two values of format f *)
Definition fdiv (f : fmt) (x y : fval) : option fval :=
  match fval_q x, fval_q y with
  | Some (nx, dx), Some (ny, dy) =>
      if ny =? 0 then None
      else let num := nx * dy in let den := dx * ny in
           Some (if den <? 0 then rne f (- num) (- den) else rne f num den)
  | _, _ => None
  end.

(* conversion between formats (the cast) *)
Definition fcast (f : fmt) (x : fval) : fval :=
  match fval_q x with Some (n, d) => rne f n d | None => x end.

(* bit pattern *)
Definition fbits (f : fmt) (x : fval) : Z :=
  let p := f_prec f in
  let ebits := 2 ^ (Z.log2 (f_emax f - f_emin f + 2) + 1) in       (* 2^(number of exponent bits): 2048 / 256 *)
  let sign (neg : bool) := if neg then ebits * 2 ^ (p - 1) else 0 in
  match x with
  | FInf neg => sign neg + (ebits - 1) * 2 ^ (p - 1)
  | FFin neg m q =>
      if m <? 2 ^ (p - 1) then sign neg + m                                       (* zero / subnormal *)
      else sign neg + (q + (p - 1) - f_emin f + 1) * 2 ^ (p - 1) + (m - 2 ^ (p - 1))
  end.

(* position on the ordered line of representable values (ulp distance = difference) *)
Definition ford (f : fmt) (x : fval) : Z :=
  let half := 2 ^ (Z.log2 (f_emax f - f_emin f + 2) + 1) * 2 ^ (f_prec f - 1) in
  let b := fbits f x in
  if half <=? b then - (b - half) else b.

(* ---- evaluation of the rendered constant expression ---- *)
(* value of the C / C++ expression as a double: division form, integral form, or the oracle's decimal constant *)
Definition c_eval64 (rf : (Z * Z) -> str) (n d : Z) : option fval :=
  if d =? 1 then Some (rne binary64 n 1)
  else if division_rendered n d then fdiv binary64 (rne binary64 n 1) (rne binary64 d 1)
  else match parse_fdec (rf (n, d)) with Some (a, b) => Some (rne binary64 a b) | None => None end.

Definition c_eval32 (rf : (Z * Z) -> str) (n d : Z) : option fval :=
  match c_eval64 rf n d with Some x => Some (fcast binary32 x) | None => None end.

(* Python: n / d is the correctly rounded quotient (a double); the harness prints float32 constants through a cast *)
Definition py_eval64 (n d : Z) : fval := rne binary64 n d.

(* certificate for the oracle's decimal constant: it parses, and its exact value rounds to the same double as n/d *)
Definition oracle_certified (rf : (Z * Z) -> str) (n d : Z) : bool :=
  match parse_fdec (rf (n, d)) with
  | Some (a, b) => (0 <? b) && (fbits binary64 (rne binary64 a b) =? fbits binary64 (rne binary64 n d))
  | None => false
  end.

(* driver entry point: (c64, rn64, c32, rn32, p32 [python value printed as binary32], operands exact, oracle certified) *)
Definition drv_feval (oracle n d : str) : option Z * Z * option Z * Z * Z * bool * bool :=
  let rf := fun _ : Z * Z => oracle in
  let nz := z_of_dec n in let dz := z_of_dec d in
  (match c_eval64 rf nz dz with Some x => Some (fbits binary64 x) | None => None end,
   fbits binary64 (rne binary64 nz dz),
   match c_eval32 rf nz dz with Some x => Some (fbits binary32 x) | None => None end,
   fbits binary32 (rne binary32 nz dz),
   fbits binary32 (fcast binary32 (py_eval64 nz dz)),
   exact64 nz && exact64 dz,
   oracle_certified rf nz dz).
