(* C18, item 9 continued: to_builtin followed by update_from_builtin gives the object back, for ALL types of a data base
   (nested composites, unions whose selected option is a composite, arrays of composites, float16/32 arrays).
   Continues PyObjThm.v / PyObjThmRt.v; same instantiation tmpl_gen / pick_width_gen. *)
From Coq Require Import List NArith ZArith Bool Arith Lia ZifyBool.
From Verif Require Import PyObj Gen_PyObj PyObjThm PyObjThmRt.
Import ListNotations.
Open Scope Z_scope.

(* ================================================================ hypotheses (all decidable) *)
(* type level: a string-like array is an array of bytes (pydsdl: only uint8[] / utf8 can be string-like);
   for any other element type to_builtin may return a str that update_from_builtin cannot take back *)
Definition ftype_strok (f : ftype) : bool :=
  match f with
  | FArr _ _ true e => match e with EPrim (KU w) => w <=? 8 | _ => false end
  | _ => true
  end.
Definition db_strok (db : tdb) : bool := forallb (fun c => forallb ftype_strok (c_fields c)) db.

(* every default constructor succeeds (update_from_builtin starts from T() and builds nested T() on demand) *)
Definition db_defaults_ok (q : bool) (db : tdb) : bool := forallb (fun d => negb (is_none d)) (defaults TG PW q db).

(* value level: the elements of an array of composites are instances of the element class (the template does not
   check it), and the elements of a float array are values the storage dtype can represent (what NumPy stores)
   and, for the conformant variant, within the range of the element type (what its setter admits) *)
Definition is_inst (t : nat) (x : pyval) : bool := match x with PObj t' _ => Nat.eqb t' t | _ => false end.
Definition felem_ok (q : bool) (w : Z) (x : pyval) : bool :=
  match x with
  | PFloat b => (f_round (pwd PW w) b =? b)%N && (q || negb (w <? 64) || f_in_range w b || negb (f_isfinite b))
  | _ => true
  end.
Definition slot_rt (q : bool) (f : ftype) (s : pyval) : bool :=
  match f, s with
  | FArr _ _ _ (EComp t), PArr _ l => forallb (is_inst t) l
  | FArr _ _ _ (EPrim (KF w)), PArr _ l => forallb (felem_ok q w) l
  | _, _ => true
  end.
Fixpoint slots_rt (q : bool) (fs : list ftype) (sl : list pyval) : bool :=
  match fs, sl with
  | f :: fs', s :: sl' => slot_rt q f s && slots_rt q fs' sl'
  | _, _ => true
  end.
Fixpoint rt_ok (q : bool) (db : tdb) (v : pyval) : bool :=
  match v with
  | PArr _ l => forallb (rt_ok q db) l
  | PObj tid slots =>
      match nth_error db tid with
      | Some c => slots_rt q (c_fields c) slots && forallb (rt_ok q db) slots
      | None => false
      end
  | _ => true
  end.

(* nesting depth of instances: the fuel update_from_builtin needs *)
Fixpoint vdepth (v : pyval) : nat :=
  match v with
  | PObj _ sl => S (list_max (map vdepth sl))
  | PArr _ l => list_max (map vdepth l)
  | _ => 0
  end.

Lemma list_max_in : forall (l : list nat) x, In x l -> (x <= list_max l)%nat.
Proof.
  induction l as [|a l IH]; intros x H; [destruct H|]. unfold list_max. cbn [fold_right]. destruct H as [<-|H].
  - apply Nat.le_max_l.
  - specialize (IH x H). unfold list_max in IH. clear - IH. lia.
Qed.

Lemma vdepth_in : forall l x, In x l -> (vdepth x <= list_max (map vdepth l))%nat.
Proof. intros l x H. apply list_max_in. apply in_map. exact H. Qed.

(* ================================================================ the default instances *)
Lemma defaults_aux_spec : forall q db n tid acc, length acc = tid ->
  length (defaults_aux TG PW q db n tid acc) = (tid + n)%nat /\
  (forall j, (j < tid)%nat -> nth j (defaults_aux TG PW q db n tid acc) PNone = nth j acc PNone) /\
  (forall j, (tid <= j < tid + n)%nat -> exists defs,
      (forall t, nth t defs PNone = PNone \/ nth t defs PNone = nth t (defaults_aux TG PW q db n tid acc) PNone) /\
      nth j (defaults_aux TG PW q db n tid acc) PNone =
        match construct_with TG PW q db defs j [] with Ok o => o | Raise _ => PNone end).
Proof.
  intros q db. induction n as [|n IH]; intros tid acc L; cbn [defaults_aux].
  - split; [clear - L; lia|]. split; [auto|]. intros j Hj. exfalso. clear - Hj. lia.
  - set (d := match construct_with TG PW q db acc tid [] with Ok o => o | Raise _ => PNone end).
    assert (L' : length (acc ++ [d]) = Datatypes.S tid) by (rewrite app_length; cbn [length]; clear - L; lia).
    destruct (IH (Datatypes.S tid) (acc ++ [d]) L') as (H1 & H2 & H3).
    assert (P : forall j, (j < tid)%nat -> nth j (defaults_aux TG PW q db n (Datatypes.S tid) (acc ++ [d])) PNone = nth j acc PNone).
    { intros j Hj. rewrite H2 by (clear - Hj; lia). apply app_nth1. rewrite L. exact Hj. }
    split; [rewrite H1; clear; lia|]. split; [exact P|].
    intros j Hj. destruct (Nat.eq_dec j tid) as [->|Hne].
    + exists acc. split.
      * intros t. destruct (Nat.lt_ge_cases t tid) as [Ht|Ht]; [right; symmetry; apply P; exact Ht|].
        left. apply nth_overflow. rewrite L. exact Ht.
      * rewrite H2 by (clear; lia). rewrite app_nth2 by (rewrite L; clear; lia). rewrite L, Nat.sub_diag. reflexivity.
    + apply H3. clear - Hj Hne. lia.
Qed.

Lemma defaults_length : forall q db, length (defaults TG PW q db) = length db.
Proof. intros q db. unfold defaults. destruct (defaults_aux_spec q db (length db) 0 [] eq_refl) as (H & _). exact H. Qed.

Lemma default_obj_spec : forall q db tid, (tid < length db)%nat -> exists defs,
  (forall t, nth t defs PNone = PNone \/ nth t defs PNone = default_obj TG PW q db t) /\
  default_obj TG PW q db tid = match construct_with TG PW q db defs tid [] with Ok o => o | Raise _ => PNone end.
Proof.
  intros q db tid H. unfold default_obj, defaults.
  destruct (defaults_aux_spec q db (length db) 0 [] eq_refl) as (_ & _ & H3). apply H3. clear - H. lia.
Qed.

(* slots of composite type hold nothing or the default instance of that type *)
Definition dinv (defs : list pyval) (c : comp) (slots : list pyval) : Prop :=
  forall j t s, nth_error (c_fields c) j = Some (FScalar (EComp t)) -> nth_error slots j = Some s ->
                s = PNone \/ s = nth t defs PNone.

Lemma set_slot_default_inv : forall q defs c slots i f s',
  dinv defs c slots -> nth_error (c_fields c) i = Some f ->
  set_slot TG PW q c slots i (default_arg PW defs f) = (s', None) ->
  dinv defs c s' /\ length s' = length slots.
Proof.
  intros q defs c slots i f s' Inv Ef H. apply set_slot_cases in H.
  destruct H as [[_ [e He]]|[_ (f' & v & Ef' & V & ->)]]; [discriminate|].
  rewrite Ef in Ef'. inversion Ef'; subst f'. split.
  - intros j t s Ej Es. destruct (Nat.eq_dec i j) as [<-|Hne].
    + rewrite Ef in Ej. inversion Ej; subst f. apply set_comp_ok in V. destruct V as [-> _].
      assert (Hi : (i < length slots)%nat).
      { assert (Hs : nth_error (if c_union c then clear_others i (update_nth i (default_arg PW defs (FScalar (EComp t))) slots)
                               else update_nth i (default_arg PW defs (FScalar (EComp t))) slots) i <> None) by congruence.
        apply nth_error_Some in Hs. destruct (c_union c);
          [rewrite length_clear_others, length_update_nth in Hs | rewrite length_update_nth in Hs]; exact Hs. }
      rewrite after_set_nth in Es by exact Hi. inversion Es; subst s. right. reflexivity.
    + destruct (c_union c).
      * left. eapply nth_error_clear_others_neq; [exact Hne | exact Es].
      * rewrite nth_error_update_nth_neq in Es by exact Hne. eapply Inv; eauto.
  - destruct (c_union c); [rewrite length_clear_others|]; apply length_update_nth.
Qed.

Lemma nth_nil_none : forall i, nth i (@nil pyval) PNone = PNone.
Proof. destruct i; reflexivity. Qed.

Lemma ctor_union_nil : forall q c fs i slots cnt, ctor_union_args TG PW q c fs i [] slots cnt = Ok (slots, cnt).
Proof.
  intros q c. induction fs as [|f fs IH]; intros i slots cnt; [reflexivity|].
  rewrite ctor_union_cons, nth_nil_none. cbn [is_none]. apply IH.
Qed.

Lemma ctor_struct_default : forall q defs c fs i slots out,
  (forall j, nth_error fs j = nth_error (c_fields c) (i + j)) -> dinv defs c slots ->
  ctor_struct TG PW q defs c fs i [] slots = Ok out -> dinv defs c out /\ length out = length slots.
Proof.
  intros q defs c. induction fs as [|f fs IH]; intros i slots out Hfs Inv H.
  - cbn [ctor_struct] in H. inversion H; subst. auto.
  - rewrite ctor_struct_cons in H. unfold kwarg in H. rewrite nth_nil_none in H.
    assert (Ef : nth_error (c_fields c) i = Some f).
    { specialize (Hfs 0%nat). cbn [nth_error] in Hfs. rewrite Nat.add_0_r in Hfs. auto. }
    destruct (set_slot TG PW q c slots i (default_arg PW defs f)) as [s' [e|]] eqn:SS; [discriminate|].
    destruct (set_slot_default_inv q defs c slots i f s' Inv Ef SS) as [Inv' L'].
    apply IH in H; [rewrite <- L'; exact H| |exact Inv'].
    intros j. specialize (Hfs (Datatypes.S j)). cbn [nth_error] in Hfs. rewrite Hfs. f_equal. clear; lia.
Qed.

Lemma count_active_clear_others_le : forall l i, (count_active (clear_others i l) <= 1)%nat.
Proof.
  induction l as [|a r IH]; intros [|i]; cbn [clear_others]; try (cbn; lia).
  - rewrite count_active_cons, count_active_blank. destruct (is_none a); lia.
  - rewrite count_active_cons. cbn [is_none]. apply IH.
Qed.

Lemma construct_default_shape : forall q db defs tid c o,
  nth_error db tid = Some c -> construct_with TG PW q db defs tid [] = Ok o ->
  exists dslots, o = PObj tid dslots /\ length dslots = length (c_fields c) /\ dinv defs c dslots /\
                 (c_union c = true -> (count_active dslots <= 1)%nat).
Proof.
  intros q db defs tid c o Ec H. unfold construct_with in H. rewrite Ec in H.
  assert (B : dinv defs c (map (fun _ : ftype => PNone) (c_fields c))).
  { intros j t s _ Es. left. eapply nth_error_map_const; eauto. }
  destruct (c_union c) eqn:U.
  - rewrite ctor_union_nil in H. cbn [bind] in H. destruct (c_fields c) as [|f0 fs] eqn:F.
    + inversion H; subst. eexists; split; [reflexivity|]. split; [reflexivity|]. split; [exact B|]. intros _. cbn. lia.
    + destruct (set_slot TG PW q c (map (fun _ : ftype => PNone) (f0 :: fs)) 0 (default_arg PW defs f0)) as [s' [e|]] eqn:SS;
        [discriminate|]. inversion H; subst o.
      assert (Ef : nth_error (c_fields c) 0 = Some f0) by (rewrite F; reflexivity).
      rewrite <- F in B. assert (SS' := SS). rewrite <- F in SS'.
      destruct (set_slot_default_inv q defs c _ 0 f0 s' B Ef SS') as [Inv' L'].
      eexists; split; [reflexivity|]. split; [rewrite L', map_length, F; reflexivity |]. split; [exact Inv'|]. intros _.
      apply set_slot_cases in SS'. destruct SS' as [[_ [e He]]|[_ (f' & v & _ & _ & ->)]]; [discriminate|].
      rewrite U. apply count_active_clear_others_le.
  - destruct (ctor_struct TG PW q defs c (c_fields c) 0 [] (map (fun _ : ftype => PNone) (c_fields c))) as [out|] eqn:CS;
      cbn [bind] in H; [|discriminate]. inversion H; subst o.
    apply ctor_struct_default in CS; [|intros j; reflexivity|exact B]. destruct CS as [Inv' L'].
    eexists; split; [reflexivity|]. split; [rewrite L'; apply map_length |]. split; [exact Inv'|]. intros; discriminate.
Qed.

Lemma default_shape : forall q db tid c, db_defaults_ok q db = true -> nth_error db tid = Some c ->
  exists dslots, default_obj TG PW q db tid = PObj tid dslots /\ length dslots = length (c_fields c) /\
    (c_union c = true -> (count_active dslots <= 1)%nat) /\
    forall j t s, nth_error (c_fields c) j = Some (FScalar (EComp t)) -> nth_error dslots j = Some s ->
                  s = PNone \/ s = default_obj TG PW q db t.
Proof.
  intros q db tid c Hd Ec.
  assert (Ht : (tid < length db)%nat) by (apply nth_error_Some; congruence).
  assert (Nn : is_none (default_obj TG PW q db tid) = false).
  { unfold db_defaults_ok in Hd. rewrite forallb_forall in Hd. apply negb_true_iff. apply Hd.
    unfold default_obj. apply nth_In. rewrite defaults_length. exact Ht. }
  destruct (default_obj_spec q db tid Ht) as (defs & Hdefs & E).
  destruct (construct_with TG PW q db defs tid []) as [o|] eqn:C; [|rewrite E in Nn; discriminate].
  destruct (construct_default_shape q db defs tid c o Ec C) as (dslots & -> & L & Inv & Cnt).
  exists dslots. split; [exact E|]. split; [exact L|]. split; [exact Cnt|].
  intros j t s Ej Es. destruct (Inv j t s Ej Es) as [Hs|Hs]; subst s; [left; reflexivity|]. destruct (Hdefs t) as [Ht'|Ht']; rewrite Ht'; auto.
Qed.

(* ================================================================ single fields *)
Definition np_atom (x : pyval) : bool := match x with PList _ | PArr _ _ => false | _ => true end.

Lemma np_flat_atom : forall x, np_atom x = true -> np_flat x = Ok ([], [x]).
Proof. destruct x; cbn [np_atom]; intros; try discriminate; reflexivity. Qed.

Lemma np_go_atoms : forall l, forallb np_atom l = true -> np_go l = Ok (map (fun x => (@nil nat, [x])) l).
Proof.
  induction l as [|a r IH]; intros H; [reflexivity|]. cbn [forallb] in H. apply andb_true_iff in H. destruct H as [Ha Hr].
  cbn [map]. rewrite np_go_cons, (np_flat_atom a Ha), (IH Hr). reflexivity.
Qed.

Lemma np_flat_atoms : forall l, forallb np_atom l = true -> exists sh, np_flat (PList l) = Ok (sh, l).
Proof.
  intros l H. rewrite np_flat_PList, (np_go_atoms l H). cbn [bind]. destruct l as [|a r].
  - eexists; reflexivity.
  - change (map (fun x => (@nil nat, [x])) (a :: r)) with ((@nil nat, [a]) :: map (fun x => (@nil nat, [x])) r).
    cbv iota beta.
    change ((@nil nat, [a]) :: map (fun x => (@nil nat, [x])) r) with (map (fun x => (@nil nat, [x])) (a :: r)).
    rewrite all_eq_shape_leaves, flat_map_leaves. eexists; reflexivity.
Qed.

(* an array of float elements (any width) given back as a list *)
Lemma float_arr_rt : forall q fixed cap w l,
  forallb (elem_ok PW false (EPrim (KF w))) l = true -> forallb (felem_ok q w) l = true ->
  lenG fixed (length l) cap = true ->
  assignG q fixed cap (EPrim (KF w)) (PList l) = Ok (PArr (DF (pwd PW w)) l).
Proof.
  intros q fixed cap w l Ho Hf Hl. cbn [assignG]. unfold slowG. rewrite int_src_ok_other by exact I.
  unfold float_src_ok.
  rewrite forallb_forall in Ho, Hf.
  assert (Hfl : forall x, In x l -> exists b, x = PFloat b).
  { intros x Hx. specialize (Ho x Hx). destruct x; cbn [elem_ok] in Ho; try discriminate. eauto. }
  assert (Hat : forallb np_atom l = true).
  { apply forallb_forall. intros x Hx. destruct (Hfl x Hx) as [b ->]. reflexivity. }
  destruct (np_flat_atoms l Hat) as [sh E].
  rewrite E, (np_array_pylist _ l Hat). cbn [bind snd dtype_of].
  rewrite mapM_id.
  2:{ intros x Hx. destruct (Hfl x Hx) as [b ->]. specialize (Hf _ Hx). cbn [felem_ok] in Hf.
      apply andb_true_iff in Hf. destruct Hf as [Hr _]. apply N.eqb_eq in Hr.
      cbn [conv_leaf py_float bind]. rewrite Hr. reflexivity. }
  cbn [bind]. rewrite Hl.
  assert ((q || forallb (float_leaf_ok TG (EPrim (KF w))) l) = true) as ->.
  { destruct q; [reflexivity|]. cbn [orb]. apply forallb_forall. intros x Hx. destruct (Hfl x Hx) as [b ->].
    specialize (Hf _ Hx). cbn [felem_ok] in Hf. apply andb_true_iff in Hf. destruct Hf as [_ Hq]. cbn [orb] in Hq.
    cbn [float_leaf_ok py_float]. change (t_float_check_below TG) with 64. destruct (w <? 64); [exact Hq|reflexivity]. }
  unfold chkG.
  assert (forallb (elem_in_dsdl_range (EPrim (KF w))) l = true) as ->.
  { apply forallb_forall. intros x Hx. destruct x; reflexivity. }
  rewrite orb_true_r. reflexivity.
Qed.

(* an array of instances given back as the list of its elements *)
Lemma comp_arr_rt : forall q fixed cap t l, forallb (is_inst t) l = true -> lenG fixed (length l) cap = true ->
  assignG q fixed cap (EComp t) (PList l) = Ok (PArr DObj l).
Proof.
  intros q fixed cap t l Hi Hl. cbn [assignG]. unfold slowG. rewrite int_src_ok_other by exact I.
  assert (Hat : forallb np_atom l = true).
  { rewrite forallb_forall in *. intros x Hx. specialize (Hi x Hx). destruct x; try discriminate. reflexivity. }
  rewrite (np_array_pylist _ l Hat). cbn [bind snd dtype_of]. rewrite mapM_id by reflexivity. cbn [bind]. rewrite Hl.
  rewrite float_src_ok_other by exact I. unfold chkG.
  assert (forallb (elem_in_dsdl_range (EComp t)) l = true) as -> by (apply forallb_forall; reflexivity).
  rewrite orb_true_r. reflexivity.
Qed.

(* every field of primitive (element) type *)
Lemma prim_field_rt : forall q f s b,
  match f with FScalar (EPrim _) | FArr _ _ _ (EPrim _) => True | _ => False end -> ftype_strok f = true ->
  field_ok PW false f s = true -> (need_strict q -> field_ok PW true f s = true) -> slot_rt q f s = true ->
  tb_field f s = Some b -> field_value TG PW q f b = Ok s.
Proof.
  intros q f s b Hp Hst Ho Hs Hr Hb.
  destruct f as [[k|t]|fixed cap sl [k|t]]; try contradiction.
  - apply (field_roundtrip q _ s b); [reflexivity|assumption..].
  - destruct sl.
    + cbn [ftype_strok] in Hst. destruct k as [|w|w|w]; try discriminate.
      apply (field_roundtrip q _ s b); auto.
    + destruct k as [|w|w|w]; try (apply (field_roundtrip q _ s b); [reflexivity|assumption..]; fail).
      destruct s as [| | | | | | | |dt l|]; cbn [field_ok] in Ho; try discriminate.
      apply andb_true_iff in Ho. destruct Ho as [Ho Hel]. apply andb_true_iff in Ho. destruct Ho as [Hdt Hlen].
      apply dtype_eqb_eq in Hdt. subst dt. cbn [slot_rt] in Hr.
      assert (Plain : omap (tb_prim (KF w)) l = Some l).
      { apply omap_id. rewrite forallb_forall in Hel. intros x Hx. apply tb_prim_id. auto. }
      cbn [tb_field] in Hb. rewrite Plain in Hb. inversion Hb; subst b.
      cbn [field_value]. rewrite assign_array_gen. cbn [strconv dtype_of]. apply float_arr_rt; auto.
Qed.

(* ================================================================ to_builtin of nested values *)
Definition tb_list (db : tdb) := fix gol (l : list pyval) : option (list pyval) :=
  match l with
  | [] => Some []
  | a :: r => match tb db a, gol r with Some b, Some bs => Some (b :: bs) | _, _ => None end
  end.

Lemma tb_b_comp_arr : forall db fixed cap t dt l, tb_b db (FArr fixed cap false (EComp t)) (PArr dt l) =
  match tb_list db l with Some bs => Some (PList bs) | None => None end.
Proof. reflexivity. Qed.

Lemma tb_list_cons : forall db a r, tb_list db (a :: r) =
  match tb db a, tb_list db r with Some b, Some bs => Some (b :: bs) | _, _ => None end.
Proof. reflexivity. Qed.

Lemma tb_b_prim : forall db f s, match f with FScalar (EPrim _) | FArr _ _ _ (EPrim _) => True | _ => False end ->
  tb_b db f s = tb_field f s.
Proof. intros db f s H. destruct f as [[k|t]|fixed cap sl [k|t]]; try contradiction; reflexivity. Qed.

(* ================================================================ the induction *)
Lemma count_active_app : forall a b, count_active (a ++ b) = (count_active a + count_active b)%nat.
Proof. intros. unfold count_active. rewrite filter_app, app_length. reflexivity. Qed.

Lemma update_nth_app' {A} : forall (pre : list A) i d r v, length pre = i -> update_nth i v (pre ++ d :: r) = pre ++ v :: r.
Proof. intros pre i d r v <-. apply update_nth_app. Qed.

Lemma field_ok_none : forall strict f, field_ok PW strict f PNone = false.
Proof. intros strict f. destruct f as [[k|t]|fixed cap sl e]; [destruct k| |]; reflexivity. Qed.

Lemma Forall2_nth {A B} (P : A -> B -> Prop) : forall la lb, length la = length lb ->
  (forall j a b, nth_error la j = Some a -> nth_error lb j = Some b -> P a b) -> Forall2 P la lb.
Proof.
  induction la as [|a la IH]; intros [|b lb] L H; cbn [length] in L; try discriminate; constructor.
  - apply (H 0%nat); reflexivity.
  - apply IH; [congruence|]. intros j a' b' Ea Eb. apply (H (Datatypes.S j)); assumption.
Qed.

Lemma Forall2_len {A B} (P : A -> B -> Prop) : forall la lb, Forall2 P la lb -> length la = length lb.
Proof. intros la lb H. induction H; cbn [length]; congruence. Qed.

Definition is_comp_scalar (f : ftype) : bool := match f with FScalar (EComp _) => true | _ => false end.

Section Main.
  Variable q : bool.
  Variable db : tdb.
  Hypothesis Hstr : db_strok db = true.
  Hypothesis Hdef : db_defaults_ok q db = true.

  Definition good (o : pyval) : Prop :=
    wfv PW db false o = true /\ (need_strict q -> wfv PW db true o = true) /\ rt_ok q db o = true.

  Definition IHrec (rec : pyval -> pyval -> pyval * option exc) (n : nat) : Prop :=
    forall tid slots b, good (PObj tid slots) -> (vdepth (PObj tid slots) <= n)%nat ->
      tb db (PObj tid slots) = Some b -> rec (default_obj TG PW q db tid) b = (PObj tid slots, None).

  Lemma good_arr : forall dt l x, good (PArr dt l) -> In x l -> good x.
  Proof.
    intros dt l x (W & Ws & R) Hx. cbn [wfv rt_ok] in *.
    apply andb_true_iff in W. destruct W as [_ W]. rewrite forallb_forall in W, R. split; [auto|]. split; [|auto].
    intros Hq. specialize (Ws Hq). apply andb_true_iff in Ws. destruct Ws as [_ Ws]. rewrite forallb_forall in Ws. auto.
  Qed.

  Lemma good_obj : forall tid slots, good (PObj tid slots) -> exists c,
    nth_error db tid = Some c /\ obj_ok PW false c slots = true /\ (need_strict q -> obj_ok PW true c slots = true) /\
    slots_rt q (c_fields c) slots = true /\ (forall s, In s slots -> good s).
  Proof.
    intros tid slots (W & Ws & R). cbn [wfv rt_ok] in *. destruct (nth_error db tid) as [c|]; [|discriminate].
    apply andb_true_iff in W. destruct W as [O W]. apply andb_true_iff in R. destruct R as [Rl R].
    exists c. split; [reflexivity|]. split; [exact O|]. split.
    { intros Hq. specialize (Ws Hq). apply andb_true_iff in Ws. tauto. }
    split; [exact Rl|]. intros s Hs. rewrite forallb_forall in W, R. split; [auto|]. split; [|auto].
    intros Hq. specialize (Ws Hq). apply andb_true_iff in Ws. destruct Ws as [_ Ws]. rewrite forallb_forall in Ws. auto.
  Qed.

  Lemma elems_rt : forall rec n t l bs, IHrec rec n ->
    (forall x, In x l -> good x /\ is_inst t x = true /\ (vdepth x <= n)%nat) ->
    tb_list db l = Some bs -> ufb_elems TG PW q db rec t bs = Ok l.
  Proof.
    intros rec n t. induction l as [|x l IH]; intros bs HR Hl Hb.
    - cbn in Hb. inversion Hb. reflexivity.
    - rewrite tb_list_cons in Hb. destruct (tb db x) as [b|] eqn:Ex; [|discriminate].
      destruct (tb_list db l) as [bs'|] eqn:El; [|discriminate]. inversion Hb; subst bs.
      destruct (Hl x (or_introl eq_refl)) as (Gx & Ix & Dx).
      destruct x as [| | | | | | | | |t' sl']; cbn [is_inst] in Ix; try discriminate. apply Nat.eqb_eq in Ix. subst t'.
      cbn [ufb_elems]. rewrite (HR _ _ _ Gx Dx Ex). rewrite (IH bs' HR); [reflexivity| |reflexivity].
      intros y Hy. apply Hl. right; exact Hy.
  Qed.

  Lemma step_rt : forall rec n c f s bv cpre d csl,
    IHrec rec n ->
    nth_error (c_fields c) (length cpre) = Some f -> ftype_strok f = true ->
    field_ok PW false f s = true -> (need_strict q -> field_ok PW true f s = true) -> slot_rt q f s = true ->
    good s -> (vdepth s <= n)%nat ->
    (forall t, f = FScalar (EComp t) -> d = PNone \/ d = default_obj TG PW q db t) ->
    tb_b db f s = Some bv ->
    ufb_step q db rec c f (length cpre) bv (cpre ++ d :: csl) =
      ((if c_union c && negb (is_comp_scalar f && negb (is_none d))
        then map (fun _ => PNone) cpre ++ s :: map (fun _ => PNone) csl else cpre ++ s :: csl), None).
  Proof.
    intros rec n c f s bv cpre d csl HR Ef Hst Ho Hs Hr G Dn Hd Hb.
    assert (SetOk : forall v, field_value TG PW q f v = Ok s ->
              set_slot TG PW q c (cpre ++ d :: csl) (length cpre) v =
              ((if c_union c then map (fun _ => PNone) cpre ++ s :: map (fun _ => PNone) csl else cpre ++ s :: csl), None)).
    { intros v V. rewrite set_slot_gen, Ef, V, update_nth_app, clear_others_app. reflexivity. }
    assert (Prim : match f with FScalar (EPrim _) | FArr _ _ _ (EPrim _) => True | _ => False end ->
              ufb_step q db rec c f (length cpre) bv (cpre ++ d :: csl) = set_slot TG PW q c (cpre ++ d :: csl) (length cpre) bv ->
              ufb_step q db rec c f (length cpre) bv (cpre ++ d :: csl) =
              ((if c_union c && negb (is_comp_scalar f && negb (is_none d))
                then map (fun _ => PNone) cpre ++ s :: map (fun _ => PNone) csl else cpre ++ s :: csl), None)).
    { intros Hp E. rewrite E, SetOk.
      - assert (is_comp_scalar f = false) as -> by (destruct f as [[k|t]|? ? ? [k|t]]; try contradiction; reflexivity).
        cbn [andb negb]. rewrite andb_true_r. reflexivity.
      - rewrite (tb_b_prim db f s Hp) in Hb. apply (prim_field_rt q f s bv Hp Hst Ho Hs Hr Hb). }
    destruct f as [[k|t]|fixed cap sl [k|t]].
    - apply Prim; [exact I|reflexivity].
    - (* a field of composite type *)
      destruct s as [| | | | | | | | |t' sl']; cbn [field_ok] in Ho; try discriminate. apply Nat.eqb_eq in Ho. subst t'.
      cbn [tb_b] in Hb.
      assert (exists c', nth_error db t = Some c') as [c' Ec'].
      { destruct G as (W & _). cbn [wfv] in W. destruct (nth_error db t); [eauto|discriminate]. }
      destruct (default_shape q db t c' Hdef Ec') as (dsl & Ed & _).
      pose proof (HR t sl' bv G Dn Hb) as R.
      cbn [ufb_step]. rewrite nth_middle. destruct (Hd t eq_refl) as [Hd'|Hd']; subst d.
      + cbn [is_none].
        assert (V : field_value TG PW q (FScalar (EComp t)) (default_obj TG PW q db t) = Ok (default_obj TG PW q db t)).
        { cbn [field_value]. rewrite set_comp_gen, Ed, Nat.eqb_refl. reflexivity. }
        rewrite set_slot_gen, Ef, V. cbv beta iota zeta. rewrite R.
        rewrite update_nth_app, clear_others_app. destruct (c_union c); cbn [andb negb is_comp_scalar is_none].
        * rewrite update_nth_app' by apply map_length. reflexivity.
        * rewrite update_nth_app. reflexivity.
      + rewrite Ed in R |- *. cbn [is_none]. cbv beta iota zeta. rewrite R, update_nth_app.
        cbn [is_comp_scalar is_none negb andb]. rewrite andb_false_r. reflexivity.
    - apply Prim; [exact I|reflexivity].
    - (* an array of composites *)
      destruct sl; [discriminate Hst|].
      destruct s as [| | | | | | | |dt l|]; cbn [field_ok] in Ho; try discriminate.
      apply andb_true_iff in Ho. destruct Ho as [Ho _]. apply andb_true_iff in Ho. destruct Ho as [Hdt Hlen].
      apply dtype_eqb_eq in Hdt. cbn [dtype_of] in Hdt. subst dt. cbn [slot_rt] in Hr.
      rewrite tb_b_comp_arr in Hb. destruct (tb_list db l) as [bs|] eqn:El; [|discriminate]. inversion Hb; subst bv.
      cbn [ufb_step]. rewrite (elems_rt rec n t l bs HR); [| |exact El].
      + rewrite SetOk.
        * cbn [is_comp_scalar andb negb]. rewrite andb_true_r. reflexivity.
        * cbn [field_value]. rewrite assign_array_gen. cbn [strconv]. apply comp_arr_rt; auto.
      + intros x Hx. split; [eapply good_arr; eauto|]. split.
        * rewrite forallb_forall in Hr. auto.
        * cbn [vdepth] in Dn. pose proof (vdepth_in l x Hx) as Hv. clear - Dn Hv. lia.
  Qed.

  Definition slot_hyp (u : bool) (n : nat) (f : ftype) (s : pyval) : Prop :=
    (u = true /\ s = PNone) \/
    (is_none s = false /\ ftype_strok f = true /\ field_ok PW false f s = true /\
     (need_strict q -> field_ok PW true f s = true) /\ slot_rt q f s = true /\ good s /\ (vdepth s <= n)%nat).
  Definition dflt_hyp (f : ftype) (d : pyval) : Prop :=
    forall t, f = FScalar (EComp t) -> d = PNone \/ d = default_obj TG PW q db t.

  Lemma loop_struct2 : forall rec n c, c_union c = false -> IHrec rec n ->
    forall fs sl, Forall2 (slot_hyp false n) fs sl ->
    forall i kvi, tb_go db fs sl i = Some kvi ->
    (forall j, nth_error fs j = nth_error (c_fields c) (i + j)) ->
    forall kv0 pre dsl, (forall j, (i <= j)%nat -> lookup j kv0 = lookup j kvi) ->
    length pre = i -> Forall2 dflt_hyp fs dsl ->
    ufb_loop TG PW q db rec c fs i kv0 (pre ++ dsl) = (pre ++ sl, None).
  Proof.
    intros rec n c U HR fs sl H2. induction H2 as [|f s fs sl Hf0 _ IH]; intros i kvi Hgo Hfs kv0 pre dsl Hk Lp Hd.
    - inversion Hd; subst. reflexivity.
    - inversion Hd as [|f' d fs' dsl' Hd0 Hd' E1 E2]; subst f' fs' dsl.
      destruct Hf0 as [[Hu _]|(Nn & Hst & Ho & Hs & Hr & G & Dn)]; [discriminate|].
      assert (Ef : nth_error (c_fields c) i = Some f).
      { specialize (Hfs 0%nat). cbn [nth_error] in Hfs. rewrite Nat.add_0_r in Hfs. auto. }
      assert (Hfs' : forall j, nth_error fs j = nth_error (c_fields c) (Datatypes.S i + j)).
      { intros j. specialize (Hfs (Datatypes.S j)). cbn [nth_error] in Hfs. rewrite Hfs. f_equal. clear; lia. }
      rewrite tb_go_cons, Nn in Hgo. destruct (tb_b db f s) as [bv|] eqn:Eb; [|discriminate].
      destruct (tb_go db fs sl (Datatypes.S i)) as [rest|] eqn:Er; [|discriminate]. inversion Hgo; subst kvi.
      rewrite ufb_loop_cons, (Hk i (le_n i)). cbn [lookup]. rewrite Nat.eqb_refl. subst i.
      rewrite (step_rt rec n c f s bv pre d dsl' HR Ef Hst Ho Hs Hr G Dn Hd0 Eb), U. cbn [andb].
      replace (pre ++ s :: dsl') with ((pre ++ [s]) ++ dsl') by (rewrite <- app_assoc; reflexivity).
      replace (pre ++ s :: sl) with ((pre ++ [s]) ++ sl) by (rewrite <- app_assoc; reflexivity).
      apply (IH _ rest Er Hfs').
      + intros j Hj. rewrite (Hk j) by (clear - Hj; lia). cbn [lookup].
        destruct (Nat.eqb j (length pre)) eqn:E; [apply Nat.eqb_eq in E; clear - E Hj; lia | reflexivity].
      + rewrite app_length. cbn [length]. clear; lia.
      + exact Hd'.
  Qed.

  Lemma loop_union2 : forall rec n c, c_union c = true -> IHrec rec n ->
    forall fs sl, Forall2 (slot_hyp true n) fs sl -> count_active sl = 1%nat ->
    forall i kvi, tb_go db fs sl i = Some kvi ->
    (forall j, nth_error fs j = nth_error (c_fields c) (i + j)) ->
    forall kv0 cpre csl, (forall j, (i <= j)%nat -> lookup j kv0 = lookup j kvi) ->
    length cpre = i -> Forall2 dflt_hyp fs csl -> (count_active (cpre ++ csl) <= 1)%nat ->
    ufb_loop TG PW q db rec c fs i kv0 (cpre ++ csl) = (map (fun _ => PNone) cpre ++ sl, None).
  Proof.
    intros rec n c U HR fs sl H2.
    induction H2 as [|f s fs sl Hf0 H2' IH]; intros Hc i kvi Hgo Hfs kv0 cpre csl Hk Lp Hd Hcc.
    - discriminate Hc.
    - inversion Hd as [|f' d fs' csl' Hd0 Hd' E1 E2]; subst f' fs' csl.
      assert (Ef : nth_error (c_fields c) i = Some f).
      { specialize (Hfs 0%nat). cbn [nth_error] in Hfs. rewrite Nat.add_0_r in Hfs. auto. }
      assert (Hfs' : forall j, nth_error fs j = nth_error (c_fields c) (Datatypes.S i + j)).
      { intros j. specialize (Hfs (Datatypes.S j)). cbn [nth_error] in Hfs. rewrite Hfs. f_equal. clear; lia. }
      assert (Ll : length sl = length csl').
      { apply Forall2_len in H2'. apply Forall2_len in Hd'. congruence. }
      rewrite count_active_cons in Hc. rewrite tb_go_cons in Hgo. rewrite ufb_loop_cons.
      destruct Hf0 as [[_ ->]|(Nn & Hst & Ho & Hs & Hr & G & Dn)].
      + (* an inactive option: not in the dictionary *)
        cbn [is_none] in Hc, Hgo.
        rewrite (Hk i (le_n i)), (lookup_above kvi i).
        2:{ intros p Hp. pose proof (tb_go_keys _ _ _ _ _ Hgo p Hp) as Hp'. clear - Hp'. lia. }
        replace (cpre ++ d :: csl') with ((cpre ++ [d]) ++ csl') in * by (rewrite <- app_assoc; reflexivity).
        rewrite (IH Hc _ kvi Hgo Hfs' kv0 (cpre ++ [d]) csl').
        * rewrite map_app, <- app_assoc. reflexivity.
        * intros j Hj. apply Hk. clear - Hj. lia.
        * rewrite app_length. cbn [length]. clear - Lp. lia.
        * exact Hd'.
        * exact Hcc.
      + (* the active option *)
        rewrite Nn in Hc, Hgo.
        assert (Hn : forallb is_none sl = true) by (apply count_active_zero; clear - Hc; lia).
        rewrite (tb_go_all_none db sl fs _ Hn (eq_sym (Forall2_len _ _ _ H2'))) in Hgo.
        destruct (tb_b db f s) as [bv|] eqn:Eb; [|discriminate]. inversion Hgo; subst kvi.
        rewrite (Hk i (le_n i)). cbn [lookup]. rewrite Nat.eqb_refl. subst i.
        rewrite (step_rt rec n c f s bv cpre d csl' HR Ef Hst Ho Hs Hr G Dn Hd0 Eb), U. cbn [andb].
        rewrite loop_skip.
        2:{ intros j Hj. rewrite (Hk j) by (clear - Hj; lia). cbn [lookup].
            destruct (Nat.eqb j (length cpre)) eqn:E; [apply Nat.eqb_eq in E; clear - E Hj; lia | reflexivity]. }
        rewrite (all_none_map sl csl' Hn Ll).
        destruct (is_comp_scalar f && negb (is_none d)) eqn:Cs; cbn [negb]; [|reflexivity].
        apply andb_true_iff in Cs. destruct Cs as [_ Nd]. apply negb_true_iff in Nd.
        rewrite count_active_app, count_active_cons, Nd in Hcc.
        assert (E1 : cpre = map (fun _ => PNone) cpre).
        { apply all_none_map; [|reflexivity]. apply count_active_zero. clear - Hcc. lia. }
        assert (E2 : csl' = map (fun _ => PNone) csl').
        { apply all_none_map; [|reflexivity]. apply count_active_zero. clear - Hcc. lia. }
        rewrite <- E2, <- E1. reflexivity.
  Qed.

  Lemma build_slot_hyp : forall u n fs sl, forallb ftype_strok fs = true ->
    fields_ok PW false u fs sl = true -> (need_strict q -> fields_ok PW true u fs sl = true) ->
    slots_rt q fs sl = true -> (forall s, In s sl -> good s) -> (list_max (map vdepth sl) <= n)%nat ->
    Forall2 (slot_hyp u n) fs sl.
  Proof.
    intros u n. induction fs as [|f fs IH]; intros [|s sl] Hst Ho Hs Hr Hg Dn; cbn [fields_ok] in Ho; try discriminate;
      constructor.
    - cbn [forallb] in Hst. apply andb_true_iff in Hst. destruct Hst as [Hst0 Hst].
      apply andb_true_iff in Ho. destruct Ho as [Ho0 Ho].
      cbn [slots_rt] in Hr. apply andb_true_iff in Hr. destruct Hr as [Hr0 Hr].
      destruct (is_none s) eqn:N.
      + destruct s; try discriminate. rewrite field_ok_none in Ho0. left. destruct u; [auto|discriminate].
      + right. rewrite andb_false_r in Ho0. cbn [orb] in Ho0. split; [exact N|]. split; [exact Hst0|].
        split; [exact Ho0|]. split.
        { intros Hq. specialize (Hs Hq). cbn [fields_ok] in Hs. apply andb_true_iff in Hs. destruct Hs as [Hs0 _].
          rewrite N, andb_false_r in Hs0. exact Hs0. }
        split; [exact Hr0|]. split; [apply Hg; left; reflexivity|].
        cbn [map] in Dn. unfold list_max in Dn. cbn [fold_right] in Dn. clear - Dn. lia.
    - cbn [forallb] in Hst. apply andb_true_iff in Hst. destruct Hst as [_ Hst].
      apply andb_true_iff in Ho. destruct Ho as [_ Ho].
      cbn [slots_rt] in Hr. apply andb_true_iff in Hr. destruct Hr as [_ Hr].
      apply IH; auto.
      + intros Hq. specialize (Hs Hq). cbn [fields_ok] in Hs. apply andb_true_iff in Hs. tauto.
      + intros x Hx. apply Hg. right; exact Hx.
      + cbn [map] in Dn. unfold list_max in Dn |- *. cbn [fold_right] in Dn. clear - Dn. lia.
  Qed.

  Lemma rt_main : forall n, IHrec (ufb TG PW q db n) n.
  Proof.
    induction n as [|n IH]; intros tid slots b G Dn Hb.
    - cbn [vdepth] in Dn. exfalso. clear - Dn. lia.
    - destruct (good_obj tid slots G) as (c & Ec & Of & Os & Rs & Gs).
      destruct (default_shape q db tid c Hdef Ec) as (dslots & Ed & Ld & Cd & Hdd).
      rewrite Ed. rewrite ufb_S, Ec. rewrite tb_PObj, Ec in Hb.
      destruct (tb_go db (c_fields c) slots 0) as [kv|] eqn:Eg; [|discriminate].
      cbn [option_map] in Hb. inversion Hb; subst b. cbn [ufb_kv].
      unfold obj_ok in Of. apply andb_true_iff in Of. destruct Of as [Hf Hc].
      assert (Os' : need_strict q -> fields_ok PW true (c_union c) (c_fields c) slots = true).
      { intros Hq. specialize (Os Hq). unfold obj_ok in Os. apply andb_true_iff in Os. tauto. }
      assert (Hst : forallb ftype_strok (c_fields c) = true).
      { unfold db_strok in Hstr. rewrite forallb_forall in Hstr. apply Hstr. eapply nth_error_In; eauto. }
      cbn [vdepth] in Dn.
      assert (H2 : Forall2 (slot_hyp (c_union c) n) (c_fields c) slots).
      { apply build_slot_hyp; auto. clear - Dn. lia. }
      assert (Hd2 : Forall2 dflt_hyp (c_fields c) dslots).
      { apply Forall2_nth; [congruence|]. intros j f d Ef Edj t ->. eapply Hdd; eauto. }
      assert (Loop : ufb_loop TG PW q db (ufb TG PW q db n) c (c_fields c) 0 kv dslots = (slots, None)).
      { destruct (c_union c) eqn:U.
        - apply Nat.eqb_eq in Hc.
          exact (loop_union2 _ n c U IH _ _ H2 Hc 0%nat kv Eg (fun j => eq_refl) kv [] dslots (fun j _ => eq_refl) eq_refl Hd2
                   (Cd eq_refl)).
        - exact (loop_struct2 _ n c U IH _ _ H2 0%nat kv Eg (fun j => eq_refl) kv [] dslots (fun j _ => eq_refl) eq_refl Hd2). }
      rewrite Loop.
      assert (existsb (fun p => Nat.leb (length (c_fields c)) (fst p)) kv = false) as ->; [|reflexivity].
      destruct (existsb _ kv) eqn:E; [|reflexivity]. apply existsb_exists in E. destruct E as (p & Hp & Hle).
      apply Nat.leb_le in Hle. pose proof (tb_go_keys _ _ _ _ _ Eg p Hp) as Hk. clear - Hle Hk. lia.
  Qed.
End Main.

Theorem builtin_roundtrip : forall q db fuel tid slots b,
  db_strok db = true -> db_defaults_ok q db = true ->
  let o := PObj tid slots in
  wfv PW db false o = true -> (need_strict q -> wfv PW db true o = true) -> rt_ok q db o = true ->
  tb db o = Some b -> (vdepth o <= fuel)%nat ->
  ufb TG PW q db fuel (default_obj TG PW q db tid) b = (o, None).
Proof.
  intros q db fuel tid slots b Hstr Hdef o W Ws R Hb Dn.
  apply (rt_main q db Hstr Hdef fuel tid slots b); [repeat split; assumption | exact Dn | exact Hb].
Qed.

(* ================================================================ the hypotheses are satisfiable and cannot be dropped *)
(* all premises of builtin_roundtrip as one boolean *)
Definition rt_premises (q : bool) (db : tdb) (fuel tid : nat) (slots : list pyval) : bool :=
  db_strok db && db_defaults_ok q db && wfv PW db false (PObj tid slots)
  && ((q && negb (t_arr_precheck TG)) || wfv PW db true (PObj tid slots))
  && rt_ok q db (PObj tid slots) && Nat.leb (vdepth (PObj tid slots)) fuel.

Corollary builtin_roundtrip_b : forall q db fuel tid slots b, rt_premises q db fuel tid slots = true ->
  tb db (PObj tid slots) = Some b ->
  ufb TG PW q db fuel (default_obj TG PW q db tid) b = (PObj tid slots, None).
Proof.
  intros q db fuel tid slots b H Hb. unfold rt_premises in H.
  repeat (apply andb_true_iff in H; let H' := fresh "P" in destruct H as [H H']).
  apply builtin_roundtrip; auto.
  - intros [Hq|Hp]; [subst q; exact P1|]. rewrite Hp in P1. cbn [negb] in P1. rewrite andb_false_r in P1. exact P1.
  - apply Nat.leb_le. exact P.
Qed.

Ltac vm1 := vm_compute; reflexivity.
Tactic Notation "vmc" integer(n) := cbv zeta; do n (split; [vm1|]); eexists; (split; [vm1|]); vm1.

(* a data base with a struct, a union that selects a struct, and a struct nesting both, an array of structs, a string
   and a float16 array; the instance satisfies every premise for both variants *)
Definition ex_db : tdb :=
  [ {| c_union := false; c_fields := [FScalar (EPrim (KU 8)); FArr false 3 false (EPrim (KF 16))] |};
    {| c_union := true;  c_fields := [FScalar (EPrim KBool); FScalar (EComp 0)] |};
    {| c_union := false; c_fields := [FScalar (EComp 1); FArr false 2 false (EComp 0); FArr false 4 true (EPrim (KU 8))] |} ].
Definition ex_obj_slots : list pyval :=
  [ PObj 1 [PNone; PObj 0 [PInt 5; PArr (DF 16) [PFloat 4607182418800017408]]];
    PArr DObj [PObj 0 [PInt 1; PArr (DF 16) []]; PObj 0 [PInt 2; PArr (DF 16) [PFloat 4602678819172646912; PFloat 4679235614791434240]]];
    PArr (DU 8) [PInt 104; PInt 105] ].

Theorem builtin_roundtrip_example : forall q,
  rt_premises q ex_db 3 2 ex_obj_slots = true /\
  exists b, tb ex_db (PObj 2 ex_obj_slots) = Some b /\
            ufb TG PW q ex_db 3 (default_obj TG PW q ex_db 2) b = (PObj 2 ex_obj_slots, None).
Proof.
  intros q. assert (P : rt_premises q ex_db 3 2 ex_obj_slots = true) by (destruct q; vm_compute; reflexivity).
  split; [exact P|]. eexists. split; [vm_compute; reflexivity|]. apply builtin_roundtrip_b; [exact P|]. vm_compute. reflexivity.
Qed.

(* the template does not check the class of the elements of an array of composites *)
Theorem composite_array_elem_unchecked : forall q,
  field_value TG PW q (FArr false 2 false (EComp 0)) (PList [PInt 1]) = Ok (PArr DObj [PInt 1]).
Proof. intros q; destruct q; vm_compute; reflexivity. Qed.

(* db_defaults_ok: type 0 refers to a later type, its default constructor raises, update_from_builtin has no T() *)
Theorem roundtrip_needs_defaults : forall q,
  let db := [ {| c_union := false; c_fields := [FScalar (EComp 1)] |}; {| c_union := false; c_fields := [] |} ] in
  let slots := [PObj 1 []] in
  db_strok db = true /\ db_defaults_ok q db = false /\
  wfv PW db true (PObj 0 slots) = true /\ wfv PW db false (PObj 0 slots) = true /\ rt_ok q db (PObj 0 slots) = true /\
  exists b, tb db (PObj 0 slots) = Some b /\
            ufb TG PW q db 5 (default_obj TG PW q db 0) b = (PNone, Some AttributeError).
Proof. intros q; destruct q; vmc 5. Qed.

(* db_strok: a string-like array of int8 comes out of to_builtin as a str, which the non-bytes path cannot convert *)
Theorem roundtrip_needs_strok : forall q,
  let db := [ {| c_union := false; c_fields := [FArr false 4 true (EPrim (KS 8))] |} ] in
  let slots := [PArr (DS 8) [PInt 65]] in
  db_strok db = false /\ db_defaults_ok q db = true /\
  wfv PW db true (PObj 0 slots) = true /\ wfv PW db false (PObj 0 slots) = true /\ rt_ok q db (PObj 0 slots) = true /\
  exists b, tb db (PObj 0 slots) = Some b /\
            snd (ufb TG PW q db 5 (default_obj TG PW q db 0) b) = Some ValueError.
Proof. intros q; destruct q; vmc 5. Qed.

(* rt_ok, instances: an element of another class is rebuilt as an instance of the declared element class *)
Theorem roundtrip_needs_elems_inst : forall q,
  let db := [ {| c_union := false; c_fields := [] |}; {| c_union := false; c_fields := [] |};
              {| c_union := false; c_fields := [FArr false 2 false (EComp 0)] |} ] in
  let slots := [PArr DObj [PObj 1 []]] in
  db_strok db = true /\ db_defaults_ok q db = true /\
  wfv PW db true (PObj 2 slots) = true /\ wfv PW db false (PObj 2 slots) = true /\ rt_ok q db (PObj 2 slots) = false /\
  exists b, tb db (PObj 2 slots) = Some b /\
            ufb TG PW q db 5 (default_obj TG PW q db 2) b = (PObj 2 [PArr DObj [PObj 0 []]], None).
Proof. intros q; destruct q; vmc 5. Qed.

(* rt_ok, representable floats: 1 + 2^-52 in a float16 array comes back as 1.0 *)
Theorem roundtrip_needs_float_repr :
  let db := [ {| c_union := false; c_fields := [FArr false 2 false (EPrim (KF 16))] |} ] in
  let slots := [PArr (DF 16) [PFloat 4607182418800017409]] in
  db_strok db = true /\ db_defaults_ok true db = true /\
  wfv PW db true (PObj 0 slots) = true /\ wfv PW db false (PObj 0 slots) = true /\ rt_ok true db (PObj 0 slots) = false /\
  exists b, tb db (PObj 0 slots) = Some b /\
            ufb TG PW true db 5 (default_obj TG PW true db 0) b = (PObj 0 [PArr (DF 16) [PFloat 4607182418800017408]], None).
Proof. vmc 5. Qed.

(* rt_ok, float range (conformant variant only): 2^1000 in a float40 array (stored as float64, so representable) is what
   the quirky variant stores, the conformant setter rejects it *)
Theorem roundtrip_needs_float_range :
  let db := [ {| c_union := false; c_fields := [FArr false 2 false (EPrim (KF 40))] |} ] in
  let slots := [PArr (DF 64) [PFloat 9110782046170513408]] in
  db_strok db = true /\ db_defaults_ok false db = true /\
  wfv PW db true (PObj 0 slots) = true /\ wfv PW db false (PObj 0 slots) = true /\
  rt_ok false db (PObj 0 slots) = false /\ rt_ok true db (PObj 0 slots) = true /\
  exists b, tb db (PObj 0 slots) = Some b /\
            snd (ufb TG PW false db 5 (default_obj TG PW false db 0) b) = Some ValueError.
Proof. vmc 6. Qed.

(* fuel: one level of recursion per nesting level *)
Theorem roundtrip_needs_fuel : forall q,
  rt_premises q ex_db 3 2 ex_obj_slots = true /\ rt_premises q ex_db 2 2 ex_obj_slots = false /\
  exists b, tb ex_db (PObj 2 ex_obj_slots) = Some b /\
            snd (ufb TG PW q ex_db 2 (default_obj TG PW q ex_db 2) b) = Some TypeError.
Proof. intros q; destruct q; vmc 2. Qed.
