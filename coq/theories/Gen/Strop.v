(* C09 -- executable, code-shaped model of nunavut.lang._common.TokenEncoder.strop
   (src/nunavut/lang/_common.py) and of the C / C++ stropping-failure handler
   (src/nunavut/lang/c/__init__.py, cpp/__init__.py).  No proofs in this file.

   The configuration record below is what the T1 translator (tools/translators/gen_c09.py)
   regenerates from /repo on every run as Generated/Gen_Strop.v: the attributes of the
   TokenEncoder instance that Language.filter_id uses, for c, cpp and py.

   Same case splits and the same order of operations as the code:
     strop = lower(type); 'all' -> ValueError;
             _encode (all, type)  -> _strop_by_keyword (all, type) -> _strop_by_pattern (all, type)
             -> dry-run pattern check [handler] -> dry-run keyword check [handler]
             -> dry-run encoding check [encoding handler]
   A handler's result is NOT re-verified by the step that invoked it (as in the code); trees that carry the fix
   re-verify the final token once more before returning it (sc_reverify). *)
From Verif Require Export Regex.
Open Scope N_scope.

(* ---------------------------------------------------------------------------------- *)
(* configuration                                                                      *)
(* ---------------------------------------------------------------------------------- *)

(* which function is installed as stropping_failure_handler / encoding_failure_handler:
   none, or the C/C++ one: m = re.match(r"^_+([A-Z]?)", stropped);
   if m: return "_" + m.group(1).lower() + stropped[m.end():]  else: raise pending_error *)
Inductive handler := HNone | HUnd.

Record strop_cfg := {
  sc_reserved : list str;                  (* _reserved_identifiers (config + additional) *)
  sc_patterns : list (str * list re);      (* _reserved_token_patterns_by_type, incl. the synthesised 'any' *)
  sc_rules : list (str * list re);         (* _token_encoding_rules_by_identifier_type, incl. 'any' *)
  sc_prefix : str;                         (* _stropping_prefix *)
  sc_suffix : str;                         (* _stropping_suffix *)
  sc_enc_prefix : str;                     (* _encoding_prefix *)
  sc_ws_char : option str;                 (* _whitespace_encoding_char (None when not configured) *)
  sc_collapse : bool;                      (* _collapse_whitespace_when_encoding *)
  sc_strop_handler : handler;              (* _stropping_failure_handler *)
  sc_enc_handler : handler;                (* _encoding_failure_handler *)
  sc_reverify : bool;                      (* does strop pass its result through the final re-verification
                                              (`return self._reverified(stropped, token_type_lower)`: the three dry-run
                                              checks once more, RuntimeError if one fails) or just `return stropped`? *)
  sc_full_check : bool                     (* does _reverified also apply every `all`/type encoding rule with
                                              pattern.search to the WHOLE token (fix of F-STROP-ILLEGAL-AFFIX)? *)
}.

Fixpoint lookup (m : list (str * list re)) (k : str) : option (list re) :=
  match m with
  | [] => None
  | (k', v) :: m' => if str_eqb k k' then Some v else lookup m' k
  end.

Definition ty_all : str := [97; 108; 108].     (* "all" *)
Definition ty_any : str := [97; 110; 121].     (* "any" *)

Definition is_upper (c : chr) : bool := (65 <=? c) && (c <=? 90).
Definition lower_chr (c : chr) : chr := if is_upper c then c + 32 else c.
(* str.lower() restricted to ASCII (identifier types are ASCII words) *)
Definition lower (s : str) : str := map lower_chr s.

(* ---------------------------------------------------------------------------------- *)
(* f"{ord(c):04X}"                                                                    *)
(* ---------------------------------------------------------------------------------- *)
Definition hex_digit (d : N) : chr := if d <? 10 then 48 + d else 55 + d.

Fixpoint hex_fuel (fuel : nat) (n : N) (acc : str) : str :=
  match fuel with
  | O => acc
  | S f => if n =? 0 then acc else hex_fuel f (n / 16) (hex_digit (n mod 16) :: acc)
  end.

Definition hex_of (n : N) : str := hex_fuel (S (N.size_nat n)) n [].
Definition hex04 (n : N) : str := let h := hex_of n in repeat 48 (4 - length h) ++ h.

(* ---------------------------------------------------------------------------------- *)
(* the handler of the C and C++ language objects                                      *)
(* ---------------------------------------------------------------------------------- *)
Fixpoint drop_und (s : str) : str :=
  match s with
  | c :: s' => if c =? 95 then drop_und s' else s
  | [] => []
  end.

(* re.match(r"^_+([A-Z]?)", s): `_+` is greedy, the group takes one upper-case ASCII letter if there is one *)
Definition handler_und (s : str) : option str :=
  match s with
  | c0 :: s0 =>
      if c0 =? 95 then
        Some (95 :: match drop_und s0 with
                    | c :: r => if is_upper c then (c + 32) :: r else c :: r
                    | [] => []
                    end)
      else None
  | [] => None
  end.

(* The same handler as DATA, the way T1 translates its source (Generated/Gen_Strop.v: <lang>_handler_pre/_grp/_tmpl):
     m = re.match(r"<pre>(<grp>)", stropped)                 -- one capturing group, at the end of the pattern
     if m: return <pieces>                                    -- a literal, m.group(1).lower(), m.group(1), stropped[m.end():]
     raise pending_error
   `mt pre` hands every candidate end of <pre> (in Python's priority order) to `mt grp`; the first overall success fixes
   where the group starts (s1) and ends (s2). *)
Inductive rpiece := RLit (l : str) | RGroupLower | RGroup | RRest.

Definition handler_gen (u : uni) (pre grp : re) (tmpl : list rpiece) (s : str) : option str :=
  match mt u pre (fun at1 s1 => mt u grp (fun _ s2 => Some (s1, s2)) at1 s1) true s with
  | Some (s1, s2) =>
      let g := firstn (length s1 - length s2) s1 in
      Some (flat_map (fun p => match p with RLit l => l | RGroupLower => lower g | RGroup => g | RRest => s2 end) tmpl)
  | None => None
  end.

Definition und_cls : cls := {| c_neg := false; c_ranges := [(95, 95)]; c_space := false; c_digit := false; c_word := false |}.
Definition upper_cls : cls := {| c_neg := false; c_ranges := [(65, 90)]; c_space := false; c_digit := false; c_word := false |}.
(* what `handler_und` above was written for:  ^_+  ([A-Z]?)  "_" + group.lower() + rest *)
Definition model_handler_pre : re := Seq Bol (Seq (Cls und_cls) (Star (Cls und_cls))).
Definition model_handler_grp : re := Alt (Seq (Cls upper_cls) Eps) Eps.
Definition model_handler_tmpl : list rpiece := [RLit [95]; RGroupLower; RRest].

Inductive res := Ok (t : str) | ErrRuntime | ErrValue.

Definition run_handler (h : handler) (stropped : str) : res :=
  match h with
  | HNone => ErrRuntime                      (* raise pending_error *)
  | HUnd => match handler_und stropped with Some t => Ok t | None => ErrRuntime end
  end.

(* result of one transform step: a string, KeyError (unknown identifier type) or RuntimeError *)
Inductive tres := TOk (t : str) | TKeyError | TRuntimeError.

(* steps of TokenEncoder.strop (see run_steps below) *)
Inductive xform := XEncode | XKeyword | XPattern.      (* self._encode | self._strop_by_keyword | self._strop_by_pattern *)
Inductive hsel := HStropping | HEncoding.               (* self._stropping_failure_handler | self._encoding_failure_handler *)
Inductive pstep := PApply (x : xform) | PCheck (x : xform) (h : hsel) | PReverify (xs : list xform) (full : bool).

(* the step list Gen/Strop.v's `strop` was written for *)
Definition model_pipeline (reverify full : bool) : list pstep :=
  [PApply XEncode; PApply XKeyword; PApply XPattern;
   PCheck XPattern HStropping; PCheck XKeyword HStropping; PCheck XEncode HEncoding]
  ++ (if reverify then [PReverify [XPattern; XKeyword; XEncode] full] else []).

Section Strop.
  Variable u : uni.          (* Python's \s \d \w tables (Gen_Uni.py_uni) *)
  Variable sp : ranges.      (* str.isspace table (Gen_Strop.py_isspace) *)

  Definition krest : bool -> str -> option str := fun _ rest => Some rest.

  (* pattern.sub(f, s) with a replacement function, for patterns that cannot match the
     empty string (the translator refuses nullable rules): scan left to right, at each
     position try the pattern (Python priority semantics: `mt`); a match is replaced by
     f(matched text) and scanning resumes at its end; `^` only matches at index 0. *)
  Fixpoint re_sub_from (r : re) (f : str -> str) (fuel : nat) (at0 : bool) (s : str) {struct fuel} : str :=
    match fuel with
    | O => s
    | S fu =>
        match s with
        | [] => []
        | c :: s' =>
            match mt u r krest at0 s with
            | Some rest =>
                if Nat.ltb (length rest) (length s)
                then f (firstn (length s - length rest) s) ++ re_sub_from r f fu false rest
                else f [] ++ c :: re_sub_from r f fu false s'     (* empty match: outside the translated subset *)
            | None => c :: re_sub_from r f fu false s'
            end
        end
    end.

  Definition re_sub (r : re) (f : str -> str) (s : str) : str := re_sub_from r f (length s) true s.

  Definition re_matches (r : re) (s : str) : bool :=
    match re_match u r s with Some _ => true | None => false end.

  Variable cfg : strop_cfg.

  (* TokenEncoder.encode_character *)
  Definition encode_character (c : chr) : str :=
    match sc_ws_char cfg with
    | Some w => if in_ranges sp c then w else sc_enc_prefix cfg ++ hex04 c
    | None => sc_enc_prefix cfg ++ hex04 c
    end.

  (* str.isspace(): non-empty and every character is whitespace *)
  Definition span_isspace (s : str) : bool :=
    match s with [] => false | _ => forallb (in_ranges sp) s end.

  (* TokenEncoder._encoding_filter (the replacement function given to re.sub) *)
  Definition encoding_filter (span : str) : str :=
    if sc_collapse cfg && span_isspace span
    then match sc_ws_char cfg with
         | Some w => w
         | None => encode_character 32
         end
    else flat_map encode_character span.

  (* TokenEncoder._matches for a list of compiled patterns: pattern.match(input_string) *)
  Definition matches_pats (t : str) (ps : list re) : bool := existsb (fun r => re_matches r t) ps.

  (* the body of the loop in _encode *)
  Fixpoint encode_rules (rules : list re) (dry : bool) (enc : str) : tres :=
    match rules with
    | [] => TOk enc
    | r :: rs =>
        if dry
        then (if re_matches r enc then TRuntimeError else encode_rules rs dry enc)
        else encode_rules rs dry (re_sub r encoding_filter enc)
    end.

  (* TokenEncoder._encode: a KeyError for an unconfigured type is swallowed inside *)
  Definition encode (tok ty : str) (dry : bool) : tres :=
    match lookup (sc_rules cfg) ty with
    | None => TOk tok
    | Some rules => encode_rules rules dry tok
    end.

  Definition wrap (t : str) : str := sc_prefix cfg ++ t ++ sc_suffix cfg.

  (* TokenEncoder._strop_by_keyword (token_type is unused by the code) *)
  Definition strop_by_keyword (tok ty : str) (dry : bool) : tres :=
    if str_in tok (sc_reserved cfg)
    then (if dry then TRuntimeError else TOk (wrap tok))
    else TOk tok.

  (* TokenEncoder._strop_by_pattern: KeyError escapes when the type has no entry *)
  Definition strop_by_pattern (tok ty : str) (dry : bool) : tres :=
    match lookup (sc_patterns cfg) ty with
    | None => TKeyError
    | Some ps =>
        if matches_pats tok ps
        then (if dry then TRuntimeError else TOk (wrap tok))
        else TOk tok
    end.

  (* TokenEncoder._do_for_type_and_all *)
  Definition do_for_type_and_all (transform : str -> str -> bool -> tres) (tok ty : str) (dry : bool) : tres :=
    match (match transform tok ty_all dry with
           | TOk t => TOk t
           | TKeyError => TOk tok
           | TRuntimeError => TRuntimeError
           end) with
    | TOk t1 =>
        if str_eqb ty ty_all then TOk t1
        else match transform t1 ty dry with
             | TOk t => TOk t
             | TKeyError => TOk t1
             | TRuntimeError => TRuntimeError
             end
    | e => e
    end.

  (* try: <dry-run check> except RuntimeError: stropped = handler(stropped) *)
  Definition checked (chk : tres) (h : handler) (stropped : str) : res :=
    match chk with
    | TRuntimeError => run_handler h stropped
    | _ => Ok stropped
    end.

  (* TokenEncoder._reverified (only in trees that have it; selected by sc_reverify): the final token must pass the
     three dry-run checks; whichever fails, the exception is a RuntimeError *)
  Definition dry_ok (r : tres) : bool := match r with TRuntimeError => false | _ => true end.

  (* for type_key in ("all", type_lower): for p in rules.get(type_key, []): if p.search(stropped): raise RuntimeError *)
  Definition rules_for (ty : str) : list re := match lookup (sc_rules cfg) ty with Some rs => rs | None => [] end.
  Definition full_ok (ty stropped : str) : bool :=
    forallb (fun r => negb (re_test u r stropped)) (rules_for ty_all)
    && forallb (fun r => negb (re_test u r stropped)) (rules_for ty).

  Definition reverified (ty stropped : str) : res :=
    if dry_ok (do_for_type_and_all strop_by_pattern stropped ty true)
       && dry_ok (do_for_type_and_all strop_by_keyword stropped ty true)
       && dry_ok (do_for_type_and_all encode stropped ty true)
       && (negb (sc_full_check cfg) || full_ok ty stropped)
    then Ok stropped else ErrRuntime.

  (* TokenEncoder.strop(token, token_type) *)
  Definition strop (token_type : str) (token : str) : res :=
    let ty := lower token_type in
    if str_eqb ty ty_all then ErrValue else
    match do_for_type_and_all encode token ty false with
    | TOk encoded =>
      match do_for_type_and_all strop_by_keyword encoded ty false with
      | TOk stropped_k =>
        match do_for_type_and_all strop_by_pattern stropped_k ty false with
        | TOk stropped0 =>
          match checked (do_for_type_and_all strop_by_pattern stropped0 ty true) (sc_strop_handler cfg) stropped0 with
          | Ok stropped1 =>
            match checked (do_for_type_and_all strop_by_keyword stropped1 ty true) (sc_strop_handler cfg) stropped1 with
            | Ok stropped2 =>
                match checked (do_for_type_and_all encode stropped2 ty true) (sc_enc_handler cfg) stropped2 with
                | Ok stropped3 => if sc_reverify cfg then reverified ty stropped3 else Ok stropped3
                | e => e
                end
            | e => e
            end
          | e => e
          end
        | _ => ErrRuntime     (* unreachable: a non-dry transform does not raise RuntimeError *)
        end
      | _ => ErrRuntime
      end
    | _ => ErrRuntime
    end.

  (* ---- the body of TokenEncoder.strop as DATA: the T1 walker (tools/translators/gen_c09.py, strop_pipeline) turns the
          statements of the method into a list of steps (Generated/Gen_Strop.v: strop_pipeline); `run_pipeline` is their
          meaning; StropThmPipe.v proves strop = run_pipeline model_pipeline and Properties/C09.v that the regenerated
          list IS model_pipeline.  `cur` is the variable the previous step assigned (initially the parameter `token`). ---- *)
  Definition xf (x : xform) : str -> str -> bool -> tres :=
    match x with XEncode => encode | XKeyword => strop_by_keyword | XPattern => strop_by_pattern end.

  Definition hof (h : hsel) : handler :=
    match h with HStropping => sc_strop_handler cfg | HEncoding => sc_enc_handler cfg end.

  Fixpoint run_steps (steps : list pstep) (ty cur : str) : res :=
    match steps with
    | [] => Ok cur                                  (* return cur *)
    | PApply x :: rest =>                           (* v = self._do_for_type_and_all(self.<x>, cur, type_lower, False) *)
        match do_for_type_and_all (xf x) cur ty false with
        | TOk t => run_steps rest ty t
        | _ => ErrRuntime
        end
    | PCheck x h :: rest =>                         (* try: self._do_for_type_and_all(self.<x>, cur, type_lower, True)
                                                       except RuntimeError as e:
                                                           if self.<h> is None: raise e
                                                           cur = self.<h>(self, cur, token_type, e) *)
        match checked (do_for_type_and_all (xf x) cur ty true) (hof h) cur with
        | Ok t => run_steps rest ty t
        | e => e
        end
    | PReverify xs full :: rest =>                  (* return self.<m>(cur, type_lower); <m>: the dry checks xs, [the
                                                       whole-token loop over the encoding rules,] return cur *)
        if forallb (fun x => dry_ok (do_for_type_and_all (xf x) cur ty true)) xs && (negb full || full_ok ty cur)
        then run_steps rest ty cur else ErrRuntime
    end.

  (* type_lower = token_type.lower(); if type_lower == "all": raise ValueError(...); <steps> *)
  Definition run_pipeline (steps : list pstep) (token_type token : str) : res :=
    let ty := lower token_type in
    if str_eqb ty ty_all then ErrValue else run_steps steps ty token.

  (* ---- observable the property talks about: `matches a reserved pattern for this type` ---- *)
  Definition pats_of (ty : str) : list re :=
    match lookup (sc_patterns cfg) ty with Some ps => ps | None => [] end.

  Definition rules_of (ty : str) : list re :=
    match lookup (sc_rules cfg) ty with Some rs => rs | None => [] end.

  Definition matches_reserved_pattern (token_type : str) (t : str) : bool :=
    matches_pats t (pats_of ty_all) || matches_pats t (pats_of (lower token_type)).

  Definition is_reserved (t : str) : bool := str_in t (sc_reserved cfg).
End Strop.

(* ---------------------------------------------------------------------------------- *)
(* specification side (independent of the configuration)                              *)
(* ---------------------------------------------------------------------------------- *)
Definition ident_ranges : ranges := [(48, 57); (65, 90); (95, 95); (97, 122)].
Definition ident_char (c : chr) : bool := in_ranges ident_ranges c.
Definition is_digit (c : chr) : bool := (48 <=? c) && (c <=? 57).

(* [A-Za-z_][A-Za-z0-9_]* : a valid identifier of C and C++, and the ASCII subset of Python's identifiers *)
Definition valid_ident (t : str) : bool :=
  match t with
  | [] => false
  | c :: _ => negb (is_digit c) && forallb ident_char t
  end.

(* identifiers reserved to the implementation in C and C++: `__...` and `_[A-Z]...` *)
Definition und_reserved (t : str) : bool :=
  match t with
  | c0 :: c :: _ => (c0 =? 95) && ((c =? 95) || is_upper c)
  | _ => false
  end.

Fixpoint has_dunder (t : str) : bool :=
  match t with
  | a :: ((b :: _) as t') => ((a =? 95) && (b =? 95)) || has_dunder t'
  | _ => false
  end.

(* the same configuration in a tree without the whole-token loop *)
Definition no_full (cfg : strop_cfg) : strop_cfg :=
  {| sc_reserved := sc_reserved cfg; sc_patterns := sc_patterns cfg; sc_rules := sc_rules cfg; sc_prefix := sc_prefix cfg;
     sc_suffix := sc_suffix cfg; sc_enc_prefix := sc_enc_prefix cfg; sc_ws_char := sc_ws_char cfg; sc_collapse := sc_collapse cfg;
     sc_strop_handler := sc_strop_handler cfg; sc_enc_handler := sc_enc_handler cfg; sc_reverify := sc_reverify cfg;
     sc_full_check := false |}.

(* ---------------------------------------------------------------------------------- *)
(* functools.lru_cache on TokenEncoder.strop                                           *)
(* ---------------------------------------------------------------------------------- *)
(* `@functools.lru_cache(maxsize=N) def strop(self, token, token_type)`: ONE cache per function object, i.e. shared by
   every TokenEncoder of the process; the key is the tuple of the call's arguments -- which parameters take part is
   regenerated from the decorated signature (Gen_Strop.strop_cache_key) -- and `self` is hashed by identity
   (TokenEncoder defines no __eq__/__hash__: Gen_Strop.strop_self_by_identity).  A process is a family of encoders
   `enc : nat -> strop_cfg` (object identity |-> the configuration its __init__ stored; no method assigns attributes
   afterwards).  Only returned values are cached (an exception propagates and stores nothing); a hit moves the entry
   to the front; an insertion beyond maxsize drops the least recently used entry. *)
Inductive kparam := KSelf | KToken | KType.
Definition model_cache_key : list kparam := [KSelf; KToken; KType].

Definition skey := (nat * str * str)%type.           (* (id(self), token, token_type) *)
Definition skey_eqb (a b : skey) : bool :=
  Nat.eqb (fst (fst a)) (fst (fst b)) && str_eqb (snd (fst a)) (snd (fst b)) && str_eqb (snd a) (snd b).
Definition scache := list (skey * str).

Fixpoint scache_find (c : scache) (k : skey) : option str :=
  match c with
  | [] => None
  | (k', v) :: c' => if skey_eqb k k' then Some v else scache_find c' k
  end.

Fixpoint scache_remove (c : scache) (k : skey) : scache :=
  match c with
  | [] => []
  | (k', v) :: c' => if skey_eqb k k' then c' else (k', v) :: scache_remove c' k
  end.

Section Shared.
  Variable u : uni.
  Variable sp : ranges.
  Variable enc : nat -> strop_cfg.
  Variable maxsize : option nat.                     (* None: lru_cache(maxsize=None), unbounded *)

  Definition trunc (c : scache) : scache := match maxsize with Some n => firstn n c | None => c end.

  (* one call  <encoder i>.strop(token, token_type)  through the shared cache *)
  Definition strop_shared (c : scache) (i : nat) (token_type token : str) : scache * res :=
    let k := (i, token, token_type) in
    match scache_find c k with
    | Some v => ((k, v) :: scache_remove c k, Ok v)
    | None =>
        match strop u sp (enc i) token_type token with
        | Ok v => (trunc ((k, v) :: c), Ok v)
        | e => (c, e)
        end
    end.

  (* a whole process: any interleaving of calls on any of its encoders *)
  Fixpoint run_calls (c : scache) (calls : list skey) : list res :=
    match calls with
    | [] => []
    | (i, tok, ty) :: rest => let r := strop_shared c i ty tok in snd r :: run_calls (fst r) rest
    end.

  (* what the property wants each call to return: its own encoder's uncached answer *)
  Definition uncached (k : skey) : res := strop u sp (enc (fst (fst k))) (snd k) (snd (fst k)).

  (* the same cache with a key that forgets `self` (NOT the code; used to show what the theorem excludes) *)
  Definition strop_shared_noself (c : scache) (i : nat) (token_type token : str) : scache * res :=
    let k := (O, token, token_type) in
    match scache_find c k with
    | Some v => ((k, v) :: scache_remove c k, Ok v)
    | None =>
        match strop u sp (enc i) token_type token with
        | Ok v => (trunc ((k, v) :: c), Ok v)
        | e => (c, e)
        end
    end.
End Shared.

(* ---------------------------------------------------------------------------------- *)
(* Language.filter_id(instance, id_type) -- the property's observable                  *)
(* ---------------------------------------------------------------------------------- *)
(* what `instance` can be, as far as default_filter_id_for_target distinguishes: an object with a `name` attribute
   (carrying str(instance.name)), or anything else (carrying str(instance); a str is its own str()) *)
Inductive inst := INamed (name_str : str) | IPlain (str_of : str).

(* default_filter_id_for_target as translated by T1 (Gen_Strop.default_id_rule): an ordered list of cases *)
Inductive drule := DNameAttr      (* if hasattr(instance, "name"): return str(instance.name) *)
                 | DStr.          (* return str(instance) *)
Definition model_default_rule : list drule := [DNameAttr; DStr].

Fixpoint run_default (rules : list drule) (i : inst) : option str :=
  match rules with
  | [] => None                                   (* falls off the end: returns None, not a str *)
  | DNameAttr :: rest => match i with INamed n => Some n | IPlain _ => run_default rest i end
  | DStr :: _ => Some (match i with INamed n => n (* unreachable after DNameAttr *) | IPlain s => s end)
  end.

Definition default_filter_id (i : inst) : str := match i with INamed n => n | IPlain s => s end.

(* the body of Language.filter_id of c / cpp / py as translated (Gen_Strop.filter_id_steps_<lang>):
     raw = self.default_filter_id_for_target(instance)      FDefaultId
     return self._token_encoder.strop(raw, id_type)          FStrop      (the encoder may be bound to a local first) *)
Inductive fstep := FDefaultId | FStrop.
Definition model_filter_id_steps : list fstep := [FDefaultId; FStrop].
