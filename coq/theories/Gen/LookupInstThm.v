(* Gen/LookupInstThm.v -- facts about the tables regenerated from /repo (Generated/Gen_Lookup.v) and the general C16 theorems
   instantiated with them.  The boolean facts are closed by vm_compute on the CURRENT tables: a change of the pydsdl hierarchy,
   of a built-in template set, of the bundled jinja2 test names, of a language's tests or of the alias rule re-runs them. *)
From Verif Require Import Str Lookup LookupThm LookupEnv LookupEnvThm Gen_Lookup LookupInst.
Import ListNotations.
Open Scope N_scope.

Lemma forest_ok_true : forest_ok = true.                         Proof. vm_compute. reflexivity. Qed.
Lemma names_nodup_true : names_nodup = true.                     Proof. vm_compute. reflexivity. Qed.
Lemma builtin_sets_antichain_true : builtin_sets_antichain = true. Proof. vm_compute. reflexivity. Qed.
Lemma builtin_stems_nodup_true : builtin_stems_nodup = true.     Proof. vm_compute. reflexivity. Qed.
Lemma aliases_collision_free_true : aliases_collision_freeb = true. Proof. vm_compute. reflexivity. Qed.
Lemma aliases_disjoint_true : aliases_disjointb = true.          Proof. vm_compute. reflexivity. Qed.
Lemma families_disjoint_true : families_disjointb = true.        Proof. vm_compute. reflexivity. Qed.
Lemma class_names_index_true : class_names_index_ok = true.      Proof. vm_compute. reflexivity. Qed.
Lemma gate_checks_existing_true : g_gate_checks_existing = true. Proof. reflexivity. Qed.

Lemma tbl_get_In {A} (l : list (N * A)) k v : tbl_get l k = Some v -> In (k, v) l.
Proof.
  induction l as [|[k' v'] l IH]; cbn [tbl_get]; [discriminate|].
  destruct (k' =? k) eqn:E; [apply N.eqb_eq in E; subst; intros H; inversion H; left; reflexivity | intros H; right; apply IH, H].
Qed.

Lemma forest_entry c n b r : tbl_get g_classes c = Some (n, (b, r)) ->
  match b with
  | [] => (r <? p_fuel)%nat = true
  | [p] => (memN p p_ids && (p_rank p <? r)%nat && (r <? p_fuel)%nat) = true
  | _ => False
  end.
Proof.
  intros G. apply tbl_get_In in G. pose proof forest_ok_true as F. unfold forest_ok in F.
  rewrite forallb_forall in F. specialize (F _ G). cbn [snd] in F.
  destruct b as [|p [|p' l]]; [exact F | exact F | discriminate F].
Qed.

Lemma p_single c : (length (p_bases c) <= 1)%nat.
Proof.
  unfold p_bases. destruct (tbl_get g_classes c) as [[n [b r]]|] eqn:G; [|cbn; lia].
  pose proof (forest_entry c n b r G) as F. destruct b as [|p [|p' l]]; cbn [length]; try lia; contradiction F.
Qed.

Lemma p_rank_ok c p : In p (p_bases c) -> (p_rank p < p_rank c)%nat.
Proof.
  unfold p_bases, p_rank at 2. destruct (tbl_get g_classes c) as [[n [b r]]|] eqn:G; [|intros []].
  pose proof (forest_entry c n b r G) as F. destruct b as [|q [|q' l]]; [intros [] | | contradiction F].
  intros [<-|[]]. apply andb_prop in F. destruct F as [F _]. apply andb_prop in F. destruct F as [_ F].
  apply Nat.ltb_lt in F. exact F.
Qed.

Lemma p_rank_fuel c : (p_rank c < p_fuel)%nat.
Proof.
  unfold p_rank. destruct (tbl_get g_classes c) as [[n [b r]]|] eqn:G; [|unfold p_fuel; lia].
  pose proof (forest_entry c n b r G) as F. destruct b as [|q [|q' l]]; [| | contradiction F].
  - apply Nat.ltb_lt in F. exact F.
  - apply andb_prop in F. destruct F as [_ F]. apply Nat.ltb_lt in F. exact F.
Qed.

Lemma p_chain c : chain_n p_bases p_fuel c = chain p_bases p_rank c.
Proof. apply (chain_fuel p_bases p_rank p_rank_ok). pose proof (p_rank_fuel c). lia. Qed.

(* a cold lookup on the real hierarchy, any listings, any policy: nearest ancestor, user set first *)
Lemma p_lookup_nearest q pol dirs pkg c : p_lookup_seq q pol dirs pkg [c] = p_spec_seq pol dirs pkg [c].
Proof.
  unfold p_lookup_seq, p_spec_seq. destruct (mk_loaders pol dirs pkg) as [fs pk]. cbn [run_seq map].
  pose proof (cold_lookup p_bases p_rank p_single p_rank_ok q (p_index fs) (p_index pk) p_fuel c (p_rank_fuel c)) as H.
  unfold st0 in H.
  destruct (type_to_template p_bases q (p_index fs) (p_index pk) p_fuel [] c) as [st r].
  cbn [snd] in H. rewrite H. unfold spec. rewrite p_chain. reflexivity.
Qed.

(* the code as it is (memo keyed by (walk, class)): EVERY sequence of lookups on the real hierarchy, any raw listings, either
   policy, returns the nearest-ancestor result at every position *)
Lemma p_cache_transparent pol dirs pkg cs : p_lookup_seq false pol dirs pkg cs = p_spec_seq pol dirs pkg cs.
Proof.
  unfold p_lookup_seq, p_spec_seq. destruct (mk_loaders pol dirs pkg) as [fs pk].
  transitivity (map (spec p_bases p_rank (p_index fs) (p_index pk)) cs).
  { apply (run_seq_sep p_bases p_rank p_single p_rank_ok _ _ p_fuel cs st0 (fun c _ => p_rank_fuel c) (inv_sep_nil _ _)). }
  apply map_ext. intros c. unfold spec. rewrite p_chain. reflexivity.
Qed.

(* only a file whose name is exactly <ClassName><TEMPLATE_SUFFIX> can be the template of a class *)
Lemma p_only_exact_names listing c p : tmap p_name (p_tset listing) c = Some p ->
  In p listing /\ basename p = p_name c ++ g_template_suffix.
Proof. unfold tmap, p_tset. apply mk_tset_exact. discriminate. Qed.

(* T2-translated _field_is_instance = membership of the value, or of an attribute's data type *)
Lemma g_field_is_instance_spec isinst attr root vc vdt :
  g_field_is_instance isinst attr root vc vdt = isinst vc root || (isinst vc attr && isinst vdt root).
Proof. unfold g_field_is_instance. destruct (isinst vc attr), (isinst vc root), (isinst vdt root); reflexivity. Qed.

Lemma p_test_agrees name v : p_test false name v = p_test_spec name v.
Proof.
  unfold p_test, p_test_spec. destruct (aget p_tests name) as [root|]; [|reflexivity].
  rewrite g_field_is_instance_spec. reflexivity.
Qed.

(* T2-translated gate of additional_globals: jinja's default globals survive every additional_globals that is accepted *)
Lemma p_user_global_never_shadows lang user g n :
  init_globals p_gate_unchecked g_jinja_globals p_reserved g_init_written lang user = Some g ->
  str_in n g_jinja_globals = true -> str_in n g_init_written = false -> str_in n lang = false -> dget g n = Some OBuiltin.
Proof. unfold p_gate_unchecked. rewrite gate_checks_existing_true. apply builtin_globals_protected_checked. Qed.

Lemma p_builtin_global_rejected lang n v : str_in n g_jinja_globals = true ->
  init_globals p_gate_unchecked g_jinja_globals p_reserved g_init_written lang [(n, v)] = None.
Proof. unfold p_gate_unchecked. rewrite gate_checks_existing_true. apply user_global_rejected_checked. Qed.

(* antichainb t = true  ->  the Prop used by the general theorem *)
Lemma antichainb_sound t : aget t [] = None -> antichainb t = true -> antichain p_bases p_rank (tmap p_name t).
Proof.
  intros Hempty H c a Hc Ha. unfold antichainb in H. rewrite forallb_forall in H.
  destruct (memN c p_ids) eqn:M.
  - apply memN_In in M. specialize (H c M). destruct (tmap p_name t c) eqn:Tc; [|contradiction Hc; reflexivity].
    rewrite forallb_forall in H. unfold proper_ancestors in H. rewrite p_chain in H. specialize (H a Ha).
    destruct (tmap p_name t a); [discriminate H | reflexivity].
  - exfalso. apply Hc. unfold tmap, p_name.
    destruct (tbl_get g_classes c) as [[n x]|] eqn:G; [|exact Hempty].
    apply tbl_get_In in G. assert (In c p_ids) as I by (unfold p_ids; apply in_map_iff; exists (c, (n, x)); split; [reflexivity | exact G]).
    apply memN_In in I. rewrite I in M. discriminate M.
Qed.

Definition shipped_ok (t : tset) : bool :=
  antichainb t && match aget t [] with None => true | Some _ => false end.

Lemma shipped_sets_ok : forallb (fun e => shipped_ok (snd e)) g_builtin_templates = true.
Proof. vm_compute. reflexivity. Qed.

(* every sequence of lookups against a SHIPPED built-in template set, any user directory listing, either policy, the shared
   memo of the unchanged code: every result is the nearest-ancestor result *)
Lemma p_shipped_transparent lang l pol dirs cs : In (lang, l) g_builtin_listings ->
  p_lookup_seq true pol dirs (Some l) cs = p_spec_seq pol dirs (Some l) cs.
Proof.
  intros Hin0. set (t := p_tset l).
  assert (Hin : In (lang, t) g_builtin_templates).
  { unfold g_builtin_templates. apply in_map_iff. exists (lang, l). split; [reflexivity | exact Hin0]. }
  pose proof shipped_sets_ok as S. rewrite forallb_forall in S. specialize (S _ Hin). cbn [snd] in S.
  unfold shipped_ok in S. apply andb_prop in S. destruct S as [S1 S2].
  assert (E : aget t [] = None) by (destruct (aget t []); [discriminate S2 | reflexivity]).
  unfold p_lookup_seq, p_spec_seq. destruct (mk_loaders pol dirs (Some l)) as [fs pk] eqn:ML.
  assert (Hok : transparent_cond p_bases p_rank (p_index fs) (p_index pk)).
  { unfold mk_loaders in ML. destruct pol, dirs as [d|]; inversion ML; subst; unfold p_index; cbn [option_map];
      try (right; left; reflexivity); try (left; reflexivity); right; right; apply antichainb_sound; assumption. }
  transitivity (map (spec p_bases p_rank (p_index fs) (p_index pk)) cs).
  { apply (run_seq_sh p_bases p_rank p_single p_rank_ok _ _ p_fuel Hok cs st0 (fun c _ => p_rank_fuel c) (inv_sh_nil _ _ _ _)). }
  apply map_ext. intros c. unfold spec. rewrite p_chain. reflexivity.
Qed.
