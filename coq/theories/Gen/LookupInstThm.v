(* Gen/LookupInstThm.v -- facts about the tables regenerated from /repo (Generated/Gen_Lookup.v) and the general C16 theorems
   instantiated with them.  The boolean facts are closed by vm_compute on the CURRENT tables: a change of the pydsdl hierarchy,
   of a built-in template set, of the bundled jinja2 test names, of a language's tests or of the alias rule re-runs them. *)
From Verif Require Import Str Lookup LookupThm LookupSortThm LookupEnv LookupEnvThm Gen_Lookup LookupInst.
From Coq Require Import Permutation.
Import ListNotations.
Open Scope N_scope.

Lemma forest_ok_true : forest_ok = true.                         Proof. vm_compute. reflexivity. Qed.
Lemma names_nodup_true : names_nodup = true.                     Proof. vm_compute. reflexivity. Qed.
Lemma builtin_sets_antichain_true : builtin_sets_antichain = true. Proof. vm_compute. reflexivity. Qed.
Lemma builtin_stems_nodup_true : builtin_stems_nodup = true.     Proof. vm_compute. reflexivity. Qed.
Lemma aliases_collision_free_true : aliases_collision_freeb = true. Proof. vm_compute. reflexivity. Qed.
Lemma aliases_disjoint_true : aliases_disjointb = true.          Proof. vm_compute. reflexivity. Qed.
Lemma families_disjoint_true : families_disjointb = true.        Proof. vm_compute. reflexivity. Qed.
Lemma class_names_index_true : class_names_index_ok = true.      Proof. vm_compute. reflexivity. Qed.
Lemma gate_checks_existing_true : g_gate_checks_existing = true. Proof. reflexivity. Qed.

Lemma tbl_get_In {A} (l : list (N * A)) k v : tbl_get l k = Some v -> In (k, v) l.
Proof.
  induction l as [|[k' v'] l IH]; cbn [tbl_get]; [discriminate|].
  destruct (k' =? k) eqn:E; [apply N.eqb_eq in E; subst; intros H; inversion H; left; reflexivity | intros H; right; apply IH, H].
Qed.

Lemma forest_entry c n b r : tbl_get g_classes c = Some (n, (b, r)) ->
  match b with
  | [] => (r <? p_fuel)%nat = true
  | [p] => (memN p p_ids && (p_rank p <? r)%nat && (r <? p_fuel)%nat) = true
  | _ => False
  end.
Proof.
  intros G. apply tbl_get_In in G. pose proof forest_ok_true as F. unfold forest_ok in F.
  rewrite forallb_forall in F. specialize (F _ G). cbn [snd] in F.
  destruct b as [|p [|p' l]]; [exact F | exact F | discriminate F].
Qed.

Lemma p_single c : (length (p_bases c) <= 1)%nat.
Proof.
  unfold p_bases. destruct (g_chain_ends_at_any && (c =? g_cls_Any)); [cbn; lia|]. unfold tbl_bases.
  destruct (tbl_get g_classes c) as [[n [b r]]|] eqn:G; [|cbn; lia].
  pose proof (forest_entry c n b r G) as F. destruct b as [|p [|p' l]]; cbn [length]; try lia; contradiction F.
Qed.

Lemma p_rank_ok c p : In p (p_bases c) -> (p_rank p < p_rank c)%nat.
Proof.
  unfold p_bases. destruct (g_chain_ends_at_any && (c =? g_cls_Any)); [intros []|]. unfold tbl_bases, p_rank at 2.
  destruct (tbl_get g_classes c) as [[n [b r]]|] eqn:G; [|intros []].
  pose proof (forest_entry c n b r G) as F. destruct b as [|q [|q' l]]; [intros [] | | contradiction F].
  intros [<-|[]]. apply andb_prop in F. destruct F as [F _]. apply andb_prop in F. destruct F as [_ F].
  apply Nat.ltb_lt in F. exact F.
Qed.

Lemma p_rank_fuel c : (p_rank c < p_fuel)%nat.
Proof.
  unfold p_rank. destruct (tbl_get g_classes c) as [[n [b r]]|] eqn:G; [|unfold p_fuel; lia].
  pose proof (forest_entry c n b r G) as F. destruct b as [|q [|q' l]]; [| | contradiction F].
  - apply Nat.ltb_lt in F. exact F.
  - apply andb_prop in F. destruct F as [_ F]. apply Nat.ltb_lt in F. exact F.
Qed.

Lemma p_chain c : chain_n p_bases p_fuel c = chain p_bases p_rank c.
Proof. apply (chain_fuel p_bases p_rank p_rank_ok). pose proof (p_rank_fuel c). lia. Qed.

(* a cold lookup on the real hierarchy, any listings, any policy: nearest ancestor, user set first *)
Lemma p_lookup_nearest q pol dirs pkg c : p_lookup_seq q pol dirs pkg [c] = p_spec_seq pol dirs pkg [c].
Proof.
  unfold p_lookup_seq, p_spec_seq. destruct (mk_loaders pol dirs pkg) as [fs pk]. cbn [run_seq map].
  pose proof (cold_lookup p_bases p_rank p_single p_rank_ok q (p_index_fs fs) (p_index_pkg pk) p_fuel c (p_rank_fuel c)) as H.
  unfold st0 in H.
  destruct (type_to_template p_bases q (p_index_fs fs) (p_index_pkg pk) p_fuel [] c) as [st r].
  cbn [snd] in H. rewrite H. unfold spec. rewrite p_chain. reflexivity.
Qed.

(* the code as it is (memo keyed by (walk, class)): EVERY sequence of lookups on the real hierarchy, any raw listings, either
   policy, returns the nearest-ancestor result at every position *)
Lemma p_cache_transparent pol dirs pkg cs : p_lookup_seq false pol dirs pkg cs = p_spec_seq pol dirs pkg cs.
Proof.
  unfold p_lookup_seq, p_spec_seq. destruct (mk_loaders pol dirs pkg) as [fs pk].
  transitivity (map (spec p_bases p_rank (p_index_fs fs) (p_index_pkg pk)) cs).
  { apply (run_seq_sep p_bases p_rank p_single p_rank_ok _ _ p_fuel cs st0 (fun c _ => p_rank_fuel c) (inv_sep_nil _ _)). }
  apply map_ext. intros c. unfold spec. rewrite p_chain. reflexivity.
Qed.

(* enumeration order: the walk of the directories may produce the names in any order and with repetitions; only the SET of names
   of all user search paths together, and of the package, matters -- no premise on duplicate stems *)
Definition same_names (a b : list path) : Prop := forall x, In x a <-> In x b.
Lemma p_idx_ext raw raw' : same_names raw raw' -> p_idx raw = p_idx raw'.
Proof. intros H. unfold p_idx. rewrite (list_templates_ext raw raw' H). reflexivity. Qed.

Lemma p_enum_order_indep q pol (rs rs' : list (list path)) (pk pk' : list path) cs :
  same_names (concat rs) (concat rs') -> same_names pk pk' ->
  p_lookup_seq q pol (Some rs) (Some pk) cs = p_lookup_seq q pol (Some rs') (Some pk') cs.
Proof.
  intros H1 H2. unfold p_lookup_seq, mk_loaders, p_index_fs, p_index_pkg, fs_raw.
  destruct pol; cbn [option_map]; rewrite (p_idx_ext _ _ H1); [reflexivity|]. rewrite (p_idx_ext _ _ H2). reflexivity.
Qed.

(* only a file whose name is exactly <ClassName><TEMPLATE_SUFFIX> can be the template of a class *)
Lemma p_only_exact_names raw c p : p_idx raw c = Some p -> In p raw /\ basename p = p_name c ++ g_template_suffix.
Proof.
  unfold p_idx, tmap, p_tset. intros H. apply mk_tset_exact in H; [|discriminate]. destruct H as [H1 H2].
  split; [apply list_templates_In; exact H1 | exact H2].
Qed.

(* ---- instance tests: availability, identity, truth -- for EVERY class below the two roots ----------------------------------- *)
Definition below_roots (c : cls) : bool := isinst p_bases p_fuel c g_cls_SerializableType || isinst p_bases p_fuel c g_cls_Attribute.
Definition tests_available_ok : bool :=
  forallb (fun c => negb (below_roots c) ||
                    (match aget p_tests (p_name c) with Some r => r =? c | None => false end &&
                     match aget p_tests (p_alias (lower (p_name c))) with Some r => r =? c | None => false end)) p_ids.
(* the model's table and the table registered by the implementation (import-time dump with the class captured by each closure)
   are the same map *)
Definition registered_agree_ok : bool :=
  forallb (fun e => match aget p_tests (fst e) with Some r => r =? snd e | None => false end) g_registered_tests &&
  forallb (fun e => match aget g_registered_tests (fst e) with Some r => r =? snd e | None => false end) p_tests.
Lemma tests_available_true : tests_available_ok = true.   Proof. vm_compute. reflexivity. Qed.
Lemma registered_agree_true : registered_agree_ok = true. Proof. vm_compute. reflexivity. Qed.

Lemma p_tests_available c : In c p_ids -> below_roots c = true ->
  aget p_tests (p_name c) = Some c /\ aget p_tests (p_alias (lower (p_name c))) = Some c.
Proof.
  intros Hin Hb. pose proof tests_available_true as F. unfold tests_available_ok in F. rewrite forallb_forall in F.
  specialize (F c Hin). rewrite Hb in F. cbn [negb orb] in F. apply andb_prop in F. destruct F as [F1 F2].
  split.
  - destruct (aget p_tests (p_name c)) as [r|]; [|discriminate F1]. apply N.eqb_eq in F1. subst. reflexivity.
  - destruct (aget p_tests (p_alias (lower (p_name c)))) as [r|]; [|discriminate F2]. apply N.eqb_eq in F2. subst. reflexivity.
Qed.

(* T2-translated _field_is_instance = membership of the value, or of an attribute's data type *)
Lemma g_field_is_instance_spec isinst attr root vc vdt :
  g_field_is_instance isinst attr root vc vdt = isinst vc root || (isinst vc attr && isinst vdt root).
Proof. unfold g_field_is_instance. destruct (isinst vc attr), (isinst vc root), (isinst vdt root); reflexivity. Qed.

Definition is_inst (a b : cls) : bool := isinst p_bases p_fuel a b.
(* `{% if v is <Class> %}` and `{% if v is <alias> %}` exist for every class below the roots and mean isinstance *)
Lemma p_test_truth c v : In c p_ids -> below_roots c = true ->
  p_test false (p_name c) v = Some (is_inst (v_cls v) c || (is_inst (v_cls v) g_cls_Attribute && is_inst (v_dt v) c)) /\
  p_test false (p_alias (lower (p_name c))) v = Some (is_inst (v_cls v) c || (is_inst (v_cls v) g_cls_Attribute && is_inst (v_dt v) c)).
Proof.
  intros Hin Hb. destruct (p_tests_available c Hin Hb) as [A1 A2]. unfold p_test. rewrite A1, A2, g_field_is_instance_spec.
  split; reflexivity.
Qed.

Lemma p_test_agrees name v : p_test false name v = p_test_spec name v.
Proof.
  unfold p_test, p_test_spec. destruct (aget p_tests name) as [root|]; [|reflexivity].
  rewrite g_field_is_instance_spec. reflexivity.
Qed.

(* T2-translated gate of additional_globals: jinja's default globals survive every additional_globals that is accepted *)
Lemma p_user_global_never_shadows lang user g n :
  init_globals p_gate_unchecked g_jinja_globals p_reserved g_init_written lang user = Some g ->
  str_in n g_jinja_globals = true -> str_in n g_init_written = false -> str_in n lang = false -> dget g n = Some OBuiltin.
Proof. unfold p_gate_unchecked. rewrite gate_checks_existing_true. apply builtin_globals_protected_checked. Qed.

Lemma p_builtin_global_rejected lang n v : str_in n g_jinja_globals = true ->
  init_globals p_gate_unchecked g_jinja_globals p_reserved g_init_written lang [(n, v)] = None.
Proof. unfold p_gate_unchecked. rewrite gate_checks_existing_true. apply user_global_rejected_checked. Qed.
