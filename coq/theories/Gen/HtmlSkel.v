(* C20 -- checker for the regenerated template skeletons, their expansions, and the output-site predicate.  No proofs. *)
From Verif Require Export HtmlModel HtmlSkelBase Gen_HtmlSkel.
Open Scope N_scope.

Fixpoint sk_lookup (tbl : list (str * skl)) (k : str) : option skl :=
  match tbl with
  | [] => None
  | (k', b) :: r => if str_eqb k k' then Some b else sk_lookup r k
  end.

Definition is_empty_stack (o : option (list str)) : bool := match o with Some [] => true | _ => false end.

(* stack discipline over a skeleton: sequences are checked with a stack; every alternative of an `if`, every loop body and
   (through the table check) every macro / included template must be balanced on its own; output sites are neutral *)
Section Check.
Variable tbl : list (str * skl).

Fixpoint sk_chk (stk : list str) (s : skl) {struct s} : option (list str) :=
  match s with
  | SNil => Some stk
  | SCons k r =>
      match k with
      | KOpen n => if str_in n void_elements then None else sk_chk (n :: stk) r
      | KClose n => match stk with
                    | m :: stk' => if str_eqb n m then sk_chk stk' r else None
                    | [] => None
                    end
      | KVoid n => if str_in n void_elements then sk_chk stk r else None
      | KText => sk_chk stk r
      | KSite _ => sk_chk stk r
      | KIf a => if alts_chk a then sk_chk stk r else None
      | KFor b => if is_empty_stack (sk_chk [] b) then sk_chk stk r else None
      | KCall key => match sk_lookup tbl key with Some _ => sk_chk stk r | None => None end
      end
  end
with alts_chk (a : alts) {struct a} : bool :=
  match a with
  | ANone => true
  | AAlt b r => is_empty_stack (sk_chk [] b) && alts_chk r
  end.

Definition skeleton_balanced (s : skl) : bool := is_empty_stack (sk_chk [] s).
Definition table_balanced : bool := forallb (fun e => skeleton_balanced (snd e)) tbl.

Fixpoint alt_in (b : skl) (a : alts) : Prop :=
  match a with ANone => False | AAlt b' r => b = b' \/ alt_in b r end.

(* every instantiation of the control structure: any branch, any number of loop iterations, any attributes on the literal
   tags, any character data, any BALANCED fragment at an output site (escaped text, display_type markup, ...), macro calls
   and includes expanded through the table (recursion included: a derivation is finite) *)
Inductive expands : skl -> list piece -> Prop :=
| X_nil : expands SNil []
| X_open n at_ r ps : expands r ps -> expands (SCons (KOpen n) r) (POpen n at_ :: ps)
| X_close n r ps : expands r ps -> expands (SCons (KClose n) r) (PClose n :: ps)
| X_void n at_ r ps : expands r ps -> expands (SCons (KVoid n) r) (POpen n at_ :: ps)
| X_text t r ps : expands r ps -> expands (SCons KText r) (PText t :: ps)
| X_text_none r ps : expands r ps -> expands (SCons KText r) ps
| X_site i q r ps : balanced_frag q -> expands r ps -> expands (SCons (KSite i) r) (q ++ ps)
| X_if a b pb r ps : alt_in b a -> expands b pb -> expands r ps -> expands (SCons (KIf a) r) (pb ++ ps)
| X_for_done b r ps : expands r ps -> expands (SCons (KFor b) r) ps
| X_for_step b pb r ps : expands b pb -> expands (SCons (KFor b) r) ps -> expands (SCons (KFor b) r) (pb ++ ps)
| X_call key b pb r ps : sk_lookup tbl key = Some b -> expands b pb -> expands r ps -> expands (SCons (KCall key) r) (pb ++ ps).
End Check.

(* output sites: the value inserted at the site cannot carry DSDL free text unescaped.
   text position: constant, number, identifier, escaped as a whole, or markup filter; attribute / script / title position:
   not the markup filter either.  A template for which autoescape is selected escapes every site. *)
Definition site_safe (s : site) : bool :=
  autoescape_selected (st_template s)
  || (if st_ctx s =? 0 then st_cls s <=? 4 else st_cls s <=? 3).
Definition all_dsdl_text_sinks_escaped : bool := forallb site_safe html_sites.
Definition unsafe_sites : list site := filter (fun s => negb (site_safe s)) html_sites.
