(* C20 -- checker for the regenerated template skeletons, their expansions, and the output-site predicate.  No proofs. *)
From Coq Require Import String.
From Verif Require Export HtmlModel HtmlSkelBase Gen_HtmlSkel.
Open Scope N_scope.

Fixpoint sk_lookup (tbl : list (str * skl)) (k : str) : option skl :=
  match tbl with
  | [] => None
  | (k', b) :: r => if str_eqb k k' then Some b else sk_lookup r k
  end.

Definition is_empty_stack (o : option (list str)) : bool := match o with Some [] => true | _ => false end.

(* stack discipline over a skeleton: sequences are checked with a stack; every alternative of an `if`, every loop body and
   (through the table check) every macro / included template must be balanced on its own; output sites are neutral *)
Section Check.
Variable tbl : list (str * skl).

Fixpoint sk_chk (stk : list str) (s : skl) {struct s} : option (list str) :=
  match s with
  | SNil => Some stk
  | SCons k r =>
      match k with
      | KOpen n => if str_in n void_elements then None else sk_chk (n :: stk) r
      | KClose n => match stk with
                    | m :: stk' => if str_eqb n m then sk_chk stk' r else None
                    | [] => None
                    end
      | KVoid n => if str_in n void_elements then sk_chk stk r else None
      | KText => sk_chk stk r
      | KSite _ => sk_chk stk r
      | KIf a => if alts_chk a then sk_chk stk r else None
      | KFor b => if is_empty_stack (sk_chk [] b) then sk_chk stk r else None
      | KCall key => match sk_lookup tbl key with Some _ => sk_chk stk r | None => None end
      end
  end
with alts_chk (a : alts) {struct a} : bool :=
  match a with
  | ANone => true
  | AAlt b r => is_empty_stack (sk_chk [] b) && alts_chk r
  end.

Definition skeleton_balanced (s : skl) : bool := is_empty_stack (sk_chk [] s).
Definition table_balanced : bool := forallb (fun e => skeleton_balanced (snd e)) tbl.

Fixpoint alt_in (b : skl) (a : alts) : Prop :=
  match a with ANone => False | AAlt b' r => b = b' \/ alt_in b r end.

(* every instantiation of the control structure: any branch, any number of loop iterations, any attributes on the literal
   tags, any character data, any BALANCED fragment at an output site (escaped text, display_type markup, ...), macro calls
   and includes expanded through the table (recursion included: a derivation is finite) *)
Inductive expands : skl -> list piece -> Prop :=
| X_nil : expands SNil []
| X_open n at_ r ps : expands r ps -> expands (SCons (KOpen n) r) (POpen n at_ :: ps)
| X_close n r ps : expands r ps -> expands (SCons (KClose n) r) (PClose n :: ps)
| X_void n at_ r ps : expands r ps -> expands (SCons (KVoid n) r) (POpen n at_ :: ps)
| X_text t r ps : expands r ps -> expands (SCons KText r) (PText t :: ps)
| X_text_none r ps : expands r ps -> expands (SCons KText r) ps
| X_site i q r ps : balanced_frag q -> expands r ps -> expands (SCons (KSite i) r) (q ++ ps)
| X_if a b pb r ps : alt_in b a -> expands b pb -> expands r ps -> expands (SCons (KIf a) r) (pb ++ ps)
| X_for_done b r ps : expands r ps -> expands (SCons (KFor b) r) ps
| X_for_step b pb r ps : expands b pb -> expands (SCons (KFor b) r) ps -> expands (SCons (KFor b) r) (pb ++ ps)
| X_call key b pb r ps : sk_lookup tbl key = Some b -> expands b pb -> expands r ps -> expands (SCons (KCall key) r) (pb ++ ps).
End Check.

(* output sites: the value inserted at the site cannot carry DSDL free text unescaped.
   text position: constant, number, identifier, escaped as a whole, or markup filter; attribute / script / title position:
   not the markup filter either.  A template for which autoescape is selected escapes every site. *)
Definition site_safe (s : site) : bool :=
  (autoescape_selected (st_template s) && negb (st_safe_filter s))
  || (if st_ctx s =? 0 then st_cls s <=? 4 else st_cls s <=? 3).
Definition all_dsdl_text_sinks_escaped : bool := forallb site_safe html_sites.
Definition unsafe_sites : list site := filter (fun s => negb (site_safe s)) html_sites.

(* The inlining structure the hand-mirrored emitter (HtmlModel.v) assumes: which macro calls / includes which, under which
   loops (0) and conditions (1 if, 2 elif with the earlier conditions, 3 else with all conditions).  emit_ns inlines EVERY
   nested namespace (unconditionally, in a loop) and every type whose short name is not `_`; emit_ty recurses into array
   elements that are composites and into array-/composite-typed attributes.  The regenerated table must be exactly this:
   a depth cut, an extra guard or a dropped recursion changes html_call_guards. *)
Definition expected_call_guards : list (str * str * list (N * str)) := Eval vm_compute in [
  (lit "DelimitedType.j2", lit "type_base.j2", []);
  (lit "Namespace.j2", lit "sidebar.j2", []);
  (lit "Namespace.j2", lit "namespace_info.j2:generate_namespace_info", []);
  (lit "StructureType.j2", lit "type_base.j2", []);
  (lit "UnionType.j2", lit "type_base.j2", []);
  (lit "namespace_info.j2:generate_namespace_info", lit "type_info.j2:generate_type_info", [(0, lit "type, _ in t.get_nested_types() | natural_sort_type"); (1, lit "type.short_name != ""_""")]);
  (lit "namespace_info.j2:generate_namespace_info", lit "namespace_info.j2:generate_namespace_info", [(0, lit "type in t.get_nested_namespaces() | natural_sort_namespace")]);
  (lit "sidebar.j2:generate_sidebar_view", lit "sidebar.j2:generate_sidebar_view", [(0, lit "type in t.get_nested_namespaces() | natural_sort_namespace")]);
  (lit "sidebar.j2", lit "sidebar.j2:generate_sidebar_view", []);
  (lit "type_info.j2:generate_type_info", lit "type_info.j2:generate_type_info", [(1, lit "t is ArrayType"); (1, lit "t.element_type is CompositeType")]);
  (lit "type_info.j2:generate_type_info", lit "type_info.j2:generate_type_info", [(3, lit "t is ArrayType / else"); (3, lit "t.attributes | length == 0 / else"); (0, lit "attr in t.attributes"); (1, lit "attr.data_type is ArrayType")]);
  (lit "type_info.j2:generate_type_info", lit "type_info.j2:generate_type_info", [(3, lit "t is ArrayType / else"); (3, lit "t.attributes | length == 0 / else"); (0, lit "attr in t.attributes"); (2, lit "attr.data_type is ArrayType / attr.data_type is CompositeType")])]%string.
