(* C20 -- checker for the regenerated template skeletons, their expansions, and the output-site predicate.  No proofs. *)
From Coq Require Import String.
From Verif Require Export HtmlModel HtmlSkelBase Gen_HtmlSkel.
Open Scope N_scope.

Fixpoint sk_lookup (tbl : list (str * skl)) (k : str) : option skl :=
  match tbl with
  | [] => None
  | (k', b) :: r => if str_eqb k k' then Some b else sk_lookup r k
  end.

Definition is_empty_stack (o : option (list str)) : bool := match o with Some [] => true | _ => false end.

(* stack discipline over a skeleton: sequences are checked with a stack; every alternative of an `if`, every loop body and
   (through the table check) every macro / included template must be balanced on its own; output sites are neutral *)
Section Check.
Variable tbl : list (str * skl).

Fixpoint sk_chk (stk : list str) (s : skl) {struct s} : option (list str) :=
  match s with
  | SNil => Some stk
  | SCons k r =>
      match k with
      | KOpen n => if str_in n void_elements then None else sk_chk (n :: stk) r
      | KClose n => match stk with
                    | m :: stk' => if str_eqb n m then sk_chk stk' r else None
                    | [] => None
                    end
      | KVoid n => if str_in n void_elements then sk_chk stk r else None
      | KText => sk_chk stk r
      | KSite _ => sk_chk stk r
      | KIf a => if alts_chk a then sk_chk stk r else None
      | KFor b => if is_empty_stack (sk_chk [] b) then sk_chk stk r else None
      | KCall key => match sk_lookup tbl key with Some _ => sk_chk stk r | None => None end
      end
  end
with alts_chk (a : alts) {struct a} : bool :=
  match a with
  | ANone => true
  | AAlt b r => is_empty_stack (sk_chk [] b) && alts_chk r
  end.

Definition skeleton_balanced (s : skl) : bool := is_empty_stack (sk_chk [] s).
Definition table_balanced : bool := forallb (fun e => skeleton_balanced (snd e)) tbl.

Fixpoint alt_in (b : skl) (a : alts) : Prop :=
  match a with ANone => False | AAlt b' r => b = b' \/ alt_in b r end.

(* every instantiation of the control structure: any branch, any number of loop iterations, any attributes on the literal
   tags, any character data, any BALANCED fragment at an output site (escaped text, display_type markup, ...), macro calls
   and includes expanded through the table (recursion included: a derivation is finite) *)
Inductive expands : skl -> list piece -> Prop :=
| X_nil : expands SNil []
| X_open n at_ r ps : expands r ps -> expands (SCons (KOpen n) r) (POpen n at_ :: ps)
| X_close n r ps : expands r ps -> expands (SCons (KClose n) r) (PClose n :: ps)
| X_void n at_ r ps : expands r ps -> expands (SCons (KVoid n) r) (POpen n at_ :: ps)
| X_text t r ps : expands r ps -> expands (SCons KText r) (PText t :: ps)
| X_text_none r ps : expands r ps -> expands (SCons KText r) ps
| X_site i q r ps : balanced_frag q -> expands r ps -> expands (SCons (KSite i) r) (q ++ ps)
| X_if a b pb r ps : alt_in b a -> expands b pb -> expands r ps -> expands (SCons (KIf a) r) (pb ++ ps)
| X_for_done b r ps : expands r ps -> expands (SCons (KFor b) r) ps
| X_for_step b pb r ps : expands b pb -> expands (SCons (KFor b) r) ps -> expands (SCons (KFor b) r) (pb ++ ps)
| X_call key b pb r ps : sk_lookup tbl key = Some b -> expands b pb -> expands r ps -> expands (SCons (KCall key) r) (pb ++ ps).
End Check.

(* output sites: the value inserted at the site cannot carry DSDL free text unescaped.
   text position: constant, number, identifier, escaped as a whole, or markup filter; attribute / script / title position:
   not the markup filter either.  A template for which autoescape is selected escapes every site. *)
Definition site_safe (s : site) : bool :=
  (autoescape_selected (st_template s) && negb (st_safe_filter s))
  || (if st_ctx s =? 0 then st_cls s <=? 4 else st_cls s <=? 3).
Definition all_dsdl_text_sinks_escaped : bool := forallb site_safe html_sites.
Definition unsafe_sites : list site := filter (fun s => negb (site_safe s)) html_sites.

(* The inlining structure the hand-mirrored emitter (HtmlModel.v) assumes: which macro calls / includes which, under which
   loops (0) and conditions (1 if, 2 elif with the earlier conditions, 3 else with all conditions).  emit_ns inlines EVERY
   nested namespace (unconditionally, in a loop) and every type whose short name is not `_`; emit_ty recurses into array
   elements that are composites and into array-/composite-typed attributes.  The regenerated table must be exactly this:
   a depth cut, an extra guard or a dropped recursion changes html_call_guards. *)
Definition expected_call_guards : list (str * str * list (N * str)) := Eval vm_compute in [
  (lit "DelimitedType.j2", lit "type_base.j2", []);
  (lit "Namespace.j2", lit "sidebar.j2", []);
  (lit "Namespace.j2", lit "namespace_info.j2:generate_namespace_info", []);
  (lit "StructureType.j2", lit "type_base.j2", []);
  (lit "UnionType.j2", lit "type_base.j2", []);
  (lit "namespace_info.j2:generate_namespace_info", lit "type_info.j2:generate_type_info", [(0, lit "type, _ in t.get_nested_types() | natural_sort_type"); (1, lit "type.short_name != ""_""")]);
  (lit "namespace_info.j2:generate_namespace_info", lit "namespace_info.j2:generate_namespace_info", [(0, lit "type in t.get_nested_namespaces() | natural_sort_namespace")]);
  (lit "sidebar.j2:generate_sidebar_view", lit "sidebar.j2:generate_sidebar_view", [(0, lit "type in t.get_nested_namespaces() | natural_sort_namespace")]);
  (lit "sidebar.j2", lit "sidebar.j2:generate_sidebar_view", []);
  (lit "type_info.j2:generate_type_info", lit "type_info.j2:generate_type_info", [(1, lit "t is ArrayType"); (1, lit "t.element_type is CompositeType")]);
  (lit "type_info.j2:generate_type_info", lit "type_info.j2:generate_type_info", [(3, lit "t is ArrayType / else"); (3, lit "t.attributes | length == 0 / else"); (0, lit "attr in t.attributes"); (1, lit "attr.data_type is ArrayType")]);
  (lit "type_info.j2:generate_type_info", lit "type_info.j2:generate_type_info", [(3, lit "t is ArrayType / else"); (3, lit "t.attributes | length == 0 / else"); (0, lit "attr in t.attributes"); (2, lit "attr.data_type is ArrayType / attr.data_type is CompositeType")])]%string.

(* ---------------------------------------------------------------------------------------- *)
(* classification of output expressions, done HERE from a visible whitelist                  *)
(* ---------------------------------------------------------------------------------------- *)
(* classes: 0 constant, 1 number, 2 DSDL identifier / type expression, 3 escaped as a whole, 4 display_type markup,
   8 documentation text, 9 not classified.  join = max. *)
Definition w_ident_attrs : list str := Eval vm_compute in
  map lit ["full_name"; "full_namespace"; "short_name"; "name"; "root_namespace"; "element_type"]%string.
Definition w_num_attrs : list str := Eval vm_compute in map lit ["fixed_port_id"; "capacity"; "extent"; "major"; "minor"]%string.
Definition w_esc_filters : list str := Eval vm_compute in map lit ["e"; "escape"; "forceescape"; "make_unique"]%string.
Definition w_ident_filters : list str := Eval vm_compute in map lit ["tag_id"; "url_from_type"]%string.
Definition w_num_filters : list str := Eval vm_compute in map lit ["extent"; "max_bit_length"; "length"; "count"; "int"; "float"; "round"; "abs"]%string.
Definition w_id_filters : list str := Eval vm_compute in map lit ["safe"; "string"]%string.
Definition w_display_type : str := Eval vm_compute in lit "display_type".
Definition w_T : str := Eval vm_compute in lit "T".
Definition w_make_unique : str := Eval vm_compute in lit "make_unique".

Fixpoint var_cls (vc : list (str * str * N)) (scope x : str) : option N :=
  match vc with
  | [] => None
  | (sc, y, k) :: r => if str_eqb scope sc && str_eqb x y then Some k else var_cls r scope x
  end.

Section Cls.
Variable vc : list (str * str * N).

Fixpoint cls_expr (scope : str) (e : jexpr) : N :=
  match e with
  | JStr s => if quote_free s then 0 else 9
  | JNum => 1
  | JName x => match var_cls vc scope x with Some k => k | None => if str_eqb x w_T then 2 else 9 end
  | JCond a b => N.max (cls_expr scope a) (cls_expr scope b)
  | JOr a b => N.max (cls_expr scope a) (cls_expr scope b)
  | JBoolean => 0
  | JCat a b => N.max (cls_expr scope a) (cls_expr scope b)
  | JRepeat a b => N.max (cls_expr scope a) (cls_expr scope b)
  | JArith _ _ => 1
  | JAttr _ name => if str_in name w_ident_attrs then 2 else if str_in name w_num_attrs then 1 else 9
  | JItemVersion _ => 1
  | JReplace a _ r => if quote_free r && (cls_expr scope a <=? 3) then cls_expr scope a else 9
  | JCount _ => 1
  | JFilter name a =>
      if str_in name w_esc_filters then 3
      else if str_in name w_ident_filters then 2
      else if str_in name w_num_filters then 1
      else if str_eqb name w_display_type then 4
      else if str_in name w_id_filters then cls_expr scope a
      else 9
  | JOther => 9
  end.

(* the certificate is an inductive invariant: every value a variable can receive is classified at most as claimed *)
Definition bindings_consistent (bs : list (str * str * str * jexpr)) : bool :=
  forallb (fun b => match b with (sc, x, sc', rhs) =>
                      match var_cls vc sc x with Some k => cls_expr sc' rhs <=? k | None => false end end) bs.

Definition site_cls (s : site) : N := cls_expr (st_scope s) (st_expr s).
Definition site_safe_coq (s : site) : bool :=
  (autoescape_selected (st_template s) && negb (st_safe_filter s))
  || (if st_ctx s =? 0 then site_cls s <=? 4 else site_cls s <=? 3).
End Cls.

(* every variable the certificate mentions really has a binding (an unbound name can hold anything) *)
Definition certificate_bound (vc : list (str * str * N)) (bs : list (str * str * str * jexpr)) : bool :=
  forallb (fun e => match e with (sc, x, _) =>
                      existsb (fun b => match b with (sc2, y, _, _) => str_eqb sc sc2 && str_eqb x y end) bs end) vc.

Definition sinks_classified_safe : bool :=
  bindings_consistent html_var_cls html_bindings && certificate_bound html_var_cls html_bindings
  && forallb (site_safe_coq html_var_cls) html_sites.

(* ---- what an output expression can evaluate to ---- *)
Definition markup_ok (v : str) : Prop := exists ps, v = render ps /\ pieces_ok ps = true /\ balanced_frag ps.
Definition val_ok (k : N) (v : str) : Prop :=
  if k <=? 3 then quote_free v = true else if k =? 4 then markup_ok v else True.

Section Evals.
Variable bs : list (str * str * str * jexpr).

(* possible printed values.  The DSDL grammar enters as the side conditions `quote_free v` on identifier / number leaves
   and on the results of tag_id, url_from_type and the numeric filters (proved for the translated filters under tinfo_ok:
   qf_tag_id, qf_url); documentation attributes, unknown attributes, unknown filters and unbound names are ARBITRARY strings *)
Inductive evals : str -> jexpr -> str -> Prop :=
| V_str sc s : evals sc (JStr s) s
| V_num sc v : quote_free v = true -> evals sc JNum v
| V_name sc x sc' rhs v : In (sc, x, sc', rhs) bs -> evals sc' rhs v -> evals sc (JName x) v
| V_name_T sc v : quote_free v = true -> evals sc (JName w_T) v
| V_name_free sc x v : (forall sc' rhs, ~ In (sc, x, sc', rhs) bs) -> str_eqb x w_T = false -> evals sc (JName x) v
| V_cond_l sc a b v : evals sc a v -> evals sc (JCond a b) v
| V_cond_r sc a b v : evals sc b v -> evals sc (JCond a b) v
| V_or_l sc a b v : evals sc a v -> evals sc (JOr a b) v
| V_or_r sc a b v : evals sc b v -> evals sc (JOr a b) v
| V_bool sc v : quote_free v = true -> evals sc JBoolean v
| V_cat sc a b va vb : evals sc a va -> evals sc b vb -> evals sc (JCat a b) (va ++ vb)
| V_cat_num sc a b v : quote_free v = true -> evals sc (JCat a b) v
| V_rep_l sc a b va k : evals sc a va -> evals sc (JRepeat a b) (concat (repeat va k))
| V_rep_r sc a b vb k : evals sc b vb -> evals sc (JRepeat a b) (concat (repeat vb k))
| V_rep_num sc a b v : quote_free v = true -> evals sc (JRepeat a b) v
| V_arith sc a b v : quote_free v = true -> evals sc (JArith a b) v
| V_attr_ident sc e name v : str_in name w_ident_attrs = true -> quote_free v = true -> evals sc (JAttr e name) v
| V_attr_num sc e name v : str_in name w_num_attrs = true -> quote_free v = true -> evals sc (JAttr e name) v
| V_attr_any sc e name v : str_in name w_ident_attrs = false -> str_in name w_num_attrs = false -> evals sc (JAttr e name) v
| V_version sc e v : quote_free v = true -> evals sc (JItemVersion e) v
| V_replace sc e c r v : evals sc e v -> evals sc (JReplace e c r) (str_replace1 c r v)
| V_count sc e v : quote_free v = true -> evals sc (JCount e) v
| V_f_escape sc name e v : str_in name w_esc_filters = true -> str_eqb name w_make_unique = false ->
                           evals sc e v -> evals sc (JFilter name e) (markupsafe_escape v)
| V_f_unique sc e v st : evals sc e v -> evals sc (JFilter w_make_unique e) (snd (filter_make_unique st v))
| V_f_ident sc name e v : str_in name w_ident_filters = true -> quote_free v = true -> evals sc (JFilter name e) v
| V_f_num sc name e v : str_in name w_num_filters = true -> quote_free v = true -> evals sc (JFilter name e) v
| V_f_disp_t sc e d : dtype_ok d = true -> evals sc (JFilter w_display_type e) (filter_display_type (node_of_dtype d))
| V_f_disp_i sc e di : dinst_ok di = true -> evals sc (JFilter w_display_type e) (filter_display_type (node_of_dinst di))
| V_f_id sc name e v : str_in name w_id_filters = true -> evals sc e v -> evals sc (JFilter name e) v
| V_f_any sc name e v : str_in name w_esc_filters = false -> str_in name w_ident_filters = false -> str_in name w_num_filters = false ->
                        str_eqb name w_display_type = false -> str_in name w_id_filters = false -> evals sc (JFilter name e) v
| V_other sc v : evals sc JOther v.
End Evals.
