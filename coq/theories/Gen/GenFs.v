(* A generator run as a step on a file-system state (shared by C12 and C08).

   What is modelled (src/nunavut/jinja/__init__.py, _postprocessors.py, cli/runners.py):
     fs        finite map  path -> (content id, permission bits); content ids are abstract
     world     what the process may do: superuser (root ignores permission bits), the mode a
               newly created file gets (0o666 & ~umask), the target paths whose parent
               directory denies creating entries (a foreign read-only directory)
     effects   the operating-system calls a run makes on the output directory, in order:
               chmod, mkdir -p, open-for-write (create or truncate), write; `apply_fx` is
               their semantics, `log` records them (compared with the calls the real process
               makes, observed through an os shim)
     per file  the statement order of CodeGenerator._generate_code / SupportGenerator.
               _copy_header (TRANSLATED skeletons, Generated/Gen_GenFs.v) interpreted over the
               TRANSLATED bodies of _handle_overwrite and SetFileMode.__call__
     per run   ArgparseRunner._generate (TRANSLATED plan): support generator first, then the
               type generator, each file in provider order, stopping at the first exception
   What is NOT modelled: the rendered text (a Section variable `render`: content is a function
   of configuration and target only), file ownership (every file in the output directory is
   assumed to belong to the effective user, so chmod is permitted), directories as objects,
   symbolic links, external --pp-run-program post-processors.
   Executable; proofs live in GenFsThm.v. *)
From Verif Require Export GenFsBase Gen_GenFs.
Open Scope N_scope.

Notation path := (list N) (only parsing).
Definition mode := N.
Definition cid := N.
Definition file := (cid * mode)%type.
Definition fs := list (path * file).

Fixpoint lookup (s : fs) (p : path) : option file :=
  match s with
  | [] => None
  | (q, f) :: s' => if str_eqb p q then Some f else lookup s' p
  end.

Fixpoint update (s : fs) (p : path) (f : file) : fs :=
  match s with
  | [] => [(p, f)]
  | (q, g) :: s' => if str_eqb p q then (q, f) :: s' else (q, g) :: update s' p f
  end.

Definition dom (s : fs) : list path := map fst s.

Record world := {
  superuser : bool;          (* effective uid 0 with CAP_DAC_OVERRIDE: permission bits are not enforced *)
  default_mode : mode;       (* 0o666 & ~umask *)
  nowrite : list path        (* paths that cannot be created because their directory is not writable *)
}.

Definition dir_writable (w : world) (p : path) : bool := negb (str_in p (nowrite w)).

Inductive effect :=
| FxChmod (p : path) (m : mode)
| FxMkdirP (p : path)              (* mkdir -p of the parent directory of p *)
| FxOpenW (p : path)               (* open(p, "w"): create or truncate *)
| FxWrite (p : path) (c : cid).    (* the complete text is written and the file closed *)

Definition cid_trunc : cid := 0.   (* content of a file that was opened for writing and not written yet *)
Definition owner_write_bit : N := 7.   (* 0o200 *)

Definition apply_fx (w : world) (s : fs) (e : effect) : fs * result :=
  match e with
  | FxChmod p m =>
      match lookup s p with
      | Some (c, _) => (update s p (c, m), Ok)
      | None => (s, Err ENoEnt)
      end
  | FxMkdirP _ => (s, Ok)
  | FxOpenW p =>
      match lookup s p with
      | Some (c, m) =>
          if superuser w || N.testbit m owner_write_bit then (update s p (cid_trunc, m), Ok) else (s, Err EAccess)
      | None =>
          if superuser w || dir_writable w p then (update s p (cid_trunc, default_mode w), Ok) else (s, Err EAccess)
      end
  | FxWrite p c =>
      match lookup s p with
      | Some (_, m) => (update s p (c, m), Ok)
      | None => (s, Err ENoEnt)
      end
  end.

(* state of a run: the files, the calls made so far, what was printed on stdout (listing modes) *)
Record st := { files : fs; log : list effect; out : list path }.

Definition init_st (f : fs) : st := {| files := f; log := []; out := [] |}.

Definition exec (w : world) (e : effect) (s : st) : st * result :=
  let '(f, r) := apply_fx w (files s) e in
  ({| files := f; log := log s ++ [e]; out := out s |}, r).

Definition add_out (ps : list path) (s : st) : st :=
  {| files := files s; log := log s; out := out s ++ ps |}.

Definition seq (a b : st -> st * result) (s : st) : st * result :=
  let '(s1, r) := a s in
  match r with Ok => b s1 | Err e => (s1, Err e) end.

(* ---- translated bodies ------------------------------------------------------------- *)
Fixpoint eval_mexpr (stm fm : mode) (e : mexpr) : mode :=
  match e with
  | MConst n => n
  | MStMode => stm
  | MFileMode => fm
  | MOr a b => N.lor (eval_mexpr stm fm a) (eval_mexpr stm fm b)
  end.

Fixpoint run_prog (w : world) (allow : bool) (fm : mode) (p : path) (pr : fsprog) (s : st) : st * result :=
  match pr with
  | PSkip => (s, Ok)
  | PSeq a b => seq (run_prog w allow fm p a) (run_prog w allow fm p b) s
  | PIfExists t e =>
      match lookup (files s) p with
      | Some _ => run_prog w allow fm p t s
      | None => run_prog w allow fm p e s
      end
  | PIfAllow t e => if allow then run_prog w allow fm p t s else run_prog w allow fm p e s
  | PChmod m =>
      match lookup (files s) p with
      | Some (_, stm) => exec w (FxChmod p (eval_mexpr stm fm m)) s
      | None => exec w (FxChmod p (eval_mexpr 0 fm m)) s
      end
  | PRaise e => (s, Err e)
  end.

(* ---- configuration, inputs, targets ------------------------------------------------- *)
Record cfg := {
  c_key : N;                  (* stands for everything that may influence rendered text: language, language
                                 options, line post-processors, templates ... *)
  c_file_modes : list mode;   (* arguments of the SetFileMode file post-processors in list order;
                                 the CLI always configures exactly one: [--file-mode] (default 0o444) *)
  c_line_pps : bool;          (* at least one line post-processor is active *)
  c_no_overwrite : bool;
  c_omit_ser : bool;
  c_support : support_mode;
  c_gnt_flag : bool;          (* --generate-namespace-types *)
  c_dry_run : bool;
  c_embed_audit : bool
}.

Record item := {
  i_out : path;               (* output file *)
  i_src : path;               (* DSDL source file (source directory for a namespace) *)
  i_is_ns : bool;
  i_id : N;
  i_deps : list N             (* ids of the composite types this type refers to directly *)
}.

Record sfile := {
  s_out : path;               (* output file *)
  s_res : path;               (* packaged resource *)
  s_is_template : bool;       (* suffix .j2: rendered; otherwise copied *)
  s_rtype : restype;
  s_mode : mode               (* permission bits of the packaged resource (shutil.copy copies them) *)
}.

Record inputs := {
  in_items : list item;       (* Namespace.get_all_types() of the root namespace tree, in provider order *)
  in_lookup : list item;      (* types read from --lookup-dir namespaces: dependencies only, never generated *)
  in_support : list sfile;    (* Language.get_support_files() *)
  in_has_std_ns : bool;       (* Language.has_standard_namespace_files *)
  in_templates : list path    (* DSDLTemplateLoader.get_templates() of the type generator *)
}.

Inductive tkind := KType | KSupTemplate | KSupCopy.

Record target := { t_path : path; t_kind : tkind; t_res_mode : mode }.

Definition restype_eqb (a b : restype) : bool :=
  match a, b with RtSer, RtSer | RtType, RtType => true | _, _ => false end.

Definition arg_val (c : cfg) (a : argname) : bool :=
  match a with
  | ArgDryRun => c_dry_run c
  | ArgNoOverwrite => c_no_overwrite c
  | ArgOmitSer => c_omit_ser c
  | ArgEmbedAudit => c_embed_audit c
  end.

Definition garg_val (c : cfg) (dflt : bool) (g : garg) : bool :=
  match g with
  | ATrue => true
  | AFalse => false
  | ADefault => dflt
  | AArg a => arg_val c a
  | ANotArg a => negb (arg_val c a)
  end.

Definition gnt (c : cfg) (I : inputs) : bool :=
  generator_gnt (runner_gnt_arg (c_gnt_flag c)) (in_has_std_ns I).

Definition gatom_val (c : cfg) (I : inputs) (a : gatom) : bool :=
  match a with
  | GdNotOnly => negb (support_mode_eqb (c_support c) SupOnly)
  | GdShouldSupport => should_generate_support (c_support c) (c_omit_ser c)
  | GdGnt => gnt c I
  | GdNotGnt => negb (gnt c I)
  end.

Definition datatypes (I : inputs) : list item := filter (fun i => negb (i_is_ns i)) (in_items I).

(* `self.namespace.get_all_types if self.generate_namespace_types else self.namespace.get_all_datatypes` *)
Definition provider (c : cfg) (I : inputs) : list item := if gnt c I then in_items I else datatypes I.

(* SupportGenerator.get_templates(omit_serialization_support) *)
Definition support_files (omit : bool) (I : inputs) : list sfile :=
  flat_map (fun gr : bool * restype =>
              if fst gr && omit then []
              else filter (fun f => restype_eqb (s_rtype f) (snd gr)) (in_support I))
           support_get_templates_plan.

Definition type_target (i : item) : target := {| t_path := i_out i; t_kind := KType; t_res_mode := 0 |}.

Definition sup_target (f : sfile) : target :=
  {| t_path := s_out f; t_kind := if s_is_template f then KSupTemplate else KSupCopy; t_res_mode := s_mode f |}.

Definition gen_targets (c : cfg) (I : inputs) (g : gen) (omit : bool) : list target :=
  match g with
  | GenTypes => map type_target (provider c I)
  | GenSupport => map sup_target (support_files omit I)
  end.

Definition dflt_dry : bool := fst (fst generate_all_defaults).
Definition dflt_allow : bool := snd (fst generate_all_defaults).
Definition dflt_omit : bool := snd generate_all_defaults.

(* the files a plan writes (when not a dry run), in order *)
Definition act_targets (c : cfg) (I : inputs) (a : pact) : list target :=
  match a with
  | ActGenerateAll g _ _ omit _ => gen_targets c I g (garg_val c dflt_omit omit)
  | _ => []
  end.

Definition plan_targets (c : cfg) (I : inputs) (pl : plan) : list target :=
  flat_map (fun ga : list gatom * pact =>
              if forallb (gatom_val c I) (fst ga) then act_targets c I (snd ga) else []) pl.

Definition run_targets (c : cfg) (I : inputs) : list target := plan_targets c I generate_plan.

Definition paths (ts : list target) : list path := map t_path ts.

(* ---- semantics of a run --------------------------------------------------------------- *)
Section Render.
  Variable render : cfg -> target -> cid.

  Definition skel_of (k : tkind) : list gstep :=
    match k with KType | KSupTemplate => generate_code_skel | KSupCopy => copy_header_skel end.

  Definition guard_of (k : tkind) : bool :=
    match k with
    | KType => generate_type_dry_guard
    | KSupTemplate => generate_header_dry_guard
    | KSupCopy => copy_header_dry_guard
    end.

  Fixpoint run_file_pps (w : world) (allow : bool) (p : path) (fms : list mode) (s : st) : st * result :=
    match fms with
    | [] => (s, Ok)
    | fm :: r => seq (run_prog w allow fm p set_file_mode_prog) (run_file_pps w allow p r) s
    end.

  Definition run_gstep (w : world) (c : cfg) (allow : bool) (t : target) (g : gstep) : st -> st * result :=
    let p := t_path t in
    match g with
    | GHandleOverwrite => run_prog w allow 0 p handle_overwrite_prog
    | GMkdirParents => exec w (FxMkdirP p)
    | GOpenWrite => seq (exec w (FxOpenW p)) (exec w (FxWrite p (render c t)))
    | GCopyOrOpenWrite =>
        if c_line_pps c then seq (exec w (FxOpenW p)) (exec w (FxWrite p (render c t)))
        else (* shutil.copy = copyfile + copymode *)
          seq (exec w (FxOpenW p)) (seq (exec w (FxWrite p (render c t))) (exec w (FxChmod p (t_res_mode t))))
    | GFilePPs => run_file_pps w allow p (c_file_modes c)
    end.

  Fixpoint run_skel (w : world) (c : cfg) (allow : bool) (t : target) (sk : list gstep) (s : st) : st * result :=
    match sk with
    | [] => (s, Ok)
    | g :: r => seq (run_gstep w c allow t g) (run_skel w c allow t r) s
    end.

  (* _generate_type / _generate_header / _copy_header *)
  Definition gen_target (w : world) (c : cfg) (dry allow : bool) (t : target) (s : st) : st * result :=
    if dry && guard_of (t_kind t) then (s, Ok) else run_skel w c allow t (skel_of (t_kind t)) s.

  (* the loop of generate_all: an exception ends the run *)
  Fixpoint gen_all (w : world) (c : cfg) (dry allow : bool) (ts : list target) (s : st) : st * result :=
    match ts with
    | [] => (s, Ok)
    | t :: r => seq (gen_target w c dry allow t) (gen_all w c dry allow r) s
    end.

  Definition run_act (w : world) (c : cfg) (I : inputs) (a : pact) (s : st) : st * result :=
    match a with
    | ActGenerateAll g dry allow omit listed =>
        let ts := gen_targets c I g (garg_val c dflt_omit omit) in
        let '(s1, r) := gen_all w c (garg_val c dflt_dry dry) (garg_val c dflt_allow allow) ts s in
        match r with
        | Ok => (if listed then add_out (paths ts) s1 else s1, Ok)
        | Err e => (s1, Err e)
        end
    | ActListTemplates g omit =>
        (add_out (match g with
                  | GenTypes => in_templates I
                  | GenSupport => map s_res (support_files (garg_val c dflt_omit omit) I)
                  end) s, Ok)
    | ActListSources all => (add_out (map i_src (if all then in_items I else datatypes I)) s, Ok)
    end.

  Fixpoint run_plan (w : world) (c : cfg) (I : inputs) (pl : plan) (s : st) : st * result :=
    match pl with
    | [] => (s, Ok)
    | ga :: r =>
        if forallb (gatom_val c I) (fst ga) then seq (run_act w c I (snd ga)) (run_plan w c I r) s
        else run_plan w c I r s
    end.

  (* nnvg in generating mode (also --dry-run): argument check, then ArgparseRunner._generate *)
  Definition step (w : world) (c : cfg) (I : inputs) (s : st) : st * result :=
    if args_rejected (c_omit_ser c) (c_support c) then (s, Err EArgs) else run_plan w c I generate_plan s.

  Definition step_fs (w : world) (c : cfg) (I : inputs) (f : fs) : fs * result :=
    let '(s, r) := step w c I (init_st f) in (files s, r).

  (* a history of runs into the same directory; the inputs may change between runs *)
  Definition run_history (w : world) (h : list (cfg * inputs)) (f : fs) : fs :=
    fold_left (fun f ci => fst (step_fs w (fst ci) (snd ci) f)) h f.

  (* histories with the observable of every step (used by the extracted driver) *)
  Fixpoint run_history_trace (w : world) (h : list (cfg * inputs)) (f : fs) : list (fs * list effect * result) :=
    match h with
    | [] => []
    | ci :: r =>
        let '(s, res) := step w (fst ci) (snd ci) (init_st f) in
        (files s, log s, res) :: run_history_trace w r (files s)
    end.
End Render.

(* the requested permission bits: the last SetFileMode wins *)
Definition requested_mode (c : cfg) : option mode :=
  match rev (c_file_modes c) with [] => None | m :: _ => Some m end.

(* the last target of a run that writes p *)
Fixpoint last_target (ts : list target) (p : path) : option target :=
  match ts with
  | [] => None
  | t :: r =>
      match last_target r p with
      | Some x => Some x
      | None => if str_eqb p (t_path t) then Some t else None
      end
  end.

(* a world in which nothing is forbidden by directories: an empty, freshly created output directory *)
Definition fresh_world (w : world) : world :=
  {| superuser := superuser w; default_mode := default_mode w; nowrite := [] |}.
