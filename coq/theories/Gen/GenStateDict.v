(* Python dicts with str keys as association lists, and Python's str(int) / f"{int}" --
   the vocabulary the translated UniqueNameGenerator (Generated/Gen_Uniq.v) is written in.
   Executable definitions only; lemmas live in GenStateThm.v. *)
From Verif Require Export Str.
Open Scope N_scope.

Definition dict (V : Type) := list (str * V).

(* d[k]  (None = KeyError) *)
Fixpoint dict_get {V : Type} (d : dict V) (k : str) : option V :=
  match d with
  | [] => None
  | (k', v) :: d' => if str_eqb k k' then Some v else dict_get d' k
  end.

(* d[k] = v : replaces the value of an existing key in place, appends a new key at the end
   (Python dicts keep insertion order) *)
Fixpoint dict_set {V : Type} (d : dict V) (k : str) (v : V) : dict V :=
  match d with
  | [] => [(k, v)]
  | (k', v') :: d' => if str_eqb k k' then (k', v) :: d' else (k', v') :: dict_set d' k v
  end.

(* the inner dict object stored under k in a dict of dicts; used only after the translated code has
   made sure that the key exists *)
Definition dict_sub {V : Type} (d : dict (dict V)) (k : str) : dict V :=
  match dict_get d k with Some m => m | None => [] end.

(* ---- decimal rendering of integers: f"{n}" ---- *)
Fixpoint dec_digits (fuel : nat) (n : N) (acc : str) : str :=
  match fuel with
  | O => acc
  | S f =>
      let acc' := (48 + n mod 10) :: acc in
      if n / 10 =? 0 then acc' else dec_digits f (n / 10) acc'
  end.

(* a number has at most as many decimal digits as binary digits *)
Definition dec_of_N (n : N) : str := dec_digits (S (N.size_nat n)) n [].

Definition dec_of_Z (z : Z) : str :=
  match z with
  | Z0 => [48]
  | Zpos p => dec_of_N (Npos p)
  | Zneg p => 45 :: dec_of_N (Npos p)
  end.
