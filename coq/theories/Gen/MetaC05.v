(* C05 model: the values the generated code exports, computed the way the templates compute them.
   Everything here is executable and built from
     - Generated/Gen_C05.v: the T2 translations of filter_bits2bytes_ceil, _CFit.get_best_fit, filter_to_standard_bit_length and of the
       integer / float branches of filter_literal, and the template scan (exported_table, c_capcheck, cpp_capcheck);
     - Spec/Meta.v (extent, bmax as functions of the DSDL type), Spec/Wire.v (ser_spec), Codec/Walker.v (walk_ser).
   No proofs in this file (it is extracted by coq/extraction/ExtractC05.v). *)
From Coq Require Import List NArith ZArith Bool.
From Verif Require Import Str Wire Walker MetaC05Base MetaC05Rne Gen_C05.
Import ListNotations.
Local Open Scope Z_scope.

(* ---- exported numeric constants ---- *)
Fixpoint meval (e : mexp) (t : ty) : option Z :=
  match e with
  | MSrc s => Some (src_val s t)
  | MFloorDiv8 a => match meval a t with Some x => Some (x / 8) | None => None end
  | MB2B a => match meval a t with Some x => filter_bits2bytes_ceil x | None => None end
  | MMul8 a => match meval a t with Some x => Some (8 * x) | None => None end
  end.

Definition mtarget_eqb (a b : mtarget) : bool :=
  match a, b with TgtC, TgtC | TgtCpp, TgtCpp | TgtPy, TgtPy => true | _, _ => false end.
Definition mkey_eqb (a b : mkey) : bool :=
  match a, b with
  | KExtentBytes, KExtentBytes | KBufferBytes, KBufferBytes | KCap, KCap | KUnionCount, KUnionCount | KPortId, KPortId
  | KFullName, KFullName | KConst, KConst | KSvcPortId, KSvcPortId => true
  | _, _ => false
  end.

Definition exports_of (tg : mtarget) (k : mkey) : list mexp :=
  map ex_exp (filter (fun x => mtarget_eqb (ex_tgt x) tg && mkey_eqb (ex_key x) k) exported_table).

(* value of an exported constant of target tg for the type (or array field type) t: the first rendering site *)
Definition exported (tg : mtarget) (k : mkey) (t : ty) : option Z :=
  match exports_of tg k with e :: _ => meval e t | [] => None end.

(* what the DSDL definition says (the specification side of the table) *)
Definition key_spec (k : mkey) (t : ty) : Z :=
  match k with
  | KExtentBytes => Z.of_nat (extent t) / 8
  | KBufferBytes => Z.of_nat (bmax t) / 8
  | KCap => array_capacity t
  | KUnionCount => option_count t
  | KPortId | KFullName | KConst | KSvcPortId => -1
  end.

(* syntactic acceptability of a rendering expression for a key *)
Definition msrc_eqb (a b : msrc) : bool :=
  match a, b with
  | SrcExtent, SrcExtent | SrcInnerExtent, SrcInnerExtent | SrcInnerMax, SrcInnerMax | SrcCapacity, SrcCapacity
  | SrcFieldCount, SrcFieldCount | SrcPortId, SrcPortId | SrcFullName, SrcFullName | SrcMajor, SrcMajor | SrcMinor, SrcMinor => true
  | _, _ => false
  end.

Definition bytes_of_src (e : mexp) (ok : msrc -> bool) : bool :=
  match e with
  | MFloorDiv8 (MSrc s) | MB2B (MSrc s) => ok s
  | _ => false
  end.

Definition good_exp (k : mkey) (e : mexp) : bool :=
  match k with
  | KExtentBytes => bytes_of_src e (fun s => msrc_eqb s SrcExtent)
  | KBufferBytes => bytes_of_src e (fun s => msrc_eqb s SrcInnerExtent || msrc_eqb s SrcInnerMax)
  | KCap => match e with MSrc SrcCapacity => true | _ => false end
  | KUnionCount => match e with MSrc SrcFieldCount => true | _ => false end
  | KPortId => match e with MSrc SrcPortId => true | _ => false end
  | KFullName => match e with MSrc SrcFullName => true | _ => false end
  | KConst => false
  | KSvcPortId => match e with MSrc SrcPortId => true | _ => false end
  end.

(* every (target, key) pair the generated code is expected to export *)
Definition required_exports : list (mtarget * mkey) :=
  [(TgtC, KExtentBytes); (TgtC, KBufferBytes); (TgtC, KCap); (TgtC, KUnionCount); (TgtC, KPortId); (TgtC, KFullName);
   (TgtCpp, KExtentBytes); (TgtCpp, KBufferBytes); (TgtCpp, KUnionCount); (TgtCpp, KPortId);
   (TgtPy, KExtentBytes); (TgtPy, KPortId); (TgtPy, KSvcPortId)].

Definition table_ok : bool :=
  forallb (fun x => good_exp (ex_key x) (ex_exp x)) exported_table
  && forallb (fun '(tg, k) => negb (match exports_of tg k with [] => true | _ => false end)) required_exports.

(* ---- boolean constants (translated BooleanType branch of filter_literal), names, Python class constants ---- *)
Definition bool_token_denotes (s : str) : option bool :=
  if lstr_eqb s [116; 114; 117; 101]%N then Some true else if lstr_eqb s [102; 97; 108; 115; 101]%N then Some false else None.

Definition c_full_name (m : tmeta) : option str := render_pieces (name_attr m) c_full_name_tpl.
Definition c_full_name_and_version (m : tmeta) : option str := render_pieces (name_attr m) c_full_name_and_version_tpl.
Definition py_const_token (v : cvalue) : option str :=
  render_pieces (const_attr v) (match v with CVBool _ => py_bool_const_tpl | CVInt _ => py_int_const_tpl | CVFrac _ _ => py_float_const_tpl end).

(* ---- emit conditions ---- *)
Definition emits_of (tg : mtarget) (k : mkey) : list (list mcond) :=
  map em_conds (filter (fun x => mtarget_eqb (em_tgt x) tg && mkey_eqb (em_key x) k) emit_table).

Definition good_emit (k : mkey) (cs : list mcond) : bool :=
  match k, cs with
  | KPortId, [CondHas SrcPortId] | KPortId, [CondNotNone SrcPortId] => true
  | KSvcPortId, [CondHas SrcPortId] | KSvcPortId, [CondNotNone SrcPortId] => true
  | KConst, [CondEach] => true
  | KCap, [CondEachArray] => true
  | KExtentBytes, [CondNotService] | KBufferBytes, [CondNotService] => true
  | _, _ => false
  end.

Definition required_emits : list (mtarget * mkey) :=
  [(TgtC, KPortId); (TgtCpp, KPortId); (TgtPy, KPortId); (TgtPy, KSvcPortId); (TgtC, KConst); (TgtCpp, KConst); (TgtPy, KConst); (TgtC, KCap);
   (TgtC, KExtentBytes); (TgtC, KBufferBytes)].

Definition emit_ok : bool :=
  forallb (fun x => good_emit (em_key x) (em_conds x)) emit_table
  && forallb (fun '(tg, k) => match emits_of tg k with [_] => true | _ => false end) required_emits.

(* Jinja truth of the scanned condition for a type whose fixed port id is p (None = no fixed port id) *)
Definition port_cond_holds (c : mcond) (p : option Z) : option bool :=
  match c with
  | CondHas SrcPortId | CondNotNone SrcPortId => Some (match p with Some _ => true | None => false end)
  | CondTruthy SrcPortId => Some (match p with Some 0 | None => false | Some _ => true end)
  | _ => None
  end.

Fixpoint port_conds_hold (cs : list mcond) (p : option Z) : option bool :=
  match cs with
  | [] => Some true
  | c :: r => match port_cond_holds c p, port_conds_hold r p with Some a, Some b => Some (a && b) | _, _ => None end
  end.

(* the fixed port id target tg exports for a type whose DSDL fixed port id is p: Some None = the "no fixed port id" branch,
   None = the scan is not understood *)
Definition exported_port_k (tg : mtarget) (k : mkey) (p : option Z) : option (option Z) :=
  match emits_of tg k, exports_of tg k with
  | [cs], MSrc SrcPortId :: _ => match port_conds_hold cs p with Some true => Some p | Some false => Some None | None => None end
  | _, _ => None
  end.
Definition exported_port (tg : mtarget) (p : option Z) : option (option Z) := exported_port_k tg KPortId p.

(* ---- every exported name has a row: what the DSDL definition says about it (tools/checks/c05.py compares each row, read from
   compiled code by tools/harness/c05_probe.py or the codec runners, with pydsdl) ---- *)
Inductive mrow : Type :=
| RHasFixedPortId | RFixedPortId | RFullName | RFullNameAndVersion | RExtentBytes | RBufferBytes | RConstant | RArrayCapacity
| RArrayIsVariable | RUnionCount | RIsServiceType | RIsService | RIsRequest | RIsResponse
| RServiceAlias               (* the Request / Response aliases of the C++ service wrapper *)
| RInternalOverrideSwitch.    (* _DISABLE_SERIALIZATION_BUFFER_CHECK_: only with enable_override_variable_array_capacity, not metadata *)

Definition c_rows : list (str * mrow) :=
  [
    ([95; 72; 65; 83; 95; 70; 73; 88; 69; 68; 95; 80; 79; 82; 84; 95; 73; 68; 95]%N, RHasFixedPortId);
    ([95; 70; 73; 88; 69; 68; 95; 80; 79; 82; 84; 95; 73; 68; 95]%N, RFixedPortId);
    ([95; 70; 85; 76; 76; 95; 78; 65; 77; 69; 95]%N, RFullName);
    ([95; 70; 85; 76; 76; 95; 78; 65; 77; 69; 95; 65; 78; 68; 95; 86; 69; 82; 83; 73; 79; 78; 95]%N, RFullNameAndVersion);
    ([95; 69; 88; 84; 69; 78; 84; 95; 66; 89; 84; 69; 83; 95]%N, RExtentBytes);
    ([95; 83; 69; 82; 73; 65; 76; 73; 90; 65; 84; 73; 79; 78; 95; 66; 85; 70; 70; 69; 82; 95; 83; 73; 90; 69; 95; 66; 89; 84; 69; 83; 95]%N, RBufferBytes);
    ([95; 60; 99; 111; 110; 115; 116; 62]%N, RConstant);
    ([95; 60; 102; 105; 101; 108; 100; 62; 95; 65; 82; 82; 65; 89; 95; 67; 65; 80; 65; 67; 73; 84; 89; 95]%N, RArrayCapacity);
    ([95; 68; 73; 83; 65; 66; 76; 69; 95; 83; 69; 82; 73; 65; 76; 73; 90; 65; 84; 73; 79; 78; 95; 66; 85; 70; 70; 69; 82; 95; 67; 72; 69; 67; 75; 95]%N, RInternalOverrideSwitch);
    ([95; 60; 102; 105; 101; 108; 100; 62; 95; 65; 82; 82; 65; 89; 95; 73; 83; 95; 86; 65; 82; 73; 65; 66; 76; 69; 95; 76; 69; 78; 71; 84; 72; 95]%N, RArrayIsVariable);
    ([95; 85; 78; 73; 79; 78; 95; 79; 80; 84; 73; 79; 78; 95; 67; 79; 85; 78; 84; 95]%N, RUnionCount)
  ].
Definition cpp_rows : list (str * mrow) :=
  [
    ([72; 97; 115; 70; 105; 120; 101; 100; 80; 111; 114; 116; 73; 68]%N, RHasFixedPortId);
    ([70; 105; 120; 101; 100; 80; 111; 114; 116; 73; 100]%N, RFixedPortId);
    ([73; 115; 83; 101; 114; 118; 105; 99; 101; 84; 121; 112; 101]%N, RIsServiceType);
    ([73; 115; 83; 101; 114; 118; 105; 99; 101]%N, RIsService);
    ([73; 115; 82; 101; 113; 117; 101; 115; 116]%N, RIsRequest);
    ([73; 115; 82; 101; 115; 112; 111; 110; 115; 101]%N, RIsResponse);
    ([69; 120; 116; 101; 110; 116; 66; 121; 116; 101; 115]%N, RExtentBytes);
    ([83; 101; 114; 105; 97; 108; 105; 122; 97; 116; 105; 111; 110; 66; 117; 102; 102; 101; 114; 83; 105; 122; 101; 66; 121; 116; 101; 115]%N, RBufferBytes);
    ([60; 99; 111; 110; 115; 116; 62]%N, RConstant);
    ([77; 65; 88; 95; 73; 78; 68; 69; 88]%N, RUnionCount);
    ([83; 118; 99; 46; 73; 115; 83; 101; 114; 118; 105; 99; 101; 84; 121; 112; 101]%N, RIsServiceType);
    ([83; 118; 99; 46; 73; 115; 83; 101; 114; 118; 105; 99; 101]%N, RIsService);
    ([83; 118; 99; 46; 73; 115; 82; 101; 113; 117; 101; 115; 116]%N, RIsRequest);
    ([83; 118; 99; 46; 73; 115; 82; 101; 115; 112; 111; 110; 115; 101]%N, RIsResponse);
    ([83; 118; 99; 46; 82; 101; 113; 117; 101; 115; 116]%N, RServiceAlias);
    ([83; 118; 99; 46; 82; 101; 115; 112; 111; 110; 115; 101]%N, RServiceAlias)
  ].

Fixpoint row_lookup (rows : list (str * mrow)) (nm : str) : option mrow :=
  match rows with
  | [] => None
  | (k, r) :: rest => if lstr_eqb k nm then Some r else row_lookup rest nm
  end.

Definition name_row (tg : mtarget) (nm : str) : option mrow :=
  match tg with TgtC => row_lookup c_rows nm | TgtCpp => row_lookup cpp_rows nm | TgtPy => None end.

(* no exported name without a row *)
Definition names_ok : bool :=
  forallb (fun '(tg, nm) => match name_row tg nm with Some _ => true | None => false end) exported_names.

(* ---- the C header of one type as the ORDERED list of its #defines.  All C exports are macros `<T><suffix>` in ONE flat namespace and
   constants are emitted as `<T>_<constant name>` into the same namespace after the metadata: the value a user reads is the LAST
   definition of a name (compilers only warn about the redefinition).  Finding F-C-MACRO-CLASH. ---- *)
Inductive msource : Type :=
| SrcRow (r : mrow)                       (* metadata macro of the type *)
| SrcConstant (name : str)                (* DSDL constant *)
| SrcField (r : mrow) (field : str).      (* per array field macro *)

Definition tok_const : str := [95; 60; 99; 111; 110; 115; 116; 62]%N.         (* "_<const>" *)
Definition tok_field : str := [95; 60; 102; 105; 101; 108; 100; 62]%N.         (* "_<field>" *)

Definition expand_c_name (consts fields : list str) (nm : str) : list (str * msource) :=
  match name_row TgtC nm with
  | None => []
  | Some r =>
      if lstr_eqb nm tok_const then map (fun c => (95%N :: c, SrcConstant c)) consts
      else match strip tok_field nm with
           | Some rest => map (fun f => (95%N :: f ++ rest, SrcField r f)) fields
           | None => [(nm, SrcRow r)]
           end
  end.

(* in template order (base.j2, then definitions.j2 top to bottom) *)
Definition c_header (consts fields : list str) : list (str * msource) :=
  flat_map (fun '(tg, nm) => match tg with TgtC => expand_c_name consts fields nm | _ => [] end) exported_names.

Fixpoint last_def (l : list (str * msource)) (nm : str) : option msource :=
  match l with
  | [] => None
  | (k, v) :: r => match last_def r nm with Some x => Some x | None => if lstr_eqb k nm then Some v else None end
  end.

Fixpoint keys_distinct (l : list (str * msource)) : bool :=
  match l with
  | [] => true
  | (k, _) :: r => negb (existsb (fun '(k', _) => lstr_eqb k k') r) && keys_distinct r
  end.

(* the premise under which every exported C value is the one the model computes: no two macros of the type share a name *)
Definition c_macros_distinct (consts fields : list str) : bool := keys_distinct (c_header consts fields).

(* ---- boolean flags rendered as literals under Jinja branches ---- *)
Fixpoint cond_holds (c : mcond) (p : option Z) (svc : bool) : option bool :=
  match c with
  | CondHas SrcPortId | CondNotNone SrcPortId => Some (match p with Some _ => true | None => false end)
  | CondTruthy SrcPortId => Some (match p with Some 0 | None => false | Some _ => true end)
  | CondIsService => Some svc
  | CondNotService => Some (negb svc)
  | CondElse c' => match cond_holds c' p svc with Some b => Some (negb b) | None => None end
  | _ => None
  end.

Fixpoint conds_hold (cs : list mcond) (p : option Z) (svc : bool) : option bool :=
  match cs with
  | [] => Some true
  | c :: r => match cond_holds c p svc, conds_hold r p svc with Some a, Some b => Some (a && b) | _, _ => None end
  end.

(* the value of flag `nm` of target tg for a type with fixed port id p (None = none) that is / is not part of a service: the literal of
   the UNIQUE rendering site whose branch is taken; None = no site, several sites, or a branch the scan does not understand *)
Definition exported_flag (tg : mtarget) (nm : str) (p : option Z) (svc : bool) : option bool :=
  let sites := filter (fun x => mtarget_eqb (fs_tgt x) tg && lstr_eqb (fs_name x) nm) flag_sites in
  if forallb (fun x => match conds_hold (fs_conds x) p svc with Some _ => true | None => false end) sites then
    match filter (fun x => match conds_hold (fs_conds x) p svc with Some true => true | _ => false end) sites with
    | [x] => Some (fs_value x)
    | _ => None
    end
  else None.

Definition n_c_has_port : str := [95; 72; 65; 83; 95; 70; 73; 88; 69; 68; 95; 80; 79; 82; 84; 95; 73; 68; 95]%N.
Definition n_cpp_has_port : str := [72; 97; 115; 70; 105; 120; 101; 100; 80; 111; 114; 116; 73; 68]%N.
Definition n_cpp_is_service_type : str := [73; 115; 83; 101; 114; 118; 105; 99; 101; 84; 121; 112; 101]%N.
Definition n_cpp_svc (nm : str) : str := [83; 118; 99; 46]%N ++ nm.
Definition n_IsService : str := [73; 115; 83; 101; 114; 118; 105; 99; 101]%N.
Definition n_IsRequest : str := [73; 115; 82; 101; 113; 117; 101; 115; 116]%N.
Definition n_IsResponse : str := [73; 115; 82; 101; 115; 112; 111; 110; 115; 101]%N.

(* ---- the up-front capacity check as rendered ---- *)
Definition cmp_eval (op : mcmp) (a b : Z) : bool :=
  match op with CmpLt => a <? b | CmpLe => a <=? b | CmpGt => a >? b | CmpGe => a >=? b | CmpOther => false end.

(* Some true = refused with too_small before anything else happens; None = the scanned check does not have the expected form
   (not the first action, or the left-hand side is not the capacity in bits) *)
Definition capcheck_refuses (cc : capcheck) (cap_bytes : nat) (t : ty) : option bool :=
  if negb (cc_first cc) then None
  else if negb (xorb (cc_cap_in_bits cc) (cc_lhs_times8 cc)) then None
  else match meval (cc_rhs cc) t with
       | Some r => Some (cmp_eval (cc_op cc) (8 * Z.of_nat cap_bytes) r)
       | None => None
       end.

Definition ser_model (cc : capcheck) (t : ty) (v : val) (cap_bytes : nat) : option (res (list bool)) :=
  match capcheck_refuses cc cap_bytes t with
  | None => None
  | Some true => Some (Err ETooSmall)
  | Some false => Some (enc_body t v)
  end.

(* ---- constants ---- *)
Definition int_pty (unsigned : bool) (w : Z) : pty := mk_pty (if unsigned then KUInt else KSInt) w.

Definition const_int_token (unsigned : bool) (w v : Z) : str := filter_literal_int v (int_pty unsigned w).

Definition const_int_denotes (dm : dmodel) (unsigned : bool) (w v : Z) : option (ctype * Z) :=
  c_token_denotes dm (const_int_token unsigned w v).

Definition in_int_range (unsigned : bool) (w v : Z) : Prop :=
  if unsigned then 0 <= v < 2 ^ w else - 2 ^ (w - 1) <= v < 2 ^ (w - 1).

(* the spelling the pinned tree used before the repair of F-INT64MIN *)
Definition old_int64_min_token : str :=
  [45; 57; 50; 50; 51; 51; 55; 50; 48; 51; 54; 56; 53; 52; 55; 55; 53; 56; 48; 56; 76; 76]%N.

(* floating constants.  `rf` is the ORACLE for Python's repr(float(Fraction)) (shortest round-trip decimal of the correctly rounded
   value; library behaviour, not modelled): the translated helper calls it only when an operand of the division would not be a valid
   double constant. *)
Definition const_float_expr (rf : (Z * Z) -> str) (n d : Z) : str := filter_literal_float_expr rf (n, d).

(* exact value of the rendered expression as the division / integral form ... *)
Definition const_float_rational (rf : (Z * Z) -> str) (n d : Z) : option (Z * Z) := parse_fexpr (const_float_expr rf n d).

(* ... or as whatever form it has (division, integral, or a decimal floating constant from the oracle) *)
Definition const_float_value (rf : (Z * Z) -> str) (n d : Z) : option (Z * Z) :=
  match parse_fexpr (const_float_expr rf n d) with
  | Some r => Some r
  | None => parse_fdec (const_float_expr rf n d)
  end.

(* the operands of the division form are rendered only below this bound (2^1023 < dbl_lit_limit: valid double constants) *)
Definition division_operand_limit : Z := 2 ^ 1023.
Definition division_rendered (n d : Z) : bool :=
  match float_rule with
  | DivIfBelowLimit => (Z.abs n <? division_operand_limit) && (d <? division_operand_limit)
  | DivIfExactOperands => exact64 n && exact64 d
  end.

(* what the code did BEFORE the repair of F-FLOAT-LIT-RANGE (commit bc63e58): always the division (hand copy, documentation only) *)
Definition old_filter_literal_float_expr (value : Z * Z) : str :=
  if snd value =? 1 then py_str_int (fst value) ++ [46; 48]%N
  else [40%N] ++ py_str_int (fst value) ++ [46; 48; 32; 47; 32]%N ++ py_str_int (snd value) ++ [46; 48; 41]%N.

(* requests of the extracted driver *)
Definition std_bits_of (w : Z) : option Z := filter_to_standard_bit_length (mk_pty KUInt w).

(* decimal text -> Z (driver input; the inverse direction is py_str_int) *)
Definition z_of_dec (s : str) : Z :=
  match s with
  | c :: r => if (c =? 45)%N then - Z.of_N (fst (read_digits 0 r)) else Z.of_N (fst (read_digits 0 s))
  | [] => 0
  end.

Definition drv_lit (unsigned : bool) (w : Z) (v : str) : str * list (option (ctype * Z)) :=
  let z := z_of_dec v in (const_int_token unsigned w z, map (fun dm => const_int_denotes dm unsigned w z) dmodels).

Definition drv_flt (oracle n d : str) : str * option (Z * Z) * bool :=
  let rf := fun _ : Z * Z => oracle in
  (const_float_expr rf (z_of_dec n) (z_of_dec d), const_float_value rf (z_of_dec n) (z_of_dec d),
   division_rendered (z_of_dec n) (z_of_dec d)).

Definition drv_capchecks (t : ty) (cap_bytes : nat) : option bool * option bool :=
  (capcheck_refuses c_capcheck cap_bytes t, capcheck_refuses cpp_capcheck cap_bytes t).

Definition comp_fields (t : ty) : list ty := match t with TComp _ fs _ => fs | _ => [] end.
Definition is_array (t : ty) : bool := match t with TFix _ _ | TVar _ _ => true | _ => false end.
Definition is_union (t : ty) : bool := match t with TComp true _ _ => true | _ => false end.

(* finding F-FLOAT-LIT-RANGE (fixed in /repo by bc63e58): both operands of a rendered division must be floating constants within
   the range of double; false = the expression contains an out-of-range floating constant *)
Definition operands_in_range (r : option (Z * Z)) : bool :=
  match r with Some (a, b) => negb (float_lit_overflows a b) | None => false end.
Definition old_const_float_operands_in_range (n d : Z) : bool := operands_in_range (parse_fexpr (old_filter_literal_float_expr (n, d))).
