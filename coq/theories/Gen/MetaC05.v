(* C05 model: the values the generated code exports, computed the way the templates compute them.
   Everything here is executable and built from
     - Generated/Gen_C05.v: the T2 translations of filter_bits2bytes_ceil, _CFit.get_best_fit, filter_to_standard_bit_length and of the
       integer / float branches of filter_literal, and the template scan (exported_table, c_capcheck, cpp_capcheck);
     - Spec/Meta.v (extent, bmax as functions of the DSDL type), Spec/Wire.v (ser_spec), Codec/Walker.v (walk_ser).
   No proofs in this file (it is extracted by coq/extraction/ExtractC05.v). *)
From Coq Require Import List NArith ZArith Bool.
From Verif Require Import Str Wire Walker MetaC05Base MetaC05Rne Gen_C05.
Import ListNotations.
Local Open Scope Z_scope.

(* ---- exported numeric constants ---- *)
Fixpoint meval (e : mexp) (t : ty) : option Z :=
  match e with
  | MSrc s => Some (src_val s t)
  | MFloorDiv8 a => match meval a t with Some x => Some (x / 8) | None => None end
  | MB2B a => match meval a t with Some x => filter_bits2bytes_ceil x | None => None end
  | MMul8 a => match meval a t with Some x => Some (8 * x) | None => None end
  end.

Definition mtarget_eqb (a b : mtarget) : bool :=
  match a, b with TgtC, TgtC | TgtCpp, TgtCpp | TgtPy, TgtPy => true | _, _ => false end.
Definition mkey_eqb (a b : mkey) : bool :=
  match a, b with
  | KExtentBytes, KExtentBytes | KBufferBytes, KBufferBytes | KCap, KCap | KUnionCount, KUnionCount | KPortId, KPortId
  | KFullName, KFullName | KConst, KConst => true
  | _, _ => false
  end.

Definition exports_of (tg : mtarget) (k : mkey) : list mexp :=
  map ex_exp (filter (fun x => mtarget_eqb (ex_tgt x) tg && mkey_eqb (ex_key x) k) exported_table).

(* value of an exported constant of target tg for the type (or array field type) t: the first rendering site *)
Definition exported (tg : mtarget) (k : mkey) (t : ty) : option Z :=
  match exports_of tg k with e :: _ => meval e t | [] => None end.

(* what the DSDL definition says (the specification side of the table) *)
Definition key_spec (k : mkey) (t : ty) : Z :=
  match k with
  | KExtentBytes => Z.of_nat (extent t) / 8
  | KBufferBytes => Z.of_nat (bmax t) / 8
  | KCap => array_capacity t
  | KUnionCount => option_count t
  | KPortId | KFullName | KConst => -1
  end.

(* syntactic acceptability of a rendering expression for a key *)
Definition msrc_eqb (a b : msrc) : bool :=
  match a, b with
  | SrcExtent, SrcExtent | SrcInnerExtent, SrcInnerExtent | SrcInnerMax, SrcInnerMax | SrcCapacity, SrcCapacity
  | SrcFieldCount, SrcFieldCount | SrcPortId, SrcPortId | SrcFullName, SrcFullName | SrcMajor, SrcMajor | SrcMinor, SrcMinor => true
  | _, _ => false
  end.

Definition bytes_of_src (e : mexp) (ok : msrc -> bool) : bool :=
  match e with
  | MFloorDiv8 (MSrc s) | MB2B (MSrc s) => ok s
  | _ => false
  end.

Definition good_exp (k : mkey) (e : mexp) : bool :=
  match k with
  | KExtentBytes => bytes_of_src e (fun s => msrc_eqb s SrcExtent)
  | KBufferBytes => bytes_of_src e (fun s => msrc_eqb s SrcInnerExtent || msrc_eqb s SrcInnerMax)
  | KCap => match e with MSrc SrcCapacity => true | _ => false end
  | KUnionCount => match e with MSrc SrcFieldCount => true | _ => false end
  | KPortId => match e with MSrc SrcPortId => true | _ => false end
  | KFullName => match e with MSrc SrcFullName => true | _ => false end
  | KConst => false
  end.

(* every (target, key) pair the generated code is expected to export *)
Definition required_exports : list (mtarget * mkey) :=
  [(TgtC, KExtentBytes); (TgtC, KBufferBytes); (TgtC, KCap); (TgtC, KUnionCount); (TgtC, KPortId); (TgtC, KFullName);
   (TgtCpp, KExtentBytes); (TgtCpp, KBufferBytes); (TgtCpp, KUnionCount); (TgtCpp, KPortId);
   (TgtPy, KExtentBytes); (TgtPy, KPortId)].

Definition table_ok : bool :=
  forallb (fun x => good_exp (ex_key x) (ex_exp x)) exported_table
  && forallb (fun '(tg, k) => negb (match exports_of tg k with [] => true | _ => false end)) required_exports.

(* ---- boolean constants (translated BooleanType branch of filter_literal), names, Python class constants ---- *)
Definition bool_token_denotes (s : str) : option bool :=
  if lstr_eqb s [116; 114; 117; 101]%N then Some true else if lstr_eqb s [102; 97; 108; 115; 101]%N then Some false else None.

Definition c_full_name (m : tmeta) : option str := render_pieces (name_attr m) c_full_name_tpl.
Definition c_full_name_and_version (m : tmeta) : option str := render_pieces (name_attr m) c_full_name_and_version_tpl.
Definition py_const_token (v : cvalue) : option str :=
  render_pieces (const_attr v) (match v with CVBool _ => py_bool_const_tpl | CVInt _ => py_int_const_tpl | CVFrac _ _ => py_float_const_tpl end).

(* ---- emit conditions ---- *)
Definition emits_of (tg : mtarget) (k : mkey) : list (list mcond) :=
  map em_conds (filter (fun x => mtarget_eqb (em_tgt x) tg && mkey_eqb (em_key x) k) emit_table).

Definition good_emit (k : mkey) (cs : list mcond) : bool :=
  match k, cs with
  | KPortId, [CondHas SrcPortId] | KPortId, [CondNotNone SrcPortId] => true
  | KConst, [CondEach] => true
  | KCap, [CondEachArray] => true
  | KExtentBytes, [CondNotService] | KBufferBytes, [CondNotService] => true
  | _, _ => false
  end.

Definition required_emits : list (mtarget * mkey) :=
  [(TgtC, KPortId); (TgtCpp, KPortId); (TgtPy, KPortId); (TgtC, KConst); (TgtCpp, KConst); (TgtPy, KConst); (TgtC, KCap);
   (TgtC, KExtentBytes); (TgtC, KBufferBytes)].

Definition emit_ok : bool :=
  forallb (fun x => good_emit (em_key x) (em_conds x)) emit_table
  && forallb (fun '(tg, k) => match emits_of tg k with [_] => true | _ => false end) required_emits.

(* Jinja truth of the scanned condition for a type whose fixed port id is p (None = no fixed port id) *)
Definition port_cond_holds (c : mcond) (p : option Z) : option bool :=
  match c with
  | CondHas SrcPortId | CondNotNone SrcPortId => Some (match p with Some _ => true | None => false end)
  | CondTruthy SrcPortId => Some (match p with Some 0 | None => false | Some _ => true end)
  | _ => None
  end.

Fixpoint port_conds_hold (cs : list mcond) (p : option Z) : option bool :=
  match cs with
  | [] => Some true
  | c :: r => match port_cond_holds c p, port_conds_hold r p with Some a, Some b => Some (a && b) | _, _ => None end
  end.

(* the fixed port id target tg exports for a type whose DSDL fixed port id is p: Some None = the "no fixed port id" branch,
   None = the scan is not understood *)
Definition exported_port (tg : mtarget) (p : option Z) : option (option Z) :=
  match emits_of tg KPortId, exports_of tg KPortId with
  | [cs], MSrc SrcPortId :: _ => match port_conds_hold cs p with Some true => Some p | Some false => Some None | None => None end
  | _, _ => None
  end.

(* ---- the up-front capacity check as rendered ---- *)
Definition cmp_eval (op : mcmp) (a b : Z) : bool :=
  match op with CmpLt => a <? b | CmpLe => a <=? b | CmpGt => a >? b | CmpGe => a >=? b | CmpOther => false end.

(* Some true = refused with too_small before anything else happens; None = the scanned check does not have the expected form
   (not the first action, or the left-hand side is not the capacity in bits) *)
Definition capcheck_refuses (cc : capcheck) (cap_bytes : nat) (t : ty) : option bool :=
  if negb (cc_first cc) then None
  else if negb (xorb (cc_cap_in_bits cc) (cc_lhs_times8 cc)) then None
  else match meval (cc_rhs cc) t with
       | Some r => Some (cmp_eval (cc_op cc) (8 * Z.of_nat cap_bytes) r)
       | None => None
       end.

Definition ser_model (cc : capcheck) (t : ty) (v : val) (cap_bytes : nat) : option (res (list bool)) :=
  match capcheck_refuses cc cap_bytes t with
  | None => None
  | Some true => Some (Err ETooSmall)
  | Some false => Some (enc_body t v)
  end.

(* ---- constants ---- *)
Definition int_pty (unsigned : bool) (w : Z) : pty := mk_pty (if unsigned then KUInt else KSInt) w.

Definition const_int_token (unsigned : bool) (w v : Z) : str := filter_literal_int v (int_pty unsigned w).

Definition const_int_denotes (dm : dmodel) (unsigned : bool) (w v : Z) : option (ctype * Z) :=
  c_token_denotes dm (const_int_token unsigned w v).

Definition in_int_range (unsigned : bool) (w v : Z) : Prop :=
  if unsigned then 0 <= v < 2 ^ w else - 2 ^ (w - 1) <= v < 2 ^ (w - 1).

(* the spelling the pinned tree used before the repair of F-INT64MIN *)
Definition old_int64_min_token : str :=
  [45; 57; 50; 50; 51; 51; 55; 50; 48; 51; 54; 56; 53; 52; 55; 55; 53; 56; 48; 56; 76; 76]%N.

(* floating constants.  `rf` is the ORACLE for Python's repr(float(Fraction)) (shortest round-trip decimal of the correctly rounded
   value; library behaviour, not modelled): the translated helper calls it only when an operand of the division would not be a valid
   double constant. *)
Definition const_float_expr (rf : (Z * Z) -> str) (n d : Z) : str := filter_literal_float_expr rf (n, d).

(* exact value of the rendered expression as the division / integral form ... *)
Definition const_float_rational (rf : (Z * Z) -> str) (n d : Z) : option (Z * Z) := parse_fexpr (const_float_expr rf n d).

(* ... or as whatever form it has (division, integral, or a decimal floating constant from the oracle) *)
Definition const_float_value (rf : (Z * Z) -> str) (n d : Z) : option (Z * Z) :=
  match parse_fexpr (const_float_expr rf n d) with
  | Some r => Some r
  | None => parse_fdec (const_float_expr rf n d)
  end.

(* the operands of the division form are rendered only below this bound (2^1023 < dbl_lit_limit: valid double constants) *)
Definition division_operand_limit : Z := 2 ^ 1023.
Definition division_rendered (n d : Z) : bool :=
  match float_rule with
  | DivIfBelowLimit => (Z.abs n <? division_operand_limit) && (d <? division_operand_limit)
  | DivIfExactOperands => exact64 n && exact64 d
  end.

(* what the code did BEFORE the repair of F-FLOAT-LIT-RANGE (commit bc63e58): always the division (hand copy, documentation only) *)
Definition old_filter_literal_float_expr (value : Z * Z) : str :=
  if snd value =? 1 then py_str_int (fst value) ++ [46; 48]%N
  else [40%N] ++ py_str_int (fst value) ++ [46; 48; 32; 47; 32]%N ++ py_str_int (snd value) ++ [46; 48; 41]%N.

(* requests of the extracted driver *)
Definition std_bits_of (w : Z) : option Z := filter_to_standard_bit_length (mk_pty KUInt w).

(* decimal text -> Z (driver input; the inverse direction is py_str_int) *)
Definition z_of_dec (s : str) : Z :=
  match s with
  | c :: r => if (c =? 45)%N then - Z.of_N (fst (read_digits 0 r)) else Z.of_N (fst (read_digits 0 s))
  | [] => 0
  end.

Definition drv_lit (unsigned : bool) (w : Z) (v : str) : str * list (option (ctype * Z)) :=
  let z := z_of_dec v in (const_int_token unsigned w z, map (fun dm => const_int_denotes dm unsigned w z) dmodels).

Definition drv_flt (oracle n d : str) : str * option (Z * Z) * bool :=
  let rf := fun _ : Z * Z => oracle in
  (const_float_expr rf (z_of_dec n) (z_of_dec d), const_float_value rf (z_of_dec n) (z_of_dec d),
   division_rendered (z_of_dec n) (z_of_dec d)).

Definition drv_capchecks (t : ty) (cap_bytes : nat) : option bool * option bool :=
  (capcheck_refuses c_capcheck cap_bytes t, capcheck_refuses cpp_capcheck cap_bytes t).

Definition comp_fields (t : ty) : list ty := match t with TComp _ fs _ => fs | _ => [] end.
Definition is_array (t : ty) : bool := match t with TFix _ _ | TVar _ _ => true | _ => false end.
Definition is_union (t : ty) : bool := match t with TComp true _ _ => true | _ => false end.

(* finding F-FLOAT-LIT-RANGE (fixed in /repo by bc63e58): both operands of a rendered division must be floating constants within
   the range of double; false = the expression contains an out-of-range floating constant *)
Definition operands_in_range (r : option (Z * Z)) : bool :=
  match r with Some (a, b) => negb (float_lit_overflows a b) | None => false end.
Definition old_const_float_operands_in_range (n d : Z) : bool := operands_in_range (parse_fexpr (old_filter_literal_float_expr (n, d))).
