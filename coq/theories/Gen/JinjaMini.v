(* C19: a small CONCRETE instance of the parameters of Gen/JinjaPipe.v (primaries, if/else, set, for; integer / string / list /
   undefined values; contexts as association lists) so that the pipeline model scan -> wrap -> subparse -> render is extracted
   and run against the bundled engine.  The tokens inside tags are taken from the real lexer (those states are unmodified). *)
From Coq Require Import String.
From Verif Require Export JinjaPipe JinjaRxInst.
From Verif Require Import JinjaRules.
Open Scope N_scope.

Inductive mval := VInt (n : N) | VStr (s : str) | VList (l : list N) | VUndef.
Inductive mexpr := EName (x : str) | EInt (n : N) | EStr (s : str).
Inductive mstmt :=
| SIf (c : mexpr) (body els : list (pnode mexpr mstmt))
| SSet (x : str) (e : mexpr)
| SFor (x : str) (it : mexpr) (body : list (pnode mexpr mstmt)).
Definition mctx := list (str * mval).
Definition mnode := pnode mexpr mstmt.

Fixpoint digits_fuel (fuel : nat) (n : N) (acc : str) : str :=
  match fuel with
  | O => acc
  | S f => let acc' := (48 + n mod 10) :: acc in if n / 10 =? 0 then acc' else digits_fuel f (n / 10) acc'
  end.
Definition digits (n : N) : str := digits_fuel 40 n [].
Fixpoint parse_digits (s : str) (acc : N) : N := match s with [] => acc | c :: r => parse_digits r (acc * 10 + (c - 48)) end.

Fixpoint join_ints (l : list N) : str :=
  match l with [] => [] | [n] => digits n | n :: r => digits n ++ [44; 32] ++ join_ints r end.
Definition mtext (v : mval) : str :=
  match v with VInt n => digits n | VStr s => s | VList l => [91] ++ join_ints l ++ [93] | VUndef => [] end.
Definition mtruthy (v : mval) : bool :=
  match v with VInt n => negb (n =? 0) | VStr s => py_truthy s | VList l => match l with [] => false | _ => true end | VUndef => false end.

Fixpoint mlookup (x : str) (c : mctx) : mval := match c with [] => VUndef | (y, v) :: r => if str_eqb x y then v else mlookup x r end.
Definition mev (e : mexpr) (c : mctx) : option mval :=
  Some (match e with EName x => mlookup x c | EInt n => VInt n | EStr s => VStr s end).

Definition KI : str := s2l "integer".
Definition KS : str := s2l "string".
Definition KOP : str := s2l "operator".
Definition strip_quotes (s : str) : str := match s with _ :: r => removelast r | [] => [] end.

(* parse_tuple restricted to one primary *)
Definition mpt (toks : list xtok) : option (mexpr * list xtok) :=
  match toks with
  | (k, v) :: r =>
      if str_eqb k K_NAME then Some (EName v, r)
      else if str_eqb k KI then Some (EInt (parse_digits v 0), r)
      else if str_eqb k KS then Some (EStr (strip_quotes v), r)
      else None
  | [] => None
  end.

Definition expect (k : str) (toks : list xtok) : option (list xtok) :=
  match toks with (k2, _) :: r => if str_eqb k2 k then Some r else None | [] => None end.
Definition expect_name (n : str) (toks : list xtok) : option (list xtok) :=
  match toks with (k2, v) :: r => if str_eqb k2 K_NAME && str_eqb v n then Some r else None | [] => None end.

(* parse_statement for if / set / for; `cb` is the recursive subparse handed in by Parser.subparse *)
Definition mps (cb : list str -> list xtok -> option (list mnode * list xtok)) (toks : list xtok) : option (list mstmt * list xtok) :=
  match toks with
  | (k, v) :: r =>
      if negb (str_eqb k K_NAME) then None
      else if str_eqb v (s2l "if") then
        match mpt r with
        | Some (c, r1) =>
            match expect K_BLOCKEND r1 with
            | Some r2 =>
                match cb [s2l "else"; s2l "endif"] r2 with
                | Some (body, (_, nm) :: r3) =>
                    if str_eqb nm (s2l "else") then
                      match expect K_BLOCKEND r3 with
                      | Some r4 => match cb [s2l "endif"] r4 with
                                   | Some (els, _ :: r5) => Some ([SIf c body els], r5)
                                   | _ => None
                                   end
                      | None => None
                      end
                    else Some ([SIf c body []], r3)
                | _ => None
                end
            | None => None
            end
        | None => None
        end
      else if str_eqb v (s2l "set") then
        match r with
        | (k1, x) :: (k2, eq) :: r1 =>
            if str_eqb k1 K_NAME && str_eqb k2 KOP && str_eqb eq [61] then
              match mpt r1 with Some (e, r2) => Some ([SSet x e], r2) | None => None end
            else None
        | _ => None
        end
      else if str_eqb v (s2l "for") then
        match r with
        | (k1, x) :: r1 =>
            match expect_name (s2l "in") r1 with
            | Some r2 =>
                match mpt r2 with
                | Some (it, r3) =>
                    match expect K_BLOCKEND r3 with
                    | Some r4 => match cb [s2l "endfor"] r4 with
                                 | Some (body, _ :: r5) => Some ([SFor x it body], r5)
                                 | _ => None
                                 end
                    | None => None
                    end
                | None => None
                end
            | None => None
            end
        | [] => None
        end
      else None
  | [] => None
  end.

Fixpoint for_loop (cb : list mnode -> mctx -> option (str * mctx)) (x : str) (l : list N) (body : list mnode) (c : mctx) : option str :=
  match l with
  | [] => Some []
  | n :: r => match cb body ((x, VInt n) :: c) with
              | Some (o, _) => match for_loop cb x r body c with Some o2 => Some (o ++ o2) | None => None end
              | None => None
              end
  end.

Definition mrs (cb : list mnode -> mctx -> option (str * mctx)) (s : mstmt) (c : mctx) : option (str * mctx) :=
  match s with
  | SIf e body els => match mev e c with Some v => if mtruthy v then cb body c else cb els c | None => None end
  | SSet x e => match mev e c with Some v => Some ([], (x, v) :: c) | None => None end
  | SFor x it body =>
      match mev it c with
      | Some (VList l) => match for_loop cb x l body c with Some o => Some (o, c) | None => None end
      | Some VUndef => Some ([], c)
      | _ => None
      end
  end.

(* the whole pipeline for option combination i; sv / sb = start strings handed to marker_start for variable / block tokens;
   bundled = the marker decision of the code in /repo (regenerated flag), upstream = never + rules without marker alternatives *)
Definition mini_bundled (i : nat) (sv sb : list str) tags (fuel : nat) (src : str) (c : mctx) : option str :=
  pipeline mexpr mstmt mctx mval (code_marker sv) (code_marker sb) autoindent_minus_guard mpt mps mev mtext mrs py_uni (nth i root_rules_x []) (inner_combo i tags) fuel src c.
Definition mini_upstream (i : nat) tags (fuel : nat) (src : str) (c : mctx) : option str :=
  pipeline mexpr mstmt mctx mval never never false mpt mps mev mtext mrs py_uni (demarkx (nth i root_rules_x [])) (inner_combo i tags) fuel src c.
