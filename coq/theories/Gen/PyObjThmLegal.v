(* C18: an INDEPENDENT statement of which values are legal for an array of integers, and the proof that the fixed template accepts
   exactly those, storing numerically the same elements.  `legal_int_array` does not mention assign_array, int_src_ok, np_array,
   conv_*, or any template fact: it says that the source is a (possibly nested, rectangular) list / ndarray / scalar whose leaves
   are integers (Python ints, bools, integral finite floats; as Python numbers or as NumPy elements) within the DSDL range of the
   element type, of a legal number.  np_flat is reused ONLY to enumerate the leaves (and to say "rectangular"). *)
From Coq Require Import List NArith ZArith Bool Arith Lia ZifyBool.
From Verif Require Import PyObj Gen_PyObj PyObjThm PyObjThmRt PyObjThmWrap PyObjThmReject.
Import ListNotations.
Open Scope Z_scope.

(* ================================================================ the independent notion *)
Definition leaf_numeric (x : pyval) : bool := match x with PInt _ | PBool _ | PFloat _ => true | _ => false end.

(* the integer a numeric leaf IS, if it is one *)
Definition leaf_int (x : pyval) : option Z :=
  match x with
  | PInt z => Some z
  | PBool b => Some (if b then 1 else 0)
  | PFloat f => if f_isfinite f && f_is_integer f then Some (f_trunc f) else None
  | _ => None
  end.
Definition leaf_val (x : pyval) : Z := match leaf_int x with Some z => z | None => 0 end.

Definition len_legal (fixed : bool) (n cap : nat) : bool := if fixed then Nat.eqb n cap else Nat.leb n cap.

Definition leaves (y : pyval) : option (list pyval) := match np_flat y with Ok sl => Some (snd sl) | Raise _ => None end.

Definition legal_int_array (fixed : bool) (cap : nat) (k : skind) (y : pyval) : bool :=
  match leaves y with
  | Some lv => forallb (fun x => match leaf_int x with Some z => int_in_range k z | None => false end) lv
               && len_legal fixed (length lv) cap
  | None => false                                          (* ragged nesting *)
  end.
Definition all_numeric (y : pyval) : bool := match leaves y with Some lv => forallb leaf_numeric lv | None => true end.
(* the integers of the source, in order *)
Definition leaf_ints (y : pyval) : list Z := match leaves y with Some lv => map leaf_val lv | None => [] end.

(* the candidates the theorems are about: everything that goes through np.array(src, dtype), i.e. not text and not an ndarray
   of the field's own dtype (those are bound as they are: legal_same_dtype below) *)
Definition conv_path (e : etype) (y : pyval) : bool :=
  match y with
  | PBytes _ | PStr _ => false
  | PArr dt' _ => negb (dtype_eqb dt' (dtype_of PW e))
  | _ => true
  end.

(* ================================================================ conversion of an integer leaf *)
Section IntKind.
  Variables (k : skind) (w : Z).
  Hypothesis Hk : k = KU w \/ k = KS w.
  Hypothesis Hw : 1 <= w <= 64.
  Let e := EPrim k.
  Let dt := dtype_of PW e.

  Lemma pwd_ge : w <= pwd PW w /\ 8 <= pwd PW w.
  Proof. destruct (pwd_cases w) as [[? E]|[[? E]|[[? E]|[[? E]|[? E]]]]]; lia. Qed.

  Lemma range_fits : forall z, int_in_range k z = true -> fits dt (PInt z) = true.
  Proof.
    intros z H. destruct pwd_ge as [Hp _]. subst dt e. destruct Hk as [->| ->]; cbn [dtype_of fits int_in_range] in *.
    - apply urange_pwd; auto.
    - unfold srange in *. assert (2 ^ (w - 1) <= 2 ^ (pwd PW w - 1)) by (apply Z.pow_le_mono_r; lia). lia.
  Qed.

  Lemma bool_fits : forall b : bool, fits dt (PInt (if b then 1 else 0)) = true.
  Proof.
    intros b. destruct pwd_ge as [_ Hp]. subst dt e. destruct Hk as [->| ->]; cbn [dtype_of fits].
    - unfold urange. assert (2 ^ 8 <= 2 ^ pwd PW w) by (apply Z.pow_le_mono_r; lia). change (2 ^ 8) with 256 in H. destruct b; lia.
    - unfold srange. assert (2 ^ 7 <= 2 ^ (pwd PW w - 1)) by (apply Z.pow_le_mono_r; lia). change (2 ^ 7) with 128 in H. destruct b; lia.
  Qed.

  Lemma wrap_id : forall z, fits dt (PInt z) = true -> wrap_int dt z = z.
  Proof.
    intros z H. destruct pwd_ge as [_ Hp]. subst dt e. destruct Hk as [->| ->]; cbn [dtype_of fits wrap_int] in *.
    - unfold urange in H. apply Z.mod_small. lia.
    - unfold srange in H. assert (P : 0 < 2 ^ (pwd PW w - 1)) by (apply Z.pow_pos_nonneg; lia).
      assert (E : 2 ^ pwd PW w = 2 * 2 ^ (pwd PW w - 1)).
      { replace (pwd PW w) with (Z.succ (pwd PW w - 1)) at 1 by lia. apply Z.pow_succ_r. lia. }
      rewrite E, Z.mod_small by lia. lia.
  Qed.

  Lemma finite_not_nan : forall f, f_isfinite f = true -> f_isnan f = false.
  Proof. intros f H. unfold f_isnan. unfold f_isfinite in H. destruct (f_exp f =? 2047)%N; [discriminate|reflexivity]. Qed.

  (* a leaf that is the integer z, z storable: both the checked conversion of a Python number and the C cast of a NumPy element
     give z *)
  Lemma leaf_conv : forall (tag : bool) x z, leaf_int x = Some z -> fits dt (PInt z) = true -> conv_tagged dt (tag, x) = Ok (PInt z).
  Proof.
    intros tag x z Hl Hf. pose proof (wrap_id z Hf) as Hwr. unfold conv_tagged. cbn [fst snd].
    assert (Leaf : conv_leaf dt x = Ok (PInt z)).
    { subst dt e. destruct x; cbn [leaf_int] in Hl; try discriminate.
      - inversion Hl; subst z. destruct Hk as [->| ->]; cbn [dtype_of conv_leaf py_int bind fits] in *; rewrite Hf; reflexivity.
      - inversion Hl; subst z0. destruct Hk as [->| ->]; cbn [dtype_of conv_leaf py_int bind fits] in *; rewrite Hf; reflexivity.
      - destruct (f_isfinite bits && f_is_integer bits) eqn:Fi; [|discriminate]. inversion Hl; subst z.
        apply andb_true_iff in Fi. destruct Fi as [Ff _].
        destruct Hk as [->| ->]; cbn [dtype_of conv_leaf py_int bind fits] in *; rewrite (finite_not_nan _ Ff), Ff; cbn [bind]; rewrite Hf; reflexivity. }
    destruct tag; [|exact Leaf].
    subst dt e. destruct x; cbn [leaf_int] in Hl; try discriminate.
    - destruct Hk as [->| ->]; cbn [dtype_of conv_elem] in *; exact Leaf.
    - inversion Hl; subst z0. destruct Hk as [->| ->]; cbn [dtype_of conv_elem] in *; rewrite Hwr; reflexivity.
    - destruct (f_isfinite bits && f_is_integer bits) eqn:Fi; [|discriminate]. inversion Hl; subst z.
      apply andb_true_iff in Fi. destruct Fi as [Ff _].
      destruct Hk as [->| ->]; cbn [dtype_of conv_elem] in *; rewrite Ff, Hwr; reflexivity.
  Qed.

  Definition good (x : pyval) : Prop := exists z, leaf_int x = Some z /\ fits dt (PInt z) = true.

  Lemma conv_good : forall tl, (forall p, In p tl -> good (snd p)) ->
    mapM (conv_tagged dt) tl = Ok (map (fun p => PInt (leaf_val (snd p))) tl).
  Proof.
    induction tl as [|[tag x] r IH]; intros H; [reflexivity|]. cbn [mapM map snd].
    destruct (H (tag, x) (or_introl eq_refl)) as (z & Hl & Hf). cbn [snd] in Hl.
    rewrite (leaf_conv tag x z Hl Hf). cbn [bind]. rewrite IH by (intros p Hp; apply H; right; exact Hp). cbn [bind].
    unfold leaf_val. rewrite Hl. reflexivity.
  Qed.

  (* NumPy's conversion of a source all of whose leaves are storable integers: the integers themselves, in order *)
  Lemma np_array_good : forall y sh lv, np_flat y = Ok (sh, lv) -> (forall x, In x lv -> good x) ->
    np_array dt y = Ok (map PInt (map leaf_val lv)).
  Proof.
    intros y sh lv E H.
    assert (Tagged : forall tl, map snd tl = lv -> mapM (conv_tagged dt) tl = Ok (map PInt (map leaf_val lv))).
    { intros tl <-. rewrite conv_good.
      - rewrite !map_map. reflexivity.
      - intros p Hp. apply H. apply in_map. exact Hp. }
    assert (Gen : (sl <- np_flat_t y ;; mapM (conv_tagged dt) (snd sl)) = Ok (map PInt (map leaf_val lv))).
    { destruct (np_flat_t_of_flat _ _ _ E) as (tl & -> & Hm). cbn [bind snd]. apply Tagged. exact Hm. }
    destruct y; try exact Gen.
    cbn [np_array]. destruct (np_flat_PArr dt0 l) as [sh' E']. rewrite E' in E. inversion E; subst lv.
    replace (mapM (conv_elem dt) l) with (mapM (conv_tagged dt) (map (fun x => (true, x)) l)).
    - apply Tagged. rewrite map_map. cbn [snd]. apply map_id.
    - clear. induction l as [|a r IH]; [reflexivity|]. cbn [map mapM conv_tagged fst snd]. rewrite IH. reflexivity.
  Qed.

  (* a legal leaf is storable and passes the source check; a numeric leaf that passes the source check is a storable integer *)
  Lemma legal_leaf_good : forall x z, leaf_int x = Some z -> int_in_range k z = true -> good x /\ int_leaf_exact e x = true.
  Proof.
    intros x z Hl Hr. split; [exists z; split; [exact Hl|apply range_fits; exact Hr]|].
    unfold e. destruct x; cbn [leaf_int] in Hl; try discriminate; destruct Hk as [Ek|Ek]; rewrite Ek in *; cbn [int_leaf_exact]; try reflexivity.
    - inversion Hl; subst; exact Hr.
    - inversion Hl; subst; exact Hr.
    - destruct (f_isfinite bits && f_is_integer bits); [|discriminate]. inversion Hl; subst. rewrite Hr. reflexivity.
    - destruct (f_isfinite bits && f_is_integer bits); [|discriminate]. inversion Hl; subst. rewrite Hr. reflexivity.
  Qed.

  Lemma exact_leaf_good : forall x, leaf_numeric x = true -> int_leaf_exact e x = true -> good x.
  Proof.
    intros x Hn Hx. unfold e in Hx. destruct x; cbn [leaf_numeric] in Hn; try discriminate.
    - exists (if b then 1 else 0). split; [reflexivity|apply bool_fits].
    - exists z. split; [reflexivity|]. apply range_fits. destruct Hk as [Ek|Ek]; rewrite Ek in *; exact Hx.
    - assert (f_isfinite bits && f_is_integer bits = true /\ int_in_range k (f_trunc bits) = true) as [Fi Hr].
      { destruct Hk as [Ek|Ek]; rewrite Ek in *; cbn [int_leaf_exact] in Hx; apply andb_true_iff in Hx; exact Hx. }
      exists (f_trunc bits). split; [cbn [leaf_int]; rewrite Fi; reflexivity|apply range_fits; exact Hr].
  Qed.

  Lemma float_src_ok_int : forall y, float_src_ok TGf false e y = true.
  Proof.
    intros y. unfold float_src_ok. cbn [orb]. destruct (np_flat y) as [sl|]; [|reflexivity]. apply forallb_forall. intros x _.
    subst e. destruct Hk as [->| ->]; reflexivity.
  Qed.

  Lemma range_elems : forall zs, forallb (elem_in_dsdl_range e) (map PInt zs) = forallb (int_in_range k) zs.
  Proof.
    induction zs as [|z r IH]; [reflexivity|]. cbn [map forallb]. rewrite IH. subst e. destruct Hk as [->| ->]; reflexivity.
  Qed.

  Lemma conv_path_slow : forall fixed cap y, conv_path e y = true ->
    assign_array TGf PW false fixed cap false e y = slowF fixed cap e y.
  Proof.
    intros fixed cap y H. rewrite assign_array_genf. cbn [strconv]. destruct y; cbn [conv_path] in H; try discriminate; try reflexivity.
    cbn [assignF]. apply negb_true_iff in H. fold e. rewrite H. reflexivity.
  Qed.

  (* ============================================================== legal => accepted, stored numerically unchanged *)
  Theorem legal_accepted : forall fixed cap y, conv_path e y = true -> legal_int_array fixed cap k y = true ->
    assign_array TGf PW false fixed cap false e y = Ok (PArr dt (map PInt (leaf_ints y))).
  Proof.
    intros fixed cap y Hc Hl. rewrite conv_path_slow by exact Hc. unfold legal_int_array, leaf_ints, leaves in *.
    destruct (np_flat y) as [[sh lv]|] eqn:E; [|discriminate]. cbn [snd] in *.
    apply andb_true_iff in Hl. destruct Hl as [Hr Hlen]. rewrite forallb_forall in Hr.
    assert (G : forall x, In x lv -> good x /\ int_leaf_exact e x = true).
    { intros x Hx. specialize (Hr x Hx). destruct (leaf_int x) as [z|] eqn:Ez; [|discriminate]. eapply legal_leaf_good; eauto. }
    unfold slowF. rewrite int_src_ok_f, E. cbn [snd].
    assert (forallb (int_leaf_exact e) lv = true) as -> by (apply forallb_forall; intros x Hx; apply G; exact Hx).
    fold dt. rewrite (np_array_good y sh lv E) by (intros x Hx; apply G; exact Hx). cbn [bind].
    rewrite !map_length. change (lenG fixed (length lv) cap) with (len_legal fixed (length lv) cap). rewrite Hlen.
    rewrite float_src_ok_int, chkG_false, range_elems.
    assert (forallb (int_in_range k) (map leaf_val lv) = true) as ->; [|reflexivity].
    apply forallb_forall. intros z Hz. apply in_map_iff in Hz. destruct Hz as (x & <- & Hx). specialize (Hr x Hx).
    unfold leaf_val. destruct (leaf_int x); [exact Hr|discriminate].
  Qed.

  (* ============================================================== accepted (numeric leaves) => legal *)
  Theorem accepted_legal : forall fixed cap y v, conv_path e y = true -> all_numeric y = true ->
    assign_array TGf PW false fixed cap false e y = Ok v -> legal_int_array fixed cap k y = true.
  Proof.
    intros fixed cap y v Hc Hn H. rewrite conv_path_slow in H by exact Hc. unfold legal_int_array, all_numeric, leaves in *.
    unfold slowF in H. rewrite int_src_ok_f in H.
    destruct (np_flat y) as [[sh lv]|] eqn:E; cbn [snd] in *.
    - destruct (forallb (int_leaf_exact e) lv) eqn:X; [|discriminate]. rewrite forallb_forall in X, Hn.
      assert (G : forall x, In x lv -> good x) by (intros x Hx; apply exact_leaf_good; auto).
      fold dt in H. rewrite (np_array_good y sh lv E G) in H. cbn [bind] in H. rewrite !map_length in H.
      change (lenG fixed (length lv) cap) with (len_legal fixed (length lv) cap) in H.
      destruct (len_legal fixed (length lv) cap); [|discriminate]. rewrite andb_true_r.
      rewrite float_src_ok_int, chkG_false, range_elems in H.
      destruct (forallb (int_in_range k) (map leaf_val lv)) eqn:R; [|discriminate]. rewrite forallb_forall in R.
      apply forallb_forall. intros x Hx. destruct (G x Hx) as (z & Hl & _). rewrite Hl.
      specialize (R (leaf_val x) (in_map _ _ _ Hx)). unfold leaf_val in R. rewrite Hl in R. exact R.
    - (* ragged: NumPy raises *)
      exfalso. assert (N : exists ex, np_array dt y = Raise ex).
      { destruct y; try (cbn [np_array]; rewrite np_flat_untag in E; destruct (np_flat_t _); [discriminate|cbn [bind]; eexists; reflexivity]).
        destruct (np_flat_PArr dt0 l) as [sh' E']. rewrite E' in E. discriminate. }
      destruct N as [ex N]. fold dt in H. rewrite N in H. discriminate.
  Qed.

  (* in the form the audit asks for: not legal (some element outside [min, max], or not an integer, or the number of elements does
     not fit, or ragged) => raises *)
  Theorem illegal_rejected : forall fixed cap y, conv_path e y = true -> all_numeric y = true ->
    legal_int_array fixed cap k y = false -> exists ex, assign_array TGf PW false fixed cap false e y = Raise ex.
  Proof.
    intros fixed cap y Hc Hn Hl. destruct (assign_array TGf PW false fixed cap false e y) as [v|ex] eqn:A; [|eauto].
    rewrite (accepted_legal fixed cap y v Hc Hn A) in Hl. discriminate.
  Qed.

  Theorem legal_iff_accepted : forall fixed cap y, conv_path e y = true -> all_numeric y = true ->
    ((exists v, assign_array TGf PW false fixed cap false e y = Ok v) <-> legal_int_array fixed cap k y = true).
  Proof.
    intros fixed cap y Hc Hn. split.
    - intros [v A]. eapply accepted_legal; eauto.
    - intros Hl. eexists. apply legal_accepted; auto.
  Qed.

  (* an ndarray of the field's own dtype is bound as it is: accepted iff the length is legal and the elements are in the range *)
  Theorem legal_same_dtype : forall fixed cap dt' l, dtype_eqb dt' dt = true ->
    (len_legal fixed (length l) cap && forallb (elem_in_dsdl_range e) l = true ->
     assign_array TGf PW false fixed cap false e (PArr dt' l) = Ok (PArr dt l)) /\
    (len_legal fixed (length l) cap && forallb (elem_in_dsdl_range e) l = false ->
     exists ex, assign_array TGf PW false fixed cap false e (PArr dt' l) = Raise ex).
  Proof.
    intros fixed cap dt' l Hd. destruct (array_assign_exact fixed cap false e (PArr dt' l)) as [[A E]|[A [ex E]]];
      unfold arr_accepts, arr_stored in *; cbn [strconv] in *; fold dt in A, E; rewrite Hd in *;
      change (lenG fixed (length l) cap) with (len_legal fixed (length l) cap) in A; rewrite A, E; split; intros H;
      try discriminate; eauto.
  Qed.
End IntKind.

(* ================================================================ deviations from "legal iff accepted": non-numeric leaves *)
(* text inside a list is parsed by NumPy: "12" is stored as 12 (the top-level text guard does not look inside lists) *)
Theorem text_leaf_parsed :
  assign_array TGf PW false false 4 false (EPrim (KU 8)) (PList [PStr [49%N; 50%N]]) = Ok (PArr (DU 8) [PInt 12]) /\
  assign_array TGf PW false false 4 false (EPrim (KU 8)) (PList [PBytes [49%N; 50%N]; PInt 3]) = Ok (PArr (DU 8) [PInt 12; PInt 3]) /\
  all_numeric (PList [PStr [49%N; 50%N]]) = false.
Proof. split; [|split]; vm_compute; reflexivity. Qed.

(* text that is not a number, None, a dict: NumPy raises *)
Theorem nonnumeric_leaf_raises :
  assign_array TGf PW false false 4 false (EPrim (KU 8)) (PList [PStr [97%N; 98%N]]) = Raise ValueError /\
  assign_array TGf PW false false 4 false (EPrim (KU 8)) (PList [PNone; PInt 1]) = Raise TypeError /\
  assign_array TGf PW false false 4 false (EPrim (KU 8)) (PList [PDict []]) = Raise TypeError.
Proof. split; [|split]; vm_compute; reflexivity. Qed.

(* instances of the main theorems: Python numbers, a NumPy scalar, an ndarray nested in a list, a foreign-dtype ndarray, mixed *)
Theorem legal_examples :
  assign_array TGf PW false false 4 false (EPrim (KU 8)) (PList [PArr (DF 64) [PFloat 4643985272004935680]]) = Raise ValueError /\
  assign_array TGf PW false false 4 false (EPrim (KU 8)) (PList [PArr (DF 64) [PFloat 4643985272004935680; PFloat 4607182418800017408]]) = Raise ValueError /\
  assign_array TGf PW false false 4 false (EPrim (KU 8)) (PList [PArr (DF 64) [PFloat 4607182418800017408]; PInt 2; PBool true]) = Ok (PArr (DU 8) [PInt 1; PInt 2; PInt 1]) /\
  assign_array TGf PW false false 4 false (EPrim (KU 8)) (PArr (DS 64) [PInt 255; PInt 0]) = Ok (PArr (DU 8) [PInt 255; PInt 0]) /\
  assign_array TGf PW false false 4 false (EPrim (KU 8)) (PArr (DS 64) [PInt 256]) = Raise ValueError /\
  legal_int_array false 4 (KU 8) (PList [PArr (DF 64) [PFloat 4607182418800017408]; PInt 2; PBool true]) = true /\
  legal_int_array false 4 (KU 8) (PList [PArr (DF 64) [PFloat 4643985272004935680]]) = false.
Proof. repeat (split; [vm_compute; reflexivity|]). vm_compute. reflexivity. Qed.

(* ================================================================ the defect (F-PY-NPSCALAR): without the exact source check *)
(* a NumPy scalar / an ndarray inside a list is C-cast by np.array: 300.0 wraps to 44, nothing is raised; the range check of the
   source (t_precheck_nd_only) had exempted lists that contain a float *)
Theorem npscalar_wrap_refuted : forall q,
  assign_array (set_src_exact false TGf) PW q false 4 false (EPrim (KU 8)) (PList [PArr (DF 64) [PFloat 4643985272004935680]])
  = Ok (PArr (DU 8) [PInt 44]).
Proof. intros q; destruct q; vm_compute; reflexivity. Qed.

Theorem nested_ndarray_wrap_refuted : forall q,
  assign_array (set_src_exact false TGf) PW q false 4 false (EPrim (KU 8))
    (PList [PArr (DF 64) [PFloat 4643985272004935680; PFloat 4607182418800017408]]) = Ok (PArr (DU 8) [PInt 44; PInt 1]).
Proof. intros q; destruct q; vm_compute; reflexivity. Qed.

Theorem float_consts_300 : 4643985272004935680%N = 0x4072C00000000000%N.
Proof. reflexivity. Qed.
