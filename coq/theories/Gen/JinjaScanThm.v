(* C19 -- proofs about the model in JinjaScan.v / the regenerated Gen_JinjaScan.v *)
From Verif Require Import JinjaScan.
From Coq Require Import Lia.
Open Scope N_scope.

(* the rules regenerated from lexer.py are the named shapes the proofs below reason about (re-checked on every run) *)
Lemma rules_shape : {bundled_root_rules = model_bundled_rules_q true} + {bundled_root_rules = model_bundled_rules_q false}.
Proof. first [left; reflexivity | right; reflexivity]. Qed.

Lemma forallb_ext {A} (f g : A -> bool) : (forall x, f x = g x) -> forall l, forallb f l = forallb g l.
Proof. intros H l. induction l as [|x l IH]; cbn; [reflexivity|]. rewrite H, IH. reflexivity. Qed.

(* ------------------------------------------------------------------------------------------ *)
(* generic facts about the matcher                                                              *)
(* ------------------------------------------------------------------------------------------ *)
Section Sound.
  Variable u : uni.

  Lemma star_loop_suffix (A : Type) (m : (bool -> str -> option A) -> bool -> str -> option A)
        (Hm : forall k a s v, m k a s = Some v -> exists w s' a', s = w ++ s' /\ k a' s' = Some v)
        (k : bool -> str -> option A) :
    forall fuel a s v, star_loop m k fuel a s = Some v -> exists w s' a', s = w ++ s' /\ k a' s' = Some v.
  Proof.
    induction fuel as [|f IH]; intros a s v H; cbn [star_loop] in H.
    - exists [], s, a; auto.
    - destruct (m (fun at2 s2 => if Nat.ltb (length s2) (length s) then star_loop m k f at2 s2 else None) a s) eqn:E.
      + inversion H; subst. apply Hm in E as (w1 & s1 & a1 & -> & E).
        destruct (Nat.ltb (length s1) (length (w1 ++ s1))); [|discriminate].
        apply IH in E as (w2 & s2 & a2 & -> & E). exists (w1 ++ w2), s2, a2. rewrite app_assoc; auto.
      + exists [], s, a; auto.
  Qed.

  (* whatever the continuation is called on is a suffix of the subject *)
  Lemma mt_suffix : forall (r : re) (A : Type) (k : bool -> str -> option A) a s v,
      mt u r k a s = Some v -> exists w s' a', s = w ++ s' /\ k a' s' = Some v.
  Proof.
    induction r as [|c|r1 IHr1 r2 IHr2|r1 IHr1 r2 IHr2|r IHr| |]; intros A k a s v H; cbn [mt] in H.
    - exists [], s, a; auto.
    - destruct s as [|x s]; [discriminate|]. destruct (cls_mem u c x); [|discriminate].
      exists [x], s, false; auto.
    - apply IHr1 in H as (w1 & s1 & a1 & -> & H). apply IHr2 in H as (w2 & s2 & a2 & -> & H).
      exists (w1 ++ w2), s2, a2. rewrite app_assoc; auto.
    - destruct (mt u r1 k a s) eqn:E.
      + inversion H; subst. eapply IHr1; eauto.
      + eapply IHr2; eauto.
    - eapply star_loop_suffix; [|exact H]. intros; eapply IHr; eauto.
    - destruct a; [|discriminate]. exists [], s, true; auto.
    - destruct s as [|c [|d s]].
      + exists [], [], a; auto.
      + destruct (c =? LF); [|discriminate]. exists [], [c], a; auto.
      + discriminate.
  Qed.

  Lemma mt_cls_eq (A : Type) c (k : bool -> str -> option A) a s :
    mt u (Cls c) k a s = match s with [] => None | x :: s' => if cls_mem u c x then k false s' else None end.
  Proof. destruct s; reflexivity. Qed.

  Lemma star_cls_sound (A : Type) (c : cls) (k : bool -> str -> option A) :
    forall fuel a s v,
      star_loop (mt u (Cls c)) k fuel a s = Some v ->
      exists w s' a', s = w ++ s' /\ forallb (cls_mem u c) w = true /\ k a' s' = Some v.
  Proof.
    induction fuel as [|f IH]; intros a s v H; cbn [star_loop] in H.
    - exists [], s, a; auto.
    - rewrite mt_cls_eq in H. destruct s as [|x s].
      + exists [], [], a; auto.
      + destruct (cls_mem u c x) eqn:Hx.
        * destruct (Nat.ltb (length s) (length (x :: s))).
          -- destruct (star_loop (mt u (Cls c)) k f false s) eqn:E.
             ++ inversion H; subst. apply IH in E as (w2 & s2 & a2 & -> & Hw & E).
                exists (x :: w2), s2, a2. cbn. rewrite Hx, Hw. auto.
             ++ exists [], (x :: s), a; auto.
          -- exists [], (x :: s), a; auto.
        * exists [], (x :: s), a; auto.
  Qed.

  (* greedy repetition over a run of class members succeeds whenever the continuation succeeds after the run *)
  Lemma star_cls_complete (A : Type) (c : cls) (k : bool -> str -> option A) (t : str) :
    (forall a', k a' t <> None) ->
    forall w fuel a, (length w <= fuel)%nat -> forallb (cls_mem u c) w = true ->
                     star_loop (mt u (Cls c)) k fuel a (w ++ t) <> None.
  Proof.
    intros Hk. induction w as [|x w IH]; intros fuel a Hf Hw.
    - cbn [app]. destruct fuel as [|f]; cbn [star_loop]; [apply Hk|].
      destruct (mt u (Cls c) _ a t); [discriminate|apply Hk].
    - destruct fuel as [|f]; [cbn in Hf; lia|]. cbn in Hw. apply andb_prop in Hw as [Hx Hw].
      cbn [star_loop app]. rewrite mt_cls_eq, Hx.
      replace (Nat.ltb (length (w ++ t)) (length (x :: w ++ t))) with true
        by (symmetry; apply Nat.ltb_lt; cbn; lia).
      specialize (IH f false ltac:(cbn in Hf; lia) Hw).
      destruct (star_loop (mt u (Cls c)) k f false (w ++ t)); [discriminate|contradiction].
  Qed.

  Lemma cls_lit_mem c x : cls_mem u (cls_lit c) x = (x =? c).
  Proof.
    unfold cls_mem, cls_lit, in_ranges; cbn.
    destruct (N.leb_spec c x), (N.leb_spec x c), (N.eqb_spec x c); cbn; try reflexivity; lia.
  Qed.

  Lemma cls_blank_mem x : cls_mem u cls_blank x = is_blank x.
  Proof.
    unfold cls_mem, cls_blank, in_ranges, is_blank; cbn.
    destruct (N.leb_spec 32 x), (N.leb_spec x 32), (N.leb_spec 9 x), (N.leb_spec x 9), (N.eqb_spec x 32), (N.eqb_spec x 9);
      cbn; try reflexivity; lia.
  Qed.

  Lemma mt_lit (A : Type) c (k : bool -> str -> option A) a s :
    mt u (lit c) k a s = match s with x :: s' => if x =? c then k false s' else None | [] => None end.
  Proof. destruct s as [|x s]; cbn [mt lit]; [reflexivity|]. rewrite cls_lit_mem. reflexivity. Qed.

  Lemma mt_lit3 (A : Type) p q r (k : bool -> str -> option A) a s :
    mt u (lit3 p q r) k a s =
    match s with
    | x :: y :: z :: s' => if (x =? p) && (y =? q) && (z =? r) then k false s' else None
    | _ => None
    end.
  Proof.
    unfold lit3. cbn [mt]. rewrite mt_lit. destruct s as [|x s]; [reflexivity|].
    destruct (x =? p); cbn [andb]; [|destruct s as [|? [|? ?]]; reflexivity].
    rewrite mt_lit. destruct s as [|y s]; [reflexivity|].
    destruct (y =? q); cbn [andb]; [|destruct s; reflexivity].
    rewrite mt_lit. destruct s as [|z s]; reflexivity.
  Qed.

  Lemma mt_lit2 (A : Type) p q (k : bool -> str -> option A) a s :
    mt u (Seq (lit p) (lit q)) k a s =
    match s with
    | x :: y :: s' => if (x =? p) && (y =? q) then k false s' else None
    | _ => None
    end.
  Proof.
    cbn [mt]. rewrite mt_lit. destruct s as [|x s]; [reflexivity|].
    destruct (x =? p); cbn [andb]; [|destruct s; reflexivity].
    rewrite mt_lit. destruct s as [|y s]; reflexivity.
  Qed.

  Lemma star_lit3_sound (A : Type) c p q r (k : bool -> str -> option A) a s v :
    mt u (Seq (Star (Cls c)) (lit3 p q r)) k a s = Some v ->
    exists w s', s = w ++ [p; q; r] ++ s' /\ forallb (cls_mem u c) w = true /\ k false s' = Some v.
  Proof.
    cbn [mt]. intros H. apply star_cls_sound in H as (w & s' & a' & -> & Hw & H).
    rewrite mt_lit3 in H. destruct s' as [|x [|y [|z s'']]]; try discriminate.
    destruct ((x =? p) && (y =? q) && (z =? r)) eqn:E; [|discriminate].
    apply andb_prop in E as [E Ez]. apply andb_prop in E as [Ex Ey].
    apply N.eqb_eq in Ex, Ey, Ez. subst. exists w, s''. auto.
  Qed.

  (* -------------------------------------------------------------------------------------- *)
  (* first_alt / root_search                                                                  *)
  (* -------------------------------------------------------------------------------------- *)
  Lemma first_alt_suffix rs : forall s n rest, first_alt u rs s = Some (n, rest) -> exists w, s = w ++ rest.
  Proof.
    induction rs as [|nr rs IH]; intros s n rest H; cbn [first_alt] in H; [discriminate|].
    destruct (re_match u (snd nr) s) eqn:E.
    - inversion H; subst. unfold re_match in E. apply mt_suffix in E as (w & s' & a' & -> & E).
      inversion E; subst. exists w; auto.
    - eapply IH; eauto.
  Qed.

  Lemma first_alt_some_in rs : forall n r s, In (n, r) rs -> re_match u r s <> None -> first_alt u rs s <> None.
  Proof.
    induction rs as [|nr rs IH]; intros n r s Hin Hm; [contradiction|]. cbn [first_alt].
    destruct Hin as [->|Hin]; cbn [snd fst].
    - destruct (re_match u r s); [discriminate|contradiction].
    - destruct (re_match u (snd nr) s); [discriminate|eapply IH; eauto].
  Qed.

  Lemma firstn_len_app (w r : str) : firstn (length (w ++ r) - length r) (w ++ r) = w.
  Proof.
    rewrite app_length. replace (length w + length r - length r)%nat with (length w) by lia.
    rewrite firstn_app, Nat.sub_diag, firstn_all. cbn. apply app_nil_r.
  Qed.

  Lemma root_search_spec rs : forall s acc d n v rest,
      root_search u rs acc s = Some (d, n, v, rest) ->
      exists pre, d = rev acc ++ pre /\ s = pre ++ v ++ rest /\ first_alt u rs (v ++ rest) = Some (n, rest) /\
                  (forall p1 p2, pre = p1 ++ p2 -> p2 <> [] -> first_alt u rs (p2 ++ v ++ rest) = None).
  Proof.
    assert (Hit : forall s acc d n v rest n' rest',
               first_alt u rs s = Some (n', rest') ->
               Some (rev acc, n', firstn (length s - length rest') s, rest') = Some (d, n, v, rest) ->
               exists pre, d = rev acc ++ pre /\ s = pre ++ v ++ rest /\ first_alt u rs (v ++ rest) = Some (n, rest) /\
                           (forall p1 p2, pre = p1 ++ p2 -> p2 <> [] -> first_alt u rs (p2 ++ v ++ rest) = None)).
    { intros s acc d n v rest n' rest' E H. inversion H; subst.
      destruct (first_alt_suffix _ _ _ _ E) as (w & ->). rewrite firstn_len_app.
      exists []. rewrite app_nil_r. repeat split; auto.
      intros p1 p2 Hp Hne. symmetry in Hp. apply app_eq_nil in Hp as [_ ->]. contradiction. }
    induction s as [|a s IH]; intros acc d n v rest H; cbn [root_search] in H.
    - destruct (first_alt u rs []) as [[n' rest']|] eqn:E; [eapply Hit; eauto|discriminate].
    - destruct (first_alt u rs (a :: s)) as [[n' rest']|] eqn:E; [eapply Hit; eauto|].
      apply IH in H as (pre & Hd & Hs & Hfa & Hearly). exists (a :: pre).
      cbn [rev] in Hd. rewrite <- app_assoc in Hd. cbn [app] in Hd.
      repeat split; auto.
      + cbn [app]. rewrite <- Hs. reflexivity.
      + intros p1 p2 Hp Hne. destruct p1 as [|b p1]; cbn [app] in Hp.
        * subst p2. cbn [app]. rewrite <- Hs. exact E.
        * inversion Hp; subst. eapply Hearly; eauto.
  Qed.
End Sound.

(* ------------------------------------------------------------------------------------------ *)
(* markers                                                                                      *)
(* ------------------------------------------------------------------------------------------ *)
Lemma has_marker_app w : forall t, has_marker t = true -> has_marker (w ++ t) = true.
Proof.
  induction w as [|x w IH]; intros t H; [exact H|]. cbn [app has_marker]. rewrite (IH t H). apply orb_true_r.
Qed.

Lemma has_marker_app_false w t : has_marker (w ++ t) = false -> has_marker t = false.
Proof. intros H. destruct (has_marker t) eqn:E; [|reflexivity]. rewrite (has_marker_app w t E) in H. discriminate. Qed.

Lemma has_marker_skipn k : forall s, has_marker s = false -> has_marker (skipn k s) = false.
Proof.
  induction k as [|k IH]; intros s H; [exact H|]. destruct s as [|x s]; [exact H|]. cbn [skipn].
  apply IH. cbn [has_marker] in H. apply orb_false_elim in H as [_ H]. exact H.
Qed.

Lemma marker_alt_sound (A : Type) x (k : bool -> str -> option A) a s v :
  is_delim_char x = true -> mt py_uni (alt_marker x) k a s = Some v -> has_marker s = true.
Proof.
  intros Hx H. unfold alt_marker in H. apply star_lit3_sound in H as (w & s' & -> & _ & _).
  apply has_marker_app. cbn [app has_marker marker_at]. rewrite Hx. unfold LBRACE, STAR. cbn. reflexivity.
Qed.

Lemma begin_eq (A : Type) x (k : bool -> str -> option A) a s :
  is_delim_char x = true -> has_marker s = false ->
  mt py_uni (begin_bundled x) k a s = mt py_uni (begin_stock x) k a s.
Proof.
  intros Hx Hs. unfold begin_bundled, begin_stock. cbn [mt].
  destruct (mt py_uni (alt_minus x) k a s); [reflexivity|].
  destruct (mt py_uni (alt_marker x) k a s) eqn:E; [|reflexivity].
  apply marker_alt_sound in E; [congruence|assumption].
Qed.

Lemma first_alt_eq q s :
  has_marker s = false -> first_alt py_uni (model_bundled_rules_q q) s = first_alt py_uni stock_root_rules s.
Proof.
  intros Hs. destruct q; unfold model_bundled_rules_q, stock_root_rules, mk_rules3; cbn [first_alt fst snd]; unfold re_match; cbn [mt];
    rewrite !begin_eq by (assumption || reflexivity); reflexivity.
Qed.

Lemma root_search_eq q : forall s acc,
    has_marker s = false -> root_search py_uni (model_bundled_rules_q q) acc s = root_search py_uni stock_root_rules acc s.
Proof.
  induction s as [|a s IH]; intros acc H; cbn [root_search]; rewrite (first_alt_eq q _ H);
    destruct (first_alt py_uni stock_root_rules _) as [[n rest]|]; auto.
  apply IH. cbn [has_marker] in H. apply orb_false_elim in H as [_ H]. exact H.
Qed.

Lemma root_search_rest_nomarker rs s acc d n v rest :
  root_search py_uni rs acc s = Some (d, n, v, rest) -> has_marker s = false -> has_marker rest = false.
Proof.
  intros H Hs. apply root_search_spec in H as (pre & _ & -> & _ & _).
  apply has_marker_app_false in Hs. apply has_marker_app_false in Hs. exact Hs.
Qed.

Lemma scan_eq q inner : forall fuel s,
    has_marker s = false -> scan py_uni (model_bundled_rules_q q) inner fuel s = scan py_uni stock_root_rules inner fuel s.
Proof.
  induction fuel as [|f IH]; intros s H; cbn [scan]; [reflexivity|].
  rewrite (root_search_eq q s [] H).
  destruct (root_search py_uni stock_root_rules [] s) as [[[[d n] v] rest]|] eqn:E; [|reflexivity].
  destruct (inner n rest) as [[toks k]|]; [|reflexivity].
  rewrite IH; [reflexivity|]. apply has_marker_skipn. eapply root_search_rest_nomarker; eauto.
Qed.

Theorem scan_conservative_lemma : forall (inner : str -> str -> option (list tok * nat)) (src : str),
    has_marker src = false -> scan_bundled inner src = scan_stock inner src.
Proof.
  intros inner src H. unfold scan_bundled, scan_stock, scan_all.
  destruct rules_shape as [E|E]; rewrite E; apply scan_eq; exact H.
Qed.

(* ------------------------------------------------------------------------------------------ *)
(* the marker token captures exactly the run of blanks before the opener                        *)
(* ------------------------------------------------------------------------------------------ *)
Lemma ends_with_inv p s : ends_with p s = true -> exists s' c, s = s' ++ [c] /\ p c = true.
Proof.
  unfold ends_with. intros H. destruct (rev s) as [|c l] eqn:E; [discriminate|].
  exists (rev l), c. split; [|exact H]. rewrite <- (rev_involutive s), E. reflexivity.
Qed.

Lemma ends_with_app3 p w a b c : ends_with p (w ++ [a; b; c]) = p c.
Proof. unfold ends_with. rewrite rev_app_distr. reflexivity. Qed.

Lemma begin_bundled_inv x t rest :
  re_match py_uni (begin_bundled x) t = Some rest ->
  (exists w, t = (w ++ [LBRACE; x; MINUS]) ++ rest) \/
  (exists w, forallb is_blank w = true /\ t = (w ++ [LBRACE; x; STAR]) ++ rest) \/
  t = [LBRACE; x] ++ rest.
Proof.
  unfold re_match, begin_bundled. cbn [mt]. intros H.
  destruct (mt py_uni (alt_minus x) _ true t) eqn:E1.
  - inversion H; subst. unfold alt_minus in E1. apply star_lit3_sound in E1 as (w & s' & -> & _ & E1).
    inversion E1; subst. left. exists w. rewrite <- app_assoc. reflexivity.
  - destruct (mt py_uni (alt_marker x) _ true t) eqn:E2.
    + inversion H; subst. unfold alt_marker in E2. apply star_lit3_sound in E2 as (w & s' & -> & Hw & E2).
      inversion E2; subst. right; left. exists w. split; [|rewrite <- app_assoc; reflexivity].
      rewrite <- Hw. apply forallb_ext. intros c. symmetry. apply cls_blank_mem.
    + unfold alt_plain in H. rewrite mt_lit2 in H. destruct t as [|a [|b t]]; try discriminate.
      destruct ((a =? LBRACE) && (b =? x)) eqn:E; [|discriminate]. apply andb_prop in E as [Ea Eb].
      apply N.eqb_eq in Ea, Eb. subst. inversion H; subst. right; right. reflexivity.
Qed.

Lemma marker_alt_complete x w rest :
  forallb is_blank w = true -> re_match py_uni (begin_bundled x) (w ++ [LBRACE; x; STAR] ++ rest) <> None.
Proof.
  intros Hw. unfold re_match, begin_bundled. cbn [mt].
  destruct (mt py_uni (alt_minus x) _ true _); [discriminate|].
  destruct (mt py_uni (alt_marker x) _ true _) eqn:E; [discriminate|]. exfalso. revert E.
  unfold alt_marker. cbn [mt]. apply star_cls_complete.
  - intros a'. rewrite mt_lit3. cbn [app]. rewrite !N.eqb_refl. cbn. discriminate.
  - rewrite app_length. lia.
  - rewrite <- Hw. apply forallb_ext. intros c. apply cls_blank_mem.
Qed.

Lemma begin_stock_inv x t rest :
  re_match py_uni (begin_stock x) t = Some rest ->
  (exists w, t = (w ++ [LBRACE; x; MINUS]) ++ rest) \/ t = [LBRACE; x] ++ rest.
Proof.
  unfold re_match, begin_stock. cbn [mt]. intros H.
  destruct (mt py_uni (alt_minus x) _ true t) eqn:E1.
  - inversion H; subst. unfold alt_minus in E1. apply star_lit3_sound in E1 as (w & s' & -> & _ & E1).
    inversion E1; subst. left. exists w. rewrite <- app_assoc. reflexivity.
  - unfold alt_plain in H. rewrite mt_lit2 in H. destruct t as [|a [|b t]]; try discriminate.
    destruct ((a =? LBRACE) && (b =? x)) eqn:E; [|discriminate]. apply andb_prop in E as [Ea Eb].
    apply N.eqb_eq in Ea, Eb. subst. inversion H; subst. right. reflexivity.
Qed.

Lemma marker_prefix_captured_q q : forall (s d n v rest : str),
    root_search py_uni (model_bundled_rules_q q) [] s = Some (d, n, v, rest) ->
    n <> n_raw -> ends_with (fun c => c =? STAR) v = true ->
    exists w x, is_delim_char x = true /\ v = w ++ [LBRACE; x; STAR] /\ forallb is_blank w = true /\
                s = d ++ v ++ rest /\ ends_with is_blank d = false.
Proof.
  intros s d n v rest H Hn Hstar.
  apply root_search_spec in H as (pre & Hd & Hs & Hfa & Hearly). cbn [rev app] in Hd. subst pre.
  assert (Hv : exists w x, is_delim_char x = true /\ v = w ++ [LBRACE; x; STAR] /\ forallb is_blank w = true /\
                           exists nm, In (nm, begin_bundled x) (model_bundled_rules_q q)).
  { unfold model_bundled_rules_q, mk_rules3 in Hfa. cbn [first_alt fst snd] in Hfa.
    destruct (re_match py_uni (Seq (begin_bundled PERCENT) raw_tail) (v ++ rest)); [inversion Hfa; subst; contradiction|].
    assert (Hcase : forall x nm, is_delim_char x = true -> In (nm, begin_bundled x) (model_bundled_rules_q q) ->
                                 re_match py_uni (begin_bundled x) (v ++ rest) = Some rest ->
                                 exists w x, is_delim_char x = true /\ v = w ++ [LBRACE; x; STAR] /\ forallb is_blank w = true /\
                                             exists nm, In (nm, begin_bundled x) (model_bundled_rules_q q)).
    { intros x nm Hx Hin Hm. apply begin_bundled_inv in Hm as [(w & Hw)|[(w & Hb & Hw)|Hw]]; apply app_inv_tail in Hw; subst v.
      - rewrite ends_with_app3 in Hstar. discriminate.
      - exists w, x. repeat split; auto. exists nm. exact Hin.
      - unfold ends_with in Hstar. cbn in Hstar. unfold is_delim_char in Hx.
        apply N.eqb_eq in Hstar. subst x. discriminate. }
    destruct (re_match py_uni (begin_bundled LBRACE) (v ++ rest)) eqn:E1.
    { inversion Hfa; subst. eapply (Hcase LBRACE n_variable); eauto. destruct q; cbn; auto. }
    destruct (re_match py_uni ((if q then begin_bundled else begin_stock) HASH) (v ++ rest)) eqn:E2.
    { inversion Hfa; subst. destruct q.
      - eapply (Hcase HASH n_comment); eauto. cbn; auto.
      - exfalso. apply begin_stock_inv in E2 as [(w & Hw)|Hw]; apply app_inv_tail in Hw; subst v.
        + rewrite ends_with_app3 in Hstar. discriminate.
        + unfold ends_with in Hstar. cbn in Hstar. discriminate. }
    destruct (re_match py_uni (begin_bundled PERCENT) (v ++ rest)) eqn:E3; [|discriminate].
    inversion Hfa; subst. eapply (Hcase PERCENT n_block); eauto. destruct q; cbn; auto. }
  destruct Hv as (w & x & Hx & Hv & Hw & nm & Hin). exists w, x. repeat split; auto.
  destruct (ends_with is_blank d) eqn:Hb; [|reflexivity]. exfalso.
  apply ends_with_inv in Hb as (d' & b & -> & Hb).
  specialize (Hearly d' [b] eq_refl ltac:(discriminate)).
  eapply first_alt_some_in in Hin; [apply Hin; exact Hearly|].
  subst v. replace ([b] ++ (w ++ [LBRACE; x; STAR]) ++ rest) with ((b :: w) ++ [LBRACE; x; STAR] ++ rest)
    by (cbn [app]; rewrite <- app_assoc; reflexivity).
  apply marker_alt_complete. cbn [forallb]. rewrite Hb, Hw. reflexivity.
Qed.

Theorem marker_prefix_captured_lemma : forall (s d n v rest : str),
    root_search py_uni bundled_root_rules [] s = Some (d, n, v, rest) ->
    n <> n_raw -> ends_with (fun c => c =? STAR) v = true ->
    exists w x, is_delim_char x = true /\ v = w ++ [LBRACE; x; STAR] /\ forallb is_blank w = true /\
                s = d ++ v ++ rest /\ ends_with is_blank d = false.
Proof.
  intros s d n v rest H. destruct rules_shape as [E|E]; rewrite E in H; eapply marker_prefix_captured_q; exact H.
Qed.

(* the quirk-faithful rule set (comment rule with the marker alternative) is NOT conservative on templates that use neither
   "{%*" nor "{{*" *)
Lemma comment_star_refuted :
  exists (src : str),
    has_marker_documented src = false /\
    scan_all py_uni (model_bundled_rules_q true) (fun _ _ => Some ([], 7%nat)) src <> scan_stock (fun _ _ => Some ([], 7%nat)) src.
Proof. exists [97; 32; 32; 123; 35; 42; 32; 99; 32; 35; 125; 98]. split; [reflexivity|]. vm_compute. discriminate. Qed.

(* ------------------------------------------------------------------------------------------ *)
(* auto-indent desugaring, assert, ifuses                                                       *)
(* ------------------------------------------------------------------------------------------ *)
Lemma filter_is_lineprefix : builtin_filters autoindent_filter_name = Some do_lineprefix.
Proof. reflexivity. Qed.

Theorem autoindent_var_lemma (E : Type) (ev : E -> str) (mk : option str) (rv : E) :
  render_node ev builtin_filters (subparse_variable mk rv) =
  Some (match mk with Some p => do_lineprefix (ev rv) p | None => ev rv end).
Proof.
  unfold subparse_variable. destruct mk; cbn [render_node]; [rewrite filter_is_lineprefix|]; reflexivity.
Qed.

Lemma render_all_plain (E : Type) (ev : E -> str) (rv : list E) : render_all ev (map NPlain rv) = Some (concat (map ev rv)).
Proof. induction rv as [|e rv IH]; cbn [map render_all render_node concat]; [reflexivity|]. rewrite IH. reflexivity. Qed.

Theorem autoindent_block_lemma (E : Type) (ev : E -> str) (mk : option str) (rv : list E) :
  render_all ev (subparse_block mk rv) =
  Some (match mk with Some p => do_lineprefix (concat (map ev rv)) p | None => concat (map ev rv) end).
Proof.
  unfold subparse_block. destruct mk.
  - cbn [render_all render_node]. rewrite filter_is_lineprefix. rewrite app_nil_r. reflexivity.
  - apply render_all_plain.
Qed.

Lemma autoindent_prefix_opener (w : str) (a b c : N) : autoindent_prefix (w ++ [a; b; c]) = w.
Proof.
  unfold autoindent_prefix. rewrite app_length. cbn [length].
  replace (length w + 3 - 3)%nat with (length w) by lia.
  rewrite firstn_app, Nat.sub_diag, firstn_all. cbn. apply app_nil_r.
Qed.

Lemma marker_token_is_marker (w : str) (a b : N) : token_is_marker (w ++ [a; b; STAR]) = true.
Proof.
  unfold token_is_marker. destruct (w ++ [a; b; STAR]) eqn:E; [destruct w; discriminate|]. rewrite <- E.
  rewrite ends_with_app3. reflexivity.
Qed.

Theorem assert_is_conditional_lemma (t : bool) : render_assert t = eval_if (IfN t (Out []) [] Raise).
Proof. destruct t; reflexivity. Qed.

Fixpoint cascade {B} (cl : list (bool * bool * B)) (else_ : B) : B :=
  match cl with
  | [] => else_
  | c :: r => if xorb (fst (fst c)) (snd (fst c)) then snd c else cascade r else_
  end.

Lemma use_test_xor c : use_test c = xorb (fst c) (snd c).
Proof. destruct c as [[|] [|]]; reflexivity. Qed.

Theorem ifuses_is_conditional_lemma (B : Type) (first : bool * bool * B) (rest : list (bool * bool * B)) (else_ : B) :
  eval_if (parse_ifuses first rest else_) = cascade (first :: rest) else_.
Proof.
  unfold parse_ifuses. cbn [eval_if cascade]. rewrite use_test_xor. destruct (xorb _ _); [reflexivity|].
  induction rest as [|c r IH]; cbn [map eval_elifs cascade fst snd]; [reflexivity|].
  rewrite use_test_xor. destruct (xorb _ _); [reflexivity|exact IH].
Qed.

(* ifuses over a changing world: the If node built by UseQuery.parse evaluates exactly like the ordinary chain, including the
   world it leaves behind (same queries asked, same order, same number of times) *)
Lemma use_testT_xor (S : Type) (ask : S -> N -> bool * S) neg q s :
  use_testT ask neg q s = (xorb neg (fst (ask s q)), snd (ask s q)).
Proof. unfold use_testT. destruct (ask s q) as [a s']. destruct neg, a; reflexivity. Qed.

Theorem ifusesT_is_chain_lemma (S B : Type) (ask : S -> N -> bool * S) (first : bool * N * B) (rest : list (bool * N * B)) (else_ : B) (s : S) :
  eval_ifT (parse_ifusesT ask first rest else_) s = run_chain ask (first :: rest) else_ s.
Proof.
  unfold parse_ifusesT. cbn [eval_ifT run_chain]. rewrite use_testT_xor. destruct (ask s (snd (fst first))) as [a s']. cbn [fst snd].
  destruct (xorb (fst (fst first)) a); [reflexivity|]. clear s a. revert s'.
  induction rest as [|c r IH]; intros s; cbn [map eval_elifsT run_chain fst snd]; [reflexivity|].
  rewrite use_testT_xor. destruct (ask s (snd (fst c))) as [a s']. cbn [fst snd].
  destruct (xorb (fst (fst c)) a); [reflexivity|apply IH].
Qed.

Lemma render_seq_ext (S B : Type) (r1 r2 : list (S -> B * S)) :
  Forall2 (fun f g => forall s, f s = g s) r1 r2 -> forall s, render_seq r1 s = render_seq r2 s.
Proof.
  induction 1 as [|f g r1 r2 Hfg _ IH]; intros s; cbn [render_seq]; [reflexivity|].
  rewrite Hfg. destruct (g s) as [b s']. rewrite IH. reflexivity.
Qed.

Theorem ifuses_seq_is_chain_seq_lemma (S B : Type) (ask : S -> N -> bool * S)
        (steps : list ((bool * N * B) * list (bool * N * B) * B)) (s : S) :
  render_seq (map (fun st => eval_ifT (parse_ifusesT ask (fst (fst st)) (snd (fst st)) (snd st))) steps) s =
  render_seq (map (fun st => run_chain ask (fst (fst st) :: snd (fst st)) (snd st)) steps) s.
Proof.
  apply render_seq_ext. induction steps as [|st r IH]; cbn [map]; constructor; [|exact IH].
  intros s0. apply ifusesT_is_chain_lemma.
Qed.
