(* C08: the generic theorems of ListingThm.v instantiated with the code translated from /repo (Generated/Gen_Listing.v).
   The decidable conditions are discharged by computation over all 4 * 2^8 flag combinations (and both values of the
   namespace-type decision): an edit of cli/runners.py that makes the modes disagree makes one of these Qed's fail. *)
From Coq Require Import List NArith Bool.
From Verif Require Import Str Listing ListingThm Gen_Listing.
Import ListNotations.
Open Scope N_scope.

Lemma the_guards : guards_ok the_code = true.
Proof. vm_compute. reflexivity. Qed.

Lemma the_chk_pure : forall fl nse, chk_pure the_code fl nse = true.
Proof. intros [[] [] [] [] [] [] [] [] []] []; vm_compute; reflexivity. Qed.

Lemma the_chk_outputs : forall fl nse, chk_outputs the_code fl nse = true.
Proof. intros [[] [] [] [] [] [] [] [] []] []; vm_compute; reflexivity. Qed.

Lemma the_chk_inputs : forall fl nse, chk_inputs the_code fl nse = true.
Proof. intros [[] [] [] [] [] [] [] [] []] []; vm_compute; reflexivity. Qed.

Lemma the_chk_stable : forall fl, chk_stable the_code fl = true.
Proof. intros [[] [] [] [] [] [] [] [] []]; vm_compute; reflexivity. Qed.

Definition any_mode (c : cfg) : bool :=
  f_lo (c_flags c) || f_li (c_flags c) || f_lc (c_flags c) || f_dry (c_flags c).
Definition rejected (c : cfg) : bool := beval (c_flags c) false false false (k_reject the_code).

Theorem list_modes_pure_thm : forall c i f, any_mode c = true -> fst (fst (run the_code c i f)) = f.
Proof. intros. apply (list_modes_pure_gen the_code the_guards the_chk_pure). assumption. Qed.

Theorem list_outputs_exact_thm : forall c i, f_lc (c_flags c) = false ->
  forall f' out', run the_code (real_of c) i fs_empty = (f', out', Ok) ->
  forall f, exists out, run the_code (lo_of c) i f = (f, out, Ok) /\ (forall p, In p out <-> f' p = true).
Proof. intros c i. apply (list_outputs_exact_gen the_code the_guards the_chk_outputs the_chk_stable). Qed.

Theorem list_inputs_partial_thm : forall c i, f_lc (c_flags c) = false -> rejected c = false ->
  eff_trig_lookup the_code i = false -> eff_trig_tpl the_code c i = false -> eff_trig_sup the_code c = false ->
  (k_fix_suptpl the_code || support_consistent c) = true ->
  forall x, In x (influence_set the_code c i) ->
  forall f, exists out, run the_code (li_of c) i f = (f, out, Ok) /\ In x out.
Proof. intros c i. apply (list_inputs_partial_gen the_code the_chk_inputs the_chk_stable). Qed.

(* the full statement, live on a tree that has the three repairs (design_notes/C08_fix_*.patch): the only inputs --list-inputs
   can then miss are Python package files loaded as templates *)
Theorem list_inputs_complete_thm :
  k_fix_lookup the_code = true -> k_fix_nonj2 the_code = true -> k_fix_suptpl the_code = true ->
  forall c i, f_lc (c_flags c) = false -> rejected c = false -> trig_py c i = false ->
  forall x, In x (influence_set the_code c i) ->
  forall f, exists out, run the_code (li_of c) i f = (f, out, Ok) /\ In x out.
Proof. exact (list_inputs_complete_gen the_code the_chk_inputs the_chk_stable). Qed.

(* the argparse rule: --omit-serialization-support with --generate-support always is refused before anything happens *)
Theorem rejected_does_nothing : forall c i f, rejected c = true -> run the_code c i f = (f, [], Rejected).
Proof. intros c i f H. unfold run. unfold rejected in H. rewrite H. reflexivity. Qed.

(* ---- witnesses (a made-up language so that they depend on the translated code only) -------- *)
Definition w_tf (n : N) (j2 : bool) (cl : option cls) : tfile := {| tf_name := [n]; tf_path := [[112]; [n]]; tf_j2 := j2; tf_py := false; tf_cls := cl |}.
Definition w_res : sres := {| sr_name := [115]; sr_stem := [115]; sr_j2 := true; sr_path := [[112]; [115]] |}.
Definition w_lang : langinfo := {|
  l_ext := [46; 104]; l_stem := [95]; l_std_ns := false; l_support_ns := [[110]];
  l_templates := [w_tf 65 true (Some CAny); w_tf 98 true None];
  l_support_dir := [w_tf 115 true None];
  l_sup_ser := [w_res]; l_sup_type := [] |}.
Definition w_flags (m : smode) (omit : bool) : flags :=
  {| f_support := m; f_omit := omit; f_ns := false; f_dry := false; f_lo := false; f_li := false; f_lc := false;
     f_now := false; f_embed := false |}.
Definition w_cfg (m : smode) (omit : bool) (tpl sup : option (list tfile)) : cfg :=
  {| c_lang := w_lang; c_flags := w_flags m omit; c_ext := None; c_stem := None; c_templates := tpl;
     c_support_templates := sup; c_outdir := [[111]] |}.
Definition w_type (key : N) (ns name : N) (deps : list N) : dtype :=
  {| t_key := key; t_ns := [[ns]]; t_stem := [name]; t_kind := KStructure; t_src := [[ns]; [name]]; t_deps := deps |}.
(* root namespace r with r.A using l.D from a lookup directory *)
Definition w_inputs_lookup : inputs :=
  {| i_roots := [w_type 1 114 65 [2]]; i_lookup := [w_type 2 108 68 []]; i_root_dir := [[114]]; i_loaded_types := [[65]; [98]] |}.
Definition w_inputs_plain : inputs :=
  {| i_roots := [w_type 1 114 65 [3]; w_type 3 114 66 []]; i_lookup := []; i_root_dir := [[114]]; i_loaded_types := [[65]; [98]] |}.

Definition listed (c : cfg) (i : inputs) : list path := snd (fst (run the_code (li_of c) i fs_empty)).

(* F-LIST-INPUTS-LOOKUP: the .dsdl of a --lookup-dir dependency influences the output and is not listed *)
Lemma list_inputs_lookup_refuted_w : k_fix_lookup the_code = false ->
  let c := w_cfg SAsNeeded false None None in let x := [[108]; [68]] in
  trig_lookup w_inputs_lookup = true /\ trig_nonj2 c w_inputs_lookup = false /\ trig_support_override the_code c = false
  /\ path_in x (influence_set the_code c w_inputs_lookup) = true /\ path_in x (listed c w_inputs_lookup) = false.
Proof. intros H. vm_compute in H. first [discriminate H | vm_compute; repeat split; reflexivity]. Qed.

(* F-LIST-INPUTS-NONJ2: a template file without the .j2 suffix that the environment loads (html: namespace_base.js and the files under assets) *)
Definition w_tpl_nonj2 : list tfile := [w_tf 65 true (Some CAny); w_tf 120 false None].
Definition w_inputs_nonj2 : inputs :=
  {| i_roots := [w_type 1 114 65 []]; i_lookup := []; i_root_dir := [[114]]; i_loaded_types := [[65]; [120]] |}.
Lemma list_inputs_nonj2_refuted_w : k_fix_nonj2 the_code = false ->
  let c := w_cfg SAsNeeded false (Some w_tpl_nonj2) None in let x := [[112]; [120]] in
  trig_lookup w_inputs_nonj2 = false /\ trig_nonj2 c w_inputs_nonj2 = true /\ trig_support_override the_code c = false
  /\ path_in x (influence_set the_code c w_inputs_nonj2) = true /\ path_in x (listed c w_inputs_nonj2) = false.
Proof. intros H. vm_compute in H. first [discriminate H | vm_compute; repeat split; reflexivity]. Qed.

(* F-LIST-INPUTS-SUPTPL: --support-templates DIR shadows the packaged support template; the packaged one is listed *)
Definition w_sup_dir : list tfile := [{| tf_name := [115]; tf_path := [[100]; [115]]; tf_j2 := true; tf_py := false; tf_cls := None |}].
Lemma list_inputs_support_override_refuted_w : k_fix_suptpl the_code = false ->
  let c := w_cfg SAsNeeded false None (Some w_sup_dir) in let x := [[100]; [115]] in
  trig_lookup w_inputs_plain = false /\ trig_nonj2 c w_inputs_plain = false /\ trig_support_override the_code c = true
  /\ path_in x (influence_set the_code c w_inputs_plain) = true /\ path_in x (listed c w_inputs_plain) = false.
Proof. intros H. vm_compute in H. first [discriminate H | vm_compute; repeat split; reflexivity]. Qed.

(* non-vacuity: a real run that succeeds and creates type and support files; its listing; the hypotheses of the partial theorem *)
Definition created (c : cfg) (i : inputs) (p : path) : bool := fst (fst (run the_code (real_of c) i fs_empty)) p.
Lemma example_real_run :
  let c := w_cfg SAsNeeded false None None in
  snd (run the_code (real_of c) w_inputs_plain fs_empty) = Ok
  /\ created c w_inputs_plain [[111]; [114]; [65; 46; 104]] = true
  /\ created c w_inputs_plain [[111]; [110]; [115; 46; 104]] = true
  /\ forallb (fun p => path_in p (snd (fst (run the_code (lo_of c) w_inputs_plain fs_empty))))
             [[[111]; [114]; [65; 46; 104]]; [[111]; [114]; [66; 46; 104]]; [[111]; [110]; [115; 46; 104]]] = true
  /\ length (snd (fst (run the_code (lo_of c) w_inputs_plain fs_empty))) = 3%nat.
Proof. vm_compute. repeat split; reflexivity. Qed.

Lemma example_partial_hyps :
  let c := w_cfg SAsNeeded false None None in
  rejected c = false /\ eff_trig_lookup the_code w_inputs_plain = false /\ eff_trig_tpl the_code c w_inputs_plain = false
  /\ eff_trig_sup the_code c = false /\ support_consistent c = true /\ trig_py c w_inputs_plain = false
  /\ path_in [[114]; [66]] (influence_set the_code c w_inputs_plain) = true.
Proof. vm_compute. repeat split; reflexivity. Qed.

(* the repaired F-LIST-ONLY-POD: `--generate-support only --omit-serialization-support` lists nothing and creates nothing *)
Lemma example_only_pod :
  let c := w_cfg SOnly true None None in
  snd (fst (run the_code (lo_of c) w_inputs_plain fs_empty)) = []
  /\ snd (run the_code (real_of c) w_inputs_plain fs_empty) = Ok
  /\ created c w_inputs_plain [[111]; [110]; [115; 46; 104]] = false.
Proof. vm_compute. repeat split; reflexivity. Qed.

Lemma example_rejected : rejected (w_cfg SAlways true None None) = true.
Proof. vm_compute. reflexivity. Qed.

(* a run that fails (no template for namespaces) is outside the premise of list_outputs_exact *)
Lemma example_no_template :
  let c := with_flags (w_cfg SNever false (Some [w_tf 98 true (Some CStructure)]) None)
             {| f_support := SNever; f_omit := false; f_ns := true; f_dry := false; f_lo := false; f_li := false; f_lc := false;
                f_now := false; f_embed := false |} in
  snd (run the_code c w_inputs_plain fs_empty) = NoTemplate.
Proof. vm_compute. reflexivity. Qed.

(* two custom templates with the same basename in different sub-directories are both listed *)
Definition w_nested_dir : list tfile :=
  [w_tf 65 true (Some CAny);
   {| tf_name := [109; 47; 98]; tf_path := [[112]; [109]; [98]]; tf_j2 := true; tf_py := false; tf_cls := None |};
   {| tf_name := [115; 47; 98]; tf_path := [[112]; [115]; [98]]; tf_j2 := true; tf_py := false; tf_cls := None |}].
Lemma example_same_basename_both_listed :
  let c := w_cfg SNever false (Some w_nested_dir) None in
  path_in [[112]; [109]; [98]] (listed c w_inputs_plain) = true /\ path_in [[112]; [115]; [98]] (listed c w_inputs_plain) = true.
Proof. vm_compute. split; reflexivity. Qed.
