(* C08: the generic theorems of ListingThm.v instantiated with the code translated from /repo (Generated/Gen_Listing.v).
   The decidable conditions are discharged by computation over all 4 * 2^8 flag combinations (and both values of the
   namespace-type decision): an edit of cli/runners.py that makes the modes disagree makes one of these Qed's fail;
   `the_guards` fails when the effect scan of the listing / dry-run call path finds an effect outside the dry-run guards. *)
From Coq Require Import List NArith Bool.
From Verif Require Import Str Listing ListingThm Gen_Listing.
Import ListNotations.
Open Scope N_scope.

Lemma the_guards : guards_ok the_code = true.
Proof. vm_compute. reflexivity. Qed.

Lemma the_chk_pure : forall fl nse, chk_pure the_code fl nse = true.
Proof. intros [[] [] [] [] [] [] [] [] []] []; vm_compute; reflexivity. Qed.

Lemma the_chk_outputs : forall fl nse, chk_outputs the_code fl nse = true.
Proof. intros [[] [] [] [] [] [] [] [] []] []; vm_compute; reflexivity. Qed.

Lemma the_chk_inputs : forall fl nse, chk_inputs the_code fl nse = true.
Proof. intros [[] [] [] [] [] [] [] [] []] []; vm_compute; reflexivity. Qed.

Lemma the_chk_stable : forall fl, chk_stable the_code fl = true.
Proof. intros [[] [] [] [] [] [] [] [] []]; vm_compute; reflexivity. Qed.

Definition any_mode (c : cfg) : bool :=
  f_lo (c_flags c) || f_li (c_flags c) || f_lc (c_flags c) || f_dry (c_flags c).
Definition rejected (c : cfg) : bool := beval (c_flags c) false false false (k_reject the_code).

Theorem list_modes_pure_thm : forall c i f, any_mode c = true -> fst (fst (run the_code c i f)) = f.
Proof. intros. apply (list_modes_pure_gen the_code the_guards the_chk_pure). assumption. Qed.

Theorem list_outputs_exact_thm : forall c i, f_lc (c_flags c) = false ->
  forall f' out', run the_code (real_of c) i fs_empty = (f', out', Ok) ->
  forall f, exists out, run the_code (lo_of c) i f = (f, out, Ok)
    /\ (forall p, In p out <-> is_file (f' p) = true)
    /\ (forall q, is_dir (f' q) = true -> exists p, In p out /\ path_in q (parents p) = true).
Proof. intros c i. apply (list_outputs_exact_gen the_code the_guards the_chk_outputs the_chk_stable). Qed.

Theorem list_inputs_partial_thm : forall c i, f_lc (c_flags c) = false -> rejected c = false -> ns_clash the_code c i = false ->
  eff_trig_lookup the_code i = false -> eff_trig_tpl the_code c i = false -> eff_trig_sup the_code c = false ->
  (k_fix_suptpl the_code || support_consistent c) = true ->
  forall x, In x (influence_set the_code c i) ->
  forall f, exists out, run the_code (li_of c) i f = (f, out, Ok) /\ In x out.
Proof. intros c i. apply (list_inputs_partial_gen the_code the_guards the_chk_inputs the_chk_stable). Qed.

Theorem list_inputs_complete_thm :
  k_fix_lookup the_code = true -> k_fix_constref the_code = true -> k_fix_nonj2 the_code = true -> k_fix_suptpl the_code = true ->
  forall c i, f_lc (c_flags c) = false -> rejected c = false -> ns_clash the_code c i = false ->
  eff_trig_tpl the_code c i = false -> trig_sup_refs the_code c = false ->
  forall x, In x (all_influences the_code c i) -> is_config_input c x = false ->
  forall f, exists out, run the_code (li_of c) i f = (f, out, Ok) /\ In x out.
Proof. exact (list_inputs_complete_gen the_code the_guards the_chk_inputs the_chk_stable). Qed.

(* the four --list-inputs repairs are in the tree under test (obligation: a tree that loses one breaks here) and the full
   statement is live without premises on the code *)
Lemma the_repairs_present :
  k_fix_lookup the_code = true /\ k_fix_constref the_code = true /\ k_fix_nonj2 the_code = true /\ k_fix_suptpl the_code = true.
Proof. repeat split; reflexivity. Qed.
Lemma the_closure_repairs_present : k_fix_pyres the_code = true /\ k_fix_linkdir the_code = true.
Proof. split; reflexivity. Qed.

Theorem list_inputs_complete_live :
  forall c i, f_lc (c_flags c) = false -> rejected c = false -> ns_clash the_code c i = false ->
  eff_trig_tpl the_code c i = false -> trig_sup_refs the_code c = false ->
  forall x, In x (all_influences the_code c i) -> is_config_input c x = false ->
  forall f, exists out, run the_code (li_of c) i f = (f, out, Ok) /\ In x out.
Proof.
  destruct the_repairs_present as (H1 & H2 & H3 & H4). exact (list_inputs_complete_thm H1 H2 H3 H4).
Qed.

(* the argparse rule: --omit-serialization-support with --generate-support always is refused before anything happens *)
Theorem rejected_does_nothing : forall c i f, rejected c = true -> run the_code c i f = (f, [], Rejected).
Proof. intros c i f H. unfold run. unfold rejected in H. rewrite H. reflexivity. Qed.

(* ---- witnesses (a made-up language so that they depend on the translated code only) -------- *)
Definition w_tfr (n : N) (j2 : bool) (cl : option cls) (refs : list str) : tfile :=
  {| tf_name := [n]; tf_path := [[112]; [n]]; tf_j2 := j2; tf_py := false; tf_pkg := false; tf_linked := false; tf_cls := cl; tf_refs := refs; tf_dyn := false |}.
Definition w_tf (n : N) (j2 : bool) (cl : option cls) : tfile := w_tfr n j2 cl [].
Definition w_res : sres := {| sr_name := [115]; sr_stem := [115]; sr_j2 := true; sr_path := [[112]; [115]] |}.
(* templates p/A (class Any, includes b) and p/b; an unreferenced p/u *)
Definition w_lang : langinfo := {|
  l_ext := [46; 104]; l_stem := [95]; l_std_ns := false; l_support_ns := [[110]];
  l_templates := [w_tfr 65 true (Some CAny) [[98]]; w_tf 98 true None; w_tf 117 true None];
  l_support_dir := [w_tf 115 true None];
  l_sup_ser := [w_res]; l_sup_type := []; l_properties := [[121]] |}.
Definition w_flags (m : smode) (omit : bool) : flags :=
  {| f_support := m; f_omit := omit; f_ns := false; f_dry := false; f_lo := false; f_li := false; f_lc := false;
     f_now := false; f_embed := false |}.
Definition w_cfg (m : smode) (omit : bool) (tpl sup : option (list tfile)) : cfg :=
  {| c_lang := w_lang; c_flags := w_flags m omit; c_ext := None; c_stem := None; c_templates := tpl;
     c_support_templates := sup; c_config_files := [[[99]]]; c_outdir := [[111]] |}.
Definition w_type (key : N) (ns name : N) (deps : list N) : dtype :=
  {| t_key := key; t_ns := [[ns]]; t_stem := [name]; t_kind := KStructure; t_src := [[ns]; [name]]; t_deps := deps; t_crefs := [] |}.
(* root namespace r with r.A using l.D from a lookup directory *)
Definition w_inputs_lookup : inputs :=
  {| i_roots := [w_type 1 114 65 [2]]; i_lookup := [w_type 2 108 68 []]; i_root_dir := [[114]] |}.
Definition w_inputs_plain : inputs :=
  {| i_roots := [w_type 1 114 65 [3]; w_type 3 114 66 []]; i_lookup := []; i_root_dir := [[114]] |}.

Definition listed (c : cfg) (i : inputs) : list path := snd (fst (run the_code (li_of c) i fs_empty)).

(* F-LIST-INPUTS-CONSTREF: r.A uses a CONSTANT of l.D (from a lookup directory) inside an expression only, e.g.
   `uint8[<=l.D.1.0.MAX] data`; the front end reads l/D, no field of r.A has that type; l/D influences the output and is not listed
   as long as _dependency_source_files() follows composite fields only *)
Definition w_inputs_constref : inputs :=
  {| i_roots := [{| t_key := 1; t_ns := [[114]]; t_stem := [65]; t_kind := KStructure; t_src := [[114]; [65]]; t_deps := []; t_crefs := [2] |}];
     i_lookup := [w_type 2 108 68 []]; i_root_dir := [[114]] |}.


(* witnesses of the repaired F-LIST-INPUTS-PYRES / F-LIST-INPUTS-SYMLINKDIR (History/C08_history.v): a .py resource included by a
   class template, and a template below a symbolically linked sub-directory of --templates; with the repairs both are listed *)
Definition w_res_file (n : N) (py linked : bool) : tfile :=
  {| tf_name := [n]; tf_path := [[112]; [n]]; tf_j2 := negb py; tf_py := py; tf_pkg := false; tf_linked := linked; tf_cls := None;
     tf_refs := []; tf_dyn := false |}.
Definition w_tpl_pyres : list tfile := [w_tfr 65 true (Some CAny) [[120]]; w_res_file 120 true false].
Definition w_tpl_linked : list tfile := [w_tfr 65 true (Some CAny) [[120]]; w_res_file 120 false true].

(* with the closure repairs the two witnesses are listed *)
Lemma example_pyres_and_linked_listed :
  path_in [[112]; [120]] (listed (w_cfg SNever false (Some w_tpl_pyres) None) w_inputs_plain) = true
  /\ path_in [[112]; [120]] (listed (w_cfg SNever false (Some w_tpl_linked) None) w_inputs_plain) = true
  /\ eff_trig_tpl the_code (w_cfg SNever false (Some w_tpl_pyres) None) w_inputs_plain = false
  /\ eff_trig_tpl the_code (w_cfg SNever false (Some w_tpl_linked) None) w_inputs_plain = false.
Proof. vm_compute. repeat split; reflexivity. Qed.

(* F-LIST-INPUTS-SUPREFS: a --support-templates override that includes a further template of its directory; only the rendered
   resource is listed *)
Definition w_sup_dir_refs : list tfile :=
  [{| tf_name := [115]; tf_path := [[100]; [115]]; tf_j2 := true; tf_py := false; tf_pkg := false; tf_linked := false; tf_cls := None;
      tf_refs := [[104]]; tf_dyn := false |};
   {| tf_name := [104]; tf_path := [[100]; [104]]; tf_j2 := true; tf_py := false; tf_pkg := false; tf_linked := false; tf_cls := None;
      tf_refs := []; tf_dyn := false |}].
Lemma list_inputs_suprefs_refuted_w :
  let c := w_cfg SAsNeeded false None (Some w_sup_dir_refs) in let x := [[100]; [104]] in
  trig_sup_refs the_code c = true /\ eff_trig_lookup the_code w_inputs_plain = false /\ eff_trig_tpl the_code c w_inputs_plain = false
  /\ path_in x (influence_set the_code c w_inputs_plain) = true /\ path_in x (listed c w_inputs_plain) = false.
Proof. vm_compute. repeat split; reflexivity. Qed.

(* non-vacuity: a real run that succeeds and creates type and support files and their directories; its listing *)
Definition created (c : cfg) (i : inputs) (p : path) : option entry := fst (fst (run the_code (real_of c) i fs_empty)) p.
Lemma example_real_run :
  let c := w_cfg SAsNeeded false None None in
  snd (run the_code (real_of c) w_inputs_plain fs_empty) = Ok
  /\ is_file (created c w_inputs_plain [[111]; [114]; [65; 46; 104]]) = true
  /\ is_file (created c w_inputs_plain [[111]; [110]; [115; 46; 104]]) = true
  /\ is_dir (created c w_inputs_plain [[111]; [114]]) = true
  /\ forallb (fun p => path_in p (snd (fst (run the_code (lo_of c) w_inputs_plain fs_empty))))
             [[[111]; [114]; [65; 46; 104]]; [[111]; [114]; [66; 46; 104]]; [[111]; [110]; [115; 46; 104]]] = true
  /\ length (snd (fst (run the_code (lo_of c) w_inputs_plain fs_empty))) = 3%nat.
Proof. vm_compute. repeat split; reflexivity. Qed.

(* the hypotheses of the completeness theorems are satisfiable, the derived closure follows the include p/A -> p/b, leaves the
   unreferenced p/u out, contains the dependency r/B *)
Lemma example_partial_hyps :
  let c := w_cfg SAsNeeded false None None in
  rejected c = false /\ ns_clash the_code c w_inputs_plain = false /\ eff_trig_lookup the_code w_inputs_plain = false /\ eff_trig_tpl the_code c w_inputs_plain = false
  /\ eff_trig_sup the_code c = false /\ support_consistent c = true /\ trig_py the_code c w_inputs_plain = false
  /\ trig_sup_refs the_code c = false
  /\ path_in [[114]; [66]] (influence_set the_code c w_inputs_plain) = true
  /\ path_in [[112]; [98]] (influence_set the_code c w_inputs_plain) = true
  /\ path_in [[112]; [117]] (influence_set the_code c w_inputs_plain) = false.
Proof. vm_compute. repeat split; reflexivity. Qed.

(* configuration inputs (properties.yaml, --configuration files) influence the output, are excluded from the completeness
   theorem, and are indeed not listed *)
Lemma example_config_not_listed :
  let c := w_cfg SAsNeeded false None None in
  is_config_input c [[99]] = true /\ is_config_input c [[121]] = true
  /\ path_in [[99]] (all_influences the_code c w_inputs_plain) = true
  /\ path_in [[99]] (listed c w_inputs_plain) = false /\ path_in [[121]] (listed c w_inputs_plain) = false.
Proof. vm_compute. repeat split; reflexivity. Qed.

(* the repaired F-LIST-ONLY-POD: `--generate-support only --omit-serialization-support` lists nothing and creates nothing *)
Lemma example_only_pod :
  let c := w_cfg SOnly true None None in
  snd (fst (run the_code (lo_of c) w_inputs_plain fs_empty)) = []
  /\ snd (run the_code (real_of c) w_inputs_plain fs_empty) = Ok
  /\ created c w_inputs_plain [[111]; [110]; [115; 46; 104]] = None.
Proof. vm_compute. repeat split; reflexivity. Qed.

Lemma example_rejected : rejected (w_cfg SAlways true None None) = true.
Proof. vm_compute. reflexivity. Qed.

(* runs that fail are outside the premise of list_outputs_exact: no template for namespaces; --no-overwrite over an existing
   file; an output path whose parent is a regular file *)
Definition w_flags_x (ns now : bool) : flags :=
  {| f_support := SNever; f_omit := false; f_ns := ns; f_dry := false; f_lo := false; f_li := false; f_lc := false;
     f_now := now; f_embed := false |}.
Lemma example_failures :
  let c1 := with_flags (w_cfg SNever false (Some [w_tf 98 true (Some CStructure)]) None) (w_flags_x true false) in
  let c2 := with_flags (w_cfg SNever false None None) (w_flags_x false true) in
  let f2 := fst (fst (run the_code c2 w_inputs_plain fs_empty)) in
  let f3 : fs := fun q => if path_eqb q [[111]; [114]] then Some (EFile 7 420) else None in
  snd (run the_code c1 w_inputs_plain fs_empty) = NoTemplate
  /\ snd (run the_code c2 w_inputs_plain fs_empty) = Ok /\ snd (run the_code c2 w_inputs_plain f2) = Exists
  /\ snd (run the_code c2 w_inputs_plain f3) = IoError.
Proof. vm_compute. repeat split; reflexivity. Qed.

(* a namespace file stem spelled like a type's file name (--namespace-output-stem A next to type A): refused in every mode
   before anything is listed or written -- where the tree has the check *)
Definition w_cfg_clash : cfg :=
  {| c_lang := w_lang; c_flags := w_flags SNever false; c_ext := None; c_stem := Some [65]; c_templates := None;
     c_support_templates := None; c_config_files := []; c_outdir := [[111]] |}.
(* an invalid namespace file stem (`..`) is refused the same way, in every mode *)
Definition w_cfg_badstem : cfg :=
  {| c_lang := w_lang; c_flags := w_flags SNever false; c_ext := None; c_stem := Some [46; 46]; c_templates := None;
     c_support_templates := None; c_config_files := []; c_outdir := [[111]] |}.
Lemma example_bad_stem : k_stem_check the_code = true ->
  run the_code (real_of w_cfg_badstem) w_inputs_plain fs_empty = (fs_empty, [], NsClash)
  /\ snd (run the_code (lo_of w_cfg_badstem) w_inputs_plain fs_empty) = NsClash
  /\ snd (fst (run the_code (li_of w_cfg_badstem) w_inputs_plain fs_empty)) = [].
Proof. intros H. unfold run. cbn [real_of lo_of li_of]. unfold ns_clash. cbn [with_flags c_flags]. rewrite H. vm_compute. repeat split; reflexivity. Qed.

Lemma example_ns_clash : k_ns_check the_code = true ->
  run the_code (real_of w_cfg_clash) w_inputs_plain fs_empty = (fs_empty, [], NsClash)
  /\ snd (run the_code (lo_of w_cfg_clash) w_inputs_plain fs_empty) = NsClash
  /\ snd (fst (run the_code (li_of w_cfg_clash) w_inputs_plain fs_empty)) = [].
Proof. intros H. unfold run. cbn [real_of lo_of li_of]. unfold ns_clash. cbn [with_flags c_flags]. rewrite H. vm_compute. repeat split; reflexivity. Qed.

(* two custom templates with the same basename in different sub-directories are both listed *)
Definition w_nested_dir : list tfile :=
  [w_tf 65 true (Some CAny);
   {| tf_name := [109; 47; 98]; tf_path := [[112]; [109]; [98]]; tf_j2 := true; tf_py := false; tf_pkg := false; tf_linked := false; tf_cls := None; tf_refs := []; tf_dyn := false |};
   {| tf_name := [115; 47; 98]; tf_path := [[112]; [115]; [98]]; tf_j2 := true; tf_py := false; tf_pkg := false; tf_linked := false; tf_cls := None; tf_refs := []; tf_dyn := false |}].
Lemma example_same_basename_both_listed :
  let c := w_cfg SNever false (Some w_nested_dir) None in
  path_in [[112]; [109]; [98]] (listed c w_inputs_plain) = true /\ path_in [[112]; [115]; [98]] (listed c w_inputs_plain) = true.
Proof. vm_compute. split; reflexivity. Qed.
