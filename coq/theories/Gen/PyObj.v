(* C18 model: the data-object behaviour of the Python classes nunavut generates
   (lang/py/templates/base.j2: constructor, property setters, assign_array, union bookkeeping) and of
   nunavut_support.to_builtin / update_from_builtin.  Executable, no proofs (PyObjThm.v has them).

   Everything is parametric in
     T  : tmpl   structural facts the scanner of tools/translators/gen_c18.py extracts from base.j2
     pw : Z -> option Z   `pick_width` of filter_numpy_scalar_type, translated from lang/py/__init__.py
     q  : bool   quirk F-PY-ARRELEM: true = array elements are only converted by NumPy (code before the fix),
                 false = conformant / shape of the fix (integer elements outside the DSDL range are rejected on all three
                 paths of assign_array, finite float16/32 elements beyond the largest finite value on the conversion path);
                 Generated/Gen_PyObj.v says which one the template in /repo is (arrelem_quirk_gen)
   Python values are modelled by `pyval`; floats are binary64 bit patterns (a Python float).  *)
From Coq Require Import List NArith ZArith Bool.
Import ListNotations.
Open Scope Z_scope.

(* ---------------------------------------------------------------- types *)
Inductive skind := KBool | KU (w : Z) | KS (w : Z) | KF (w : Z).
Inductive etype := EPrim (k : skind) | EComp (tid : nat).
Inductive ftype :=
| FScalar (e : etype)
| FArr (fixed : bool) (cap : nat) (strlike : bool) (e : etype).
Record comp := { c_union : bool; c_fields : list ftype }.   (* non-padding fields only *)
Definition tdb := list comp.                                (* type id = index; a type only refers to smaller ids *)

Inductive dtype := DBool | DU (w : Z) | DS (w : Z) | DF (w : Z) | DObj.

Inductive cmpop := CmpEq | CmpLe | CmpLt | CmpGe | CmpNone.

Record tmpl := {
  t_int_check : bool;          (* integer setter: store guarded by min <= x <= max, raise otherwise *)
  t_float_check : bool;        (* float setter (width < 64): store guarded by the range test *)
  t_float_nonfinite_ok : bool; (* ... `or not isfinite(x)` *)
  t_float_check_below : Z;     (* range check emitted when bit_length < this (64) *)
  t_cmp_fixed : cmpop;         (* assign_array: comparison for fixed-length arrays (==) *)
  t_cmp_var : cmpop;           (* ... for variable-length arrays (<=) *)
  t_len_bytes : bool;          (* the bytes/bytearray fast path tests the length *)
  t_len_nd : bool;             (* the same-dtype ndarray fast path tests the length *)
  t_len_slow : bool;           (* the np.array(...).flatten() path tests the length and raises *)
  t_bytes_max_w : Z;           (* bytes fast path only for unsigned element types of at most this width (8) *)
  t_comp_isinstance : bool;    (* composite setter and constructor test isinstance *)
  t_union_clear_others : bool; (* union setter sets every OTHER option to None ... *)
  t_union_clear_after : bool;  (* ... after the value has been validated and stored *)
  t_union_ctor_count : bool;   (* union constructor: counts the given options, > 1 raises ValueError *)
  t_arr_precheck : bool;       (* assign_array, conversion path, integer element types: the source is range-checked against the
                                  field's inclusive_value_range BEFORE np.array(src, dtype) casts it (shape of the F-PY-ARRWRAP fix) *)
  t_precheck_nd_only : bool;   (* the floating-point arm of that range check is applied to ndarray sources only: for a list, np.asarray
                                  would INFER float64 (also for Python ints on both sides of 2^63) and lose the exact values, while
                                  np.array(list, dtype) checks every Python int / float itself (F-PY-PRECHECK-INFER fix) *)
  t_src_exact : bool;          (* the source check is done by the helper _int_elements_ok_ (shape of the F-PY-NPSCALAR fix): EVERY numeric
                                  element -- Python number, NumPy scalar, element of a nested or of a foreign-dtype ndarray -- must be an
                                  INTEGER within the field's range, compared exactly; no float64 inference is trusted *)
  t_text_guard : bool          (* text is a sequence of bytes, never a number (shape of the F-PY-NUMTEXT fix): the bytes branch is taken by
                                  type alone and RAISES on an illegal length instead of falling through, and the conversion path raises
                                  ValueError for bytes / bytearray / str before np.array(text, dtype) could parse it as ONE number *)
}.

Definition set_precheck (b : bool) (T : tmpl) : tmpl :=
  {| t_int_check := t_int_check T; t_float_check := t_float_check T; t_float_nonfinite_ok := t_float_nonfinite_ok T;
     t_float_check_below := t_float_check_below T; t_cmp_fixed := t_cmp_fixed T; t_cmp_var := t_cmp_var T;
     t_len_bytes := t_len_bytes T; t_len_nd := t_len_nd T; t_len_slow := t_len_slow T; t_bytes_max_w := t_bytes_max_w T;
     t_comp_isinstance := t_comp_isinstance T; t_union_clear_others := t_union_clear_others T;
     t_union_clear_after := t_union_clear_after T; t_union_ctor_count := t_union_ctor_count T; t_arr_precheck := b;
     t_precheck_nd_only := t_precheck_nd_only T; t_src_exact := t_src_exact T; t_text_guard := t_text_guard T |}.

Definition set_text_guard (b : bool) (T : tmpl) : tmpl :=
  {| t_int_check := t_int_check T; t_float_check := t_float_check T; t_float_nonfinite_ok := t_float_nonfinite_ok T;
     t_float_check_below := t_float_check_below T; t_cmp_fixed := t_cmp_fixed T; t_cmp_var := t_cmp_var T;
     t_len_bytes := t_len_bytes T; t_len_nd := t_len_nd T; t_len_slow := t_len_slow T; t_bytes_max_w := t_bytes_max_w T;
     t_comp_isinstance := t_comp_isinstance T; t_union_clear_others := t_union_clear_others T;
     t_union_clear_after := t_union_clear_after T; t_union_ctor_count := t_union_ctor_count T; t_arr_precheck := t_arr_precheck T;
     t_precheck_nd_only := t_precheck_nd_only T; t_src_exact := t_src_exact T; t_text_guard := b |}.

(* ---------------------------------------------------------------- values *)
Inductive pyval :=
| PNone
| PBool (b : bool)
| PInt (z : Z)
| PFloat (bits : N)                       (* binary64 pattern *)
| PStr (s : list N)                       (* code points *)
| PBytes (s : list N)
| PList (l : list pyval)
| PDict (l : list (nat * pyval))          (* key = field index of the composite it is applied to; >= #fields: unknown name *)
| PArr (dt : dtype) (l : list pyval)      (* 1-d numpy array *)
| PObj (tid : nat) (slots : list pyval).  (* instance: one slot per field; inactive union option = PNone *)

Inductive exc := ValueError | TypeError | OverflowError | AttributeError | IndexError.
Inductive res (A : Type) := Ok (a : A) | Raise (e : exc).
Arguments Ok {A} a.
Arguments Raise {A} e.
Definition bind {A B} (r : res A) (f : A -> res B) : res B :=
  match r with Ok a => f a | Raise e => Raise e end.
Notation "x <- r ;; k" := (bind r (fun x => k)) (at level 61, r at next level, right associativity).

Fixpoint mapM {A B} (f : A -> res B) (l : list A) : res (list B) :=
  match l with
  | [] => Ok []
  | a :: r => b <- f a ;; bs <- mapM f r ;; Ok (b :: bs)
  end.

(* ---------------------------------------------------------------- binary64 helpers *)
Open Scope N_scope.
Definition f_exp (x : N) : N := N.land (N.shiftr x 52) 2047.
Definition f_man (x : N) : N := N.land x (2 ^ 52 - 1).
Definition f_mag (x : N) : N := N.land x (2 ^ 63 - 1).
Definition f_neg (x : N) : bool := N.testbit x 63.
Definition f_isfinite (x : N) : bool := negb (f_exp x =? 2047).
Definition f_isnan (x : N) : bool := (f_exp x =? 2047) && negb (f_man x =? 0).
Definition f_M (x : N) : N := if f_exp x =? 0 then f_man x else f_man x + 2 ^ 52.
Definition f_E (x : N) : Z := if f_exp x =? 0 then (-1074)%Z else (Z.of_N (f_exp x) - 1075)%Z.
Definition f_signbit (s : bool) : N := if s then 2 ^ 63 else 0.
Definition f_inf (s : bool) : N := f_signbit s + 2047 * 2 ^ 52.
Definition f_nan : N := 2047 * 2 ^ 52 + 2 ^ 51.

(* (-1)^s * M * 2^E, assumed exactly representable *)
Definition f_encode (s : bool) (M : N) (E : Z) : N :=
  if M =? 0 then f_signbit s else
  let p := N.log2 M in
  let e := (E + Z.of_N p)%Z in
  if (1024 <=? e)%Z then f_inf s
  else if (-1022 <=? e)%Z then
    let m := if p <=? 52 then N.shiftl M (52 - p) else N.shiftr M (p - 52) in
    f_signbit s + Z.to_N (e + 1023) * 2 ^ 52 + (m - 2 ^ 52)
  else
    let sh := (E + 1074)%Z in
    f_signbit s + (if (0 <=? sh)%Z then N.shiftl M (Z.to_N sh) else N.shiftr M (Z.to_N (- sh))).

(* M / 2^sh, round half to even *)
Definition rne_shift (M sh : N) : N :=
  if sh =? 0 then M else
  let qt := N.shiftr M sh in
  let r := N.land M (2 ^ sh - 1) in
  let half := 2 ^ (sh - 1) in
  if r <? half then qt else if half <? r then qt + 1 else if N.even qt then qt else qt + 1.

(* numpy conversion of a double to float16/float32 (result again as the double that equals it) *)
Definition f_round_to (ebits mbits : Z) (x : N) : N :=
  if negb (f_isfinite x) then x else
  let M := f_M x in
  if M =? 0 then x else
  let E := f_E x in
  let emax := (2 ^ (ebits - 1) - 1)%Z in
  let qmin := (1 - emax - mbits)%Z in
  let qe := Z.max (E + Z.of_N (N.log2 M) - mbits) qmin in
  if (qe <=? E)%Z then x else
  let Mr := rne_shift M (Z.to_N (qe - E)) in
  if Mr =? 0 then f_signbit (f_neg x)
  else if (emax <? qe + Z.of_N (N.log2 Mr))%Z then f_inf (f_neg x)
  else f_encode (f_neg x) Mr qe.

Definition f_round (w : Z) (x : N) : N :=
  if (w =? 16)%Z then f_round_to 5 10 x else if (w =? 32)%Z then f_round_to 8 23 x else x.

(* float(int): exact below 2^53, round half to even above; None = OverflowError *)
Definition f_of_Z (z : Z) : option N :=
  let s := (z <? 0)%Z in
  let M := Z.abs_N z in
  if M =? 0 then Some 0 else
  let p := N.log2 M in
  if p <? 53 then Some (f_encode s M 0)
  else
    let Mr := rne_shift M (p - 52) in
    let r := f_encode s Mr (Z.of_N (p - 52)) in
    if f_isfinite r then Some r else None.

(* int(float) of a finite double: truncation towards zero *)
Definition f_trunc (x : N) : Z :=
  let M := f_M x in
  let E := f_E x in
  let v := if (0 <=? E)%Z then N.shiftl M (Z.to_N E) else N.shiftr M (Z.to_N (- E)) in
  if f_neg x then (- Z.of_N v)%Z else Z.of_N v.

(* floor / ceiling of a finite double (exact) *)
Definition f_is_integer (x : N) : bool :=
  let E := f_E x in
  if (0 <=? E)%Z then true else N.land (f_M x) (2 ^ Z.to_N (- E) - 1) =? 0.
Definition f_floor (x : N) : Z := if f_neg x && negb (f_is_integer x) then (f_trunc x - 1)%Z else f_trunc x.
Definition f_ceil (x : N) : Z := if negb (f_neg x) && negb (f_is_integer x) then (f_trunc x + 1)%Z else f_trunc x.

Definition f_one : N := 1023 * 2 ^ 52.
(* largest finite float16 / float32 as doubles: 65504.0 and 3.4028234663852886e38 (pydsdl inclusive_value_range) *)
Definition f_max16 : N := 4679235614791434240.   (* 0x40EFFC0000000000 *)
Definition f_max32 : N := 5183643170566569984.   (* 0x47EFFFFFE0000000 *)
Definition f_maxw (w : Z) : N := if (w =? 16)%Z then f_max16 else f_max32.
(* `-max.0 <= x <= max.0` in IEEE arithmetic: false for NaN and the infinities *)
Definition f_in_range (w : Z) (x : N) : bool := f_mag x <=? f_maxw w.
Open Scope Z_scope.

(* ---------------------------------------------------------------- strings *)
Definition utf8_cp (c : N) : list N :=
  (if c <? 128 then [c]
   else if c <? 2048 then [192 + N.shiftr c 6; 128 + N.land c 63]
   else if c <? 65536 then [224 + N.shiftr c 12; 128 + N.land (N.shiftr c 6) 63; 128 + N.land c 63]
   else [240 + N.shiftr c 18; 128 + N.land (N.shiftr c 12) 63; 128 + N.land (N.shiftr c 6) 63; 128 + N.land c 63])%N.
Definition utf8_encode (s : list N) : list N := flat_map utf8_cp s.
(* string.printable: digits, letters, punctuation and " \t\n\r\x0b\x0c" *)
Definition printable (c : N) : bool := ((9 <=? c) && (c <=? 13) || (32 <=? c) && (c <=? 126))%N.

(* ---------------------------------------------------------------- conversions of the Python run time *)
Definition py_bool (v : pyval) : bool :=
  match v with
  | PNone => false
  | PBool b => b
  | PInt z => negb (z =? 0)
  | PFloat x => negb (f_mag x =? 0)%N
  | PStr s | PBytes s => negb (Nat.eqb (length s) 0)
  | PList l => negb (Nat.eqb (length l) 0)
  | PDict l => negb (Nat.eqb (length l) 0)
  | PArr _ l => negb (Nat.eqb (length l) 0)
  | PObj _ _ => true
  end.

(* ---------------------------------------------------------------- CPython int() / float() of ASCII text
   int(): optional white space, optional sign, decimal digits with single underscores BETWEEN digits, optional white space.
   float(): the same frame around  digits [. digits] [e [sign] digits] | . digits ... | inf | infinity | nan  (case-insensitive),
   correctly rounded (round half to even) to binary64.  Non-ASCII digits / white space are outside the model. *)
Open Scope N_scope.
Definition is_ws (c : N) : bool := (c =? 32) || ((9 <=? c) && (c <=? 13)).
Definition is_digit (c : N) : bool := (48 <=? c) && (c <=? 57).
Fixpoint drop_ws (s : list N) : list N := match s with c :: r => if is_ws c then drop_ws r else s | [] => [] end.
Definition strip_ws (s : list N) : list N := rev (drop_ws (rev (drop_ws s))).
Definition lower (c : N) : N := if (65 <=? c) && (c <=? 90) then c + 32 else c.

(* digits with single underscores between them: (value, number of digits, rest); at least one digit or None *)
Fixpoint digits_acc (s : list N) (acc : N) (n : nat) (prev_digit : bool) : option (N * nat * list N) :=
  match s with
  | c :: r =>
      if is_digit c then digits_acc r (acc * 10 + (c - 48)) (S n) true
      else if (c =? 95) && prev_digit then
        match r with
        | d :: _ => if is_digit d then digits_acc r acc n false else None         (* "1_" / "1__0" are errors *)
        | [] => None
        end
      else if prev_digit then Some (acc, n, s) else None
  | [] => if prev_digit then Some (acc, n, []) else None
  end.
Definition digits (s : list N) : option (N * nat * list N) := digits_acc s 0 O false.

Definition split_sign (s : list N) : bool * list N :=
  match s with
  | 45 :: r => (true, r)
  | 43 :: r => (false, r)
  | _ => (false, s)
  end.

Definition parse_int_text (s : list N) : option Z :=
  let '(neg, r) := split_sign (strip_ws s) in
  match digits r with
  | Some (v, _, []) => Some (if neg then (- Z.of_N v)%Z else Z.of_N v)
  | _ => None
  end.
Close Scope N_scope.
(* int(x); strings and bytes are taken to be non-numeric text (domain of the model) *)
Definition py_int (v : pyval) : res Z :=
  match v with
  | PInt z => Ok z
  | PBool b => Ok (if b then 1 else 0)
  | PFloat x => if f_isnan x then Raise ValueError else if f_isfinite x then Ok (f_trunc x) else Raise OverflowError
  | PStr s | PBytes s => match parse_int_text s with Some z => Ok z | None => Raise ValueError end
  | _ => Raise TypeError
  end.

(* (-1)^neg * m * 10^e10 correctly rounded to binary64 (None: overflow to infinity is reported by the caller as it needs) *)
Definition f_of_decimal (neg : bool) (m : N) (e10 : Z) : N :=
  if (m =? 0)%N then f_signbit neg
  else if (0 <=? e10) then
    match f_of_Z ((if neg then -1 else 1) * Z.of_N m * 10 ^ e10) with Some x => x | None => f_inf neg end
  else
    let den := Z.to_N (10 ^ (- e10)) in
    let sh := (64 + N.log2 den + 1 - N.log2 m)%N in                  (* quotient with at least 64 significant bits *)
    let '(qt, r) := N.div_eucl (N.shiftl m sh) den in
    let q2 := (2 * qt + (if (r =? 0)%N then 0 else 1))%N in           (* sticky bit appended *)
    let p := N.log2 q2 in
    let Mr := rne_shift q2 (p - 52) in
    f_encode neg Mr (Z.of_N (p - 52) - Z.of_N sh - 1).

Open Scope N_scope.
Definition text_is (w : list N) (s : list N) : bool :=
  if list_eq_dec N.eq_dec (map lower s) w then true else false.

Definition parse_float_text (s : list N) : option N :=
  let '(neg, r) := split_sign (strip_ws s) in
  if text_is [105; 110; 102] r || text_is [105; 110; 102; 105; 110; 105; 116; 121] r then Some (f_inf neg)
  else if text_is [110; 97; 110] r then Some f_nan
  else
    (* mantissa: digits [ . [digits] ]  |  . digits *)
    let mant : option (N * nat * list N) :=
      match r with
      | 46 :: r1 => match digits r1 with Some (v, n, r2) => Some (v, n, r2) | None => None end
      | _ =>
          match digits r with
          | Some (v, _, 46 :: r1) =>
              match r1 with
              | d :: _ => if is_digit d
                          then match digits r1 with Some (v2, n2, r2) => Some (v * 10 ^ N.of_nat n2 + v2, n2, r2) | None => None end
                          else Some (v, O, r1)
              | [] => Some (v, O, [])
              end
          | Some (v, _, r1) => Some (v, O, r1)
          | None => None
          end
      end in
    match mant with
    | None => None
    | Some (m, frac, rest) =>
        match rest with
        | [] => Some (f_of_decimal neg m (- Z.of_nat frac))
        | c :: r1 =>
            if lower c =? 101 then
              let '(eneg, r2) := split_sign r1 in
              match digits r2 with
              | Some (ev, _, []) => Some (f_of_decimal neg m ((if eneg then - Z.of_N ev else Z.of_N ev) - Z.of_nat frac)%Z)
              | _ => None
              end
            else None
        end
    end.
Close Scope N_scope.

Definition py_float (v : pyval) : res N :=
  match v with
  | PFloat x => Ok x
  | PInt z => match f_of_Z z with Some x => Ok x | None => Raise OverflowError end
  | PBool b => Ok (if b then f_one else 0%N)
  | PStr s | PBytes s => match parse_float_text s with Some x => Ok x | None => Raise ValueError end
  | _ => Raise TypeError
  end.

Section Model.
Variable T : tmpl.
Variable pw : Z -> option Z.
Variable q : bool.
Variable db : tdb.

Definition pwd (w : Z) : Z := match pw w with Some o => o | None => 0 end.

Definition dtype_of (e : etype) : dtype :=
  match e with
  | EPrim KBool => DBool
  | EPrim (KU w) => DU (pwd w)
  | EPrim (KS w) => DS (pwd w)
  | EPrim (KF w) => DF (pwd w)
  | EComp _ => DObj
  end.

Definition dtype_eqb (a b : dtype) : bool :=
  match a, b with
  | DBool, DBool | DObj, DObj => true
  | DU x, DU y | DS x, DS y | DF x, DF y => x =? y
  | _, _ => false
  end.

Definition urange (w z : Z) : bool := (0 <=? z) && (z <=? 2 ^ w - 1).
Definition srange (w z : Z) : bool := (- 2 ^ (w - 1) <=? z) && (z <=? 2 ^ (w - 1) - 1).
Definition int_in_range (k : skind) (z : Z) : bool :=
  match k with KU w => urange w z | KS w => srange w z | _ => true end.

(* ------------------------------------------------------------ numpy: np.array(x, dt).flatten() *)
(* shape discovery: (shape, leaves); ragged nesting raises ValueError *)
Fixpoint all_eq_shape (s : list nat) (l : list (list nat * list pyval)) : bool :=
  match l with
  | [] => true
  | (s', _) :: r => (if list_eq_dec Nat.eq_dec s s' then true else false) && all_eq_shape s r
  end.

Fixpoint np_flat (x : pyval) : res (list nat * list pyval) :=
  match x with
  | PList l =>
      subs <- (fix go (l : list pyval) : res (list (list nat * list pyval)) :=
                 match l with
                 | [] => Ok []
                 | a :: r => s <- np_flat a ;; ss <- go r ;; Ok (s :: ss)
                 end) l ;;
      match subs with
      | [] => Ok ([0%nat], [])
      | (s0, _) :: _ =>
          if all_eq_shape s0 subs then Ok (length subs :: s0, flat_map snd subs) else Raise ValueError
      end
  | PArr _ [e] => Ok ([], [e])          (* a one-element array inside a list stands for a NumPy scalar / 0-d array: shape () *)
  | PArr _ l => Ok ([length l], l)
  | _ => Ok ([], [x])
  end.

Definition conv_leaf (dt : dtype) (x : pyval) : res pyval :=
  match dt with
  | DBool => Ok (PBool (py_bool x))
  | DU w => z <- py_int x ;; if urange w z then Ok (PInt z) else Raise OverflowError
  | DS w => z <- py_int x ;; if srange w z then Ok (PInt z) else Raise OverflowError
  | DF w => match x with
            | PNone => Ok (PFloat f_nan)
            | _ => f <- py_float x ;; Ok (PFloat (f_round w f))
            end
  | DObj => Ok x
  end.

(* ASSUMED NumPy 2 behaviour of np.array(x, dt) (validated by the correspondence run, not verified):
   - an element that is a Python int / float / bool (lists, scalars) is converted by `conv_leaf`: a Python int outside the range
     of an integer dtype raises OverflowError (a Python float is truncated first);
   - the elements of an ndarray of ANOTHER dtype are converted by a C cast (`conv_elem`): integers wrap around modulo 2^w
     (two's complement for signed dtypes), nothing is raised. *)
Definition wrap_int (dt : dtype) (z : Z) : Z :=
  match dt with
  | DU w => z mod 2 ^ w
  | DS w => (z + 2 ^ (w - 1)) mod 2 ^ w - 2 ^ (w - 1)
  | _ => z
  end.
Definition conv_elem (dt : dtype) (x : pyval) : res pyval :=
  match dt, x with
  | DU _, PInt z | DS _, PInt z => Ok (PInt (wrap_int dt z))
  | DU _, PFloat f | DS _, PFloat f =>
      if f_isfinite f then Ok (PInt (wrap_int dt (f_trunc f))) else conv_leaf dt x    (* (uintN_t)(int64_t)f for |f| < 2^63 *)
  | _, _ => conv_leaf dt x
  end.
(* the same traversal with a tag per leaf: true = the leaf is an element of an ndarray (or a NumPy scalar / 0-d array, represented as a
   one-element `PArr`) NESTED in a list: NumPy converts such elements by a C cast, not by the checked conversion of Python numbers *)
Fixpoint np_flat_t (x : pyval) : res (list nat * list (bool * pyval)) :=
  match x with
  | PList l =>
      subs <- (fix go (l : list pyval) : res (list (list nat * list (bool * pyval))) :=
                 match l with
                 | [] => Ok []
                 | a :: r => s <- np_flat_t a ;; ss <- go r ;; Ok (s :: ss)
                 end) l ;;
      match subs with
      | [] => Ok ([0%nat], [])
      | (s0, _) :: _ =>
          if forallb (fun p => if list_eq_dec Nat.eq_dec s0 (fst p) then true else false) subs
          then Ok (length subs :: s0, flat_map snd subs) else Raise ValueError
      end
  | PArr _ [e] => Ok ([], [(true, e)])
  | PArr _ l => Ok ([length l], map (fun e => (true, e)) l)
  | _ => Ok ([], [(false, x)])
  end.

Definition conv_tagged (dt : dtype) (p : bool * pyval) : res pyval :=
  if fst p then conv_elem dt (snd p) else conv_leaf dt (snd p).

Definition np_array (dt : dtype) (x : pyval) : res (list pyval) :=
  match x with
  | PArr _ l => mapM (conv_elem dt) l
  | _ => sl <- np_flat_t x ;; mapM (conv_tagged dt) (snd sl)
  end.

(* ------------------------------------------------------------ element checks of the conformant variant *)
Definition elem_in_dsdl_range (e : etype) (x : pyval) : bool :=
  match e, x with
  | EPrim (KU w), PInt z => urange w z
  | EPrim (KS w), PInt z => srange w z
  | _, _ => true
  end.

(* the trigger of F-PY-ARRELEM at element level: stored although outside the range of the element type *)
Definition elem_trigger (e : etype) (x : pyval) : bool := negb (elem_in_dsdl_range e x).

(* conformant variant, conversion path only: `np.asarray(src, float64)` must not hold a FINITE value beyond the largest
   finite value of a float16/float32 element type (the conversion itself would silently turn it into infinity);
   NaN, the infinities and None (NumPy: NaN) pass, exactly as in the scalar setter *)
Definition float_leaf_ok (e : etype) (x : pyval) : bool :=
  match e with
  | EPrim (KF w) =>
      if w <? t_float_check_below T then
        match x with
        | PNone => true
        | _ => match py_float x with
               | Ok f => f_in_range w f || negb (f_isfinite f)
               | Raise _ => true          (* the conversion to the storage dtype has raised before *)
               end
        end
      else true
  | _ => true
  end.
Definition float_src_ok (e : etype) (y : pyval) : bool :=
  q || match np_flat y with Ok sl => forallb (float_leaf_ok e) (snd sl) | Raise _ => true end.

(* shape of the F-PY-ARRWRAP fix, conversion path, integer element types: `np.asarray(src)` (natural dtype) must lie within the
   field's inclusive_value_range before it is cast; non-numeric leaves are left to the cast, which raises on them *)
Definition int_leaf_ok (e : etype) (x : pyval) : bool :=
  match e with
  | EPrim (KU w) | EPrim (KS w) =>
      let k := match e with EPrim k => k | _ => KBool end in
      match x with
      | PInt z => int_in_range k z
      | PFloat f =>
          if f_isnan f then false
          else if f_isfinite f then int_in_range k (f_floor f) && int_in_range k (f_ceil f)
          else false
      | _ => true
      end
  | _ => true
  end.
(* _int_elements_ok_: a numeric element must be an INTEGER within [min, max]; bools are 0/1; non-numeric elements are left to np.array() *)
Definition int_leaf_exact (e : etype) (x : pyval) : bool :=
  match e with
  | EPrim (KU w) | EPrim (KS w) =>
      let k := match e with EPrim k => k | _ => KBool end in
      match x with
      | PInt z => int_in_range k z
      | PFloat f => f_isfinite f && f_is_integer f && int_in_range k (f_trunc f)
      | _ => true
      end
  | _ => true
  end.

Definition is_pyfloat (x : pyval) : bool := match x with PFloat _ => true | _ => false end.
Definition int_src_ok (e : etype) (y : pyval) : bool :=
  negb (t_arr_precheck T) ||
  if t_src_exact T then
    match np_flat y with Ok sl => forallb (int_leaf_exact e) (snd sl) | Raise _ => true end
  else
  match y with
  | PArr _ l => forallb (int_leaf_ok e) l
  | _ =>
      match np_flat y with
      | Ok sl =>
          (* a list with a Python float in it is inferred as float64: with t_precheck_nd_only the check leaves it to the cast *)
          (t_precheck_nd_only T && existsb is_pyfloat (snd sl)) || forallb (int_leaf_ok e) (snd sl)
      | Raise _ => true
      end
  end.

Definition cmp_len (c : cmpop) (n cap : nat) : bool :=
  match c with
  | CmpEq => Nat.eqb n cap
  | CmpLe => Nat.leb n cap
  | CmpLt => Nat.ltb n cap
  | CmpGe => Nat.leb cap n
  | CmpNone => true
  end.

Definition is_bytes (x : pyval) : bool := match x with PBytes _ => true | _ => false end.

(* macro assign_array(f, src): the value bound to self._f, or the exception *)
Definition assign_array_with (conv : dtype -> pyval -> res (list pyval))
           (fixed : bool) (cap : nat) (strlike : bool) (e : etype) (x : pyval) : res pyval :=
  let cmp := if fixed then t_cmp_fixed T else t_cmp_var T in
  let dt := dtype_of e in
  let x1 := if strlike then match x with PStr s => PBytes (utf8_encode s) | _ => x end else x in
  let fast_bytes := match e with EPrim (KU w) => w <=? t_bytes_max_w T | _ => false end in
  let chk (l : list pyval) : res pyval :=
      if q || forallb (elem_in_dsdl_range e) l then Ok (PArr dt l) else Raise ValueError in
  let slow (y : pyval) : res pyval :=
      if int_src_ok e y then
        l <- conv dt y ;;                                                  (* np.array(src, dt).flatten() *)
        if negb (t_len_slow T) || cmp_len cmp (length l) cap
        then (if float_src_ok e y then chk l else Raise ValueError)
        else Raise ValueError
      else Raise ValueError in
  match x1 with
  | PBytes s =>
      if fast_bytes && (negb (t_len_bytes T) || cmp_len cmp (length s) cap)
      then chk (map (fun c => PInt (Z.of_N (c mod 256))) s)                (* np.frombuffer(src, uint8); a byte is < 256 *)
      else if t_text_guard T then Raise ValueError                         (* illegal length / not an array of bytes: never parsed *)
      else slow x1                                                         (* np.array(b'123', dtype) parses ONE number *)
  | PStr _ => if t_text_guard T then Raise ValueError else slow x1
  | PArr dt' l =>
      if dtype_eqb dt' dt && (negb (t_len_nd T) || cmp_len cmp (length l) cap)
      then chk l                                                           (* fast binding *)
      else slow x1
  | _ => slow x1
  end.

(* the generated code with the model of NumPy's conversion plugged in; PyObjLaws.v states the laws of `conv` the proofs rely on *)
Definition assign_array : bool -> nat -> bool -> etype -> pyval -> res pyval := assign_array_with np_array.

(* ------------------------------------------------------------ scalar setters *)
Definition set_prim (k : skind) (x : pyval) : res pyval :=
  match k with
  | KBool => Ok (PBool (py_bool x))
  | KU _ | KS _ =>
      z <- py_int x ;;
      if negb (t_int_check T) || int_in_range k z then Ok (PInt z) else Raise ValueError
  | KF w =>
      f <- py_float x ;;
      if w <? t_float_check_below T then
        if negb (t_float_check T) || f_in_range w f || (t_float_nonfinite_ok T && negb (f_isfinite f))
        then Ok (PFloat f) else Raise ValueError
      else Ok (PFloat f)
  end.

Definition set_comp (tid : nat) (x : pyval) : res pyval :=
  if t_comp_isinstance T then
    match x with
    | PObj tid' _ => if Nat.eqb tid' tid then Ok x else Raise ValueError
    | _ => Raise ValueError
    end
  else Ok x.

(* value stored by the setter of a field of type f, or the exception *)
Definition field_value (f : ftype) (x : pyval) : res pyval :=
  match f with
  | FScalar (EPrim k) => set_prim k x
  | FScalar (EComp tid) => set_comp tid x
  | FArr fixed cap sl e => assign_array fixed cap sl e x
  end.

Fixpoint update_nth {A} (n : nat) (v : A) (l : list A) : list A :=
  match l, n with
  | [], _ => []
  | _ :: r, O => v :: r
  | a :: r, S n' => a :: update_nth n' v r
  end.

Fixpoint clear_others (i : nat) (l : list pyval) : list pyval :=
  match l, i with
  | [], _ => []
  | a :: r, O => a :: map (fun _ => PNone) r
  | _ :: r, S i' => PNone :: clear_others i' r
  end.

(* property setter `obj.<field i> = x` on the slots of an instance of c: new slots and outcome *)
Definition set_slot (c : comp) (slots : list pyval) (i : nat) (x : pyval) : list pyval * option exc :=
  match nth_error (c_fields c) i with
  | None => (slots, Some AttributeError)
  | Some f =>
      if c_union c then
        if t_union_clear_after T then
          match field_value f x with
          | Ok v => let s1 := update_nth i v slots in
                    ((if t_union_clear_others T then clear_others i s1 else s1), None)
          | Raise e => (slots, Some e)
          end
        else
          let s0 := if t_union_clear_others T then clear_others i slots else slots in
          match field_value f x with
          | Ok v => (update_nth i v s0, None)
          | Raise e => (s0, Some e)
          end
      else
        match field_value f x with
        | Ok v => (update_nth i v slots, None)
        | Raise e => (slots, Some e)
        end
  end.

(* ------------------------------------------------------------ defaults and constructors *)
Definition default_elem (defs : list pyval) (e : etype) : pyval :=
  match e with
  | EPrim KBool => PBool false
  | EPrim (KU _) | EPrim (KS _) => PInt 0
  | EPrim (KF _) => PFloat 0%N
  | EComp t => nth t defs PNone
  end.

(* the argument the constructor hands to the setter when the keyword is None *)
Definition default_arg (defs : list pyval) (f : ftype) : pyval :=
  match f with
  | FScalar e => default_elem defs e
  | FArr true cap _ e => PArr (dtype_of e) (repeat (default_elem defs e) cap)   (* np.zeros / [T() for _ in range(cap)] *)
  | FArr false _ _ e => PArr (dtype_of e) []
  end.

Fixpoint ctor_struct (defs : list pyval) (c : comp) (fs : list ftype) (i : nat) (kw : list pyval) (slots : list pyval)
  : res (list pyval) :=
  match fs with
  | [] => Ok slots
  | f :: fs' =>
      let a := match nth i kw PNone with PNone => default_arg defs f | v => v end in
      match set_slot c slots i a with
      | (s', None) => ctor_struct defs c fs' (S i) kw s'
      | (_, Some e) => Raise e
      end
  end.

Fixpoint ctor_union_args (c : comp) (fs : list ftype) (i : nat) (kw : list pyval) (slots : list pyval) (cnt : nat)
  : res (list pyval * nat) :=
  match fs with
  | [] => Ok (slots, cnt)
  | _ :: fs' =>
      match nth i kw PNone with
      | PNone => ctor_union_args c fs' (S i) kw slots cnt
      | v => match set_slot c slots i v with
             | (s', None) => ctor_union_args c fs' (S i) kw s' (S cnt)
             | (_, Some e) => Raise e
             end
      end
  end.

Definition construct_with (defs : list pyval) (tid : nat) (kw : list pyval) : res pyval :=
  match nth_error db tid with
  | None => Raise AttributeError
  | Some c =>
      let fs := c_fields c in
      let blank := map (fun _ => PNone) fs in
      if c_union c then
        sc <- ctor_union_args c fs 0 kw blank 0 ;;
        let (slots, cnt) := sc in
        match cnt with
        | O => match fs with
               | [] => Ok (PObj tid slots)
               | f0 :: _ => match set_slot c slots 0 (default_arg defs f0) with
                            | (s', None) => Ok (PObj tid s')
                            | (_, Some e) => Raise e
                            end
               end
        | S O => Ok (PObj tid slots)
        | _ => if t_union_ctor_count T then Raise ValueError else Ok (PObj tid slots)
        end
      else
        slots <- ctor_struct defs c fs 0 kw blank ;; Ok (PObj tid slots)
  end.

(* T() for every type, in id order (a type only refers to smaller ids); a failing default constructor leaves PNone *)
Fixpoint defaults_aux (n : nat) (tid : nat) (acc : list pyval) : list pyval :=
  match n with
  | O => acc
  | S n' =>
      let d := match construct_with acc tid [] with Ok o => o | Raise _ => PNone end in
      defaults_aux n' (S tid) (acc ++ [d])
  end.
Definition defaults : list pyval := defaults_aux (length db) 0 [].
Definition construct (tid : nat) (kw : list pyval) : res pyval := construct_with defaults tid kw.
Definition default_obj (tid : nat) : pyval := nth tid defaults PNone.

(* ------------------------------------------------------------ nunavut_support.update_from_builtin *)
Fixpoint lookup (k : nat) (kv : list (nat * pyval)) : option pyval :=
  match kv with
  | [] => None
  | (k', v) :: r => if Nat.eqb k k' then Some v else lookup k r
  end.

Definition is_none (v : pyval) : bool := match v with PNone => true | _ => false end.

(* elements of the list comprehension `[update_from_builtin(dtype(), s) for s in value]` *)
Fixpoint ufb_elems (rec : pyval -> pyval -> pyval * option exc) (t : nat) (l : list pyval) : res (list pyval) :=
  match l with
  | [] => Ok []
  | s :: r =>
      match rec (default_obj t) s with
      | (o, None) => os <- ufb_elems rec t r ;; Ok (o :: os)
      | (_, Some e) => Raise e
      end
  end.

(* the `for f in fields` loop; fs = fields still to do, i = index of the first of them *)
Fixpoint ufb_loop (rec : pyval -> pyval -> pyval * option exc) (c : comp) (fs : list ftype) (i : nat)
         (kv : list (nat * pyval)) (slots : list pyval) : list pyval * option exc :=
  match fs with
  | [] => (slots, None)
  | f :: fs' =>
      match lookup i kv with
      | None => ufb_loop rec c fs' (S i) kv slots
      | Some value =>
          let step : list pyval * option exc :=
            match f with
            | FScalar (EComp t) =>
                let cur := nth i slots PNone in
                let '(s1, cur1, r1) :=
                    if is_none cur then
                      let d := default_obj t in
                      let '(s1, r1) := set_slot c slots i d in (s1, d, r1)
                    else (slots, cur, None) in
                match r1 with
                | Some e => (s1, Some e)
                | None => let '(o', r) := rec cur1 value in (update_nth i o' s1, r)   (* mutation in place *)
                end
            | FArr _ _ _ (EComp t) =>
                match value with
                | PList l =>
                    match ufb_elems rec t l with
                    | Ok os => set_slot c slots i (PList os)
                    | Raise e => (slots, Some e)
                    end
                | _ => (slots, Some TypeError)                                       (* not iterable *)
                end
            | _ => set_slot c slots i value
            end in
          match step with
          | (s', None) => ufb_loop rec c fs' (S i) kv s'
          | (s', Some e) => (s', Some e)
          end
      end
  end.

Definition is_propagating (fs : list ftype) : bool :=
  match fs with
  | FArr _ _ _ _ :: _ => true
  | FScalar (EComp _) :: _ => true
  | _ => false
  end.

Fixpoint enum_from {A} (i : nat) (l : list A) : list (nat * A) :=
  match l with [] => [] | a :: r => (i, a) :: enum_from (S i) r end.

(* update_from_builtin(destination, source): destination afterwards (it is mutated in place, also when the call raises) *)
Fixpoint ufb (fuel : nat) (o : pyval) (src : pyval) : pyval * option exc :=
  match fuel with
  | O => (o, Some TypeError)
  | S fuel' =>
      match o with
      | PObj tid slots =>
          match nth_error db tid with
          | None => (o, Some AttributeError)
          | Some c =>
              let fs := c_fields c in
              let kvr : res (list (nat * pyval)) :=
                match src with
                | PDict kv => Ok kv
                | _ =>
                    let sq := match src with PList l => l | _ => [src] end in
                    let too_many := Nat.ltb (if c_union c then 1%nat else length fs) (length sq) in
                    let sq' := if is_propagating fs && too_many then [PList sq] else sq in
                    if Nat.ltb (length fs) (length sq') then Raise TypeError else Ok (enum_from 0 sq')
                end in
              match kvr with
              | Raise e => (o, Some e)
              | Ok kv =>
                  match ufb_loop (ufb fuel') c fs 0 kv slots with
                  | (s', Some e) => (PObj tid s', Some e)
                  | (s', None) =>
                      if existsb (fun p => Nat.leb (length fs) (fst p)) kv
                      then (PObj tid s', Some ValueError)                            (* No such fields *)
                      else (PObj tid s', None)
                  end
              end
          end
      | _ => (o, Some AttributeError)
      end
  end.

(* ------------------------------------------------------------ nunavut_support.to_builtin (None = raises) *)
Definition tb_prim (k : skind) (v : pyval) : option pyval :=
  match k, v with
  | KBool, _ => Some (PBool (py_bool v))
  | (KU _ | KS _), PInt z => Some (PInt z)
  | (KU _ | KS _), PBool b => Some (PInt (if b then 1 else 0))
  | KF _, PFloat x => Some (PFloat x)
  | KF _, PInt z => match f_of_Z z with Some x => Some (PFloat x) | None => None end
  | _, _ => None
  end.

Fixpoint omap {A B} (f : A -> option B) (l : list A) : option (list B) :=
  match l with
  | [] => Some []
  | a :: r => match f a, omap f r with Some b, Some bs => Some (b :: bs) | _, _ => None end
  end.

Definition as_byte (v : pyval) : option N := match v with PInt z => Some (Z.to_N z) | _ => None end.

Fixpoint tb (v : pyval) : option pyval :=
  match v with
  | PObj tid slots =>
      match nth_error db tid with
      | None => None
      | Some c =>
          option_map PDict
          ((fix go (fs : list ftype) (sl : list pyval) (i : nat) {struct sl} : option (list (nat * pyval)) :=
             match sl, fs with
             | _, [] => Some []
             | [], _ :: _ => None
             | s :: sl', f :: fs' =>
                 if is_none s then go fs' sl' (S i) else
                 let b : option pyval :=
                   match f with
                   | FScalar (EPrim k) => tb_prim k s
                   | FScalar (EComp _) => tb s
                   | FArr _ _ strlike e =>
                       match s with
                       | PArr _ l =>
                           let plain : option pyval :=
                             match e with
                             | EPrim k => match omap (tb_prim k) l with Some bs => Some (PList bs) | None => None end
                             | EComp _ =>
                                 match (fix gol (l : list pyval) : option (list pyval) :=
                                          match l with
                                          | [] => Some []
                                          | a :: r => match tb a, gol r with Some b, Some bs => Some (b :: bs) | _, _ => None end
                                          end) l with
                                 | Some bs => Some (PList bs)
                                 | None => None
                                 end
                             end in
                           if strlike then
                             match omap as_byte l with
                             | Some bytes => if forallb printable bytes then Some (PStr bytes) else plain
                             | None => plain
                             end
                           else plain
                       | _ => None
                       end
                   end in
                 match b, go fs' sl' (S i) with
                 | Some bv, Some rest => Some ((i, bv) :: rest)
                 | _, _ => None
                 end
             end) (c_fields c) slots 0%nat)
      end
  | _ => None
  end.

(* ------------------------------------------------------------ well-formedness (the data-object contract) *)
Definition prim_ok (k : skind) (v : pyval) : bool :=
  match k, v with
  | KBool, PBool _ => true
  | KU w, PInt z => urange w z
  | KS w, PInt z => srange w z
  | KF w, PFloat x => if w <? 64 then f_in_range w x || negb (f_isfinite x) else true
  | _, _ => false
  end.

(* strict: elements of integer arrays are within the DSDL range; otherwise only within the NumPy storage range *)
Definition elem_ok (strict : bool) (e : etype) (v : pyval) : bool :=
  match e, v with
  | EPrim KBool, PBool _ => true
  | EPrim (KU w), PInt z => urange (if strict then w else pwd w) z
  | EPrim (KS w), PInt z => srange (if strict then w else pwd w) z
  | EPrim (KF _), PFloat _ => true
  | EComp _, _ => true
  | _, _ => false
  end.

Definition field_ok (strict : bool) (f : ftype) (v : pyval) : bool :=
  match f with
  | FScalar (EPrim k) => prim_ok k v
  | FScalar (EComp t) => match v with PObj t' _ => Nat.eqb t' t | _ => false end
  | FArr fixed cap _ e =>
      match v with
      | PArr dt l => dtype_eqb dt (dtype_of e) && (if fixed then Nat.eqb (length l) cap else Nat.leb (length l) cap)
                     && forallb (elem_ok strict e) l
      | _ => false
      end
  end.

Fixpoint fields_ok (strict union : bool) (fs : list ftype) (sl : list pyval) : bool :=
  match fs, sl with
  | [], [] => true
  | f :: fs', s :: sl' => ((union && is_none s) || field_ok strict f s) && fields_ok strict union fs' sl'
  | _, _ => false
  end.

Definition count_active (sl : list pyval) : nat := length (filter (fun s => negb (is_none s)) sl).

Definition obj_ok (strict : bool) (c : comp) (sl : list pyval) : bool :=
  fields_ok strict (c_union c) (c_fields c) sl && (if c_union c then Nat.eqb (count_active sl) 1 else true).

(* what a NumPy array of the given dtype can hold *)
Definition fits (dt : dtype) (v : pyval) : bool :=
  match dt, v with
  | DBool, PBool _ => true
  | DU w, PInt z => urange w z
  | DS w, PInt z => srange w z
  | DF _, PFloat _ => true
  | DObj, _ => true
  | _, _ => false
  end.

(* every instance embedded anywhere in the value honours the contract (and arrays hold what their dtype can hold) *)
Fixpoint wfv (strict : bool) (v : pyval) : bool :=
  match v with
  | PList l => forallb (wfv strict) l
  | PDict l => forallb (fun p => wfv strict (snd p)) l
  | PArr dt l => forallb (fits dt) l && forallb (wfv strict) l
  | PObj tid slots =>
      match nth_error db tid with
      | Some c => obj_ok strict c slots && forallb (wfv strict) slots
      | None => false
      end
  | _ => true
  end.

(* a type only refers to smaller type ids; unions have at least two options (pydsdl guarantees both) *)
Definition etype_below (n : nat) (e : etype) : bool := match e with EComp t => Nat.ltb t n | _ => true end.
Definition ftype_below (n : nat) (f : ftype) : bool :=
  match f with FScalar e => etype_below n e | FArr _ _ _ e => etype_below n e end.
Fixpoint db_ok_aux (n : nat) (cs : list comp) : bool :=
  match cs with
  | [] => true
  | c :: r => forallb (ftype_below n) (c_fields c) && (negb (c_union c) || Nat.leb 2 (length (c_fields c)))
              && db_ok_aux (S n) r
  end.

(* no array of integers of a non-standard bit width: the element range then equals the NumPy storage range
   (the type-level complement of the trigger of F-PY-ARRELEM) *)
Definition ftype_std (f : ftype) : bool :=
  match f with
  | FArr _ _ _ (EPrim (KU w)) | FArr _ _ _ (EPrim (KS w)) => pwd w =? w
  | _ => true
  end.
Definition db_std_elems : bool := forallb (fun c => forallb ftype_std (c_fields c)) db.

(* ------------------------------------------------------------ value expressions, operations, runs *)
Inductive vexpr :=
| XVal (v : pyval)                          (* literal without embedded instances or arrays (those come from XNew / XNd) *)
| XList (l : list vexpr)
| XDict (l : list (nat * vexpr))
| XNd (dt : dtype) (l : list vexpr)         (* numpy.array([...], dt) *)
| XNew (tid : nat) (kw : list vexpr).       (* Class(kwargs): kw aligned with the fields, XVal PNone = not given *)

Fixpoint no_obj (v : pyval) : bool :=
  match v with
  | PObj _ _ => false
  | PArr _ _ => false
  | PList l => forallb no_obj l
  | PDict l => forallb (fun p => no_obj (snd p)) l
  | _ => true
  end.

Fixpoint eval (e : vexpr) : res pyval :=
  match e with
  | XVal v => if no_obj v then Ok v else Raise TypeError
  | XList l =>
      vs <- (fix go (l : list vexpr) : res (list pyval) :=
               match l with [] => Ok [] | a :: r => v <- eval a ;; vs <- go r ;; Ok (v :: vs) end) l ;;
      Ok (PList vs)
  | XDict l =>
      vs <- (fix go (l : list (nat * vexpr)) : res (list (nat * pyval)) :=
               match l with [] => Ok [] | (k, a) :: r => v <- eval a ;; vs <- go r ;; Ok ((k, v) :: vs) end) l ;;
      Ok (PDict vs)
  | XNd dt l =>
      vs <- (fix go (l : list vexpr) : res (list pyval) :=
               match l with [] => Ok [] | a :: r => v <- eval a ;; vs <- go r ;; Ok (v :: vs) end) l ;;
      es <- mapM (conv_leaf dt) vs ;; Ok (PArr dt es)
  | XNew tid kw =>
      vs <- (fix go (l : list vexpr) : res (list pyval) :=
               match l with [] => Ok [] | a :: r => v <- eval a ;; vs <- go r ;; Ok (v :: vs) end) kw ;;
      construct tid vs
  end.

Inductive op :=
| OSet (i : nat) (e : vexpr)          (* obj.<field i> = e *)
| OUfb (fuel : nat) (e : vexpr)       (* update_from_builtin(obj, e) *)
| OCtor (kw : list vexpr).            (* obj = Class(kwargs) if that does not raise *)

Definition step (tid : nat) (o : pyval) (p : op) : pyval * option exc :=
  match p with
  | OSet i e =>
      match eval e with
      | Raise ex => (o, Some ex)
      | Ok x =>
          match o, nth_error db tid with
          | PObj t slots, Some c => let '(s', r) := set_slot c slots i x in (PObj t s', r)
          | _, _ => (o, Some AttributeError)
          end
      end
  | OUfb fuel e =>
      match eval e with
      | Raise ex => (o, Some ex)
      | Ok x => ufb fuel o x
      end
  | OCtor kw =>
      match eval (XNew tid kw) with
      | Ok o' => (o', None)
      | Raise ex => (o, Some ex)
      end
  end.

Definition run (tid : nat) (ops : list op) : pyval :=
  fold_left (fun o p => fst (step tid o p)) ops (default_obj tid).

(* the same with the outcome and the object after every operation (what the driver prints) *)
Fixpoint trace (tid : nat) (o : pyval) (ops : list op) : list (pyval * option exc) :=
  match ops with
  | [] => []
  | p :: r => let s := step tid o p in s :: trace tid (fst s) r
  end.

(* ------------------------------------------------------------ writes that bypass the setters (round 5) *)
(* NumPy `a[j] = v` on a 1-d array of dtype dt (v a Python scalar): converted like an element of np.array([...], dt) -- a Python int
   outside an integer dtype raises OverflowError -- and stored IN PLACE; no generated code runs, so no DSDL range check.
   Read-only arrays (np.frombuffer of `bytes`) are outside the model: the harness never writes into them. *)
Definition np_setitem (dt : dtype) (l : list pyval) (j : nat) (v : pyval) : res (list pyval) :=
  if Nat.ltb j (length l) then x <- conv_leaf dt v ;; Ok (update_nth j x l) else Raise IndexError.

(* NumPy `a += z` (z a Python int) on an integer array: z must fit the dtype (NumPy 2: OverflowError), the sum wraps around *)
Definition np_iadd (dt : dtype) (l : list pyval) (z : Z) : res (list pyval) :=
  match dt with
  | DU _ | DS _ =>
      _ <- conv_leaf dt (PInt z) ;;
      mapM (fun x => match x with PInt a => Ok (PInt (wrap_int dt (a + z))) | _ => Raise TypeError end) l
  | _ => Raise TypeError                                   (* float / bool / object arrays: not modelled, never generated *)
  end.

Definition arr_update (slots : list pyval) (i : nat) (f : dtype -> list pyval -> res (list pyval)) : list pyval * option exc :=
  match nth_error slots i with
  | Some (PArr dt l) => match f dt l with Ok l' => (update_nth i (PArr dt l') slots, None) | Raise e => (slots, Some e) end
  | Some _ => (slots, Some TypeError)                     (* inactive union option (None) or not an array *)
  | None => (slots, Some AttributeError)
  end.

(* obj.<p1>.<p2>...: apply g to the slots of the instance reached through composite-typed fields; the instances on the way are
   mutated in place *)
Fixpoint at_path (fuel : nat) (tid : nat) (slots : list pyval) (path : list nat)
         (g : comp -> list pyval -> list pyval * option exc) : list pyval * option exc :=
  match nth_error db tid with
  | None => (slots, Some AttributeError)
  | Some c =>
      match path with
      | [] => g c slots
      | p :: rest =>
          match fuel, nth_error slots p with
          | S fuel', Some (PObj t sl) =>
              let '(sl', r) := at_path fuel' t sl rest g in (update_nth p (PObj t sl') slots, r)
          | _, _ => (slots, Some AttributeError)          (* None (inactive option), a non-instance, no such field *)
          end
      end
  end.

Definition is_fast_bind (c : comp) (i : nat) (x : pyval) : bool :=
  match nth_error (c_fields c) i, x with
  | Some (FArr _ _ _ e), PArr dt' _ => dtype_eqb dt' (dtype_of e)
  | _, _ => false
  end.

Inductive xop :=
| XBase (p : op)
| XSetIn (path : list nat) (i : nat) (e : vexpr)        (* obj.<path>.<field i> = e *)
| XMutElem (path : list nat) (i j : nat) (e : vexpr)    (* a = obj.<path>.<field i>; a[j] = e   (directly or through a slice view) *)
| XIAdd (path : list nat) (i : nat) (z : Z)             (* a = obj.<path>.<field i>; a += z *)
| XAliasMut (i : nat) (a : vexpr) (j : nat) (e : vexpr).  (* a = <ndarray>; obj.<field i> = a; a[j] = e : the same-dtype fast path of
                                                           assign_array binds the caller's array ("beware of the shared reference") *)

Definition xstep (tid : nat) (o : pyval) (p : xop) : pyval * option exc :=
  match p with
  | XBase b => step tid o b
  | XSetIn path i e =>
      match eval e, o with
      | Raise ex, _ => (o, Some ex)
      | Ok x, PObj t slots => let '(s', r) := at_path (length path) t slots path (fun c sl => set_slot c sl i x) in (PObj t s', r)
      | Ok _, _ => (o, Some AttributeError)
      end
  | XMutElem path i j e =>
      match eval e, o with
      | Raise ex, _ => (o, Some ex)
      | Ok x, PObj t slots =>
          let '(s', r) := at_path (length path) t slots path (fun _ sl => arr_update sl i (fun dt l => np_setitem dt l j x)) in
          (PObj t s', r)
      | Ok _, _ => (o, Some AttributeError)
      end
  | XIAdd path i z =>
      match o with
      | PObj t slots =>
          let '(s', r) := at_path (length path) t slots path (fun _ sl => arr_update sl i (fun dt l => np_iadd dt l z)) in
          (PObj t s', r)
      | _ => (o, Some AttributeError)
      end
  | XAliasMut i a j e =>
      match eval a, eval e, o, nth_error db tid with
      | Raise ex, _, _, _ => (o, Some ex)
      | _, Raise ex, _, _ => (o, Some ex)
      | Ok xa, Ok x, PObj t slots, Some c =>
          match set_slot c slots i xa with
          | (s', Some ex) => (PObj t s', Some ex)
          | (s', None) =>
              if is_fast_bind c i xa
              then let '(s2, r) := arr_update s' i (fun dt l => np_setitem dt l j x) in (PObj t s2, r)   (* aliased: the field sees it *)
              else (PObj t s', match xa with
                               | PArr dt l => match np_setitem dt l j x with Ok _ => None | Raise ex => Some ex end
                               | _ => Some TypeError
                               end)                                                                    (* copied: it does not *)
          end
      | Ok _, Ok _, _, _ => (o, Some AttributeError)
      end
  end.

Definition xrun (tid : nat) (ops : list xop) : pyval :=
  fold_left (fun o p => fst (xstep tid o p)) ops (default_obj tid).

Fixpoint xtrace (tid : nat) (o : pyval) (ops : list xop) : list (pyval * option exc) :=
  match ops with
  | [] => []
  | p :: r => let s := xstep tid o p in s :: xtrace tid (fst s) r
  end.

End Model.
