(* C05, base definitions (no dependency on generated files):
     - Python's str(int) as decimal rendering (what `str(value)` in filter_literal produces);
     - a small C integer-constant-expression grammar: decimal literal with optional U and L/LL suffix, unary minus, and the
       parenthesised form `(a - b)`; parser, C99 6.4.4.1 typing of decimal literals, usual arithmetic conversions, and a denotation
       function that returns None where a conforming compiler must (or, with -Werror -pedantic, does) issue a diagnostic:
       a decimal literal without U that fits no signed candidate type up to long long, a literal with U beyond unsigned long long,
       signed overflow in a constant expression;
     - the floating constant expression forms `N.0` and `(N.0 / D.0)` with their exact rational denotation;
     - the expression language of the template scan (which attribute of the type a rendered constant is computed from). *)
From Coq Require Import List NArith ZArith Bool Lia.
From Verif Require Import Dsdl Meta.
Import ListNotations.
Local Open Scope Z_scope.

(* ---------------------------------------------------------------------------------------------------------------- *)
(* str(int)                                                                                                           *)
(* ---------------------------------------------------------------------------------------------------------------- *)
Definition digit_chr (d : N) : N := (48 + d)%N.

(* least significant digit first *)
Fixpoint dec_rev (fuel : nat) (n : N) : list N :=
  match fuel with
  | O => []
  | S f => if (n <? 10)%N then [digit_chr n] else digit_chr (n mod 10) :: dec_rev f (n / 10)
  end.

Definition dec_fuel (n : N) : nat := S (N.to_nat (N.log2 n)).
Definition dec_of_N (n : N) : list N := rev (dec_rev (dec_fuel n) n).

Definition py_str_int (z : Z) : list N :=
  match z with
  | Z0 => [48%N]
  | Zpos p => dec_of_N (Npos p)
  | Zneg p => 45%N :: dec_of_N (Npos p)
  end.

(* Python `s * b` for a bool b *)
Definition str_times_bool (s : list N) (b : bool) : list N := if b then s else [].

(* ---------------------------------------------------------------------------------------------------------------- *)
(* C integer constant expressions                                                                                     *)
(* ---------------------------------------------------------------------------------------------------------------- *)
Inductive cexpr : Type :=
| CLit (n : N) (u : bool) (nl : nat)      (* decimal digits, U suffix present, number of L's (0..2) *)
| CNeg (e : cexpr)
| CSub (a b : cexpr).

Definition is_digit (c : N) : bool := ((48 <=? c) && (c <=? 57))%N.

Fixpoint read_digits (acc : N) (s : list N) : N * list N :=
  match s with
  | c :: r => if is_digit c then read_digits (10 * acc + (c - 48))%N r else (acc, s)
  | [] => (acc, [])
  end.

Definition read_Ls (s : list N) : nat * list N :=
  match s with
  | 76%N :: 76%N :: r => (2%nat, r)
  | 76%N :: r => (1%nat, r)
  | _ => (0%nat, s)
  end.

Definition read_suffix (s : list N) : bool * nat * list N :=
  match s with
  | 85%N :: r => let '(nl, r') := read_Ls r in (true, nl, r')
  | _ => let '(nl, r') := read_Ls s in (false, nl, r')
  end.

(* a decimal literal: starts with a digit; a leading 0 followed by another digit would be an OCTAL constant: not in the grammar *)
Definition parse_lit (s : list N) : option (cexpr * list N) :=
  match s with
  | [] => None
  | c :: r =>
      if negb (is_digit c) then None
      else if (c =? 48)%N && (match r with d :: _ => is_digit d | [] => false end) then None
      else let '(n, r1) := read_digits 0 s in
           let '(u, nl, r2) := read_suffix r1 in
           Some (CLit n u nl, r2)
  end.

Fixpoint strip (p s : list N) : option (list N) :=
  match p with
  | [] => Some s
  | a :: p' => match s with c :: s' => if (c =? a)%N then strip p' s' else None | [] => None end
  end.

Definition parse_unary (s : list N) : option (cexpr * list N) :=
  match s with
  | c :: r =>
      if (c =? 45)%N then match parse_lit r with Some (e, r') => Some (CNeg e, r') | None => None end
      else parse_lit s
  | [] => None
  end.

(* whole token: unary | '(' unary ' - ' unary ')' *)
Definition parse_cexpr (s : list N) : option cexpr :=
  match s with
  | c :: r =>
      if (c =? 40)%N then
        match parse_unary r with
        | Some (a, r1) =>
            match strip [32; 45; 32]%N r1 with
            | Some r2 =>
                match parse_unary r2 with
                | Some (b, r3) => match strip [41]%N r3 with Some [] => Some (CSub a b) | _ => None end
                | None => None
                end
            | None => None
            end
        | None => None
        end
      else match parse_unary s with Some (e, []) => Some e | _ => None end
  | [] => None
  end.

(* data model: widths of int and long; long long is 64 bits *)
Record dmodel : Type := { int_bits : Z; long_bits : Z }.
Definition dm_ip16 : dmodel := {| int_bits := 16; long_bits := 32 |}.
Definition dm_ilp32 : dmodel := {| int_bits := 32; long_bits := 32 |}.     (* also LLP64 *)
Definition dm_lp64 : dmodel := {| int_bits := 32; long_bits := 64 |}.
Definition dmodels : list dmodel := [dm_ip16; dm_ilp32; dm_lp64].

Inductive ctype : Type := CInt | CUInt | CLong | CULong | CLLong | CULLong.

Definition ct_bits (dm : dmodel) (t : ctype) : Z :=
  match t with CInt | CUInt => int_bits dm | CLong | CULong => long_bits dm | CLLong | CULLong => 64 end.
Definition ct_unsigned (t : ctype) : bool := match t with CUInt | CULong | CULLong => true | _ => false end.
Definition ct_rank (t : ctype) : Z := match t with CInt | CUInt => 0 | CLong | CULong => 1 | CLLong | CULLong => 2 end.
Definition ct_to_unsigned (t : ctype) : ctype := match t with CInt => CUInt | CLong => CULong | CLLong => CULLong | x => x end.

Definition ct_fits (dm : dmodel) (t : ctype) (v : Z) : bool :=
  if ct_unsigned t then (0 <=? v) && (v <? 2 ^ ct_bits dm t)
  else (- 2 ^ (ct_bits dm t - 1) <=? v) && (v <? 2 ^ (ct_bits dm t - 1)).

(* C99 6.4.4.1 (5): candidate types of a DECIMAL constant by suffix *)
Definition lit_candidates (u : bool) (nl : nat) : list ctype :=
  match u, nl with
  | false, O => [CInt; CLong; CLLong]
  | false, S O => [CLong; CLLong]
  | false, _ => [CLLong]
  | true, O => [CUInt; CULong; CULLong]
  | true, S O => [CULong; CULLong]
  | true, _ => [CULLong]
  end.

Fixpoint first_fit (dm : dmodel) (cands : list ctype) (v : Z) : option ctype :=
  match cands with
  | [] => None
  | t :: r => if ct_fits dm t v then Some t else first_fit dm r v
  end.

(* usual arithmetic conversions (all operand types have rank >= int, so the integer promotions are the identity) *)
Definition uac (dm : dmodel) (a b : ctype) : ctype :=
  if Bool.eqb (ct_unsigned a) (ct_unsigned b) then (if ct_rank a <? ct_rank b then b else a)
  else let '(u, s) := if ct_unsigned a then (a, b) else (b, a) in
       if ct_rank s <=? ct_rank u then u
       else if ct_bits dm u <? ct_bits dm s then s
       else ct_to_unsigned s.

(* the value v as a result of type t: unsigned arithmetic wraps, signed overflow is a diagnostic *)
Definition in_type (dm : dmodel) (t : ctype) (v : Z) : option Z :=
  if ct_unsigned t then Some (v mod 2 ^ ct_bits dm t) else if ct_fits dm t v then Some v else None.

Fixpoint cden (dm : dmodel) (e : cexpr) : option (ctype * Z) :=
  match e with
  | CLit n u nl =>
      match first_fit dm (lit_candidates u nl) (Z.of_N n) with
      | Some t => Some (t, Z.of_N n)
      | None => None
      end
  | CNeg a =>
      match cden dm a with
      | Some (t, v) => match in_type dm t (- v) with Some r => Some (t, r) | None => None end
      | None => None
      end
  | CSub a b =>
      match cden dm a, cden dm b with
      | Some (ta, va), Some (tb, vb) =>
          let t := uac dm ta tb in
          match in_type dm t va, in_type dm t vb with
          | Some x, Some y => match in_type dm t (x - y) with Some r => Some (t, r) | None => None end
          | _, _ => None
          end
      | _, _ => None
      end
  end.

(* token -> (type, value) or diagnostic *)
Definition c_token_denotes (dm : dmodel) (s : list N) : option (ctype * Z) :=
  match parse_cexpr s with Some e => cden dm e | None => None end.

(* ---------------------------------------------------------------------------------------------------------------- *)
(* floating constant expressions  `N.0`  `-N.0`  `(N.0 / D.0)`                                                        *)
(* ---------------------------------------------------------------------------------------------------------------- *)
(* [-]digits ".0" *)
Definition parse_fnum (s : list N) : option (Z * list N) :=
  match s with
  | c0 :: r0 =>
      let neg := (c0 =? 45)%N in
      let s1 := if neg then r0 else s in
      match s1 with
      | c :: _ =>
          if is_digit c then
            let '(n, r) := read_digits 0 s1 in
            match strip [46; 48]%N r with
            | Some r' => Some ((if neg then - Z.of_N n else Z.of_N n), r')
            | None => None
            end
          else None
      | [] => None
      end
  | [] => None
  end.

(* exact rational value of the expression BEFORE any rounding: (numerator, denominator) *)
Definition parse_fexpr (s : list N) : option (Z * Z) :=
  match s with
  | c :: r =>
      if (c =? 40)%N then
        match parse_fnum r with
        | Some (n, r1) =>
            match strip [32; 47; 32]%N r1 with
            | Some r2 =>
                match parse_fnum r2 with
                | Some (d, r3) => match strip [41]%N r3 with Some [] => Some (n, d) | _ => None end
                | None => None
                end
            | None => None
            end
        | None => None
        end
      else match parse_fnum s with Some (n, []) => Some (n, 1) | _ => None end
  | [] => None
  end.

(* ---------------------------------------------------------------------------------------------------------------- *)
(* template scan: what an exported constant is computed from                                                          *)
(* ---------------------------------------------------------------------------------------------------------------- *)
Inductive msrc : Type :=
| SrcExtent          (* t.extent                               (bits) *)
| SrcInnerExtent     (* t.inner_type.extent                    (bits) *)
| SrcInnerMax        (* t.inner_type.bit_length_set.max        (bits) *)
| SrcCapacity        (* f.data_type.capacity of an array field        *)
| SrcFieldCount      (* t.fields | length                             *)
| SrcPortId          (* T.fixed_port_id                               *)
| SrcFullName        (* t.full_name                                   *)
| SrcMajor | SrcMinor
| SrcOther.          (* anything else: never accepted by a theorem    *)

Inductive mexp : Type :=
| MSrc (s : msrc)
| MFloorDiv8 (e : mexp)      (* `e // 8` *)
| MB2B (e : mexp)            (* `e | bits2bytes_ceil` *)
| MMul8 (e : mexp).          (* `8U * e` (capacity in bits) *)

Inductive mcmp : Type := CmpLt | CmpLe | CmpGt | CmpGe | CmpOther.

(* the up-front capacity check of a serializer: `if (<lhs> <op> <rhs>) return too_small`; lhs over the capacity in bytes
   (C) or in bits (C++: out_buffer.size()), rhs over the type *)
Record capcheck : Type := { cc_cap_in_bits : bool; cc_lhs_times8 : bool; cc_op : mcmp; cc_rhs : mexp; cc_first : bool }.

Definition src_val (s : msrc) (t : ty) : Z :=
  match s with
  | SrcExtent => Z.of_nat (extent t)
  | SrcInnerExtent | SrcInnerMax => Z.of_nat (bmax t)      (* pydsdl: the inner type is sealed, its extent is its maximum bit length *)
  | SrcCapacity => match t with TFix _ n => Z.of_nat n | TVar _ c => Z.of_nat c | _ => -1 end
  | SrcFieldCount => match t with TComp _ fs _ => Z.of_nat (length fs) | _ => -1 end
  | _ => -1
  end.

Definition is_comp (t : ty) : bool := match t with TComp _ _ _ => true | _ => false end.

(* ---------------------------------------------------------------------------------------------------------------- *)
(* what the translated filters see of a pydsdl primitive type                                                        *)
(* ---------------------------------------------------------------------------------------------------------------- *)
Inductive pkind : Type := KBool | KUInt | KSInt | KFloat | KVoid.
Inductive pcast : Type := CM_SATURATED | CM_TRUNCATED.
Record pty : Type := { pty_kind : pkind; pty_bit_length : Z; pty_cast_mode : pcast }.
Definition mk_pty (k : pkind) (w : Z) : pty := {| pty_kind := k; pty_bit_length := w; pty_cast_mode := CM_SATURATED |}.

Inductive pclass : Type :=
| C_PrimitiveType | C_BooleanType | C_ArithmeticType | C_IntegerType | C_UnsignedIntegerType | C_SignedIntegerType | C_FloatType
| C_VoidType.

(* pydsdl 1.x class forest: PrimitiveType > {BooleanType, ArithmeticType > {IntegerType > {Signed, Unsigned}, FloatType}}; VoidType is
   not a PrimitiveType *)
Definition py_isinstance (t : pty) (c : pclass) : bool :=
  match c, pty_kind t with
  | C_PrimitiveType, (KBool | KUInt | KSInt | KFloat) => true
  | C_BooleanType, KBool => true
  | C_ArithmeticType, (KUInt | KSInt | KFloat) => true
  | C_IntegerType, (KUInt | KSInt) => true
  | C_UnsignedIntegerType, KUInt => true
  | C_SignedIntegerType, KSInt => true
  | C_FloatType, KFloat => true
  | C_VoidType, KVoid => true
  | _, _ => false
  end.

Inductive mtarget : Type := TgtC | TgtCpp | TgtPy.
Inductive mkey : Type := KExtentBytes | KBufferBytes | KCap | KUnionCount | KPortId | KFullName | KConst | KSvcPortId.
Record export : Type := { ex_tgt : mtarget; ex_key : mkey; ex_exp : mexp }.

(* a decimal floating constant rounds to a finite double iff its magnitude is below 2^1024 - 2^970 (half an ulp above DBL_MAX);
   beyond that gcc diagnoses "floating constant exceeds range of 'double'" and clang evaluates the constant to infinity *)
Definition dbl_lit_limit : Z := 2 ^ 1024 - 2 ^ 970.
Definition float_lit_overflows (n d : Z) : bool := (dbl_lit_limit <=? Z.abs n) || (dbl_lit_limit <=? Z.abs d).

(* a decimal floating constant  [-]digits[.digits][e[+|-]digits]  (the forms Python's repr(float) produces for finite values) with
   its exact rational value (numerator, denominator), not reduced *)
Fixpoint read_digits_cnt (acc : N) (cnt : nat) (s : list N) : N * nat * list N :=
  match s with
  | c :: r => if is_digit c then read_digits_cnt (10 * acc + (c - 48))%N (S cnt) r else (acc, cnt, s)
  | [] => (acc, cnt, [])
  end.

Definition parse_fdec (s : list N) : option (Z * Z) :=
  let '(neg, s0) := match s with c :: r => if (c =? 45)%N then (true, r) else (false, s) | [] => (false, s) end in
  let '(ip, n1, s1) := read_digits_cnt 0 0 s0 in
  if Nat.eqb n1 0 then None else
  let '(m, k, s2) := match s1 with
                     | c :: r => if (c =? 46)%N then read_digits_cnt ip 0 r else (ip, O, s1)
                     | [] => (ip, O, s1)
                     end in
  let after_dot_ok := match s1 with c :: _ => if (c =? 46)%N then negb (Nat.eqb k 0) else true | [] => true end in
  if negb after_dot_ok then None else
  let exp_part : option Z :=
    match s2 with
    | [] => Some 0
    | c :: r =>
        if (c =? 101)%N then
          let '(eneg, r1) := match r with c1 :: r' => if (c1 =? 45)%N then (true, r') else if (c1 =? 43)%N then (false, r') else (false, r)
                                         | [] => (false, r) end in
          let '(e, ne, r2) := read_digits_cnt 0 0 r1 in
          if Nat.eqb ne 0 then None else match r2 with [] => Some (if eneg then - Z.of_N e else Z.of_N e) | _ => None end
        else None
    end in
  match exp_part with
  | None => None
  | Some e =>
      let e' := e - Z.of_nat k in
      let mz := if neg then - Z.of_N m else Z.of_N m in
      Some (if 0 <=? e' then (mz * 10 ^ e', 1) else (mz, 10 ^ (- e')))
  end.

(* the Jinja conditions / loops that enclose the place where a constant is rendered (template scan) *)
Inductive mcond : Type :=
| CondHas (s : msrc)         (* {% if T.has_fixed_port_id %} *)
| CondNotNone (s : msrc)     (* {% if T.fixed_port_id is not none %} *)
| CondTruthy (s : msrc)      (* {% if T.fixed_port_id %}: false for None AND for 0 *)
| CondEach                   (* {% for constant in t.constants %} without a filter *)
| CondEachArray              (* {% for f in t.fields_except_padding if f.data_type is ArrayType %} *)
| CondNotService             (* {% if t is not ServiceType %} *)
| CondIsService              (* {% if T is ServiceType %} *)
| CondElse (c : mcond)       (* the {% else %} branch of that condition *)
| CondOther.
Record emit : Type := { em_tgt : mtarget; em_key : mkey; em_conds : list mcond }.

(* what the storage-type filters see of the language configuration (properties.yaml) *)
Record lang : Type := { lang_use_standard_types : bool; lang_named_boolean : list N;
                       lang_valuetoken_true : list N; lang_valuetoken_false : list N }.
Definition opt_is_none (o : option (list N)) : bool := match o with None => true | Some _ => false end.
Definition opt_str_get (o : option (list N)) : list N := match o with Some s => s | None => [] end.

(* ---- attribute paths as they stand in the templates (scanned verbatim), and what they mean ---- *)
Fixpoint lstr_eqb (a b : list N) : bool :=
  match a, b with
  | [], [] => true
  | x :: a', y :: b' => (x =? y)%N && lstr_eqb a' b'
  | _, _ => false
  end.
Fixpoint path_eqb (a b : list (list N)) : bool :=
  match a, b with
  | [], [] => true
  | x :: a', y :: b' => lstr_eqb x y && path_eqb a' b'
  | _, _ => false
  end.

Definition a_extent : list N := [101; 120; 116; 101; 110; 116]%N.
Definition a_inner_type : list N := [105; 110; 110; 101; 114; 95; 116; 121; 112; 101]%N.
Definition a_bit_length_set : list N := [98; 105; 116; 95; 108; 101; 110; 103; 116; 104; 95; 115; 101; 116]%N.
Definition a_max : list N := [109; 97; 120]%N.
Definition a_fixed_port_id : list N := [102; 105; 120; 101; 100; 95; 112; 111; 114; 116; 95; 105; 100]%N.
Definition a_full_name : list N := [102; 117; 108; 108; 95; 110; 97; 109; 101]%N.
Definition a_version : list N := [118; 101; 114; 115; 105; 111; 110]%N.
Definition a_major : list N := [109; 97; 106; 111; 114]%N.
Definition a_minor : list N := [109; 105; 110; 111; 114]%N.
Definition a_data_type : list N := [100; 97; 116; 97; 95; 116; 121; 112; 101]%N.
Definition a_capacity : list N := [99; 97; 112; 97; 99; 105; 116; 121]%N.
Definition a_fields : list N := [102; 105; 101; 108; 100; 115]%N.
Definition a_fields_except_padding : list N :=
  [102; 105; 101; 108; 100; 115; 95; 101; 120; 99; 101; 112; 116; 95; 112; 97; 100; 100; 105; 110; 103]%N.
Definition a_length_filter : list N := [124; 108; 101; 110; 103; 116; 104]%N.      (* "|length" *)

(* root: true = the composite type the template is rendered for (t, T, type, composite_type), false = a field `f` *)
Definition attr_src (root_is_type : bool) (path : list (list N)) : msrc :=
  if root_is_type then
    if path_eqb path [a_extent] then SrcExtent
    else if path_eqb path [a_inner_type; a_extent] then SrcInnerExtent
    else if path_eqb path [a_inner_type; a_bit_length_set; a_max] then SrcInnerMax
    else if path_eqb path [a_fixed_port_id] then SrcPortId
    else if path_eqb path [a_full_name] then SrcFullName
    else if path_eqb path [a_version; a_major] then SrcMajor
    else if path_eqb path [a_version; a_minor] then SrcMinor
    else if path_eqb path [a_fields; a_length_filter] || path_eqb path [a_fields_except_padding; a_length_filter] then SrcFieldCount
    else SrcOther
  else if path_eqb path [a_data_type; a_capacity] then SrcCapacity else SrcOther.

(* the DSDL side, written directly on the type (not through src_val) *)
Definition array_capacity (t : ty) : Z := match t with TFix _ n => Z.of_nat n | TVar _ c => Z.of_nat c | _ => -1 end.
Definition option_count (t : ty) : Z := match t with TComp _ fs _ => Z.of_nat (length fs) | _ => -1 end.

(* string templates: `"{{ t.full_name }}.{{ t.version.major }}.{{ t.version.minor }}"`, Python class constants *)
Inductive piece : Type := PText (s : list N) | PAttr (path : list (list N)).
Record tmeta : Type := { tm_full_name : list N; tm_major : Z; tm_minor : Z }.
Inductive cvalue : Type := CVBool (b : bool) | CVInt (z : Z) | CVFrac (n d : Z).

Definition a_value : list N := [118; 97; 108; 117; 101]%N.
Definition a_native_value : list N := [110; 97; 116; 105; 118; 101; 95; 118; 97; 108; 117; 101]%N.
Definition a_as_native_integer : list N :=
  [97; 115; 95; 110; 97; 116; 105; 118; 101; 95; 105; 110; 116; 101; 103; 101; 114; 40; 41]%N.           (* "as_native_integer()" *)
Definition a_numerator : list N := [110; 117; 109; 101; 114; 97; 116; 111; 114]%N.
Definition a_denominator : list N := [100; 101; 110; 111; 109; 105; 110; 97; 116; 111; 114]%N.
Definition s_True : list N := [84; 114; 117; 101]%N.
Definition s_False : list N := [70; 97; 108; 115; 101]%N.

(* Jinja renders an int / bool expression with Python's str() *)
Definition name_attr (m : tmeta) (path : list (list N)) : option (list N) :=
  match attr_src true path with
  | SrcFullName => Some (tm_full_name m)
  | SrcMajor => Some (py_str_int (tm_major m))
  | SrcMinor => Some (py_str_int (tm_minor m))
  | _ => None
  end.

Definition const_attr (v : cvalue) (path : list (list N)) : option (list N) :=
  match v with
  | CVBool b => if path_eqb path [a_value; a_native_value] then Some (if b then s_True else s_False) else None
  | CVInt z => if path_eqb path [a_value; a_as_native_integer] then Some (py_str_int z) else None
  | CVFrac n d => if path_eqb path [a_value; a_native_value; a_numerator] then Some (py_str_int n)
                  else if path_eqb path [a_value; a_native_value; a_denominator] then Some (py_str_int d) else None
  end.

Fixpoint render_pieces (A : list (list N) -> option (list N)) (ps : list piece) : option (list N) :=
  match ps with
  | [] => Some []
  | PText s :: r => match render_pieces A r with Some x => Some (s ++ x) | None => None end
  | PAttr p :: r => match A p, render_pieces A r with Some a, Some x => Some (a ++ x) | _, _ => None end
  end.

(* which rule decides that a non-integral rational is rendered as the division `(N.0 / D.0)` (fact regenerated from
   _float_division_expr): both operands below 2^1023 (code before the repair of F-FLOAT-OPERAND-ROUNDING), or both operands exactly
   representable doubles (repaired code) *)
Inductive frule : Type := DivIfBelowLimit | DivIfExactOperands.

(* a boolean flag rendered as a literal under a Jinja branch (e.g. `_HAS_FIXED_PORT_ID_ true` under {% if T.has_fixed_port_id %}) *)
Record flag_site : Type := { fs_tgt : mtarget; fs_name : list N; fs_conds : list mcond; fs_value : bool }.
