(* C12 x C11 -- the type-file targets of a configuration are not free: they are C11's derived list c11_targets (the output
   paths yielded by get_all_types / get_all_datatypes in generation order), encoded into C12's opaque paths by any injective
   map.  Distinctness is C11's theorem; it is a Section hypothesis here under the name C11 exports it (Properties/C11.v
   c11_targets_distinct = NamespaceFsThm.targets_distinct, under the stropping-injectivity premises stated there). *)
From Coq Require Import NArith List Bool FinFun.
From Verif Require Import Namespace RegenBase Gen_Regen Regen RegenThm.
Import ListNotations.

Section Bridge.
  Variable strop : Str.str -> Str.str.
  Variables (es : bool) (ext stem : Str.str) (outdir : Namespace.path) (g : bool).
  Variable perm : list Namespace.key -> list Namespace.key.
  Variable types : list Namespace.ty.
  Variable enc : Namespace.path -> RegenBase.path.
  Hypothesis enc_injective : forall a b, enc a = enc b -> a = b.
  Hypothesis c11_targets_distinct : NoDup (c11_targets strop es ext stem outdir g perm types).

  Definition derived_types : list RegenBase.path := map enc (c11_targets strop es ext stem outdir g perm types).

  Theorem c12_type_targets_distinct : forall c, c_types c = derived_types -> NoDup (c_types c).
  Proof.
    intros c ->. unfold derived_types. apply Injective_map_NoDup; [|exact c11_targets_distinct].
    intros a b. apply enc_injective.
  Qed.

  (* the whole target list: support targets distinct and not among the type targets (the support folder is not a DSDL namespace) *)
  Theorem c12_targets_distinct : forall c, c_types c = derived_types ->
    NoDup (map fst (support_selection (c_omit c) (c_sersup c) (c_typesup c))) ->
    (forall p, In p (map fst (support_selection (c_omit c) (c_sersup c) (c_typesup c))) -> ~ In p (c_types c)) ->
    NoDup (targets c).
  Proof.
    intros c Ht Hs Hd. rewrite targets_derived.
    pose proof (c12_type_targets_distinct c Ht) as Hn.
    destruct (should_generate_support (c_gensup c) (c_omit c)); destruct (generates_types (c_gensup c));
      cbn [app]; rewrite ?app_nil_r; auto using NoDup_nil.
    clear Ht. induction (map fst (support_selection (c_omit c) (c_sersup c) (c_typesup c))) as [|a r IH]; cbn [app]; [exact Hn|].
    inversion Hs; subst. constructor.
    - intros X. apply in_app_or in X. destruct X; [contradiction|]. apply (Hd a); [now left | assumption].
    - apply IH; auto. intros p Hp. apply Hd. now right.
  Qed.

  (* consumers: with C11's derived targets the distinctness premise of the --no-overwrite equivalences is discharged *)
  Theorem no_overwrite_ok_iff_c11 : forall render e, render_independent render -> env_wf e -> forall s c,
    c_types c = derived_types ->
    NoDup (map fst (support_selection (c_omit c) (c_sersup c) (c_typesup c))) ->
    (forall p, In p (map fst (support_selection (c_omit c) (c_sersup c) (c_typesup c))) -> ~ In p (c_types c)) ->
    c_dryrun c = false -> c_allow c = false -> no_external (c_filepps c) = true -> compatible e c c -> targets_plain e c ->
    (forall p, In p (targets c) -> ready e s p = true) ->
    (snd (step render e s c) = Ok <-> forall p, In p (targets c) -> s p = None).
  Proof.
    intros render e Hi Hw s c Ht Hs Hd Hdry Ha Hne Hc Lc Hr.
    apply (RegenThm.no_overwrite_ok_iff render e Hi Hw); auto. now apply c12_targets_distinct.
  Qed.

  Theorem no_overwrite_error_iff_c11 : forall render e, render_independent render -> env_wf e -> forall s c,
    c_types c = derived_types ->
    NoDup (map fst (support_selection (c_omit c) (c_sersup c) (c_typesup c))) ->
    (forall p, In p (map fst (support_selection (c_omit c) (c_sersup c) (c_typesup c))) -> ~ In p (c_types c)) ->
    c_dryrun c = false -> c_allow c = false -> no_external (c_filepps c) = true -> compatible e c c -> targets_plain e c ->
    (forall p, In p (targets c) -> ready e s p = true) ->
    (snd (step render e s c) = Err EExists <-> exists p, In p (targets c) /\ s p <> None).
  Proof.
    intros render e Hi Hw s c Ht Hs Hd Hdry Ha Hne Hc Lc Hr.
    apply (RegenThm.no_overwrite_error_iff render e Hi Hw); auto. now apply c12_targets_distinct.
  Qed.
End Bridge.
