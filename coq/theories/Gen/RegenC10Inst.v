(* C12 x C10 -- the instantiation: C10_file_indep_real + single_run_entry + ids_agree_with_c10_keys
                                   ==>  render_independent_on_targets (render_c10 ...) c.

   Everything from C10 is used as proved there (Properties/C10.v, Gen/GenStateThmSubset.v; read-only for C12); C10's own
   named premise about the template engine, render_pure, is passed through.  The ONE hypothesis of C12's side is
   ids_agree_with_c10_keys: what the harness fixes when it identifies C12's opaque class/path ids with C10's objects --
   a run of nnvg of class (c_class c) is one process with one generator and one generate_all (C10's single_run), its
   configuration/templates/line processors are those the class stands for, and every target path of c is the file of a type
   key that the run processes and can resolve. *)
From Coq Require Import NArith List Bool.
From Verif Require Import GenState GenStateThm GenStateSites Gen_Sites GenStateThmSites GenStateThmSubset.
From Verif Require Lookup LookupThm LookupInst LookupInstThm.
From Verif Require C10.
From Verif Require Import RegenBase Gen_Regen Regen RegenThm RegenTargets RegenC10.
Import ListNotations.

Section Inst.
  Variable U : universe.
  Variable render10 : ambient -> list (list N) -> N -> option (list N) -> tyobj -> prog.     (* C10's template engine *)
  Hypothesis render10_pure : C10.render_pure render10.                                        (* C10's named premise *)
  Variable cfun : ckey -> list N.
  Variable m_of : N -> option nat.                          (* C12's ambient -> the cache size of the process *)
  Variable hist_of : N -> N -> list op.                     (* ambient, class -> the process history of that run *)
  Variable cls_of : N -> N * tlist * list LinePPInst.pp.
  Variable key_of : RegenBase.path -> tkey.
  Variable cid_of : Str.str -> N.
  Variable c : cfg.

  Definition log_real (a cl : N) : list entry :=
    log U LookupInst.p_bases LookupInst.p_name LookupInst.p_fuel g_sites g_stores reset_facts g_wide_reads render10 cfun (m_of a)
        generate_code_resets_uniq (negb generate_code_resets_line_pps) (hist_of a cl).

  Hypothesis ids_agree_with_c10_keys : forall a p, In p (targets c) ->
    exists cf ts pps ins ord args o,
      hist_of a (c_class c) = single_run cf ts pps ins ord args /\
      In (key_of p) ord /\ resolve_in U ins (key_of p) = Some o /\
      cls_of (c_class c) = (ecfg cf args, ts, map pp_fresh pps).

  Theorem render_independent_on_targets_from_c10 :
    render_independent_on_targets (render_c10 log_real cls_of key_of cid_of) c.
  Proof.
    apply render_c10_independent_on.
    - intros a1 a2 cl e1 e2. unfold log_real. apply (C10.C10_file_indep_real U render10 render10_pure cfun).
    - intros a cl p [-> Hp].
      destruct (ids_agree_with_c10_keys a p Hp) as (cf & ts & pps & ins & ord & args & o & Hh & Hin & Hres & Hcls).
      destruct (single_run_entry U LookupInst.p_bases LookupInst.p_name LookupInst.p_fuel g_sites g_stores reset_facts g_wide_reads
                  render10 cfun (m_of a) generate_code_resets_uniq (negb generate_code_resets_line_pps)
                  cf ts pps ins ord args (key_of p) o Hin Hres) as (e0 & I & K & C & T & P).
      exists e0. unfold log_real. rewrite Hh. split; [exact I|]. unfold matches. rewrite Hcls, C, T, P. auto.
  Qed.
End Inst.
