(* C05: the `(float)` cast of a float32 / float16 constant.  The C / C++ value is RN32(RN64(q)) (the double evaluation, then the cast).
   WORST CASE, exhibited: the double rounding is not innocuous -- there are constants whose exported binary32 value is exactly ONE
   binary32 ulp away from RN32(q) (q just above a binary32 midpoint by less than half a binary64 ulp: RN64 lands on the midpoint, the
   cast then ties to even).  The upper bound "never more than one binary32 ulp" (RN32(RN64 q) is one of the two binary32 neighbours of
   q because binary32 values are binary64 values and rounding is monotone) is NOT proved in this development; the check verifies
   |c32 - rn32| <= 1 on every constant of every run and on sampled rationals.  A float16 constant is declared `float` in C and C++:
   its exported value is the same binary32 value, i.e. far closer to q than one binary16 ulp. *)
From Coq Require Import List NArith ZArith Bool Lia.
From Verif Require Import MetaC05Rne.
Import ListNotations.
Local Open Scope Z_scope.

Definition cast32_of_64 (a b : Z) : fval :=
  match fval_q (rne binary64 a b) with Some (n, d) => rne binary32 n d | None => rne binary64 a b end.

Definition fbits32 (x : fval) : Z :=
  match x with
  | FInf neg => (if neg then 2 ^ 31 else 0) + 255 * 2 ^ 23
  | FFin neg m q => (if neg then 2 ^ 31 else 0) + (if m <? 2 ^ 23 then m else (q + 23 + 126 + 1) * 2 ^ 23 + (m - 2 ^ 23))
  end.

(* q = (2^60 + 2^36 + 1) / 2^60 = 1 + 2^-24 + 2^-60: RN32(q) = 1 + 2^-23 (0x3f800001) but RN32(RN64(q)) = 1.0 (0x3f800000) *)
Theorem float32_double_rounding_worst_case : exists a b, 0 < b /\
  fbits32 (rne binary32 a b) = 1065353217 /\ fbits32 (cast32_of_64 a b) = 1065353216 /\ exact64 a = false.
Proof. exists (2 ^ 60 + 2 ^ 36 + 1), (2 ^ 60). vm_compute. repeat split; reflexivity. Qed.

(* ---- the significand-level core of the upper bound, PROVED: rounding to a finer grid first and then to the coarse grid never leaves
   the two coarse neighbours of the exact value.  t = N / D >= 0 in units of the binary32 ulp of its binade, g > 0 the refinement
   factor (2^29 between binary32 and binary64, any g here): | RHE(RHE(t * g) / g) - RHE(t) | <= 1 with RHE = div_half_even.
   What is NOT formalised is the plumbing that `rne binary32` / `rne binary64` / the cast of MetaC05Rne.v instantiate exactly this
   situation (same binade exponent for both formats, nested grids incl. binary32 subnormals, renormalisation at a power of two). ---- *)
Lemma dhe_range N D : 0 < D -> N / D <= div_half_even N D <= N / D + 1.
Proof.
  intro HD. unfold div_half_even. destruct (2 * (N mod D) ?= D); [destruct (Z.even (N / D))|..]; lia.
Qed.

Lemma dhe_lower N D K : 0 < D -> K * D <= N -> K <= div_half_even N D.
Proof.
  intros HD H. pose proof (dhe_range N D HD). assert (K <= N / D) by (apply Z.div_le_lower_bound; lia). lia.
Qed.

Lemma dhe_upper N D K : 0 < D -> N <= K * D -> div_half_even N D <= K.
Proof.
  intros HD H. unfold div_half_even.
  pose proof (Z.div_mod N D ltac:(lia)) as E. pose proof (Z.mod_pos_bound N D HD) as Hr.
  assert (Hq : N / D <= K).
  { destruct (Z_le_gt_dec (N / D) K); [assumption|]. exfalso. assert (D * (K + 1) <= D * (N / D)) by (apply Z.mul_le_mono_nonneg_l; lia). lia. }
  assert (Hstrict : 0 < N mod D -> N / D < K).
  { intro Hp. destruct (Z_lt_ge_dec (N / D) K); [assumption|]. exfalso. assert (N / D = K) by lia. nia. }
  destruct (2 * (N mod D) ?= D) eqn:C.
  - destruct (Z.even (N / D)); [lia|]. apply Z.compare_eq in C. assert (0 < N mod D) by lia. specialize (Hstrict H0). lia.
  - lia.
  - apply Z.compare_gt_iff in C. assert (0 < N mod D) by lia. specialize (Hstrict H0). lia.
Qed.

Theorem double_rounding_within_one : forall N D g, 0 <= N -> 0 < D -> 0 < g ->
  -1 <= div_half_even (div_half_even (N * g) D) g - div_half_even N D <= 1.
Proof.
  intros N D g HN HD Hg. set (k := N / D).
  pose proof (Z.div_mod N D ltac:(lia)) as E. pose proof (Z.mod_pos_bound N D HD) as Hr. fold k in E.
  pose proof (dhe_range N D HD) as Hy. fold k in Hy.
  assert (Hlo : k * g <= div_half_even (N * g) D) by (apply dhe_lower; [assumption|nia]).
  assert (Hhi : div_half_even (N * g) D <= (k + 1) * g) by (apply dhe_upper; [assumption|nia]).
  assert (Hz1 : k <= div_half_even (div_half_even (N * g) D) g) by (apply dhe_lower; [assumption|lia]).
  assert (Hz2 : div_half_even (div_half_even (N * g) D) g <= k + 1) by (apply dhe_upper; [assumption|lia]).
  lia.
Qed.

(* ================================================================================================================================
   Towards c05_float32_one_ulp: the internals of `rne` named, and the double-rounding bound instantiated on them.
   For 0 < a, 0 < b:  rne_e a b = the binade exponent the model selects (format independent), rne_q f a b = the exponent of the unit
   in the last place (subnormals included: max e emin), rne_m f a b = the significand before renormalisation. *)
Definition rne_e (a b : Z) : Z :=
  let e0 := Z.log2 a - Z.log2 b in
  if a * 2 ^ (Z.max (- e0) 0) <? b * 2 ^ (Z.max e0 0) then e0 - 1 else e0.
Definition rne_q (f : fmt) (a b : Z) : Z := Z.max (rne_e a b) (f_emin f) - (f_prec f - 1).
Definition rne_m (f : fmt) (a b : Z) : Z :=
  div_half_even (a * 2 ^ (Z.max (- rne_q f a b) 0)) (b * 2 ^ (Z.max (rne_q f a b) 0)).

(* rne is exactly these parts, then renormalisation at 2^prec and the overflow test *)
Lemma rne_parts f a b : 0 < a ->
  rne f a b =
  let '(m, q) := if rne_m f a b =? 2 ^ f_prec f then (2 ^ (f_prec f - 1), rne_q f a b + 1) else (rne_m f a b, rne_q f a b) in
  if f_emax f <? q + f_prec f - 1 then FInf false else FFin false m q.
Proof.
  intro Ha. unfold rne, rne_m, rne_q, rne_e. destruct (Z.ltb_spec a 0); [lia|]. rewrite (Z.abs_eq a) by lia.
  destruct (Z.eqb_spec a 0); [lia|]. reflexivity.
Qed.

(* div_half_even depends on the ratio only *)
Lemma dhe_scale N D k : 0 < D -> 0 < k -> div_half_even (N * k) (D * k) = div_half_even N D.
Proof.
  intros HD Hk. unfold div_half_even. rewrite Z.div_mul_cancel_r by lia. rewrite Z.mul_mod_distr_r by lia.
  replace (2 * (N mod D * k)) with (2 * (N mod D) * k) by ring.
  rewrite <- (Zmult_compare_compat_r (2 * (N mod D)) D k) by lia. reflexivity.
Qed.

Lemma dhe_ratio N1 D1 N2 D2 : 0 < D1 -> 0 < D2 -> N1 * D2 = N2 * D1 -> div_half_even N1 D1 = div_half_even N2 D2.
Proof.
  intros H1 H2 E. rewrite <- (dhe_scale N1 D1 D2 H1 H2). rewrite <- (dhe_scale N2 D2 D1 H2 H1). rewrite E. f_equal. ring.
Qed.

(* the grids are nested: the binary64 unit in the last place is never coarser than the binary32 one, subnormals of either format included *)
Lemma grids_nested a b : rne_q binary64 a b <= rne_q binary32 a b.
Proof. unfold rne_q. cbn [f_emin f_prec binary64 binary32]. lia. Qed.

(* THE BOUND on the model's own quantities, for every positive rational, no side condition: re-rounding the binary64 significand of
   a/b onto the binary32 grid of the same binade gives a significand within ONE unit of the directly rounded binary32 significand *)
Theorem float32_significand_within_one : forall a b, 0 < a -> 0 < b ->
  -1 <= div_half_even (rne_m binary64 a b) (2 ^ (rne_q binary32 a b - rne_q binary64 a b)) - rne_m binary32 a b <= 1.
Proof.
  intros a b Ha Hb. pose proof (grids_nested a b) as Hn.
  set (q3 := rne_q binary32 a b) in *. set (q6 := rne_q binary64 a b) in *.
  set (g := 2 ^ (q3 - q6)). assert (Hg : 0 < g) by (apply Z.pow_pos_nonneg; lia).
  set (N := a * 2 ^ (Z.max (- q3) 0)). set (D := b * 2 ^ (Z.max q3 0)).
  assert (HD : 0 < D) by (apply Z.mul_pos_pos; [lia|apply Z.pow_pos_nonneg; lia]).
  assert (HN : 0 <= N) by (apply Z.mul_nonneg_nonneg; [lia|apply Z.pow_nonneg; lia]).
  assert (E64 : rne_m binary64 a b = div_half_even (N * g) D).
  { unfold rne_m. fold q6. apply dhe_ratio.
    - apply Z.mul_pos_pos; [lia|apply Z.pow_pos_nonneg; lia].
    - exact HD.
    - unfold N, D, g.
      transitivity (a * b * (2 ^ (Z.max (- q6) 0) * 2 ^ (Z.max q3 0))); [ring|].
      transitivity (a * b * (2 ^ (Z.max (- q3) 0) * 2 ^ (q3 - q6) * 2 ^ (Z.max q6 0))); [|ring].
      f_equal. rewrite <- !Z.pow_add_r by lia. f_equal. lia. }
  assert (E32 : rne_m binary32 a b = div_half_even N D) by reflexivity.
  rewrite E64, E32. apply double_rounding_within_one; assumption.
Qed.

(* the exact rational that the cast re-rounds: fval_q returns the value m * 2^q of a finite result (common powers of two cancelled) *)
Lemma strip2_val : forall k p p' k', strip2 p k = (p', k') ->
  (k' <= k)%nat /\ Z.pos p * 2 ^ Z.of_nat k' = Z.pos p' * 2 ^ Z.of_nat k.
Proof.
  induction k as [|k IH]; intros p p' k' H.
  - destruct p; cbn [strip2] in H; injection H as <- <-; split; try lia; reflexivity.
  - destruct p as [p0|p0|]; cbn [strip2] in H; try (injection H as <- <-; split; [lia|reflexivity]).
    destruct (IH p0 p' k' H) as [Hle E]. split; [lia|].
    rewrite Pos2Z.inj_xO. rewrite Nat2Z.inj_succ, Z.pow_succ_r by lia.
    transitivity (2 * (Z.pos p0 * 2 ^ Z.of_nat k')); [ring|]. rewrite E. ring.
Qed.

Lemma fval_q_val m q : 0 < m -> exists n d, fval_q (FFin false m q) = Some (n, d) /\ 0 < n /\ 0 < d /\
  n * 2 ^ (Z.max (- q) 0) = m * 2 ^ (Z.max q 0) * d.
Proof.
  intro Hm. unfold fval_q. destruct (Z.leb_spec 0 q).
  - exists (m * 2 ^ q), 1. split; [reflexivity|]. assert (0 < 2 ^ q) by (apply Z.pow_pos_nonneg; lia).
    split; [nia|]. split; [lia|]. rewrite (Z.max_r (- q) 0), (Z.max_l q 0) by lia. ring.
  - destruct m as [|p|p]; try lia. destruct (strip2 p (Z.to_nat (- q))) as [p' k'] eqn:E.
    destruct (strip2_val _ _ _ _ E) as [Hle Hv]. exists (Z.pos p'), (2 ^ Z.of_nat k'). split; [reflexivity|].
    split; [lia|]. split; [apply Z.pow_pos_nonneg; lia|].
    rewrite (Z.max_l (- q) 0), (Z.max_r q 0) by lia. rewrite Z2Nat.id in Hv by lia. change (2 ^ 0) with 1. rewrite <- Hv. ring.
Qed.

(* value of the (possibly renormalised) binary64 result in terms of the unrenormalised significand *)
Lemma renorm_value n d m6 q6 mx qx : 0 < d ->
  (mx, qx) = (if m6 =? 2 ^ 53 then (2 ^ 52, q6 + 1) else (m6, q6)) ->
  n * 2 ^ (Z.max (- qx) 0) = mx * 2 ^ (Z.max qx 0) * d ->
  n * 2 ^ (Z.max (- q6) 0) = m6 * 2 ^ (Z.max q6 0) * d.
Proof.
  intros Hd E H. destruct (Z.eqb_spec m6 (2 ^ 53)) as [E6|_]; injection E as -> ->; [|exact H]. rewrite E6.
  change (Z.pow_pos 2 52) with (2 ^ 52) in H. assert (P : 2 ^ 53 = 2 ^ 52 * 2) by reflexivity. rewrite P. change (2 ^ 1) with 2 in *.
  destruct (Z_le_gt_dec 0 q6).
  - rewrite (Z.max_r (- (q6 + 1)) 0), (Z.max_l (q6 + 1) 0) in H by lia. rewrite (Z.max_r (- q6) 0), (Z.max_l q6 0) by lia.
    rewrite H. rewrite Z.pow_add_r by lia. change (2 ^ 1) with 2. ring.
  - rewrite (Z.max_l (- (q6 + 1)) 0), (Z.max_r (q6 + 1) 0) in H by lia. rewrite (Z.max_l (- q6) 0), (Z.max_r q6 0) by lia.
    replace (- q6) with (- (q6 + 1) + 1) by lia. rewrite Z.pow_add_r by lia. change (2 ^ 1) with 2. change (2 ^ 0) with 1 in *.
    transitivity (n * 2 ^ (- (q6 + 1)) * 2); [ring|]. rewrite H. ring.
Qed.

Lemma regrid n d m6 q6 q3 : q6 <= q3 ->
  n * 2 ^ (Z.max (- q6) 0) = m6 * 2 ^ (Z.max q6 0) * d ->
  n * 2 ^ (Z.max (- q3) 0) * 2 ^ (q3 - q6) = m6 * (d * 2 ^ (Z.max q3 0)).
Proof.
  intros Hq H. destruct (Z_le_gt_dec 0 q6); [|destruct (Z_le_gt_dec q3 0)].
  - rewrite (Z.max_r (- q6) 0), (Z.max_l q6 0) in H by lia. rewrite (Z.max_r (- q3) 0), (Z.max_l q3 0) by lia.
    change (2 ^ 0) with 1 in *. rewrite Z.mul_1_r in *. rewrite H.
    replace q3 with (q6 + (q3 - q6)) at 2 by lia. rewrite (Z.pow_add_r 2 q6 (q3 - q6)) by lia. ring.
  - rewrite (Z.max_l (- q6) 0), (Z.max_r q6 0) in H by lia. rewrite (Z.max_l (- q3) 0), (Z.max_r q3 0) by lia.
    change (2 ^ 0) with 1 in *. rewrite <- Z.mul_assoc, <- Z.pow_add_r by lia. replace (- q3 + (q3 - q6)) with (- q6) by lia. rewrite H. ring.
  - rewrite (Z.max_l (- q6) 0), (Z.max_r q6 0) in H by lia. rewrite (Z.max_r (- q3) 0), (Z.max_l q3 0) by lia.
    change (2 ^ 0) with 1 in *. replace (q3 - q6) with (q3 + - q6) by lia. rewrite Z.pow_add_r by lia.
    transitivity (n * 2 ^ (- q6) * 2 ^ q3); [ring|]. rewrite H. ring.
Qed.

(* THE CAST: the exported float32 constant is rne binary32 applied to the exact value (n, d) of the finite, non-zero binary64 result.
   Named side conditions: the binary64 rounding does not overflow and is not zero (H64, Hmx), and SAME BINADE -- the second rounding
   selects the same unit in the last place as the direct one (S2; it fails only when the binary64 result lands exactly on the next
   power of two, where both roundings give that power of two).  Then both binary32 results are produced by the same renormalisation /
   overflow wrapper (rne_parts) from significands on the SAME grid that differ by at most one: the two constants are equal or adjacent
   binary32 values. *)
Theorem float32_cast_significand_within_one : forall a b mx qx n d, 0 < a -> 0 < b ->
  rne binary64 a b = FFin false mx qx -> 0 < mx -> fval_q (FFin false mx qx) = Some (n, d) ->
  rne_q binary32 n d = rne_q binary32 a b ->
  0 < n /\ 0 < d /\ -1 <= rne_m binary32 n d - rne_m binary32 a b <= 1.
Proof.
  intros a b mx qx n d Ha Hb H64 Hmx Hq S2.
  destruct (fval_q_val mx qx Hmx) as [n0 [d0 [E0 [Hn [Hd Hv]]]]]. rewrite Hq in E0. injection E0 as <- <-.
  split; [exact Hn|]. split; [exact Hd|].
  rewrite (rne_parts binary64 a b Ha) in H64. cbn [f_prec f_emax binary64] in H64.
  set (m6 := rne_m binary64 a b) in *. set (q6 := rne_q binary64 a b) in *.
  assert (Epair : (mx, qx) = (if m6 =? 2 ^ 53 then (2 ^ (53 - 1), q6 + 1) else (m6, q6))).
  { destruct (if m6 =? 2 ^ 53 then (2 ^ (53 - 1), q6 + 1) else (m6, q6)) as [m' q'].
    destruct (1023 <? q' + 53 - 1); [discriminate|]. injection H64 as <- <-. reflexivity. }
  change (2 ^ (53 - 1)) with (2 ^ 52) in Epair.
  pose proof (renorm_value n d m6 q6 mx qx Hd Epair Hv) as Hv6.
  pose proof (grids_nested a b) as Hnest. fold q6 in Hnest.
  assert (Em : rne_m binary32 n d = div_half_even m6 (2 ^ (rne_q binary32 a b - q6))).
  { unfold rne_m at 1. rewrite S2. apply dhe_ratio.
    - apply Z.mul_pos_pos; [lia|apply Z.pow_pos_nonneg; lia].
    - apply Z.pow_pos_nonneg; lia.
    - apply regrid; assumption. }
  rewrite Em. apply float32_significand_within_one; assumption.
Qed.

(* the common wrapper of rne binary32 on the grid q3: renormalisation at 2^24 and the overflow test *)
Definition wrap32 (q3 m : Z) : fval :=
  let '(m, q) := if m =? 2 ^ 24 then (2 ^ 23, q3 + 1) else (m, q3) in
  if 127 <? q + 24 - 1 then FInf false else FFin false m q.

(* the exported float32 constant `(float) <correctly rounded double>` and the correctly rounded binary32 value are the images under the
   SAME wrapper of two significands on the SAME grid that differ by at most one: equal or adjacent binary32 values, i.e. within one
   binary32 ulp -- for every positive rational, binary32 and binary64 subnormals included, under the named side conditions
   (binary64 result finite and non-zero; same binade for the second rounding) *)
Theorem float32_cast_within_one_ulp : forall a b mx qx n d, 0 < a -> 0 < b ->
  rne binary64 a b = FFin false mx qx -> 0 < mx -> fval_q (FFin false mx qx) = Some (n, d) ->
  rne_q binary32 n d = rne_q binary32 a b ->
  cast32_of_64 a b = wrap32 (rne_q binary32 a b) (rne_m binary32 n d) /\
  rne binary32 a b = wrap32 (rne_q binary32 a b) (rne_m binary32 a b) /\
  -1 <= rne_m binary32 n d - rne_m binary32 a b <= 1.
Proof.
  intros a b mx qx n d Ha Hb H64 Hmx Hq S2.
  destruct (float32_cast_significand_within_one a b mx qx n d Ha Hb H64 Hmx Hq S2) as [Hn [Hd Hbound]].
  split; [|split; [|exact Hbound]].
  - unfold cast32_of_64. rewrite H64, Hq. rewrite (rne_parts binary32 n d Hn). rewrite S2. reflexivity.
  - rewrite (rne_parts binary32 a b Ha). reflexivity.
Qed.
