(* C05: the `(float)` cast of a float32 / float16 constant.  The C / C++ value is RN32(RN64(q)) (the double evaluation, then the cast).
   WORST CASE, exhibited: the double rounding is not innocuous -- there are constants whose exported binary32 value is exactly ONE
   binary32 ulp away from RN32(q) (q just above a binary32 midpoint by less than half a binary64 ulp: RN64 lands on the midpoint, the
   cast then ties to even).  The upper bound "never more than one binary32 ulp" (RN32(RN64 q) is one of the two binary32 neighbours of
   q because binary32 values are binary64 values and rounding is monotone) is NOT proved in this development; the check verifies
   |c32 - rn32| <= 1 on every constant of every run and on sampled rationals.  A float16 constant is declared `float` in C and C++:
   its exported value is the same binary32 value, i.e. far closer to q than one binary16 ulp. *)
From Coq Require Import List NArith ZArith Bool Lia.
From Verif Require Import MetaC05Rne.
Import ListNotations.
Local Open Scope Z_scope.

Definition cast32_of_64 (a b : Z) : fval :=
  match fval_q (rne binary64 a b) with Some (n, d) => rne binary32 n d | None => rne binary64 a b end.

Definition fbits32 (x : fval) : Z :=
  match x with
  | FInf neg => (if neg then 2 ^ 31 else 0) + 255 * 2 ^ 23
  | FFin neg m q => (if neg then 2 ^ 31 else 0) + (if m <? 2 ^ 23 then m else (q + 23 + 126 + 1) * 2 ^ 23 + (m - 2 ^ 23))
  end.

(* q = (2^60 + 2^36 + 1) / 2^60 = 1 + 2^-24 + 2^-60: RN32(q) = 1 + 2^-23 (0x3f800001) but RN32(RN64(q)) = 1.0 (0x3f800000) *)
Theorem float32_double_rounding_worst_case : exists a b, 0 < b /\
  fbits32 (rne binary32 a b) = 1065353217 /\ fbits32 (cast32_of_64 a b) = 1065353216 /\ exact64 a = false.
Proof. exists (2 ^ 60 + 2 ^ 36 + 1), (2 ^ 60). vm_compute. repeat split; reflexivity. Qed.

(* ---- the significand-level core of the upper bound, PROVED: rounding to a finer grid first and then to the coarse grid never leaves
   the two coarse neighbours of the exact value.  t = N / D >= 0 in units of the binary32 ulp of its binade, g > 0 the refinement
   factor (2^29 between binary32 and binary64, any g here): | RHE(RHE(t * g) / g) - RHE(t) | <= 1 with RHE = div_half_even.
   What is NOT formalised is the plumbing that `rne binary32` / `rne binary64` / the cast of MetaC05Rne.v instantiate exactly this
   situation (same binade exponent for both formats, nested grids incl. binary32 subnormals, renormalisation at a power of two). ---- *)
Lemma dhe_range N D : 0 < D -> N / D <= div_half_even N D <= N / D + 1.
Proof.
  intro HD. unfold div_half_even. destruct (2 * (N mod D) ?= D); [destruct (Z.even (N / D))|..]; lia.
Qed.

Lemma dhe_lower N D K : 0 < D -> K * D <= N -> K <= div_half_even N D.
Proof.
  intros HD H. pose proof (dhe_range N D HD). assert (K <= N / D) by (apply Z.div_le_lower_bound; lia). lia.
Qed.

Lemma dhe_upper N D K : 0 < D -> N <= K * D -> div_half_even N D <= K.
Proof.
  intros HD H. unfold div_half_even.
  pose proof (Z.div_mod N D ltac:(lia)) as E. pose proof (Z.mod_pos_bound N D HD) as Hr.
  assert (Hq : N / D <= K).
  { destruct (Z_le_gt_dec (N / D) K); [assumption|]. exfalso. assert (D * (K + 1) <= D * (N / D)) by (apply Z.mul_le_mono_nonneg_l; lia). lia. }
  assert (Hstrict : 0 < N mod D -> N / D < K).
  { intro Hp. destruct (Z_lt_ge_dec (N / D) K); [assumption|]. exfalso. assert (N / D = K) by lia. nia. }
  destruct (2 * (N mod D) ?= D) eqn:C.
  - destruct (Z.even (N / D)); [lia|]. apply Z.compare_eq in C. assert (0 < N mod D) by lia. specialize (Hstrict H0). lia.
  - lia.
  - apply Z.compare_gt_iff in C. assert (0 < N mod D) by lia. specialize (Hstrict H0). lia.
Qed.

Theorem double_rounding_within_one : forall N D g, 0 <= N -> 0 < D -> 0 < g ->
  -1 <= div_half_even (div_half_even (N * g) D) g - div_half_even N D <= 1.
Proof.
  intros N D g HN HD Hg. set (k := N / D).
  pose proof (Z.div_mod N D ltac:(lia)) as E. pose proof (Z.mod_pos_bound N D HD) as Hr. fold k in E.
  pose proof (dhe_range N D HD) as Hy. fold k in Hy.
  assert (Hlo : k * g <= div_half_even (N * g) D) by (apply dhe_lower; [assumption|nia]).
  assert (Hhi : div_half_even (N * g) D <= (k + 1) * g) by (apply dhe_upper; [assumption|nia]).
  assert (Hz1 : k <= div_half_even (div_half_even (N * g) D) g) by (apply dhe_lower; [assumption|lia]).
  assert (Hz2 : div_half_even (div_half_even (N * g) D) g <= k + 1) by (apply dhe_upper; [assumption|lia]).
  lia.
Qed.
