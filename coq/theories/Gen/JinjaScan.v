(* C19 -- executable model of Nunavut's three modifications of the bundled Jinja2:
   (1) the ROOT-state delimiter rule of the lexer (default delimiters, lstrip_blocks/trim_blocks off), bundled and stock;
   (2) the `lineprefix` filter (translated: Generated/Gen_JinjaScan.v do_lineprefix) and the parser's auto-indent wrapping;
   (3) the If-shaped ASTs built by the `assert` and `ifuses`/`ifnuses` extensions.
   No proofs here (JinjaScanThm.v), so the model still extracts when a proof breaks. *)
From Verif Require Export Regex JinjaScanBase Gen_Uni Gen_JinjaScan.
Open Scope N_scope.

(* ------------------------------------------------------------------------------------------ *)
(* (1) root-state scanner                                                                      *)
(* ------------------------------------------------------------------------------------------ *)

Definition rules := list (str * re).     (* (group name, body) in the order of the alternation *)
Definition tok := (str * str)%type.      (* (token kind, token value) as yielded by Lexer.tokeniter *)

Section Scan.
  Variable u : uni.

  (* (?:(?P<n1>B1)|(?P<n2>B2)|...) at the current position: first alternative that matches, in priority order *)
  Fixpoint first_alt (rs : rules) (s : str) : option (str * str) :=
    match rs with
    | [] => None
    | nr :: rs' =>
        match re_match u (snd nr) s with
        | Some rest => Some (fst nr, rest)
        | None => first_alt rs' s
        end
    end.

  (* (.*?)(?:...) with re.S: the shortest prefix after which an alternative matches.
     Result: (group 1 = data, name of the named group, its value, remaining source). *)
  Fixpoint root_search (rs : rules) (data_rev : str) (s : str) : option (str * str * str * str) :=
    match first_alt rs s with
    | Some (n, rest) => Some (rev data_rev, n, firstn (length s - length rest) s, rest)
    | None =>
        match s with
        | [] => None
        | c :: s' => root_search rs (c :: data_rev) s'
        end
    end.

  Definition k_data : str := [100; 97; 116; 97].
  Definition data_tok (d : str) : list tok := match d with [] => [] | _ => [(k_data, d)] end.   (* ignore_if_empty *)

  (* Lexer.tokeniter restricted to what the root state decides.  `inner name rest` stands for the lexing of the state
     pushed by the '#bygroup' transition (block, variable, comment, raw): it returns the tokens yielded there and the
     number of characters consumed until the state is popped, or None when the lexer raises.  It is a parameter:
     Nunavut did not modify those states, and the theorems hold for every `inner`. *)
  Fixpoint scan (rs : rules) (inner : str -> str -> option (list tok * nat)) (fuel : nat) (s : str) : option (list tok) :=
    match fuel with
    | O => None
    | S f =>
        match root_search rs [] s with
        | None => Some (data_tok s)                          (* second root rule: c('.+') -> data *)
        | Some (d, n, v, rest) =>
            match inner n rest with
            | None => None
            | Some (toks, k) =>
                match scan rs inner f (skipn k rest) with
                | None => None
                | Some r => Some (data_tok d ++ (n, v) :: toks ++ r)
                end
            end
        end
    end.

  Definition scan_all (rs : rules) inner (s : str) : option (list tok) := scan rs inner (S (length s)) s.

  (* comment / raw states: one lazy rule  (.*?)((?:END))  -> (data kind, end kind), '#pop'; a second rule (.) -> Failure *)
  Definition inner_lazy (kdata kend : str) (r : re) (s : str) : option (list tok * nat) :=
    match s with
    | [] => Some ([], O)                                      (* end of source inside the state: tokeniter just returns *)
    | _ =>
        match root_search [(kend, r)] [] s with
        | None => None                                        (* Failure('Missing end of ...') *)
        | Some (d, n, v, rest) =>
            Some ((match d with [] => [] | _ => [(kdata, d)] end) ++ [(n, v)], (length s - length rest)%nat)
        end
    end.
End Scan.

(* hand-named parts of the regular expressions; JinjaScanThm.rules_shape proves (by reflexivity, on every run) that the
   rules regenerated from lexer.py are exactly these *)
Definition cls_lit (c : N) : cls := {| c_neg := false; c_ranges := [(c, c)]; c_space := false; c_digit := false; c_word := false |}.
Definition lit (c : N) : re := Cls (cls_lit c).
Definition cls_ws : cls := {| c_neg := false; c_ranges := []; c_space := true; c_digit := false; c_word := false |}.
Definition cls_blank : cls := {| c_neg := false; c_ranges := [(32, 32); (9, 9)]; c_space := false; c_digit := false; c_word := false |}.
Definition lit3 (a b c : N) : re := Seq (lit a) (Seq (lit b) (lit c)).

Definition LBRACE : N := 123.
Definition MINUS : N := 45.
Definition STAR : N := 42.
Definition PERCENT : N := 37.
Definition HASH : N := 35.

(*  \s*{X\-  |  [ \t]*{X\*  |  {X   *)
Definition alt_minus (x : N) : re := Seq (Star (Cls cls_ws)) (lit3 LBRACE x MINUS).
Definition alt_marker (x : N) : re := Seq (Star (Cls cls_blank)) (lit3 LBRACE x STAR).
Definition alt_plain (x : N) : re := Seq (lit LBRACE) (lit x).
Definition begin_bundled (x : N) : re := Alt (alt_minus x) (Alt (alt_marker x) (alt_plain x)).
(* the stock rule (Jinja2 2.10/2.11 upstream):  \s*{X\-  |  {X  *)
Definition begin_stock (x : N) : re := Alt (alt_minus x) (alt_plain x).

(* \s*raw\s*(?:\-%\}\s*|%\}) -- not modified by Nunavut; taken verbatim from the regenerated rule *)
Definition raw_tail : re :=
  match bundled_root_rules with
  | (_, Seq _ t) :: _ => t
  | _ => Eps
  end.

Definition n_raw : str := [114; 97; 119; 95; 98; 101; 103; 105; 110].
Definition n_variable : str := [118; 97; 114; 105; 97; 98; 108; 101; 95; 98; 101; 103; 105; 110].
Definition n_comment : str := [99; 111; 109; 109; 101; 110; 116; 95; 98; 101; 103; 105; 110].
Definition n_block : str := [98; 108; 111; 99; 107; 95; 98; 101; 103; 105; 110].

Definition mk_rules3 (bv bc bb : N -> re) : rules :=
  [ (n_raw, Seq (bb PERCENT) raw_tail); (n_variable, bv LBRACE); (n_comment, bc HASH); (n_block, bb PERCENT) ].

(* q = "the COMMENT rule carries the marker alternative as well" (what the pinned tree does: finding F-JINJA-COMMENT-STAR);
   JinjaScanThm.rules_shape establishes, on every run, which of the two the regenerated rules are *)
Definition model_bundled_rules_q (q : bool) : rules :=
  mk_rules3 begin_bundled (if q then begin_bundled else begin_stock) begin_bundled.
Definition model_bundled_rules : rules := model_bundled_rules_q true.
(* the stock scanner: the bundled rule with the marker alternative deleted *)
Definition stock_root_rules : rules := mk_rules3 begin_stock begin_stock begin_stock.

Definition scan_bundled := scan_all py_uni bundled_root_rules.
Definition scan_stock := scan_all py_uni stock_root_rules.

(* the unmodified comment and raw states (their rules are regenerated too); block/variable states are left to `block_var` *)
Definition k_comment : str := [99; 111; 109; 109; 101; 110; 116].
Definition k_comment_end : str := [99; 111; 109; 109; 101; 110; 116; 95; 101; 110; 100].
Definition k_raw_end : str := [114; 97; 119; 95; 101; 110; 100].
Definition inner_with_re (ce re_ : re) (block_var : str -> str -> option (list tok * nat)) (n rest : str) : option (list tok * nat) :=
  if str_eqb n n_comment then inner_lazy py_uni k_comment k_comment_end ce rest
  else if str_eqb n n_raw then inner_lazy py_uni k_data k_raw_end re_ rest
  else block_var n rest.
Definition inner_with := inner_with_re bundled_comment_end bundled_raw_end.
(* trim_blocks=True: the root rule is unchanged, the end rules of the comment / raw / block states get \n? *)
Definition inner_with_trim := inner_with_re bundled_comment_end_trim bundled_raw_end_trim.

(* occurrences of a marker opener  {%*  {{*  {#*  *)
Definition is_delim_char (x : N) : bool := (x =? PERCENT) || (x =? LBRACE) || (x =? HASH).
Definition marker_at (s : str) : bool :=
  match s with
  | a :: x :: b :: _ => (a =? LBRACE) && is_delim_char x && (b =? STAR)
  | _ => false
  end.
Fixpoint has_marker (s : str) : bool :=
  marker_at s || match s with [] => false | _ :: s' => has_marker s' end.

(* only the two openers the documentation calls auto-indent markers: {%* and {{* *)
Definition marker_at_documented (s : str) : bool :=
  match s with
  | a :: x :: b :: _ => (a =? LBRACE) && ((x =? PERCENT) || (x =? LBRACE)) && (b =? STAR)
  | _ => false
  end.
Fixpoint has_marker_documented (s : str) : bool :=
  marker_at_documented s || match s with [] => false | _ :: s' => has_marker_documented s' end.

Definition is_blank (c : N) : bool := (c =? 32) || (c =? 9).
Definition ends_with (p : N -> bool) (s : str) : bool := match rev s with c :: _ => p c | [] => false end.

(* stock Jinja2 3.1 root step: the sign is part of the begin token, `-` strips the data in code (text.rstrip()) *)
Definition py_ws (c : N) : bool := in_ranges (u_space py_uni) c.
Definition root_step31 (s : str) : option (str * str * str * str) :=
  match root_search py_uni stock31_root_rules [] s with
  | None => None
  | Some (d, n, v, rest) =>
      (* strip_sign: the sign right after the two-character opener (raw_begin: same position) *)
      let sign := nth 2 v 0 in
      Some (if sign =? MINUS then rstrip py_ws d else d, n, v, rest)
  end.

(* ------------------------------------------------------------------------------------------ *)
(* (2) auto-indent desugaring (Parser.subparse / autoindent)                                    *)
(* ------------------------------------------------------------------------------------------ *)

(* just enough of jinja2.nodes to state what the parser builds; `E` = already parsed expression / statement nodes *)
Inductive jnode (E : Type) :=
| NPlain (e : E)                                   (* the node parse_tuple / parse_statement returned, unchanged *)
| NFilter (arg : E) (name : str) (const_arg : str) (* nodes.Filter(rv, name, [Const(prefix)], [], None, None) *)
| NFilterBlock (body : list E) (name : str) (const_arg : str).  (* FilterBlock(body=rv, filter=Filter(None, name, [Const(prefix)])) *)
Arguments NPlain {E}. Arguments NFilter {E}. Arguments NFilterBlock {E}.

(* LEGACY marker code (parser.py before design_notes/C19_marker_delimiter_fix.patch): token.value.endswith('*'), token.value[:-3] *)
Definition token_is_marker (value : str) : bool :=
  match value with [] => false | _ => ends_with (fun c => c =? autoindent_marker_char) value end.
Definition autoindent_prefix (value : str) : str := firstn (length value - 3) value.

(* DELIMITER-AWARE marker code: marker_start(token, starts) = the longest non-empty start string s of the environment such that
   token.value.endswith(s + '*');  prefix = token.value[:-(len(s) + 1)] *)
Definition ends_with_str (suf s : str) : bool :=
  Nat.leb (length suf) (length s) && str_eqb (skipn (length s - length suf) s) suf.
Fixpoint insert_by_len (x : str) (l : list str) : list str :=
  match l with
  | [] => [x]
  | y :: r => if Nat.leb (length y) (length x) then x :: l else y :: insert_by_len x r
  end.
Definition sort_starts (l : list str) : list str := fold_right insert_by_len [] l.     (* sorted(.., key=len, reverse=True), stable *)
Definition marker_start_of (starts : list str) (value : str) : option str :=
  find (fun st => ends_with_str (st ++ [42]) value) (sort_starts (filter (fun st => match st with [] => false | _ => true end) starts)).

(* what the parser decides for a begin token: Some prefix = auto-indent with that prefix *)
Definition marker_m (aware : bool) (starts : list str) (value : str) : option str :=
  if aware then
    match marker_start_of starts value with
    | Some st => Some (firstn (length value - S (length st)) value)
    | None => None
    end
  else if token_is_marker value then Some (autoindent_prefix value) else None.
(* ... as the code in /repo does it now (the flag is regenerated from parser.py) *)
Definition code_marker : list str -> str -> option str := marker_m autoindent_delimiter_aware.

(* variable_begin branch of subparse *)
Definition subparse_variable {E} (mk : option str) (rv : E) : jnode E :=
  match mk with Some p => NFilter rv autoindent_filter_name p | None => NPlain rv end.
(* block_begin branch: rv is a node or a list of nodes (rv if isinstance(rv, list) else [rv]) *)
Definition subparse_block {E} (mk : option str) (rv : list E) : list (jnode E) :=
  match mk with Some p => [NFilterBlock rv autoindent_filter_name p] | None => map NPlain rv end.

(* rendering, given the rendering of the parsed nodes and the filter table *)
Definition render_node {E} (ev : E -> str) (filters : str -> option (str -> str -> str)) (n : jnode E) : option str :=
  match n with
  | NPlain e => Some (ev e)
  | NFilter e name a => match filters name with Some f => Some (f (ev e) a) | None => None end
  | NFilterBlock b name a => match filters name with Some f => Some (f (concat (map ev b)) a) | None => None end
  end.

Definition lineprefix_name : str := [108; 105; 110; 101; 112; 114; 101; 102; 105; 120].
Definition builtin_filters (name : str) : option (str -> str -> str) :=
  if str_eqb name lineprefix_name then Some do_lineprefix else None.

Fixpoint render_all {E} (ev : E -> str) (ns : list (jnode E)) : option str :=
  match ns with
  | [] => Some []
  | n :: r => match render_node ev builtin_filters n, render_all ev r with
              | Some a, Some b => Some (a ++ b)
              | _, _ => None
              end
  end.

(* split at LF only, keeping a last (possibly empty) piece: the inverse of "\n".join *)
Fixpoint split_lf (s : str) : list str :=
  match s with
  | [] => [[]]
  | c :: s' => if c =? 10 then [] :: split_lf s' else cons_first c (split_lf s')
  end.

Definition prefix_line (p l : str) : str := if py_truthy l then p ++ l else l.
(* the two shapes of filters.do_lineprefix the translator accepts; Generated.do_lineprefix is one of them (lineprefix_keepends) *)
Definition lineprefix_legacy (s p : str) : str := py_join [10] (map (prefix_line p) (py_splitlines s)).
Definition prefix_line_keep (p l : str) : str := if py_truthy (py_line_content l) then p ++ l else l.
Definition lineprefix_keep (s p : str) : str := py_join [] (map (prefix_line_keep p) (py_splitlines_keep s)).
Definition lineprefix_m (keep : bool) : str -> str -> str := if keep then lineprefix_keep else lineprefix_legacy.

(* ------------------------------------------------------------------------------------------ *)
(* (3) assert / ifuses                                                                          *)
(* ------------------------------------------------------------------------------------------ *)

(* outcome of rendering a statement: output text or a raised TemplateAssertionError *)
Inductive outcome := Out (s : str) | Raise.

(* JinjaAssert.parse: CallBlock(call _do_assert(expr, ...), [], [], "") -- the caller body is EMPTY;
   _do_assert: if not expression: raise ...; return caller() *)
Definition assert_callblock (expr_truthy : bool) (caller_body : str) : outcome :=
  if negb expr_truthy then Raise else Out caller_body.
Definition render_assert (expr_truthy : bool) : outcome := assert_callblock expr_truthy [].

(* ordinary If node *)
Inductive ifnode (B : Type) := IfN (test : bool) (body : B) (elifs : list (bool * B)) (else_ : B).
Arguments IfN {B}.

Fixpoint eval_elifs {B} (elifs : list (bool * B)) (else_ : B) : B :=
  match elifs with
  | [] => else_
  | (t, b) :: r => if t then b else eval_elifs r else_
  end.
Definition eval_if {B} (n : ifnode B) : B :=
  match n with IfN t b el e => if t then b else eval_elifs el e end.

(* UseQuery.parse: clauses as they appear in the source: (negated? , query result, body); the first is if[n]uses, the
   others elif[n]uses; test = _use_query(q) or _use_nquery(q) = not _use_query_common(q) *)
Definition use_test (c : bool * bool) : bool := if fst c then negb (snd c) else snd c.
Definition parse_ifuses {B} (first : bool * bool * B) (rest : list (bool * bool * B)) (else_ : B) : ifnode B :=
  IfN (use_test (fst first)) (snd first) (map (fun c => (use_test (fst c), snd c)) rest) else_.

(* ------------------------------------------------------------------------------------------ *)
(* (3b) use queries whose answers change between and DURING renders in one long-lived environment.                   *)
(* A test is a computation over a state S (the world the query reads): `ask s q` = (answer now, next world).         *)
(* UseQuery keeps no state of its own (Generated/Gen_JinjaPins.v ext_state_stores = []), so the If node it builds    *)
(* asks the query each time a clause test is evaluated, in clause order, stopping at the first true test.            *)
(* ------------------------------------------------------------------------------------------ *)
Inductive ifnodeT (S B : Type) := IfT (test : S -> bool * S) (body : B) (elifs : list ((S -> bool * S) * B)) (else_ : B).
Arguments IfT {S B}.

Fixpoint eval_elifsT {S B} (elifs : list ((S -> bool * S) * B)) (else_ : B) (s : S) : B * S :=
  match elifs with
  | [] => (else_, s)
  | (t, b) :: r => let (a, s') := t s in if a then (b, s') else eval_elifsT r else_ s'
  end.
Definition eval_ifT {S B} (n : ifnodeT S B) (s : S) : B * S :=
  match n with IfT t b el e => let (a, s') := t s in if a then (b, s') else eval_elifsT el e s' end.

(* clause = (negated?, query id, body);  _use_query(q) / _use_nquery(q) = not _use_query_common(q) *)
Definition use_testT {S} (ask : S -> N -> bool * S) (neg : bool) (q : N) (s : S) : bool * S :=
  let (a, s') := ask s q in (if neg then negb a else a, s').
Definition parse_ifusesT {S B} (ask : S -> N -> bool * S) (first : bool * N * B) (rest : list (bool * N * B)) (else_ : B) : ifnodeT S B :=
  IfT (use_testT ask (fst (fst first)) (snd (fst first))) (snd first)
      (map (fun c => (use_testT ask (fst (fst c)) (snd (fst c)), snd c)) rest) else_.

(* the ordinary conditional chain  {% if [not] q0() %}b0{% elif [not] q1() %}b1 ... {% else %}e{% endif %} *)
Fixpoint run_chain {S B} (ask : S -> N -> bool * S) (cl : list (bool * N * B)) (else_ : B) (s : S) : B * S :=
  match cl with
  | [] => (else_, s)
  | c :: r => let (a, s') := ask s (snd (fst c)) in
              if xorb (fst (fst c)) a then (snd c, s') else run_chain ask r else_ s'
  end.

(* a sequence of renders in ONE environment threads only the world, never anything remembered by the extension *)
Fixpoint render_seq {S B} (render : list (S -> B * S)) (s : S) : list B * S :=
  match render with
  | [] => ([], s)
  | r :: rs => let (b, s') := r s in let (bs, s'') := render_seq rs s' in (b :: bs, s'')
  end.

(* scripted world for the correspondence run: per query id the list of future answers (the last one repeats) *)
Fixpoint ask_script (s : list (N * list bool)) (q : N) : bool * list (N * list bool) :=
  match s with
  | [] => (false, [])
  | (k, l) :: r =>
      if k =? q then
        match l with
        | [] => (false, s)
        | [a] => (a, s)
        | a :: l' => (a, (k, l') :: r)
        end
      else let (a, r') := ask_script r q in (a, (k, l) :: r')
  end.
Definition render_ifuses_script (steps : list ((bool * N * N) * list (bool * N * N) * N)) (s : list (N * list bool)) : list N :=
  fst (render_seq (map (fun st => eval_ifT (parse_ifusesT ask_script (fst (fst st)) (snd (fst st)) (snd st))) steps) s).
