(* Gen/LookupEnvThm.v -- proofs about Gen/LookupEnv.v (C16): what user additions can and cannot replace.  No axioms. *)
From Verif Require Import Str LookupEnv.
Import ListNotations.
Open Scope N_scope.

Lemma str_eqb_sym a b : str_eqb a b = str_eqb b a.
Proof. destruct (str_eqb_spec a b) as [->|N1]; [symmetry; apply str_eqb_refl|]. destruct (str_eqb_spec b a) as [->|]; [contradiction N1; reflexivity | reflexivity]. Qed.

Lemma dget_dset d n o k : dget (dset d n o) k = if str_eqb n k then Some o else dget d k.
Proof.
  induction d as [|[k' v] d IH]; cbn [dset dget].
  - reflexivity.
  - destruct (str_eqb_spec k' n) as [->|Hn]; cbn [dget].
    + destruct (str_eqb n k); reflexivity.
    + rewrite IH. destruct (str_eqb_spec k' k) as [->|Hk]; [|reflexivity].
      destruct (str_eqb_spec n k) as [->|]; [contradiction Hn; reflexivity | reflexivity].
Qed.

(* ---- filters and tests: only _add_to_environment writes them ------------------------------------------- *)
Lemma add_preserves d n o d' : add_to_environment false d n o = Some d' ->
  dget d n = None /\ forall k v, dget d k = Some v -> dget d' k = Some v.
Proof.
  unfold add_to_environment. destruct (dget d n) eqn:G; [discriminate|]. intros H. inversion H; subst. split; [reflexivity|].
  intros k v Hk. rewrite dget_dset. destruct (str_eqb_spec n k) as [->|]; [rewrite G in Hk; discriminate Hk | exact Hk].
Qed.

Definition env_le (e e' : env) : Prop :=
  (forall k v, dget (e_filters e) k = Some v -> dget (e_filters e') k = Some v) /\
  (forall k v, dget (e_tests e) k = Some v -> dget (e_tests e') k = Some v) /\
  e_globals e' = e_globals e.

Lemma step_preserves e x e' : step false e x = Some e' -> env_le e e'.
Proof.
  destruct x as [n o|n o]; cbn [step].
  - destruct (add_to_environment false (e_filters e) n o) as [f|] eqn:A; [|discriminate]. intros H. inversion H; subst.
    repeat split; cbn; [apply (add_preserves _ _ _ _ A) | exact (fun k v h => h)].
  - destruct (add_to_environment false (e_tests e) n o) as [t|] eqn:A; [|discriminate]. intros H. inversion H; subst.
    repeat split; cbn; [exact (fun k v h => h) | apply (add_preserves _ _ _ _ A)].
Qed.

Lemma run_ops_preserves : forall ops e e', run_ops false e ops = Some e' -> env_le e e'.
Proof.
  induction ops as [|x ops IH]; intros e e' H; cbn [run_ops] in H.
  - inversion H; subst. repeat split; auto.
  - destruct (step false e x) as [e1|] eqn:S; [|discriminate].
    destruct (step_preserves e x e1 S) as [F1 [T1 G1]]. destruct (IH e1 e' H) as [F2 [T2 G2]].
    repeat split; [intros k v h; apply F2, F1, h | intros k v h; apply T2, T1, h | rewrite G2; exact G1].
Qed.

Lemma run_ops_app allow : forall a e b,
  run_ops allow e (a ++ b) = match run_ops allow e a with Some e' => run_ops allow e' b | None => None end.
Proof.
  induction a as [|x a IH]; intros e b; cbn [app run_ops]; [reflexivity|].
  destruct (step allow e x); [apply IH | reflexivity].
Qed.

Lemma conflicting_test_is_error ops1 ops2 e e1 n o : run_ops false e ops1 = Some e1 -> dget (e_tests e1) n <> None ->
  run_ops false e (ops1 ++ OpTest n o :: ops2) = None.
Proof.
  intros H1 Hn. rewrite run_ops_app, H1. cbn [run_ops step]. unfold add_to_environment.
  destruct (dget (e_tests e1) n); [reflexivity | contradiction Hn; reflexivity].
Qed.

Lemma conflicting_filter_is_error ops1 ops2 e e1 n o : run_ops false e ops1 = Some e1 -> dget (e_filters e1) n <> None ->
  run_ops false e (ops1 ++ OpFilter n o :: ops2) = None.
Proof.
  intros H1 Hn. rewrite run_ops_app, H1. cbn [run_ops step]. unfold add_to_environment.
  destruct (dget (e_filters e1) n); [reflexivity | contradiction Hn; reflexivity].
Qed.

(* ---- globals ------------------------------------------------------------------------------------------------- *)
Lemma set_all_get names o : forall g k, dget (set_all g names o) k = if str_in k names then Some o else dget g k.
Proof.
  unfold set_all. induction names as [|n names IH]; intros g k; cbn [fold_left]; [reflexivity|].
  rewrite IH, dget_dset. unfold str_in. cbn [existsb]. rewrite (str_eqb_sym k n).
  destruct (existsb (str_eqb k) names); [rewrite orb_true_r; reflexivity|]. rewrite orb_false_r. reflexivity.
Qed.

Lemma dget_builtin defaults k : dget (map (fun n => (n, OBuiltin)) defaults) k = if str_in k defaults then Some OBuiltin else None.
Proof.
  induction defaults as [|n l IH]; cbn [map dget]; [reflexivity|]. unfold str_in. cbn [existsb].
  rewrite (str_eqb_sym k n). destruct (str_eqb n k); [reflexivity|]. exact IH.
Qed.

Lemma user_reserved_rejected q reserved : forall user g n v, In (n, v) user -> str_in n reserved = true ->
  add_user_globals q reserved g user = None.
Proof.
  induction user as [|[m w] user IH]; intros g n v Hin Hr; [destruct Hin|]. cbn [add_user_globals].
  destruct (str_in m reserved) eqn:Em; [reflexivity|].
  destruct Hin as [E|Hin]; [inversion E; subst; rewrite Hr in Em; discriminate Em|].
  destruct (negb q && _); [reflexivity|]. apply (IH _ n v Hin Hr).
Qed.

Definition nonuser (o : owner) : bool := match o with OUser _ => false | _ => true end.

Lemma checked_gate_preserves reserved : forall user g g', add_user_globals false reserved g user = Some g' ->
  forall k o, dget g k = Some o -> nonuser o = true -> dget g' k = Some o.
Proof.
  induction user as [|[m w] user IH]; intros g g' H k o Hk Ho; cbn [add_user_globals] in H.
  - inversion H; subst. exact Hk.
  - destruct (str_in m reserved); [discriminate H|]. cbn [negb andb] in H.
    destruct (dget g m) as [om|] eqn:Gm.
    + destruct om; try discriminate H. apply (IH _ _ H k o); [|exact Ho]. rewrite dget_dset.
      destruct (str_eqb_spec m k) as [->|]; [rewrite Gm in Hk; inversion Hk; subst; discriminate Ho | exact Hk].
    + apply (IH _ _ H k o); [|exact Ho]. rewrite dget_dset.
      destruct (str_eqb_spec m k) as [->|]; [rewrite Gm in Hk; discriminate Hk | exact Hk].
Qed.

Lemma unchecked_gate_preserves_unnamed reserved : forall user g g', add_user_globals true reserved g user = Some g' ->
  forall k, str_in k (map fst user) = false -> dget g' k = dget g k.
Proof.
  induction user as [|[m w] user IH]; intros g g' H k Hk; cbn [add_user_globals] in H.
  - inversion H; subst. reflexivity.
  - destruct (str_in m reserved); [discriminate H|]. cbn [negb andb] in H.
    unfold str_in in Hk. cbn [map fst existsb] in Hk. apply orb_false_iff in Hk. destruct Hk as [Hm Hk].
    rewrite (IH _ _ H k Hk), dget_dset, (str_eqb_sym m k), Hm. reflexivity.
Qed.

Section Globals.
  Variables defaults reserved written lang : list str.

  Lemma reserved_globals_protected q user g n : init_globals q defaults reserved written lang user = Some g ->
    str_in n written = true -> dget g n = Some (if str_in n lang then OLang else OReserved).
  Proof.
    unfold init_globals. destruct (add_user_globals q reserved _ user) as [g1|]; [|discriminate]. intros H Hr.
    inversion H; subst. rewrite !set_all_get, Hr. destruct (str_in n lang); reflexivity.
  Qed.

  Lemma lang_globals_protected q user g n : init_globals q defaults reserved written lang user = Some g ->
    str_in n lang = true -> dget g n = Some OLang.
  Proof.
    unfold init_globals. destruct (add_user_globals q reserved _ user) as [g1|]; [|discriminate]. intros H Hl.
    inversion H; subst. rewrite set_all_get, Hl. reflexivity.
  Qed.

  Lemma reserved_global_rejected q user n v : In (n, v) user -> str_in n reserved = true ->
    init_globals q defaults reserved written lang user = None.
  Proof. intros Hin Hr. unfold init_globals. rewrite (user_reserved_rejected q reserved user _ n v Hin Hr). reflexivity. Qed.

  (* conformant gate: every jinja default global survives *)
  Lemma builtin_globals_protected_checked user g n : init_globals false defaults reserved written lang user = Some g ->
    str_in n defaults = true -> str_in n written = false -> str_in n lang = false -> dget g n = Some OBuiltin.
  Proof.
    unfold init_globals. destruct (add_user_globals false reserved _ user) as [g1|] eqn:A; [|discriminate]. intros H Hd Hr Hl.
    inversion H; subst. rewrite !set_all_get, Hl, Hr.
    apply (checked_gate_preserves reserved user _ g1 A n OBuiltin); [|reflexivity]. rewrite dget_builtin, Hd. reflexivity.
  Qed.

  (* the unchanged gate: only names the user did not pass survive *)
  Lemma builtin_globals_protected_partial user g n : init_globals true defaults reserved written lang user = Some g ->
    str_in n (map fst user) = false ->
    str_in n defaults = true -> str_in n written = false -> str_in n lang = false -> dget g n = Some OBuiltin.
  Proof.
    unfold init_globals. destruct (add_user_globals true reserved _ user) as [g1|] eqn:A; [|discriminate]. intros H Hu Hd Hr Hl.
    inversion H; subst. rewrite !set_all_get, Hl, Hr.
    rewrite (unchecked_gate_preserves_unnamed reserved user _ g1 A n Hu), dget_builtin, Hd. reflexivity.
  Qed.

  Lemma user_global_shadows_builtin n : str_in n defaults = true -> str_in n reserved = false -> str_in n written = false -> str_in n lang = false ->
    exists g, init_globals true defaults reserved written lang [(n, 0)] = Some g /\ dget g n = Some (OUser 0).
  Proof.
    intros Hd Hr Hw Hl. unfold init_globals. cbn [add_user_globals]. rewrite Hr. cbn [negb andb].
    eexists. split; [reflexivity|]. rewrite !set_all_get, Hl, Hw, dget_dset, str_eqb_refl. reflexivity.
  Qed.

  Lemma user_global_rejected_checked n v : str_in n defaults = true ->
    init_globals false defaults reserved written lang [(n, v)] = None.
  Proof.
    intros Hd. unfold init_globals. cbn [add_user_globals]. destruct (str_in n reserved); [reflexivity|].
    rewrite dget_builtin, Hd. reflexivity.
  Qed.
End Globals.
