(* C19: the concrete instance Gen/JinjaMini.v satisfies the three hypotheses of the pipeline theorems (so they are not vacuous),
   and the pipeline model computes *)
From Coq Require Import String.
From Verif Require Import JinjaMini JinjaPipeThm JinjaRules.
Open Scope N_scope.

Lemma mpt_fwd : forall toks e rest, mpt toks = Some (e, rest) -> tsuffix rest toks.
Proof.
  intros [|[k v] r] e rest H; cbn [mpt] in H; [discriminate|].
  destruct (str_eqb k K_NAME); [inversion H; subst; apply tsuffix_tail|].
  destruct (str_eqb k KI); [inversion H; subst; apply tsuffix_tail|].
  destruct (str_eqb k KS); [inversion H; subst; apply tsuffix_tail|discriminate].
Qed.

Lemma expect_fwd k toks r : expect k toks = Some r -> tsuffix r toks.
Proof. destruct toks as [|[k2 v] t]; cbn; [discriminate|]. destruct (str_eqb k2 k); [|discriminate]. intros H; inversion H; subst. apply tsuffix_tail. Qed.
Lemma expect_name_fwd n toks r : expect_name n toks = Some r -> tsuffix r toks.
Proof. destruct toks as [|[k2 v] t]; cbn; [discriminate|]. destruct (_ && _); [|discriminate]. intros H; inversion H; subst. apply tsuffix_tail. Qed.

Ltac sfx :=
  repeat match goal with
         | H : mpt _ = Some _ |- _ => apply mpt_fwd in H
         | H : expect _ _ = Some _ |- _ => apply expect_fwd in H
         | H : expect_name _ _ = Some _ |- _ => apply expect_name_fwd in H
         end.
Ltac chain :=
  solve [ repeat first [ apply tsuffix_refl | assumption | apply tsuffix_tail
                       | eapply tsuffix_trans; [eassumption|] | eapply tsuffix_trans; [eapply tsuffix_cons; eassumption|]
                       | eapply tsuffix_trans; [apply tsuffix_tail|] ] ].

Lemma mps_fwd : forall cb toks ss rest,
    (forall ends t ns r, cb ends t = Some (ns, r) -> tsuffix r t) -> mps cb toks = Some (ss, rest) -> tsuffix rest toks.
Proof.
  intros cb toks ss rest Hcb H. destruct toks as [|[k v] r]; cbn [mps] in H; [discriminate|].
  destruct (negb (str_eqb k K_NAME)); [discriminate|].
  destruct (str_eqb v (s2l "if")).
  { destruct (mpt r) as [[c r1]|] eqn:E1; [|discriminate]. destruct (expect K_BLOCKEND r1) as [r2|] eqn:E2; [|discriminate].
    destruct (cb _ r2) as [[body [|[k3 nm] r3]]|] eqn:E3; try discriminate. apply Hcb in E3.
    destruct (str_eqb nm (s2l "else")).
    - destruct (expect K_BLOCKEND r3) as [r4|] eqn:E4; [|discriminate].
      destruct (cb _ r4) as [[els [|t5 r5]]|] eqn:E5; try discriminate. apply Hcb in E5. inversion H; subst. sfx.
      eapply tsuffix_trans; [eapply tsuffix_cons; exact E5|]. eapply tsuffix_trans; [exact E4|].
      eapply tsuffix_trans; [eapply tsuffix_cons; exact E3|]. eapply tsuffix_trans; [exact E2|]. eapply tsuffix_trans; [exact E1|apply tsuffix_tail].
    - inversion H; subst. sfx. eapply tsuffix_trans; [eapply tsuffix_cons; exact E3|]. eapply tsuffix_trans; [exact E2|].
      eapply tsuffix_trans; [exact E1|apply tsuffix_tail]. }
  destruct (str_eqb v (s2l "set")).
  { destruct r as [|[k1 x] [|[k2 eq] r1]]; try discriminate. destruct (_ && _); [|discriminate].
    destruct (mpt r1) as [[e r2]|] eqn:E1; [|discriminate]. inversion H; subst. sfx.
    eapply tsuffix_trans; [exact E1|]. eapply tsuffix_trans; [apply tsuffix_tail|]. eapply tsuffix_trans; [apply tsuffix_tail|apply tsuffix_tail]. }
  destruct (str_eqb v (s2l "for")); [|discriminate].
  destruct r as [|[k1 x] r1]; [discriminate|]. destruct (expect_name _ r1) as [r2|] eqn:E1; [|discriminate].
  destruct (mpt r2) as [[it r3]|] eqn:E2; [|discriminate]. destruct (expect K_BLOCKEND r3) as [r4|] eqn:E3; [|discriminate].
  destruct (cb _ r4) as [[body [|t5 r5]]|] eqn:E4; try discriminate. apply Hcb in E4. inversion H; subst. sfx.
  eapply tsuffix_trans; [eapply tsuffix_cons; exact E4|]. eapply tsuffix_trans; [exact E3|]. eapply tsuffix_trans; [exact E2|].
  eapply tsuffix_trans; [exact E1|]. eapply tsuffix_trans; [apply tsuffix_tail|apply tsuffix_tail].
Qed.

Lemma mps_local : forall cb1 cb2 toks,
    (forall ends t ns r, cb2 ends t = Some (ns, r) -> tsuffix r t) ->
    (forall ends t, tsuffix t toks -> cb1 ends t = cb2 ends t) -> mps cb1 toks = mps cb2 toks.
Proof.
  intros cb1 cb2 toks Hf Hcb. destruct toks as [|[k v] r]; cbn [mps]; [reflexivity|].
  assert (Hr : forall ends t, tsuffix t r -> cb1 ends t = cb2 ends t).
  { intros ends t Ht. apply Hcb. eapply tsuffix_trans; [exact Ht|apply tsuffix_tail]. }
  destruct (negb (str_eqb k K_NAME)); [reflexivity|].
  destruct (str_eqb v (s2l "if")).
  { destruct (mpt r) as [[c r1]|] eqn:E1; [|reflexivity]. destruct (expect K_BLOCKEND r1) as [r2|] eqn:E2; [|reflexivity]. sfx.
    assert (S2 : tsuffix r2 r) by (eapply tsuffix_trans; eauto).
    rewrite (Hr _ r2 S2). destruct (cb2 _ r2) as [[body [|[k3 nm] r3]]|] eqn:E3; try reflexivity. apply Hf in E3.
    destruct (str_eqb nm (s2l "else")); [|reflexivity].
    destruct (expect K_BLOCKEND r3) as [r4|] eqn:E4; [|reflexivity]. sfx.
    rewrite (Hr _ r4); [reflexivity|]. eapply tsuffix_trans; [exact E4|]. eapply tsuffix_trans; [eapply tsuffix_cons; exact E3|exact S2]. }
  destruct (str_eqb v (s2l "set")); [reflexivity|].
  destruct (str_eqb v (s2l "for")); [|reflexivity].
  destruct r as [|[k1 x] r1]; [reflexivity|]. destruct (expect_name _ r1) as [r2|] eqn:E1; [|reflexivity].
  destruct (mpt r2) as [[it r3]|] eqn:E2; [|reflexivity]. destruct (expect K_BLOCKEND r3) as [r4|] eqn:E3; [|reflexivity]. sfx.
  rewrite (Hr _ r4); [reflexivity|]. eapply tsuffix_trans; [exact E3|]. eapply tsuffix_trans; [exact E2|]. eapply tsuffix_trans; [exact E1|apply tsuffix_tail].
Qed.

(* the pipeline model computes: marker print statement under the default rules (the tag tokens are what the lexer yields there) *)
Definition ex_tags (n rest : str) : option (list xtok * nat) :=
  Some ([(K_WS, [32]); (K_NAME, [120]); (K_WS, [32]); (K_VAREND, [125; 125])], 5%nat).
Example mini_pipeline_marker_example :
  mini_bundled 0 [[123; 123]] [[123; 37]] ex_tags 50 [97; 10; 32; 32; 123; 123; 42; 32; 120; 32; 125; 125; 124] [([120], VStr [108; 49; 10; 108; 50])]
  = Some [97; 10; 32; 32; 108; 49; 10; 32; 32; 108; 50; 124] /\
  mini_upstream 0 ex_tags 50 [97; 10; 32; 32; 123; 123; 32; 120; 32; 125; 125; 124] [([120], VStr [108; 49; 10; 108; 50])]
  = Some [97; 10; 32; 32; 108; 49; 10; 108; 50; 124].
Proof. vm_compute. split; reflexivity. Qed.
