(* C18: every element of a float array of every value a run can reach is a fixed point of NumPy's conversion to the array's dtype
   (it is what NumPy stored).  Needs f_round idempotent (PyObjThmRound.v).  No premise on the data base. *)
From Coq Require Import List NArith ZArith Bool Arith Lia ZifyBool.
From Verif Require Import PyObj Gen_PyObj PyObjThm PyObjThmRound.
Import ListNotations.
Open Scope Z_scope.

Definition frepr_elem (dt : dtype) (x : pyval) : bool :=
  match dt, x with DF W, PFloat b => (f_round W b =? b)%N | _, _ => true end.
Fixpoint float_repr_ok (v : pyval) : bool :=
  match v with
  | PList l => forallb float_repr_ok l
  | PDict l => forallb (fun p => float_repr_ok (snd p)) l
  | PArr dt l => forallb (frepr_elem dt) l && forallb float_repr_ok l
  | PObj _ sl => forallb float_repr_ok sl
  | _ => true
  end.
Notation FR := float_repr_ok.

Lemma f_round_nonfinite : forall W x, f_isfinite x = false -> f_round W x = x.
Proof.
  intros W x H. unfold f_round, f_round_to. rewrite H. cbn [negb]. destruct (W =? 16); [reflexivity|]. destruct (W =? 32); reflexivity.
Qed.
Lemma f_round_zero : forall W, f_round W 0 = 0%N.
Proof. intros W. unfold f_round. destruct (W =? 16); [reflexivity|]. destruct (W =? 32); reflexivity. Qed.

Lemma leafval_FR : forall y, is_leafval y = true -> FR y = true.
Proof. destruct y; cbn; intros; try discriminate; reflexivity. Qed.

Lemma frepr_elem_nonfloat : forall dt y, match dt with DF _ => False | _ => True end -> frepr_elem dt y = true.
Proof. intros dt y H. destruct dt; try contradiction; reflexivity. Qed.

Lemma conv_leaf_FR : forall dt x y, conv_leaf dt x = Ok y -> FR x = true -> frepr_elem dt y = true /\ FR y = true.
Proof.
  intros dt x y H Fx. split.
  - destruct dt; try (apply frepr_elem_nonfloat; exact I).
    assert (exists f, y = PFloat (f_round w f)) as [f ->].
    { unfold conv_leaf in H. destruct x; cbn [py_float bind] in H; try discriminate; try (inversion H; eauto; fail).
      - inversion H. exists f_nan. rewrite f_round_nonfinite; reflexivity.
      - destruct (f_of_Z z); cbn [bind] in H; [inversion H; eauto|discriminate].
      - destruct (parse_float_text s); cbn [bind] in H; [inversion H; eauto|discriminate].
      - destruct (parse_float_text s); cbn [bind] in H; [inversion H; eauto|discriminate]. }
    cbn [frepr_elem]. apply N.eqb_eq. apply f_round_idem.
  - apply conv_leaf_ok in H. destruct H as [_ [->|H]]; auto using leafval_FR.
Qed.

Lemma conv_elem_FR : forall dt x y, conv_elem dt x = Ok y -> FR x = true -> frepr_elem dt y = true /\ FR y = true.
Proof.
  intros dt x y H Fx.
  destruct dt, x; cbn [conv_elem] in H; try (eapply conv_leaf_FR; eauto; fail);
    try (destruct (f_isfinite bits); [|eapply conv_leaf_FR; eauto]); inversion H; subst; split; reflexivity.
Qed.

Lemma all_conv_FR : forall (cv : dtype -> pyval -> res pyval) dt,
  (forall x y, cv dt x = Ok y -> FR x = true -> frepr_elem dt y = true /\ FR y = true) ->
  forall l l', mapM (cv dt) l = Ok l' -> forallb FR l = true -> forallb (frepr_elem dt) l' = true /\ forallb FR l' = true.
Proof.
  intros cv dt Hc l l' H. apply mapM_Forall2 in H. induction H as [|a b l l' Hab _ IH]; intros F; [auto|].
  cbn [forallb] in *. apply andb_true_iff in F. destruct F as [Fa Fl]. destruct (IH Fl) as [E R].
  destruct (Hc _ _ Hab Fa) as [Eb Rb]. rewrite Eb, Rb, E, R. auto.
Qed.

Lemma np_flat_FR : forall x sl, np_flat x = Ok sl -> FR x = true -> forallb FR (snd sl) = true.
Proof.
  intros x. induction x using pyval_nested_ind; intros sl E W.
  1-6, 8, 10: cbn [np_flat] in E; inversion E; subst; cbn [snd forallb]; rewrite W; reflexivity.
  - rewrite np_flat_PList in E. cbn [float_repr_ok] in W.
    assert (G : forall subs, np_go l = Ok subs -> forallb FR (flat_map snd subs) = true).
    { clear E. induction H as [|a r Ha _ IH]; intros subs G.
      - inversion G. reflexivity.
      - rewrite np_go_cons in G. cbn [forallb] in W. apply andb_true_iff in W. destruct W as [Wa Wr].
        destruct (np_flat a) as [sa|] eqn:Ea; cbn [bind] in G; [|discriminate].
        destruct (np_go r) as [ss|] eqn:Er; cbn [bind] in G; [|discriminate].
        inversion G; subst. cbn [flat_map]. rewrite forallb_app, (Ha _ eq_refl Wa), (IH Wr _ eq_refl). reflexivity. }
    destruct (np_go l) as [subs|] eqn:Eg; cbn [bind] in E; [|discriminate].
    destruct subs as [|[s0 lv0] rest].
    + inversion E; reflexivity.
    + destruct (all_eq_shape s0 _); inversion E; subst. cbn [snd]. exact (G _ eq_refl).
  - destruct (np_flat_PArr dt l) as [sh E']. rewrite E' in E. inversion E; subst. cbn [snd]. cbn [float_repr_ok] in W.
    apply andb_true_iff in W. tauto.
Qed.

Lemma tagged_FR : forall dt tl l', Forall2 (fun a b => conv_tagged dt a = Ok b) tl l' -> forallb FR (map snd tl) = true ->
  forallb (frepr_elem dt) l' = true /\ forallb FR l' = true.
Proof.
  intros dt tl l' H. induction H as [|a b l l' Hab _ IH]; intros F; [auto|].
  cbn [map forallb] in *. apply andb_true_iff in F. destruct F as [Fa Fl]. destruct (IH Fl) as [E R].
  assert (Hb : frepr_elem dt b = true /\ FR b = true).
  { unfold conv_tagged in Hab. destruct (fst a); [eapply conv_elem_FR | eapply conv_leaf_FR]; eauto. }
  destruct Hb as [Eb Rb]. rewrite Eb, Rb, E, R. auto.
Qed.

Lemma np_array_FR : forall dt y l, np_array dt y = Ok l -> FR y = true ->
  forallb (frepr_elem dt) l = true /\ forallb FR l = true.
Proof.
  intros dt y l H W.
  assert (Old : (sl <- np_flat_t y ;; mapM (conv_tagged dt) (snd sl)) = Ok l ->
                forallb (frepr_elem dt) l = true /\ forallb FR l = true).
  { intros H'. destruct (np_flat_t y) as [[sh tl]|] eqn:N; cbn [bind snd] in H'; [|discriminate].
    apply mapM_Forall2 in H'. apply (tagged_FR _ _ _ H').
    exact (np_flat_FR _ _ (np_flat_t_flat _ _ _ N) W). }
  destruct y; try (apply Old; exact H).
  cbn [np_array] in H. cbn [float_repr_ok] in W. apply andb_true_iff in W. destruct W as [_ W].
  eapply (all_conv_FR conv_elem); eauto using conv_elem_FR.
Qed.

Lemma chkG_FR : forall q e l v, chkG q e l = Ok v -> forallb (frepr_elem (dtype_of PW e)) l = true -> forallb FR l = true ->
  FR v = true.
Proof.
  intros q e l v H E R. unfold chkG in H. destruct (q || forallb (elem_in_dsdl_range e) l); inversion H; subst.
  cbn [float_repr_ok]. rewrite E, R. reflexivity.
Qed.

Lemma slowG_FR : forall q fixed cap e y v, slowG q fixed cap e y = Ok v -> FR y = true -> FR v = true.
Proof.
  intros q fixed cap e y v H W. unfold slowG in H. destruct (int_src_ok TG e y); [|discriminate].
  destruct (np_array (dtype_of PW e) y) as [l|] eqn:M; cbn [bind] in H; [|discriminate].
  destruct (lenG fixed (length l) cap); [|discriminate]. destruct (float_src_ok TG q e y); [|discriminate].
  destruct (np_array_FR _ _ _ M W) as [E R]. eapply chkG_FR; eauto.
Qed.

Lemma field_value_FR : forall q f x v, field_value TG PW q f x = Ok v -> FR x = true -> FR v = true.
Proof.
  intros q f x v H W. destruct f as [[k|t]|fixed cap sl e]; cbn [field_value] in H.
  - apply leafval_FR. rewrite set_prim_gen in H. destruct k as [|w|w|w].
    + inversion H; reflexivity.
    + destruct (py_int x) as [z|]; cbn [bind] in H; [|discriminate]. destruct (int_in_range (KU w) z); inversion H; reflexivity.
    + destruct (py_int x) as [z|]; cbn [bind] in H; [|discriminate]. destruct (int_in_range (KS w) z); inversion H; reflexivity.
    + destruct (py_float x) as [b|]; cbn [bind] in H; [|discriminate]. destruct (w <? 64); [|inversion H; reflexivity].
      destruct (f_in_range w b || negb (f_isfinite b)); inversion H; reflexivity.
  - rewrite set_comp_gen in H. destruct x; try discriminate. destruct (Nat.eqb tid t); inversion H; subst. exact W.
  - rewrite assign_array_gen in H.
    assert (W1 : FR (strconv sl x) = true) by (unfold strconv; destruct sl; auto; destruct x; auto).
    destruct (strconv sl x) as [| | | | |s| | |dt' l|] eqn:X; cbn [assignG] in H; try (eapply slowG_FR; eauto; fail);
      try (destruct (t_text_guard TG); [discriminate|]; eapply slowG_FR; eauto; fail).
    + destruct (fast_bytesG e && lenG fixed (length s) cap) eqn:C;
        [|destruct (t_text_guard TG); [discriminate|]; eapply slowG_FR; eauto].
      apply andb_true_iff in C. destruct C as [Cb _]. destruct e as [[|w|w|w]|t]; cbn [fast_bytesG] in Cb; try discriminate.
      eapply chkG_FR; [exact H| |]; apply forallb_forall; intros y Hy; apply in_map_iff in Hy; destruct Hy as (c & <- & _); reflexivity.
    + destruct (dtype_eqb dt' (dtype_of PW e) && lenG fixed (length l) cap) eqn:C; [|eapply slowG_FR; eauto].
      apply andb_true_iff in C. destruct C as [Cd _]. apply dtype_eqb_eq in Cd. subst dt'.
      cbn [float_repr_ok] in W1. apply andb_true_iff in W1. destruct W1 as [E R]. eapply chkG_FR; eauto.
Qed.

Lemma set_slot_FR : forall q c slots i x s' r, set_slot TG PW q c slots i x = (s', r) ->
  forallb FR slots = true -> FR x = true -> forallb FR s' = true.
Proof.
  intros q c slots i x s' r H Ws Wx. apply set_slot_cases in H.
  destruct H as [[-> _]|[_ (f & v & _ & V & ->)]]; [exact Ws|].
  pose proof (field_value_FR _ _ _ _ V Wx) as Wv.
  destruct (c_union c); [apply forallb_clear_others; [reflexivity|]|]; apply forallb_update_nth; auto.
Qed.

(* ---------------------------------------------------------------- constructors *)
Lemma nth_FR : forall l i, forallb FR l = true -> FR (nth i l PNone) = true.
Proof.
  intros l i H. destruct (nth_in_or_default i l PNone) as [Hin|E]; [|rewrite E; reflexivity]. rewrite forallb_forall in H; auto.
Qed.

Lemma default_arg_FR : forall defs f, forallb FR defs = true -> FR (default_arg PW defs f) = true.
Proof.
  intros defs f Hd.
  assert (De : forall e, FR (default_elem defs e) = true /\ frepr_elem (dtype_of PW e) (default_elem defs e) = true).
  { intros e. destruct e as [[|w|w|w]|t]; cbn [default_elem dtype_of frepr_elem float_repr_ok]; auto using nth_FR.
    rewrite f_round_zero. auto. }
  destruct f as [e|fixed cap sl e]; cbn [default_arg]; [apply De|].
  destruct fixed; [|reflexivity]. cbn [float_repr_ok]. rewrite !forallb_repeat; auto; apply De.
Qed.

Lemma kwarg_FR : forall kw i d, forallb FR kw = true -> FR d = true -> FR (kwarg kw i d) = true.
Proof. intros kw i d Hk Hd. unfold kwarg. pose proof (nth_FR kw i Hk) as Hn. destruct (nth i kw PNone); auto. Qed.

Lemma ctor_struct_FR : forall q defs c, forallb FR defs = true -> forall fs i kw slots out,
  forallb FR kw = true -> forallb FR slots = true -> ctor_struct TG PW q defs c fs i kw slots = Ok out -> forallb FR out = true.
Proof.
  intros q defs c Hd. induction fs as [|f fs IH]; intros i kw slots out Hk Hs H.
  - cbn [ctor_struct] in H. inversion H; subst; exact Hs.
  - rewrite ctor_struct_cons in H.
    destruct (set_slot TG PW q c slots i (kwarg kw i (default_arg PW defs f))) as [s' [e|]] eqn:SS; [discriminate|].
    apply (IH _ _ _ _ Hk) in H; [exact H|]. eapply set_slot_FR; eauto. apply kwarg_FR; auto using default_arg_FR.
Qed.

Lemma ctor_union_FR : forall q c fs i kw slots cnt out cnt', forallb FR kw = true -> forallb FR slots = true ->
  ctor_union_args TG PW q c fs i kw slots cnt = Ok (out, cnt') -> forallb FR out = true.
Proof.
  intros q c. induction fs as [|f fs IH]; intros i kw slots cnt out cnt' Hk Hs H.
  - cbn [ctor_union_args] in H. inversion H; subst; exact Hs.
  - rewrite ctor_union_cons in H. destruct (is_none (nth i kw PNone)); [exact (IH _ _ _ _ _ _ Hk Hs H)|].
    destruct (set_slot TG PW q c slots i (nth i kw PNone)) as [s' [e|]] eqn:SS; [discriminate|].
    apply (IH _ _ _ _ _ _ Hk) in H; [exact H|]. eapply set_slot_FR; eauto using nth_FR.
Qed.

Lemma construct_with_FR : forall q db defs tid kw o, forallb FR defs = true -> forallb FR kw = true ->
  construct_with TG PW q db defs tid kw = Ok o -> FR o = true.
Proof.
  intros q db defs tid kw o Hd Hk H. unfold construct_with in H. destruct (nth_error db tid) as [c|]; [|discriminate].
  assert (Hb : forallb FR (map (fun _ : ftype => PNone) (c_fields c)) = true) by (apply forallb_map_const; reflexivity).
  destruct (c_union c).
  - destruct (ctor_union_args _ _ _ _ _ _ _ _ _) as [[slots cnt]|] eqn:CU; cbn [bind] in H; [|discriminate].
    apply (ctor_union_FR q c _ _ _ _ _ _ _ Hk Hb) in CU.
    destruct cnt as [|[|n]].
    + destruct (c_fields c) as [|f0 fs]; [inversion H; subst; exact CU|].
      destruct (set_slot TG PW q c slots 0 (default_arg PW defs f0)) as [s' [e|]] eqn:SS; inversion H; subst.
      cbn [float_repr_ok]. eapply set_slot_FR; eauto using default_arg_FR.
    + inversion H; subst; exact CU.
    + destruct (t_union_ctor_count TG); inversion H; subst; exact CU.
  - destruct (ctor_struct _ _ _ _ _ _ _ _ _) as [slots|] eqn:CS; cbn [bind] in H; inversion H; subst.
    cbn [float_repr_ok]. exact (ctor_struct_FR q defs c Hd _ _ _ _ _ Hk Hb CS).
Qed.

Lemma defaults_FR : forall q db, forallb FR (defaults TG PW q db) = true.
Proof.
  intros q db. unfold defaults. generalize (length db) 0%nat (@nil pyval) (eq_refl : forallb FR [] = true).
  induction n as [|n IH]; intros tid acc Wa; cbn [defaults_aux]; [exact Wa|].
  apply IH. rewrite forallb_app, Wa. cbn [forallb andb]. rewrite andb_true_r.
  destruct (construct_with TG PW q db acc tid []) as [o|] eqn:E; [|reflexivity]. exact (construct_with_FR q db acc tid [] o Wa eq_refl E).
Qed.

Lemma default_obj_FR : forall q db t, FR (default_obj TG PW q db t) = true.
Proof. intros. unfold default_obj. apply nth_FR. apply defaults_FR. Qed.

Lemma construct_FR : forall q db tid kw o, forallb FR kw = true -> construct TG PW q db tid kw = Ok o -> FR o = true.
Proof. intros q db tid kw o Hk H. unfold construct in H. exact (construct_with_FR q db _ tid kw o (defaults_FR q db) Hk H). Qed.

(* ---------------------------------------------------------------- expressions *)
Lemma no_obj_FR : forall v, no_obj v = true -> FR v = true.
Proof.
  intros v. induction v using pyval_nested_ind; cbn [no_obj float_repr_ok]; intros N; try reflexivity; try discriminate.
  - induction H as [|a r Ha _ IH]; [reflexivity|]. cbn [forallb] in *. apply andb_true_iff in N. destruct N as [Na Nr].
    rewrite (Ha Na), (IH Nr). reflexivity.
  - induction H as [|a r Ha _ IH]; [reflexivity|]. cbn [forallb] in *. apply andb_true_iff in N. destruct N as [Na Nr].
    rewrite (Ha Na), (IH Nr). reflexivity.
Qed.

Lemma ev_list_FR : forall q db l, Forall (fun a => forall v, eval TG PW q db a = Ok v -> FR v = true) l ->
  forall vs, ev_list q db l = Ok vs -> forallb FR vs = true.
Proof.
  intros q db l H. induction H as [|a r Ha _ IH]; intros vs E.
  - inversion E; reflexivity.
  - rewrite ev_list_cons in E. destruct (eval TG PW q db a) as [v|] eqn:Ea; cbn [bind] in E; [|discriminate].
    destruct (ev_list q db r) as [vs'|] eqn:Er; cbn [bind] in E; [|discriminate].
    inversion E; subst. cbn [forallb]. rewrite (Ha _ eq_refl), (IH _ eq_refl). reflexivity.
Qed.

Lemma eval_FR : forall q db e v, eval TG PW q db e = Ok v -> FR v = true.
Proof.
  intros q db e. induction e using vexpr_nested_ind; intros out E.
  - cbn [eval] in E. destruct (no_obj v) eqn:N; inversion E; subst. apply no_obj_FR; exact N.
  - rewrite eval_XList in E. destruct (ev_list q db l) as [vs|] eqn:El; cbn [bind] in E; inversion E; subst.
    cbn [float_repr_ok]. eapply ev_list_FR; eauto.
  - rewrite eval_XDict in E. destruct (ev_dict q db l) as [vs|] eqn:El; cbn [bind] in E; inversion E; subst.
    cbn [float_repr_ok]. clear E. revert vs El. induction H as [|[k a] r Ha _ IH]; intros vs El.
    + inversion El; reflexivity.
    + rewrite ev_dict_cons in El. cbn [snd] in Ha.
      destruct (eval TG PW q db a) as [v|] eqn:Ea; cbn [bind] in El; [|discriminate].
      destruct (ev_dict q db r) as [vs'|] eqn:Er; cbn [bind] in El; [|discriminate].
      inversion El; subst. cbn [forallb snd]. rewrite (Ha _ eq_refl), (IH _ eq_refl). reflexivity.
  - rewrite eval_XNd in E. destruct (ev_list q db l) as [vs|] eqn:El; cbn [bind] in E; [|discriminate].
    destruct (mapM (conv_leaf dt) vs) as [es|] eqn:M; cbn [bind] in E; inversion E; subst.
    destruct (all_conv_FR conv_leaf dt (conv_leaf_FR dt) _ _ M (ev_list_FR _ _ _ H _ El)) as [Ee Re].
    cbn [float_repr_ok]. rewrite Ee, Re. reflexivity.
  - rewrite eval_XNew in E. destruct (ev_list q db l) as [vs|] eqn:El; cbn [bind] in E; [|discriminate].
    eapply construct_FR; eauto. eapply ev_list_FR; eauto.
Qed.

(* ---------------------------------------------------------------- update_from_builtin *)
Definition RokF (rec : pyval -> pyval -> pyval * option exc) : Prop :=
  forall o src, FR o = true -> FR src = true -> FR (fst (rec o src)) = true.

Lemma ufb_elems_FR : forall q db rec t, RokF rec -> forall l os, forallb FR l = true ->
  ufb_elems TG PW q db rec t l = Ok os -> forallb FR os = true.
Proof.
  intros q db rec t R. induction l as [|s r IH]; intros os Wl E; cbn [ufb_elems] in E.
  - inversion E; reflexivity.
  - cbn [forallb] in Wl. apply andb_true_iff in Wl. destruct Wl as [Ws Wr].
    pose proof (R _ _ (default_obj_FR q db t) Ws) as Wo.
    destruct (rec (default_obj TG PW q db t) s) as [o [e|]]; [discriminate|].
    destruct (ufb_elems TG PW q db rec t r) as [os'|] eqn:Er; cbn [bind] in E; [|discriminate].
    inversion E; subst. cbn [forallb fst] in *. rewrite Wo, (IH _ Wr eq_refl). reflexivity.
Qed.

Lemma ufb_step_FR : forall q db rec c f i value slots s' r, RokF rec -> FR value = true -> forallb FR slots = true ->
  ufb_step q db rec c f i value slots = (s', r) -> forallb FR s' = true.
Proof.
  intros q db rec c f i value slots s' r R Wv Ws H.
  assert (Generic : forall x, FR x = true -> set_slot TG PW q c slots i x = (s', r) -> forallb FR s' = true).
  { intros x Wx SS. eapply set_slot_FR; eauto. }
  destruct f as [[k|t]|fixed cap sl [k|t]]; cbn [ufb_step] in H; try (eapply Generic; eauto; fail).
  - destruct (is_none (nth i slots PNone)) eqn:N.
    + destruct (set_slot TG PW q c slots i (default_obj TG PW q db t)) as [s1 r1] eqn:SS. cbv beta iota zeta in H.
      pose proof (set_slot_FR _ _ _ _ _ _ _ SS Ws (default_obj_FR q db t)) as W1.
      destruct r1 as [e|]; [inversion H; subst; exact W1|].
      pose proof (R _ value (default_obj_FR q db t) Wv) as Wo.
      destruct (rec (default_obj TG PW q db t) value) as [o' r']. inversion H; subst. apply forallb_update_nth; auto.
    + cbv beta iota zeta in H. pose proof (R _ value (nth_FR slots i Ws) Wv) as Wo.
      destruct (rec (nth i slots PNone) value) as [o' r']. inversion H; subst. apply forallb_update_nth; auto.
  - destruct value as [| | | | | |l| | |]; try (inversion H; subst; exact Ws).
    destruct (ufb_elems TG PW q db rec t l) as [os|e] eqn:Eo; [|inversion H; subst; exact Ws].
    eapply (Generic (PList os)); [|exact H]. cbn [float_repr_ok] in *. exact (ufb_elems_FR q db rec t R l os Wv Eo).
Qed.

Lemma lookup_FR : forall kv i v, forallb (fun p => FR (snd p)) kv = true -> lookup i kv = Some v -> FR v = true.
Proof.
  induction kv as [|[k a] r IH]; intros i v W E; cbn [lookup] in E; [discriminate|].
  cbn [forallb snd] in W. apply andb_true_iff in W. destruct W as [Wa Wr].
  destruct (Nat.eqb i k); [inversion E; subst; exact Wa | eauto].
Qed.

Lemma ufb_loop_FR : forall q db rec c, RokF rec -> forall fs i kv slots,
  forallb (fun p => FR (snd p)) kv = true -> forallb FR slots = true ->
  forallb FR (fst (ufb_loop TG PW q db rec c fs i kv slots)) = true.
Proof.
  intros q db rec c R. induction fs as [|f fs IH]; intros i kv slots Wkv Ws; [exact Ws|].
  rewrite ufb_loop_cons. destruct (lookup i kv) as [value|] eqn:Lk; [|apply IH; auto].
  destruct (ufb_step q db rec c f i value slots) as [s' r] eqn:St.
  pose proof (ufb_step_FR _ _ _ _ _ _ _ _ _ _ R (lookup_FR _ _ _ Wkv Lk) Ws St) as W'.
  destruct r as [e|]; [exact W' | apply IH; auto].
Qed.

Lemma enum_from_FR : forall l i, forallb FR l = true -> forallb (fun p => FR (snd p)) (enum_from i l) = true.
Proof.
  induction l as [|a r IH]; intros i W; cbn [enum_from forallb snd] in *; [reflexivity|].
  apply andb_true_iff in W. destruct W as [Wa Wr]. rewrite Wa, (IH _ Wr). reflexivity.
Qed.

Lemma ufb_kv_FR : forall c src kv, FR src = true -> ufb_kv c src = Ok kv -> forallb (fun p => FR (snd p)) kv = true.
Proof.
  intros c src kv W E.
  assert (Seq : forall sq, forallb FR sq = true -> ufb_kv_seq c sq = Ok kv -> forallb (fun p => FR (snd p)) kv = true).
  { intros sq Wsq Es. unfold ufb_kv_seq in Es. cbv zeta in Es.
    set (sq' := if is_propagating (c_fields c) && _ then [PList sq] else sq) in Es.
    assert (W' : forallb FR sq' = true).
    { subst sq'. destruct (is_propagating (c_fields c) && _); [cbn [forallb float_repr_ok]; rewrite Wsq; reflexivity | exact Wsq]. }
    clearbody sq'. destruct (Nat.ltb (length (c_fields c)) (length sq')); [discriminate|].
    injection Es as <-. apply enum_from_FR; exact W'. }
  destruct src as [| | | | | |l0|l0| |]; cbn [ufb_kv] in E;
    try (apply (Seq _) in E; [exact E | cbn [forallb]; rewrite W; reflexivity]; fail).
  - apply (Seq l0); auto.
  - inversion E; subst. exact W.
Qed.

Lemma ufb_FR : forall q db fuel, RokF (ufb TG PW q db fuel).
Proof.
  intros q db. induction fuel as [|fuel IH]; intros o src Wo Wsrc; [exact Wo|].
  destruct o as [| | | | | | | | |tid slots]; try exact Wo.
  rewrite ufb_S. destruct (nth_error db tid) as [c|]; [|exact Wo].
  destruct (ufb_kv c src) as [kv|e] eqn:Ek; [|exact Wo].
  pose proof (ufb_loop_FR q db _ c IH (c_fields c) 0 kv slots (ufb_kv_FR _ _ _ Wsrc Ek) Wo) as W'.
  destruct (ufb_loop TG PW q db (ufb TG PW q db fuel) c (c_fields c) 0 kv slots) as [s' [e|]]; cbn [fst] in *; [exact W'|].
  destruct (existsb _ kv); exact W'.
Qed.

(* ---------------------------------------------------------------- runs *)
Lemma step_FR : forall q db tid o p, FR o = true -> FR (fst (step TG PW q db tid o p)) = true.
Proof.
  intros q db tid o p Wo. destruct p as [i e|fuel e|kw]; cbn [step].
  - destruct (eval TG PW q db e) as [x|] eqn:Ee; [|exact Wo].
    destruct o as [| | | | | | | | |t slots]; try exact Wo. destruct (nth_error db tid) as [c|]; [|exact Wo].
    destruct (set_slot TG PW q c slots i x) as [s' r] eqn:SS. cbn [fst float_repr_ok] in *.
    eapply set_slot_FR; eauto using eval_FR.
  - destruct (eval TG PW q db e) as [x|] eqn:Ee; [|exact Wo]. apply ufb_FR; eauto using eval_FR.
  - destruct (eval TG PW q db (XNew tid kw)) as [o'|] eqn:Ee; cbn [fst]; [eapply eval_FR; eauto|exact Wo].
Qed.

Theorem float_repr_run : forall q db tid ops, float_repr_ok (run TG PW q db tid ops) = true.
Proof.
  intros q db tid ops. unfold run. generalize (default_obj_FR q db tid). generalize (default_obj TG PW q db tid).
  induction ops as [|p ops IH]; intros o Wo; cbn [fold_left]; [exact Wo|]. apply IH. apply step_FR; exact Wo.
Qed.
