(* C06 -- base types shared by the regenerated tables (Generated/Gen_Closure.v) and the model (Gen/Closure.v).
   No proofs in this file. *)
From Verif Require Export Str.
Open Scope N_scope.

(* nunavut._dependencies.Dependencies: the eight annotation flags *)
Inductive flag := FInt | FFloat | FVla | FArr | FBoolArr | FBool | FPrimArr | FUnion.

(* conditions under which Language.get_includes appends a header *)
Inductive cond :=
| CTrue
| CFlag (f : flag)
| CStdTypes                       (* self.get_config_value_as_bool("use_standard_types") *)
| CHasVariant                     (* self.has_variant: standard_version >= 17 *)
| CAnd (a b : cond)
| COr (a b : cond)
| CNot (a : cond).

(* guard of a literal #include line of a base.j2: none, `if nunavut.support.omit`, `if not nunavut.support.omit` *)
Inductive lit_guard := LAlways | LOmitOnly | LSerOnly.

(* f"{n}" for a non-negative integer *)
Fixpoint dec_fuel (fuel : nat) (n : N) (acc : str) : str :=
  match fuel with
  | O => acc
  | S f => let acc' := (48 + n mod 10) :: acc in
           if n / 10 =? 0 then acc' else dec_fuel f (n / 10) acc'
  end.
Definition dec_str (n : N) : str := dec_fuel (S (N.size_nat n)) n [].
