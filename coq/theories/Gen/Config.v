(* Value-level model of nunavut's configuration merge (C13):
     deep_update                         src/nunavut/_utilities.py
     LanguageConfig.update/update_section/_get_config_value_raw   src/nunavut/lang/_config.py
     LanguageContextBuilder              src/nunavut/lang/__init__.py
     Language.__init__ / cpp, py _validate_language_options        src/nunavut/lang/{_language,cpp/__init__,py/__init__}.py
     ArgparseRunner._create_language_context                       src/nunavut/cli/runners.py
   The leaf rule (DefaultValue.assign_to_if_not_default), the body of deep_update (as an
   open-recursion step), the option groups and the CLI wiring are TRANSLATED from the
   sources into Generated/Gen_C13.v on every run; this file ties the recursive knot and
   adds the hand-modelled layers above deep_update.  Object identity (aliasing, in-place
   mutation seen through another reference) is the subject of ConfigAlias.v.
   Executable definitions only; proofs live in ConfigThm.v. *)
From Verif Require Export ConfigBase Gen_C13.
Open Scope N_scope.

(* ---- deep_update --------------------------------------------------------------------- *)

(* one iteration of `for key, value in source.items()` on the current target dict *)
Definition du_item (rec : cv -> cv -> cv) (tm : list (key * cv)) (k : key) (v : cv) : list (key * cv) :=
  match v with
  | Node _ => dset k (rec (match dget k tm with Some x => x | None => Node [] end) v) tm
  | Leaf _ _ => cv_items (fst (DefaultValue_assign_to_if_not_default (Node tm) k v))
  end.

(* deep_update(target, source): structurally recursive on the source document.
   target Mapping: fold over the source items; target not a Mapping: copy.copy(source).
   A non-Mapping source under a Mapping target has no .items() in Python (AttributeError);
   it cannot arise in the recursion and is excluded at top level by `is_doc`. *)
Fixpoint du (t s : cv) {struct s} : cv :=
  match t with
  | Leaf _ _ => s
  | Node tm =>
      match s with
      | Leaf _ _ => t
      | Node sm =>
          Node ((fix go (sm : list (list N * cv)) (tm : list (list N * cv)) {struct sm} : list (list N * cv) :=
                   match sm with
                   | [] => tm
                   | (k, v) :: sm' =>
                       go sm'
                          (match v with
                           | Node _ => dset k (du (match dget k tm with Some x => x | None => Node [] end) v) tm
                           | Leaf _ _ => cv_items (fst (DefaultValue_assign_to_if_not_default (Node tm) k v))
                           end)
                   end) sm tm)
      end
  end.

(* merging a list of sources in order: `for s in sources: target = deep_update(target, s)` *)
Definition du_all (base : cv) (srcs : list cv) : cv := fold_left du srcs base.

(* the loop of deep_update as a top-level function of the recursive call (ConfigThm.du_node:
   du (Node tm) (Node sm) = Node (du_fold du sm tm)) *)
Fixpoint du_fold (rec : cv -> cv -> cv) (sm tm : list (key * cv)) {struct sm} : list (key * cv) :=
  match sm with
  | [] => tm
  | (k, v) :: sm' => du_fold rec sm' (du_item rec tm k v)
  end.

(* ---- precedence specification (independent of the code's recursion) ------------------- *)

(* the binding of one key after a leaf `v` was offered to it (cur = binding before) *)
Definition leaf_rule (cur : option cv) (v : cv) : cv :=
  match cur with
  | Some c => if is_default v && negb (is_default c) then c else v
  | None => v
  end.

(* per-key law of one deep_update: binding of a key of the target after the merge, from its
   binding before (cur) and the source's binding (new) *)
Definition merge1 (cur new : option cv) : option cv :=
  match new with
  | None => cur
  | Some (Node m) => Some (du (match cur with Some c => c | None => Node [] end) (Node m))
  | Some (Leaf d a) => Some (leaf_rule cur (Leaf d a))
  end.

(* mention of a path by a document: None / a leaf *)
Definition is_leaf_opt (o : option cv) : bool :=
  match o with None => true | Some (Leaf _ _) => true | Some (Node _) => false end.

(* what a later mention `new` does to the current value `cur` of one key *)
Definition pick (cur : option cv) (new : option cv) : option cv :=
  match new with
  | None => cur
  | Some n =>
      match cur with
      | None => Some n
      | Some c => if is_default n && negb (is_default c) then Some c else Some n
      end
  end.

(* along path p the document has a mapping at every proper prefix (or stops mentioning the
   path) and, if it reaches the end, a leaf there: no leaf/mapping shape conflict on p *)
Fixpoint leafy_on (p : path) (v : cv) : bool :=
  match p with
  | [] => negb (is_mapping v)
  | k :: p' =>
      match v with
      | Node m => match dget k m with Some x => leafy_on p' x | None => true end
      | Leaf _ _ => false
      end
  end.

(* the source does not mention path p: some prefix of p ends at a mapping without the next key *)
Fixpoint untouched (p : path) (s : cv) : bool :=
  match p with
  | [] => false
  | k :: p' =>
      match s with
      | Node m => match dget k m with None => true | Some x => untouched p' x end
      | Leaf _ _ => false
      end
  end.

(* no DefaultValue anywhere (a YAML file cannot express one) *)
Fixpoint all_explicit (v : cv) : bool :=
  match v with
  | Leaf d _ => negb d
  | Node m => (fix go (m : list (list N * cv)) : bool :=
                 match m with [] => true | (_, x) :: m' => all_explicit x && go m' end) m
  end.

(* shape-conflict trigger of the aliasing defect (F-CFG-ALIAS): somewhere deep_update
   reaches a non-Mapping target value with a source mapping that itself contains a mapping
   (copy.copy then shares that inner mapping with the source document) *)
Definition has_inner_mapping (m : list (key * cv)) : bool := existsb (fun kv => is_mapping (snd kv)) m.

Fixpoint alias_trigger (t s : cv) {struct s} : bool :=
  match s with
  | Leaf _ _ => false
  | Node sm =>
      match t with
      | Leaf _ _ => has_inner_mapping sm
      | Node tm =>
          (fix go (sm : list (list N * cv)) : bool :=
             match sm with
             | [] => false
             | (k, v) :: sm' =>
                 (match v with
                  | Node _ => match dget k tm with Some x => alias_trigger x v | None => false end
                  | Leaf _ _ => false
                  end) || go sm'
             end) sm
      end
  end.

(* ---- LanguageConfig ------------------------------------------------------------------- *)

(* update_section: self._sections[name] = deep_update(self._sections.get(name, {}), configuration) *)
Definition update_section (sections : list (key * cv)) (name : key) (conf : cv) : list (key * cv) :=
  dset name (du (match dget name sections with Some x => x | None => Node [] end) conf) sections.

(* update(configuration): every top-level value must be a mapping (a scalar section has no
   .items(): None models the exception); section-name validation is not modelled (names are
   generated valid) *)
Fixpoint config_update (sections : list (key * cv)) (doc : list (key * cv)) : option (list (key * cv)) :=
  match doc with
  | [] => Some sections
  | (name, data) :: doc' =>
      if is_mapping data then config_update (update_section sections name data) doc' else None
  end.

(* _get_config_value_raw under @no_default_value (None = KeyError) *)
Definition get_config_value_raw (sections : list (key * cv)) (section k : key) : option cv :=
  match dget section sections with
  | Some (Node m) => option_map unwrap_default (dget k m)
  | _ => None
  end.

(* ---- LanguageConfig getters and their coercions (shapes pinned by tools/translators/c13_pins.json) ---------- *)

Inductive cfg_result (A : Type) :=
| CfgOk (a : A)
| CfgKeyError
| CfgTypeError
| CfgUnmodelled.           (* text of a list/float/dict: outside the model *)
Arguments CfgOk {A} a.
Arguments CfgKeyError {A}.
Arguments CfgTypeError {A}.
Arguments CfgUnmodelled {A}.

Fixpoint digit_codes (u : Decimal.uint) : list N :=
  match u with
  | Decimal.Nil => []
  | Decimal.D0 r => 48 :: digit_codes r | Decimal.D1 r => 49 :: digit_codes r | Decimal.D2 r => 50 :: digit_codes r
  | Decimal.D3 r => 51 :: digit_codes r | Decimal.D4 r => 52 :: digit_codes r | Decimal.D5 r => 53 :: digit_codes r
  | Decimal.D6 r => 54 :: digit_codes r | Decimal.D7 r => 55 :: digit_codes r | Decimal.D8 r => 56 :: digit_codes r
  | Decimal.D9 r => 57 :: digit_codes r
  end.

(* str(z) *)
Definition py_str_int (z : Z) : list N :=
  match Z.to_int z with
  | Decimal.Pos u => digit_codes u
  | Decimal.Neg u => 45 :: digit_codes u
  end.

(* str(x) of a leaf value *)
Definition py_str (a : atom) : option (list N) :=
  match a with
  | ANone => Some [78; 111; 110; 101]
  | ABool true => Some [84; 114; 117; 101]
  | ABool false => Some [70; 97; 108; 115; 101]
  | AInt z => Some (py_str_int z)
  | AStr s => Some s
  | AOpaque _ => None
  end.

(* s.lower(): ASCII; no non-ASCII character lower-cases to a letter of "false", so comparing with "false" is exact *)
Definition ascii_lower (s : list N) : list N := map (fun c => if (65 <=? c) && (c <=? 90) then c + 32 else c) s.

(* _get_config_value_raw under @no_default_value: dflt = None models _UNSET; result None = KeyError *)
Definition config_raw (sections : list (key * cv)) (section k : key) (dflt : option cv) : option cv :=
  match dget section sections with
  | Some (Node m) => match dget k m with
                     | Some v => Some (unwrap_default v)
                     | None => option_map unwrap_default dflt
                     end
  | _ => option_map unwrap_default dflt
  end.

(* get_config_value(section, key, default_value: Optional[str]) -> str *)
Definition config_value (sections : list (key * cv)) (section k : key) (dflt : option (list N)) : cfg_result (list N) :=
  match config_raw sections section k (option_map (fun s => Leaf false (AStr s)) dflt) with
  | None => CfgKeyError
  | Some (Leaf _ ANone) => CfgOk []                       (* "if we get None ... we wanted an empty string" *)
  | Some (Leaf _ a) => match py_str a with Some s => CfgOk s | None => CfgUnmodelled end
  | Some (Node _) => CfgUnmodelled
  end.

(* get_config_value_as_bool(section, key, default_value: bool) -> bool *)
Definition config_value_as_bool (sections : list (key * cv)) (section k : key) (dflt : bool) : cfg_result bool :=
  match config_value sections section k (Some (if dflt then [116; 114; 117; 101] else [102; 97; 108; 115; 101])) with
  | CfgOk result =>
      if str_eqb (ascii_lower result) [102; 97; 108; 115; 101] || str_eqb result [48] then CfgOk false
      else CfgOk (match result with [] => false | _ => true end)
  | CfgKeyError => CfgKeyError
  | CfgTypeError => CfgTypeError
  | CfgUnmodelled => CfgUnmodelled
  end.

(* get_config_value_as_dict(section, key, default_value: Optional[dict]) -> dict  (the stored dict itself) *)
Definition config_value_as_dict (sections : list (key * cv)) (section k : key) (dflt : option (list (key * cv)))
  : cfg_result (list (key * cv)) :=
  match config_raw sections section k (option_map Node dflt) with
  | None => CfgKeyError
  | Some (Node m) => CfgOk m
  | Some (Leaf _ _) => match dflt with None => CfgTypeError | Some d => CfgOk d end
  end.

(* Language.get_option(key, default): the raw entry of the validated options map (a DefaultValue stays wrapped) *)
Definition get_option (options : list (key * cv)) (k : key) (dflt : cv) : cv :=
  match dget k options with Some v => v | None => dflt end.

(* what the truth-table of get_config_value_as_bool is for each documented value form *)
Definition bool_table (a : atom) : option bool :=
  match a with
  | ANone => Some false
  | ABool b => Some b
  | AInt z => Some (negb (Z.eqb z 0))
  | AStr s => Some (negb (str_eqb (ascii_lower s) [102; 97; 108; 115; 101] || str_eqb s [48] || match s with [] => true | _ => false end))
  | AOpaque _ => None
  end.

(* ---- Language: options seen by templates ------------------------------------------------ *)

(* Language.__init__: self._language_options = self._validate_language_options(
       config.get_config_value_as_dict(section, "defaults", {}), config.get_config_value_as_dict(section, "options", {}))
   get_config_value_as_dict returns the dict stored in the section (the same object) or the {} default;
   a non-dict value with a non-None default returns the default.
   `validate` is the language's _validate_language_options on (defaults, options): the cpp one is
   Gen_C13.cpp_validate_language_options (translated), the py one py_validate, the base class the identity.
   The options dict is updated IN PLACE, i.e. the section's `options` entry changes too when it exists. *)
Inductive lang_kind := LkBase | LkCpp | LkPy.

Definition dict_or_empty (o : option cv) : list (key * cv) :=
  match o with Some (Node m) => m | _ => [] end.

(* py: options["enable_serialization_asserts"] = True *)
Definition py_validate (options : list (key * cv)) : list (key * cv) :=
  dset [101; 110; 97; 98; 108; 101; 95; 115; 101; 114; 105; 97; 108; 105; 122; 97; 116; 105; 111; 110; 95; 97; 115; 115; 101; 114; 116; 115]
       (Leaf false (ABool true)) options.

Definition validate (lk : lang_kind) (defaults options : list (key * cv)) : option (list (key * cv)) :=
  match lk with
  | LkBase => Some options
  | LkCpp => cpp_validate_language_options defaults options
  | LkPy => Some (py_validate options)
  end.

(* content of the options dict after the call, whether or not it raised (the dict is mutated in place
   before the later checks of the cpp validator can raise) *)
Definition validate_effect (lk : lang_kind) (defaults options : list (key * cv)) : list (key * cv) :=
  match lk with
  | LkBase => options
  | LkCpp => match dget cpp_key_std options with
             | Some sv => match cpp_apply_group defaults options sv with Some o => o | None => options end
             | None => options
             end
  | LkPy => py_validate options
  end.

(* (language options | None = the constructor raised, sections after the in-place update) *)
Definition language_init (lk : lang_kind) (sections : list (key * cv)) (section : key)
  : option (list (key * cv)) * list (key * cv) :=
  let sec := dict_or_empty (dget section sections) in
  let defaults := dict_or_empty (dget key_defaults sec) in
  let options := dict_or_empty (dget key_options sec) in
  (validate lk defaults options,
   match dget section sections, dget key_options sec with
   | Some (Node _), Some (Node _) =>
       dset section (Node (dset key_options (Node (validate_effect lk defaults options)) sec)) sections
   | _, _ => sections
   end).

(* ---- LanguageContextBuilder ----------------------------------------------------------- *)

Record builder := {
  b_sections : option (list (key * cv));   (* loader config; None = an update raised *)
  b_lang : option key;                     (* _target_language_name *)
  b_over : list (key * cv)                 (* _target_language_config *)
}.

Inductive bop :=
| AddFile (doc : cv)                       (* add_config_files(one parsed yaml document) *)
| SetOverride (k : key) (v : option cv)    (* set_target_language_configuration_override(k, v); None = Python None *)
| SetLanguage (l : option key).            (* set_target_language(l); None = Python None -> default language *)

Definition default_language : key := [99].   (* "c" *)

Definition bapply (b : builder) (op : bop) : builder :=
  match op with
  | AddFile doc =>
      {| b_sections := match b_sections b with
                       | Some s => config_update s (cv_items doc)
                       | None => None
                       end;
         b_lang := b_lang b; b_over := b_over b |}
  | SetOverride k (Some v) => {| b_sections := b_sections b; b_lang := b_lang b; b_over := dset k v (b_over b) |}
  | SetOverride k None => b
  | SetLanguage (Some l) => {| b_sections := b_sections b; b_lang := Some l; b_over := b_over b |}
  | SetLanguage None => {| b_sections := b_sections b; b_lang := Some default_language; b_over := b_over b |}
  end.

Definition section_of (lang : key) : key :=
  [110; 117; 110; 97; 118; 117; 116; 46; 108; 97; 110; 103; 46] ++ lang.   (* "nunavut.lang." ++ lang *)

(* _resolve_target_language: an explicit language wins; without one and without an `extension`
   override the default language is used (the inference from an `extension` override by searching
   the sections is not modelled: None) *)
Definition resolve_language (b : builder) : option key :=
  match b_lang b with
  | Some l => Some l
  | None => match dget [101; 120; 116; 101; 110; 115; 105; 111; 110] (b_over b) with   (* "extension" *)
            | None => Some default_language
            | Some _ => None
            end
  end.

(* create(): update the target language's section with the stored overrides (deep_update, so
   DefaultValue-marked overrides do not displace file values).  Returns the sections the new
   context reports (before the target Language object validates its options in place). *)
Definition bcreate (b : builder) : option (list (key * cv)) :=
  match b_sections b, resolve_language b with
  | Some s, Some l => Some (update_section s (section_of l) (Node (b_over b)))
  | _, _ => None
  end.

Definition lang_kind_of (l : key) : lang_kind :=
  if str_eqb l [99; 112; 112] then LkCpp else if str_eqb l [112; 121] then LkPy else LkBase.

(* create() as a state change of the builder: the overrides are merged into the builder's LanguageConfig in place; the
   target Language is constructed on the configuration the context will hold and validates its options dict in place
   there.  detach = Gen_C13.create_detaches_config: false = that configuration IS the builder's object, true = it is a
   deep copy taken after the merge.
   Result: (builder afterwards, sections the new context holds, Some options of the target language | None = create raised). *)
Definition bcreate_st (detach : bool) (b : builder) : builder * option (list (key * cv)) * option (list (key * cv)) :=
  match bcreate b, resolve_language b with
  | Some s, Some l =>
      let '(o, s') := language_init (lang_kind_of l) s (section_of l) in
      ({| b_sections := Some (if detach then s else s'); b_lang := b_lang b; b_over := b_over b |}, Some s', o)
  | _, _ => (b, None, None)
  end.

Definition new_builder (builtin : list (key * cv)) : builder :=
  {| b_sections := Some builtin; b_lang := None; b_over := [] |}.

(* what `create` is specified to depend on: the files in the order they were added, the
   final override map and the last language set *)
Fixpoint files_of (ops : list bop) : list cv :=
  match ops with
  | [] => []
  | AddFile d :: r => d :: files_of r
  | _ :: r => files_of r
  end.

Definition overrides_of (ops : list bop) (init : list (key * cv)) : list (key * cv) :=
  fold_left (fun acc op => match op with SetOverride k (Some v) => dset k v acc | _ => acc end) ops init.

Definition language_of (ops : list bop) (init : option key) : option key :=
  fold_left (fun acc op => match op with
                           | SetLanguage (Some l) => Some l
                           | SetLanguage None => Some default_language
                           | _ => acc end) ops init.

Definition merge_files (builtin : option (list (key * cv))) (files : list cv) : option (list (key * cv)) :=
  fold_left (fun acc d => match acc with Some s => config_update s (cv_items d) | None => None end) files builtin.

(* ---- CLI: ArgparseRunner._create_language_context as builder operations ------------------ *)

Definition cli_ops (arg : key -> option atom) (files : list cv) : list bop :=
  flat_map (fun c =>
    match c with
    | CliSetLanguage => [SetLanguage (match arg [116; 97; 114; 103; 101; 116; 95; 108; 97; 110; 103; 117; 97; 103; 101] with
                                      | Some (AStr l) => Some l | _ => None end)]     (* target_language *)
    | CliAddFiles => map AddFile files
    | CliOverrideArg k a => [SetOverride k (option_map (Leaf false) (arg a))]
    | CliOverrideOptions k => [SetOverride k (Some (Node (cli_language_options arg)))]
    | CliCreate => []
    end) cli_calls.

(* ---- observing a context completely ---------------------------------------------------------- *)

(* LanguageContext.get_supported_languages(): every section of the context's configuration is a language; the non-target
   ones are constructed on first use (their validators run in place on the context's configuration).  Result: the options
   every non-target language reports (None = its constructor raised), keyed by section name, and the sections afterwards. *)
Definition language_of_section (n : key) : key := skipn 13 n.     (* strip "nunavut.lang." *)

Fixpoint observe_langs (names : list key) (target : key) (s : list (key * cv))
  : list (key * option (list (key * cv))) * list (key * cv) :=
  match names with
  | [] => ([], s)
  | n :: r =>
      if str_eqb n target then observe_langs r target s
      else let '(o, s1) := language_init (lang_kind_of (language_of_section n)) s n in
           let '(os, s2) := observe_langs r target s1 in
           ((n, o) :: os, s2)
  end.

Definition observe_ctx (target : key) (s : list (key * cv)) : list (key * option (list (key * cv))) * list (key * cv) :=
  observe_langs (map fst s) target s.

(* ---- several builders in one process ------------------------------------------------------- *)

(* What a LanguageContext reports is the CURRENT content of the LanguageConfig object it holds: the builder's own object
   (CtxShared, create_detaches_config = false) or a private deep copy made by create() (CtxOwn).  Each LanguageContextBuilder()
   owns a fresh LanguageClassLoader whose config is parsed anew from the packaged yaml, so distinct builders share nothing. *)
Inductive pop :=
| PNew                           (* LanguageContextBuilder() *)
| POp (i : nat) (op : bop)       (* a builder call on builder i *)
| PCreate (i : nat).             (* builder i .create() *)

Inductive ctx :=
| CtxShared (i : nat)
| CtxOwn (s : list (key * cv)).

Record proc := { p_builders : list builder; p_ctxs : list ctx }.

Definition empty_proc : proc := {| p_builders := []; p_ctxs := [] |}.

Fixpoint upd_nth {A : Type} (i : nat) (f : A -> A) (l : list A) : list A :=
  match l, i with
  | [], _ => []
  | x :: r, O => f x :: r
  | x :: r, S i' => x :: upd_nth i' f r
  end.

Definition papply (detach : bool) (builtin : list (key * cv)) (p : proc) (o : pop) : proc :=
  match o with
  | PNew => {| p_builders := p_builders p ++ [new_builder builtin]; p_ctxs := p_ctxs p |}
  | POp i op => {| p_builders := upd_nth i (fun b => bapply b op) (p_builders p); p_ctxs := p_ctxs p |}
  | PCreate i =>
      match nth_error (p_builders p) i with
      | None => p
      | Some b =>
          let '(b', cs, o) := bcreate_st detach b in
          {| p_builders := upd_nth i (fun _ => b') (p_builders p);
             p_ctxs := match cs, o with
                       | Some s, Some _ => p_ctxs p ++ [if detach then CtxOwn s else CtxShared i]
                       | _, _ => p_ctxs p                 (* create raised: no context *)
                       end |}
      end
  end.

Definition prun (detach : bool) (builtin : list (key * cv)) (ops : list pop) (p : proc) : proc :=
  fold_left (papply detach builtin) ops p.

(* what context c reports now (None: no such context; Some None: its builder's configuration is in an error state) *)
Definition ctx_report (p : proc) (c : nat) : option (option (list (key * cv))) :=
  match nth_error (p_ctxs p) c with
  | Some (CtxOwn s) => Some (Some s)
  | Some (CtxShared i) => option_map b_sections (nth_error (p_builders p) i)
  | None => None
  end.

Definition pop_touches (i : nat) (o : pop) : bool :=
  match o with PNew => false | POp j _ => Nat.eqb i j | PCreate j => Nat.eqb i j end.

(* the ops leave alone the builder whose configuration context c shares (vacuous for a context with its own copy) *)
Definition ops_spare_ctx (p : proc) (c : nat) (ops : list pop) : bool :=
  match nth_error (p_ctxs p) c with
  | Some (CtxShared i) => Nat.ltb i (length (p_builders p)) && forallb (fun o => negb (pop_touches i o)) ops
  | Some (CtxOwn _) => true
  | None => false
  end.

Definition all_own (cs : list ctx) : bool := forallb (fun c => match c with CtxOwn _ => true | CtxShared _ => false end) cs.
