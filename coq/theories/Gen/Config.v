(* Value-level model of nunavut's configuration merge (C13):
     deep_update                         src/nunavut/_utilities.py
     LanguageConfig.update/update_section/_get_config_value_raw   src/nunavut/lang/_config.py
     LanguageContextBuilder              src/nunavut/lang/__init__.py
     Language.__init__ / cpp, py _validate_language_options        src/nunavut/lang/{_language,cpp/__init__,py/__init__}.py
     ArgparseRunner._create_language_context                       src/nunavut/cli/runners.py
   The leaf rule (DefaultValue.assign_to_if_not_default), the body of deep_update (as an
   open-recursion step), the option groups and the CLI wiring are TRANSLATED from the
   sources into Generated/Gen_C13.v on every run; this file ties the recursive knot and
   adds the hand-modelled layers above deep_update.  Object identity (aliasing, in-place
   mutation seen through another reference) is the subject of ConfigHeap.v.
   Executable definitions only; proofs live in ConfigThm.v. *)
From Verif Require Export ConfigBase Gen_C13.
Open Scope N_scope.

(* ---- deep_update --------------------------------------------------------------------- *)

(* one iteration of `for key, value in source.items()` on the current target dict *)
Definition du_item (rec : cv -> cv -> cv) (tm : list (key * cv)) (k : key) (v : cv) : list (key * cv) :=
  match v with
  | Node _ => dset k (rec (match dget k tm with Some x => x | None => Node [] end) v) tm
  | Leaf _ _ => cv_items (fst (DefaultValue_assign_to_if_not_default (Node tm) k v))
  end.

(* deep_update(target, source): structurally recursive on the source document.
   target Mapping: fold over the source items; target not a Mapping: copy.copy(source).
   A non-Mapping source under a Mapping target has no .items() in Python (AttributeError);
   it cannot arise in the recursion and is excluded at top level by `is_doc`. *)
Fixpoint du (t s : cv) {struct s} : cv :=
  match t with
  | Leaf _ _ => s
  | Node tm =>
      match s with
      | Leaf _ _ => t
      | Node sm =>
          Node ((fix go (sm : list (list N * cv)) (tm : list (list N * cv)) {struct sm} : list (list N * cv) :=
                   match sm with
                   | [] => tm
                   | (k, v) :: sm' =>
                       go sm'
                          (match v with
                           | Node _ => dset k (du (match dget k tm with Some x => x | None => Node [] end) v) tm
                           | Leaf _ _ => cv_items (fst (DefaultValue_assign_to_if_not_default (Node tm) k v))
                           end)
                   end) sm tm)
      end
  end.

(* merging a list of sources in order: `for s in sources: target = deep_update(target, s)` *)
Definition du_all (base : cv) (srcs : list cv) : cv := fold_left du srcs base.

(* ---- precedence specification (independent of the code's recursion) ------------------- *)

(* what a later mention `new` does to the current value `cur` of one key *)
Definition pick (cur : option cv) (new : option cv) : option cv :=
  match new with
  | None => cur
  | Some n =>
      match cur with
      | None => Some n
      | Some c => if is_default n && negb (is_default c) then Some c else Some n
      end
  end.

(* along path p the document has a mapping at every proper prefix (or stops mentioning the
   path) and, if it reaches the end, a leaf there: no leaf/mapping shape conflict on p *)
Fixpoint leafy_on (p : path) (v : cv) : bool :=
  match p with
  | [] => negb (is_mapping v)
  | k :: p' =>
      match v with
      | Node m => match dget k m with Some x => leafy_on p' x | None => true end
      | Leaf _ _ => false
      end
  end.

(* the source does not mention path p: some prefix of p ends at a mapping without the next key *)
Fixpoint untouched (p : path) (s : cv) : bool :=
  match p with
  | [] => false
  | k :: p' =>
      match s with
      | Node m => match dget k m with None => true | Some x => untouched p' x end
      | Leaf _ _ => false
      end
  end.

(* no DefaultValue anywhere (a YAML file cannot express one) *)
Fixpoint all_explicit (v : cv) : bool :=
  match v with
  | Leaf d _ => negb d
  | Node m => (fix go (m : list (list N * cv)) : bool :=
                 match m with [] => true | (_, x) :: m' => all_explicit x && go m' end) m
  end.

(* shape-conflict trigger of the aliasing defect (F-CFG-ALIAS): somewhere deep_update
   reaches a non-Mapping target value with a source mapping that itself contains a mapping
   (copy.copy then shares that inner mapping with the source document) *)
Definition has_inner_mapping (m : list (key * cv)) : bool := existsb (fun kv => is_mapping (snd kv)) m.

Fixpoint alias_trigger (t s : cv) {struct s} : bool :=
  match s with
  | Leaf _ _ => false
  | Node sm =>
      match t with
      | Leaf _ _ => has_inner_mapping sm
      | Node tm =>
          (fix go (sm : list (list N * cv)) : bool :=
             match sm with
             | [] => false
             | (k, v) :: sm' =>
                 (match v with
                  | Node _ => match dget k tm with Some x => alias_trigger x v | None => false end
                  | Leaf _ _ => false
                  end) || go sm'
             end) sm
      end
  end.

(* ---- LanguageConfig ------------------------------------------------------------------- *)

(* update_section: self._sections[name] = deep_update(self._sections.get(name, {}), configuration) *)
Definition update_section (sections : list (key * cv)) (name : key) (conf : cv) : list (key * cv) :=
  dset name (du (match dget name sections with Some x => x | None => Node [] end) conf) sections.

(* update(configuration): every top-level value must be a mapping (a scalar section has no
   .items(): None models the exception); section-name validation is not modelled (names are
   generated valid) *)
Fixpoint config_update (sections : list (key * cv)) (doc : list (key * cv)) : option (list (key * cv)) :=
  match doc with
  | [] => Some sections
  | (name, data) :: doc' =>
      if is_mapping data then config_update (update_section sections name data) doc' else None
  end.

(* _get_config_value_raw under @no_default_value (None = KeyError) *)
Definition get_config_value_raw (sections : list (key * cv)) (section k : key) : option cv :=
  match dget section sections with
  | Some (Node m) => option_map unwrap_default (dget k m)
  | _ => None
  end.

(* ---- LanguageContextBuilder ----------------------------------------------------------- *)

Record builder := {
  b_sections : option (list (key * cv));   (* loader config; None = an update raised *)
  b_lang : option key;                     (* _target_language_name *)
  b_over : list (key * cv)                 (* _target_language_config *)
}.

Inductive bop :=
| AddFile (doc : cv)                       (* add_config_files(one parsed yaml document) *)
| SetOverride (k : key) (v : option cv)    (* set_target_language_configuration_override(k, v); None = Python None *)
| SetLanguage (l : option key).            (* set_target_language(l); None = Python None -> default language *)

Definition default_language : key := [99].   (* "c" *)

Definition bapply (b : builder) (op : bop) : builder :=
  match op with
  | AddFile doc =>
      {| b_sections := match b_sections b with
                       | Some s => config_update s (cv_items doc)
                       | None => None
                       end;
         b_lang := b_lang b; b_over := b_over b |}
  | SetOverride k (Some v) => {| b_sections := b_sections b; b_lang := b_lang b; b_over := dset k v (b_over b) |}
  | SetOverride k None => b
  | SetLanguage (Some l) => {| b_sections := b_sections b; b_lang := Some l; b_over := b_over b |}
  | SetLanguage None => {| b_sections := b_sections b; b_lang := Some default_language; b_over := b_over b |}
  end.

Definition section_of (lang : key) : key :=
  [110; 117; 110; 97; 118; 117; 116; 46; 108; 97; 110; 103; 46] ++ lang.   (* "nunavut.lang." ++ lang *)

(* create(): update the target language's section with the stored overrides.  The target
   language must have been set (the inference from the file extension when it was not is not
   modelled). Returns the sections the new context reports. *)
Definition bcreate (b : builder) : option (list (key * cv)) :=
  match b_sections b, b_lang b with
  | Some s, Some l => Some (update_section s (section_of l) (Node (b_over b)))
  | _, _ => None
  end.

Definition new_builder (builtin : list (key * cv)) : builder :=
  {| b_sections := Some builtin; b_lang := None; b_over := [] |}.

(* what `create` is specified to depend on: the files in the order they were added, the
   final override map and the last language set *)
Fixpoint files_of (ops : list bop) : list cv :=
  match ops with
  | [] => []
  | AddFile d :: r => d :: files_of r
  | _ :: r => files_of r
  end.

Definition overrides_of (ops : list bop) (init : list (key * cv)) : list (key * cv) :=
  fold_left (fun acc op => match op with SetOverride k (Some v) => dset k v acc | _ => acc end) ops init.

Definition language_of (ops : list bop) (init : option key) : option key :=
  fold_left (fun acc op => match op with
                           | SetLanguage (Some l) => Some l
                           | SetLanguage None => Some default_language
                           | _ => acc end) ops init.

Definition merge_files (builtin : option (list (key * cv))) (files : list cv) : option (list (key * cv)) :=
  fold_left (fun acc d => match acc with Some s => config_update s (cv_items d) | None => None end) files builtin.

(* ---- Language: options seen by templates ------------------------------------------------ *)

(* cpp: `if language_standard in defaults: options.update(defaults[language_standard])`
   (None = ValueError because `std` is missing) *)
Definition atom_key (a : atom) : option key := match a with AStr s => Some s | _ => None end.

Definition cpp_validate (groups : list (key * list (key * cv))) (options : list (key * cv)) : option (list (key * cv)) :=
  match dget [115; 116; 100] options with            (* options["std"] *)
  | None => None
  | Some (Leaf _ a) =>
      match atom_key a with
      | Some std => match dget std groups with
                    | Some g => Some (dupdate options g)
                    | None => Some options
                    end
      | None => Some options
      end
  | Some (Node _) => Some options
  end.

(* py: options["enable_serialization_asserts"] = True *)
Definition py_validate (options : list (key * cv)) : list (key * cv) :=
  dset [101; 110; 97; 98; 108; 101; 95; 115; 101; 114; 105; 97; 108; 105; 122; 97; 116; 105; 111; 110; 95; 97; 115; 115; 101; 114; 116; 115]
       (Leaf false (ABool true)) options.

(* ---- CLI: ArgparseRunner._create_language_context as builder operations ------------------ *)

Definition cli_ops (arg : key -> option atom) (files : list cv) : list bop :=
  flat_map (fun c =>
    match c with
    | CliSetLanguage => [SetLanguage (match arg [116; 97; 114; 103; 101; 116; 95; 108; 97; 110; 103; 117; 97; 103; 101] with
                                      | Some (AStr l) => Some l | _ => None end)]     (* target_language *)
    | CliAddFiles => map AddFile files
    | CliOverrideArg k a => [SetOverride k (option_map (Leaf false) (arg a))]
    | CliOverrideOptions k => [SetOverride k (Some (Node (cli_language_options arg)))]
    | CliCreate => []
    end) cli_calls.
