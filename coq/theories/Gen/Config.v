(* Value-level model of nunavut's configuration merge (C13):
     deep_update                         src/nunavut/_utilities.py
     LanguageConfig.update/update_section/_get_config_value_raw   src/nunavut/lang/_config.py
     LanguageContextBuilder              src/nunavut/lang/__init__.py
     Language.__init__ / cpp, py _validate_language_options        src/nunavut/lang/{_language,cpp/__init__,py/__init__}.py
     ArgparseRunner._create_language_context                       src/nunavut/cli/runners.py
   The leaf rule (DefaultValue.assign_to_if_not_default), the body of deep_update (as an
   open-recursion step), the option groups and the CLI wiring are TRANSLATED from the
   sources into Generated/Gen_C13.v on every run; this file ties the recursive knot and
   adds the hand-modelled layers above deep_update.  Object identity (aliasing, in-place
   mutation seen through another reference) is the subject of ConfigAlias.v.
   Executable definitions only; proofs live in ConfigThm.v. *)
From Verif Require Export ConfigBase Gen_C13.
Open Scope N_scope.

(* ---- deep_update --------------------------------------------------------------------- *)

(* one iteration of `for key, value in source.items()` on the current target dict *)
Definition du_item (rec : cv -> cv -> cv) (tm : list (key * cv)) (k : key) (v : cv) : list (key * cv) :=
  match v with
  | Node _ => dset k (rec (match dget k tm with Some x => x | None => Node [] end) v) tm
  | Leaf _ _ => cv_items (fst (DefaultValue_assign_to_if_not_default (Node tm) k v))
  end.

(* deep_update(target, source): structurally recursive on the source document.
   target Mapping: fold over the source items; target not a Mapping: copy.copy(source).
   A non-Mapping source under a Mapping target has no .items() in Python (AttributeError);
   it cannot arise in the recursion and is excluded at top level by `is_doc`. *)
Fixpoint du (t s : cv) {struct s} : cv :=
  match t with
  | Leaf _ _ => s
  | Node tm =>
      match s with
      | Leaf _ _ => t
      | Node sm =>
          Node ((fix go (sm : list (list N * cv)) (tm : list (list N * cv)) {struct sm} : list (list N * cv) :=
                   match sm with
                   | [] => tm
                   | (k, v) :: sm' =>
                       go sm'
                          (match v with
                           | Node _ => dset k (du (match dget k tm with Some x => x | None => Node [] end) v) tm
                           | Leaf _ _ => cv_items (fst (DefaultValue_assign_to_if_not_default (Node tm) k v))
                           end)
                   end) sm tm)
      end
  end.

(* merging a list of sources in order: `for s in sources: target = deep_update(target, s)` *)
Definition du_all (base : cv) (srcs : list cv) : cv := fold_left du srcs base.

(* the loop of deep_update as a top-level function of the recursive call (ConfigThm.du_node:
   du (Node tm) (Node sm) = Node (du_fold du sm tm)) *)
Fixpoint du_fold (rec : cv -> cv -> cv) (sm tm : list (key * cv)) {struct sm} : list (key * cv) :=
  match sm with
  | [] => tm
  | (k, v) :: sm' => du_fold rec sm' (du_item rec tm k v)
  end.

(* ---- precedence specification (independent of the code's recursion) ------------------- *)

(* the binding of one key after a leaf `v` was offered to it (cur = binding before) *)
Definition leaf_rule (cur : option cv) (v : cv) : cv :=
  match cur with
  | Some c => if is_default v && negb (is_default c) then c else v
  | None => v
  end.

(* per-key law of one deep_update: binding of a key of the target after the merge, from its
   binding before (cur) and the source's binding (new) *)
Definition merge1 (cur new : option cv) : option cv :=
  match new with
  | None => cur
  | Some (Node m) => Some (du (match cur with Some c => c | None => Node [] end) (Node m))
  | Some (Leaf d a) => Some (leaf_rule cur (Leaf d a))
  end.

(* mention of a path by a document: None / a leaf *)
Definition is_leaf_opt (o : option cv) : bool :=
  match o with None => true | Some (Leaf _ _) => true | Some (Node _) => false end.

(* what a later mention `new` does to the current value `cur` of one key *)
Definition pick (cur : option cv) (new : option cv) : option cv :=
  match new with
  | None => cur
  | Some n =>
      match cur with
      | None => Some n
      | Some c => if is_default n && negb (is_default c) then Some c else Some n
      end
  end.

(* along path p the document has a mapping at every proper prefix (or stops mentioning the
   path) and, if it reaches the end, a leaf there: no leaf/mapping shape conflict on p *)
Fixpoint leafy_on (p : path) (v : cv) : bool :=
  match p with
  | [] => negb (is_mapping v)
  | k :: p' =>
      match v with
      | Node m => match dget k m with Some x => leafy_on p' x | None => true end
      | Leaf _ _ => false
      end
  end.

(* the source does not mention path p: some prefix of p ends at a mapping without the next key *)
Fixpoint untouched (p : path) (s : cv) : bool :=
  match p with
  | [] => false
  | k :: p' =>
      match s with
      | Node m => match dget k m with None => true | Some x => untouched p' x end
      | Leaf _ _ => false
      end
  end.

(* no DefaultValue anywhere (a YAML file cannot express one) *)
Fixpoint all_explicit (v : cv) : bool :=
  match v with
  | Leaf d _ => negb d
  | Node m => (fix go (m : list (list N * cv)) : bool :=
                 match m with [] => true | (_, x) :: m' => all_explicit x && go m' end) m
  end.

(* shape-conflict trigger of the aliasing defect (F-CFG-ALIAS): somewhere deep_update
   reaches a non-Mapping target value with a source mapping that itself contains a mapping
   (copy.copy then shares that inner mapping with the source document) *)
Definition has_inner_mapping (m : list (key * cv)) : bool := existsb (fun kv => is_mapping (snd kv)) m.

Fixpoint alias_trigger (t s : cv) {struct s} : bool :=
  match s with
  | Leaf _ _ => false
  | Node sm =>
      match t with
      | Leaf _ _ => has_inner_mapping sm
      | Node tm =>
          (fix go (sm : list (list N * cv)) : bool :=
             match sm with
             | [] => false
             | (k, v) :: sm' =>
                 (match v with
                  | Node _ => match dget k tm with Some x => alias_trigger x v | None => false end
                  | Leaf _ _ => false
                  end) || go sm'
             end) sm
      end
  end.

(* ---- LanguageConfig ------------------------------------------------------------------- *)

(* update_section: self._sections[name] = deep_update(self._sections.get(name, {}), configuration) *)
Definition update_section (sections : list (key * cv)) (name : key) (conf : cv) : list (key * cv) :=
  dset name (du (match dget name sections with Some x => x | None => Node [] end) conf) sections.

(* update(configuration): every top-level value must be a mapping (a scalar section has no
   .items(): None models the exception); section-name validation is not modelled (names are
   generated valid) *)
Fixpoint config_update (sections : list (key * cv)) (doc : list (key * cv)) : option (list (key * cv)) :=
  match doc with
  | [] => Some sections
  | (name, data) :: doc' =>
      if is_mapping data then config_update (update_section sections name data) doc' else None
  end.

(* _get_config_value_raw under @no_default_value (None = KeyError) *)
Definition get_config_value_raw (sections : list (key * cv)) (section k : key) : option cv :=
  match dget section sections with
  | Some (Node m) => option_map unwrap_default (dget k m)
  | _ => None
  end.

(* ---- LanguageConfig getters and their coercions --------------------------------------------------------------
   _get_config_value_raw (under @no_default_value), get_config_value, get_config_value_as_bool, get_config_value_as_list
   and get_config_value_as_dict are TRANSLATED statement by statement into Generated/Gen_C13.v (names LanguageConfig_...), over
   the Python-value domain `pyv` and the exception monad `cfg_result` of ConfigBase.v.  Here: typed views of them. *)

Definition pv_str (s : list N) : pyv := PV (Leaf false (AStr s)).
Definition pv_none : pyv := PV (Leaf false ANone).
Definition pv_bool (b : bool) : pyv := PV (Leaf false (ABool b)).

Definition res_map {A B : Type} (f : A -> cfg_result B) (r : cfg_result A) : cfg_result B := rbind r f.

(* _get_config_value_raw(section, key, default): dflt = None models the _UNSET sentinel; result None = KeyError *)
Definition config_raw (sections : list (key * cv)) (section k : key) (dflt : option cv) : option cv :=
  match LanguageConfig__get_config_value_raw sections (pv_str section) (pv_str k)
          (match dflt with Some d => PV d | None => PUnset end) with
  | CfgOk (PV v) => Some v
  | _ => None
  end.

(* get_config_value(section, key, default_value: Optional[str]) -> str *)
Definition config_value (sections : list (key * cv)) (section k : key) (dflt : option (list N)) : cfg_result (list N) :=
  res_map (fun r => match r with PV (Leaf _ (AStr s)) => CfgOk s | _ => CfgUnmodelled end)
          (LanguageConfig_get_config_value sections (pv_str section) (pv_str k)
             (match dflt with Some d => pv_str d | None => pv_none end)).

(* get_config_value_as_bool(section, key, default_value: bool) -> bool *)
Definition config_value_as_bool (sections : list (key * cv)) (section k : key) (dflt : bool) : cfg_result bool :=
  res_map (fun r => match r with PV (Leaf _ (ABool b)) => CfgOk b | _ => CfgUnmodelled end)
          (LanguageConfig_get_config_value_as_bool sections (pv_str section) (pv_str k) (pv_bool dflt)).

(* get_config_value_as_dict(section, key, default_value: Optional[dict]) -> dict  (the stored dict itself) *)
Definition config_value_as_dict (sections : list (key * cv)) (section k : key) (dflt : option (list (key * cv)))
  : cfg_result (list (key * cv)) :=
  res_map (fun r => match r with PV (Node m) => CfgOk m | _ => CfgUnmodelled end)
          (LanguageConfig_get_config_value_as_dict sections (pv_str section) (pv_str k)
             (match dflt with Some d => PV (Node d) | None => pv_none end)).

(* get_config_value_as_list(section, key, default_value: Optional[list]) -> list  (lists are atoms `AList id`) *)
Definition config_value_as_list (sections : list (key * cv)) (section k : key) (dflt : option N) : cfg_result N :=
  res_map (fun r => match r with PV (Leaf _ (AList i)) => CfgOk i | _ => CfgUnmodelled end)
          (LanguageConfig_get_config_value_as_list sections (pv_str section) (pv_str k)
             (match dflt with Some i => PV (Leaf false (AList i)) | None => pv_none end)).

(* Language.get_option(key, default): the raw entry of the validated options map (a DefaultValue stays wrapped) *)
Definition get_option (options : list (key * cv)) (k : key) (dflt : cv) : cv :=
  match dget k options with Some v => v | None => dflt end.

(* what the truth-table of get_config_value_as_bool is for each documented value form *)
Definition bool_table (a : atom) : option bool :=
  match a with
  | ANone => Some false
  | ABool b => Some b
  | AInt z => Some (negb (Z.eqb z 0))
  | AStr s => Some (negb (str_eqb (ascii_lower s) [102; 97; 108; 115; 101] || str_eqb s [48] || match s with [] => true | _ => false end))
  | AOpaque _ => None
  | AList _ => None
  end.

(* ---- Language: options seen by templates ------------------------------------------------ *)

(* Language.__init__: self._language_options = self._validate_language_options(
       config.get_config_value_as_dict(section, "defaults", {}), config.get_config_value_as_dict(section, "options", {}))
   get_config_value_as_dict returns the dict stored in the section (the same object) or the {} default;
   a non-dict value with a non-None default returns the default.
   `validate` is the language's _validate_language_options on (defaults, options): the cpp one is
   Gen_C13.cpp_validate_language_options (translated), the py one py_validate, the base class the identity.
   The options dict is updated IN PLACE, i.e. the section's `options` entry changes too when it exists. *)
Inductive lang_kind := LkBase | LkCpp | LkPy.

Definition dict_or_empty (o : option cv) : list (key * cv) :=
  match o with Some (Node m) => m | _ => [] end.

(* py: options["enable_serialization_asserts"] = True *)
Definition py_validate (options : list (key * cv)) : list (key * cv) :=
  dset [101; 110; 97; 98; 108; 101; 95; 115; 101; 114; 105; 97; 108; 105; 122; 97; 116; 105; 111; 110; 95; 97; 115; 115; 101; 114; 116; 115]
       (Leaf false (ABool true)) options.

Definition validate (lk : lang_kind) (defaults options : list (key * cv)) : option (list (key * cv)) :=
  match lk with
  | LkBase => Some options
  | LkCpp => cpp_validate_language_options defaults options
  | LkPy => Some (py_validate options)
  end.

(* content of the options dict after the call, whether or not it raised (the dict is mutated in place
   before the later checks of the cpp validator can raise) *)
Definition validate_effect (lk : lang_kind) (defaults options : list (key * cv)) : list (key * cv) :=
  match lk with
  | LkBase => options
  | LkCpp => match dget cpp_key_std options with
             | Some sv => match cpp_apply_group defaults options sv with Some o => o | None => options end
             | None => options
             end
  | LkPy => py_validate options
  end.

(* (language options | None = the constructor raised, sections after the in-place update) *)
Definition language_init (lk : lang_kind) (sections : list (key * cv)) (section : key)
  : option (list (key * cv)) * list (key * cv) :=
  let sec := dict_or_empty (dget section sections) in
  let defaults := dict_or_empty (dget key_defaults sec) in
  let options := dict_or_empty (dget key_options sec) in
  (validate lk defaults options,
   match dget section sections, dget key_options sec with
   | Some (Node _), Some (Node _) =>
       dset section (Node (dset key_options (Node (validate_effect lk defaults options)) sec)) sections
   | _, _ => sections
   end).

(* ---- LanguageContextBuilder ----------------------------------------------------------- *)

Record builder := {
  b_sections : option (list (key * cv));   (* loader config; None = an update raised *)
  b_lang : option key;                     (* _target_language_name *)
  b_over : list (key * cv)                 (* _target_language_config *)
}.

Inductive bop :=
| AddFile (doc : cv)                       (* add_config_files(one parsed yaml document) *)
| SetOverride (k : key) (v : option cv)    (* set_target_language_configuration_override(k, v); None = Python None *)
| SetLanguage (l : option key).            (* set_target_language(l); None = Python None -> default language *)

Definition default_language : key := [99].   (* "c" *)

Definition bapply (b : builder) (op : bop) : builder :=
  match op with
  | AddFile doc =>
      {| b_sections := match b_sections b with
                       | Some s => config_update s (cv_items doc)
                       | None => None
                       end;
         b_lang := b_lang b; b_over := b_over b |}
  | SetOverride k (Some v) => {| b_sections := b_sections b; b_lang := b_lang b; b_over := dset k v (b_over b) |}
  | SetOverride k None => b
  | SetLanguage (Some l) => {| b_sections := b_sections b; b_lang := Some l; b_over := b_over b |}
  | SetLanguage None => {| b_sections := b_sections b; b_lang := Some default_language; b_over := b_over b |}
  end.

Definition section_of (lang : key) : key :=
  [110; 117; 110; 97; 118; 117; 116; 46; 108; 97; 110; 103; 46] ++ lang.   (* "nunavut.lang." ++ lang *)

(* _resolve_target_language: an explicit language wins; without one and without an `extension`
   override the default language is used (the inference from an `extension` override by searching
   the sections is not modelled: None) *)
Definition resolve_language (b : builder) : option key :=
  match b_lang b with
  | Some l => Some l
  | None => match dget [101; 120; 116; 101; 110; 115; 105; 111; 110] (b_over b) with   (* "extension" *)
            | None => Some default_language
            | Some _ => None
            end
  end.

(* create(): update the target language's section with the stored overrides (deep_update, so
   DefaultValue-marked overrides do not displace file values).  Returns the sections the new
   context reports (before the target Language object validates its options in place). *)
Definition bcreate (b : builder) : option (list (key * cv)) :=
  match b_sections b, resolve_language b with
  | Some s, Some l => Some (update_section s (section_of l) (Node (b_over b)))
  | _, _ => None
  end.

Definition lang_kind_of (l : key) : lang_kind :=
  if str_eqb l [99; 112; 112] then LkCpp else if str_eqb l [112; 121] then LkPy else LkBase.

(* create() as a state change of the builder: the overrides are merged into the builder's LanguageConfig in place; the
   target Language is constructed on the configuration the context will hold and validates its options dict in place
   there.  detach = Gen_C13.create_detaches_config: false = that configuration IS the builder's object, true = it is a
   deep copy taken after the merge.
   Result: (builder afterwards, sections the new context holds, Some options of the target language | None = create raised). *)
Fixpoint strip_markers (v : cv) : cv :=
  match v with
  | Leaf _ a => Leaf false a
  | Node m => Node (map (fun kv => (fst kv, strip_markers (snd kv))) m)
  end.

(* `_strip_default_markers` on the sections of the context's copy (Gen_C13.create_strips_default_markers: is it there?) *)
Definition strip_sections (s : list (key * cv)) : list (key * cv) := map (fun kv => (fst kv, strip_markers (snd kv))) s.

Definition bcreate_st (detach : bool) (b : builder) : builder * option (list (key * cv)) * option (list (key * cv)) :=
  match bcreate b, resolve_language b with
  | Some s, Some l =>
      let sc := if detach && create_strips_default_markers then strip_sections s else s in   (* the context's copy *)
      let '(o, s') := language_init (lang_kind_of l) sc (section_of l) in
      ({| b_sections := Some (if detach then s else s'); b_lang := b_lang b; b_over := b_over b |}, Some s', o)
  | _, _ => (b, None, None)
  end.

Definition new_builder (builtin : list (key * cv)) : builder :=
  {| b_sections := Some builtin; b_lang := None; b_over := [] |}.

(* what `create` is specified to depend on: the files in the order they were added, the
   final override map and the last language set *)
Fixpoint files_of (ops : list bop) : list cv :=
  match ops with
  | [] => []
  | AddFile d :: r => d :: files_of r
  | _ :: r => files_of r
  end.

Definition overrides_of (ops : list bop) (init : list (key * cv)) : list (key * cv) :=
  fold_left (fun acc op => match op with SetOverride k (Some v) => dset k v acc | _ => acc end) ops init.

Definition language_of (ops : list bop) (init : option key) : option key :=
  fold_left (fun acc op => match op with
                           | SetLanguage (Some l) => Some l
                           | SetLanguage None => Some default_language
                           | _ => acc end) ops init.

Definition merge_files (builtin : option (list (key * cv))) (files : list cv) : option (list (key * cv)) :=
  fold_left (fun acc d => match acc with Some s => config_update s (cv_items d) | None => None end) files builtin.

(* ---- CLI: ArgparseRunner._create_language_context as builder operations ------------------ *)

Definition cli_ops (arg : key -> option atom) (files : list cv) : list bop :=
  flat_map (fun c =>
    match c with
    | CliSetLanguage => [SetLanguage (match arg [116; 97; 114; 103; 101; 116; 95; 108; 97; 110; 103; 117; 97; 103; 101] with
                                      | Some (AStr l) => Some l | _ => None end)]     (* target_language *)
    | CliAddFiles => map AddFile files
    | CliOverrideArg k a => [SetOverride k (option_map (Leaf false) (arg a))]
    | CliOverrideOptions k => [SetOverride k (Some (Node (cli_language_options arg)))]
    | CliCreate => []
    end) cli_calls.

(* ---- observing a context completely ---------------------------------------------------------- *)

(* LanguageContext.get_supported_languages(): every section of the context's configuration is a language; the non-target
   ones are constructed on first use (their validators run in place on the context's configuration).  Result: the options
   every non-target language reports (None = its constructor raised), keyed by section name, and the sections afterwards. *)
Definition language_of_section (n : key) : key := skipn 13 n.     (* strip "nunavut.lang." *)

Fixpoint observe_langs (names : list key) (target : key) (s : list (key * cv))
  : list (key * option (list (key * cv))) * list (key * cv) :=
  match names with
  | [] => ([], s)
  | n :: r =>
      if str_eqb n target then observe_langs r target s
      else let '(o, s1) := language_init (lang_kind_of (language_of_section n)) s n in
           let '(os, s2) := observe_langs r target s1 in
           ((n, o) :: os, s2)
  end.

Definition observe_ctx (target : key) (s : list (key * cv)) : list (key * option (list (key * cv))) * list (key * cv) :=
  observe_langs (map fst s) target s.

(* ---- several builders in one process: object identity of the LanguageConfig objects ------------------ *)

(* LanguageConfig objects live in a heap (location = index into p_cfgs; None = an update raised).  A builder holds the
   location of ITS LanguageConfig (a fresh object: every LanguageContextBuilder() owns a new LanguageClassLoader that parses
   the packaged yaml anew), a context holds the location of the LanguageConfig it was given by create():
     create_detaches_config = true : a fresh object holding a deep copy (`_detached_builder`),
     create_detaches_config = false: the builder's own object.
   Everything a context reports is read from that object NOW.  Writes: builder calls write the builder's object, create()
   writes the builder's object (overrides merged) and the object given to the context (options validated in place),
   get_supported_languages() on a context writes the context's object (non-target languages validate in place). *)
Inductive pop :=
| PNew                           (* LanguageContextBuilder() *)
| POp (i : nat) (op : bop)       (* a builder call on builder i *)
| PCreate (i : nat)              (* builder i .create() *)
| PObserve (c : nat).            (* context c .get_supported_languages() (first use constructs the non-target languages) *)

Record hbuilder := { hb_cfg : nat; hb_lang : option key; hb_over : list (key * cv) }.
Record hctx := { hc_cfg : nat; hc_target : key }.      (* hc_target: section name of the target language *)
Record proc := { p_cfgs : list (option (list (key * cv))); p_builders : list hbuilder; p_ctxs : list hctx }.

Definition empty_proc : proc := {| p_cfgs := []; p_builders := []; p_ctxs := [] |}.

Fixpoint upd_nth {A : Type} (i : nat) (f : A -> A) (l : list A) : list A :=
  match l, i with
  | [], _ => []
  | x :: r, O => f x :: r
  | x :: r, S i' => x :: upd_nth i' f r
  end.

Definition read_cfg (cfgs : list (option (list (key * cv)))) (l : nat) : option (list (key * cv)) :=
  match nth_error cfgs l with Some s => s | None => None end.

(* the builder as the value-level record the builder-layer functions work on *)
Definition view (p : proc) (hb : hbuilder) : builder :=
  {| b_sections := read_cfg (p_cfgs p) (hb_cfg hb); b_lang := hb_lang hb; b_over := hb_over hb |}.

Definition papply (detach : bool) (builtin : list (key * cv)) (p : proc) (o : pop) : proc :=
  match o with
  | PNew =>
      {| p_cfgs := p_cfgs p ++ [Some builtin];
         p_builders := p_builders p ++ [{| hb_cfg := length (p_cfgs p); hb_lang := None; hb_over := [] |}];
         p_ctxs := p_ctxs p |}
  | POp i op =>
      match nth_error (p_builders p) i with
      | None => p
      | Some hb =>
          let b' := bapply (view p hb) op in
          {| p_cfgs := upd_nth (hb_cfg hb) (fun _ => b_sections b') (p_cfgs p);
             p_builders := upd_nth i (fun _ => {| hb_cfg := hb_cfg hb; hb_lang := b_lang b'; hb_over := b_over b' |}) (p_builders p);
             p_ctxs := p_ctxs p |}
      end
  | PCreate i =>
      match nth_error (p_builders p) i with
      | None => p
      | Some hb =>
          let '(b', cs, o) := bcreate_st detach (view p hb) in
          let cfgs1 := upd_nth (hb_cfg hb) (fun _ => b_sections b') (p_cfgs p) in
          match cs, o, resolve_language (view p hb) with
          | Some s, Some _, Some l =>
              if detach
              then {| p_cfgs := cfgs1 ++ [Some s]; p_builders := p_builders p;
                      p_ctxs := p_ctxs p ++ [{| hc_cfg := length cfgs1; hc_target := section_of l |}] |}
              else {| p_cfgs := cfgs1; p_builders := p_builders p;
                      p_ctxs := p_ctxs p ++ [{| hc_cfg := hb_cfg hb; hc_target := section_of l |}] |}
          | _, _, _ => {| p_cfgs := cfgs1; p_builders := p_builders p; p_ctxs := p_ctxs p |}     (* create raised: no context *)
          end
      end
  | PObserve c =>
      match nth_error (p_ctxs p) c with
      | None => p
      | Some x =>
          {| p_cfgs := upd_nth (hc_cfg x) (option_map (fun s => snd (observe_ctx (hc_target x) s))) (p_cfgs p);
             p_builders := p_builders p; p_ctxs := p_ctxs p |}
      end
  end.

Definition prun (detach : bool) (builtin : list (key * cv)) (ops : list pop) (p : proc) : proc :=
  fold_left (papply detach builtin) ops p.

(* what context c reports now: the content of the LanguageConfig object it holds (None: no such context) *)
Definition ctx_report (p : proc) (c : nat) : option (option (list (key * cv))) :=
  match nth_error (p_ctxs p) c with
  | Some x => nth_error (p_cfgs p) (hc_cfg x)
  | None => None
  end.

(* the only operation allowed to change what context c reports: its own lazy construction of the non-target languages *)
Definition pop_observes (c : nat) (o : pop) : bool :=
  match o with PObserve c' => Nat.eqb c c' | _ => false end.
