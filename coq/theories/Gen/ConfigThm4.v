(* C13 proofs, part 5: the end-to-end chain  built-in < file_1 < ... < file_n < overrides  (builder layer = du_all),
   and the EFFECTIVE option: what Language.get_option / templates see after Language.__init__ validated the options. *)
From Verif Require Import Config ConfigThm ConfigThm2.
Require Import Lia Bool List.
Import ListNotations.
Open Scope N_scope.

(* ---- the builder layer is deep_update folded over the documents --------------------------------------- *)
Lemma config_update_du doc : forall s s', config_update s doc = Some s' -> s' = du_fold du doc s.
Proof.
  induction doc as [|[name data] doc IH]; intros s s' H; cbn [config_update du_fold] in *.
  - inversion H. reflexivity.
  - destruct data as [d a|m]; cbn [is_mapping] in H; [discriminate|].
    rewrite (IH _ _ H). reflexivity.
Qed.

Lemma merge_files_none files : merge_files None files = None.
Proof. unfold merge_files. induction files; [reflexivity|exact IHfiles]. Qed.

(* LanguageConfig.update of each file in turn = deep_update of the whole sections table with each document *)
Theorem merge_files_is_du_all files : forall b s,
  merge_files (Some b) files = Some s -> Node s = du_all (Node b) files.
Proof.
  unfold du_all. induction files as [|d files IH]; intros b s H.
  - inversion H. reflexivity.
  - unfold merge_files in H. cbn [fold_left] in *. fold (merge_files (config_update b (cv_items d)) files) in H.
    destruct (config_update b (cv_items d)) as [b1|] eqn:E; [|rewrite merge_files_none in H; discriminate].
    rewrite (IH _ _ H). f_equal.
    apply config_update_du in E. subst b1.
    destruct d as [d0 a|m]; [reflexivity | rewrite du_node; reflexivity].
Qed.

(* the document create() merges last: {<target section>: <override map>} *)
Definition override_doc (l : list N) (over : list (list N * cv)) : cv := Node [(section_of l, Node over)].

Lemma update_section_is_du s name over :
  Node (update_section s name (Node over)) = du (Node s) (Node [(name, Node over)]).
Proof. rewrite du_node. reflexivity. Qed.

(* END-TO-END: what create() yields is deep_update folded over  built-in, file_1 .. file_n (in the order they were added,
   whatever was interleaved), and finally the override map -- for every sequence of builder calls *)
Theorem end_to_end_chain builtin ops s' :
  bcreate (fold_left bapply ops (new_builder builtin)) = Some s' ->
  exists l, resolve_language (canonical_builder builtin (files_of ops) (overrides_of ops []) (language_of ops None)) = Some l
            /\ Node s' = du_all (Node builtin) (files_of ops ++ [override_doc l (overrides_of ops [])]).
Proof.
  rewrite builder_canonical. unfold bcreate. cbn [b_sections canonical_builder b_over].
  destruct (merge_files (Some builtin) (files_of ops)) as [s|] eqn:M; [|discriminate].
  destruct (resolve_language _) as [l|]; [|discriminate].
  intros H. inversion H; subst s'. exists l. split; [reflexivity|].
  unfold du_all. rewrite fold_left_app. cbn [fold_left].
  fold (du_all (Node builtin) (files_of ops)). rewrite <- (merge_files_is_du_all _ _ _ M).
  apply update_section_is_du.
Qed.

(* ... hence ONE precedence for every key path: fold of `pick` over built-in, the files in order, the overrides.
   `pick` = a later explicit value wins; a DefaultValue never displaces an existing explicit value; a later default
   replaces an earlier default. *)
Theorem end_to_end_precedence builtin ops s' p :
  bcreate (fold_left bapply ops (new_builder builtin)) = Some s' ->
  p <> [] ->
  Forall (fun d => is_doc d = true) (files_of ops) -> wf (Node (overrides_of ops [])) = true ->
  leafy_on p (Node builtin) = true -> Forall (fun d => leafy_on p d = true) (files_of ops) ->
  (forall l, leafy_on p (override_doc l (overrides_of ops [])) = true) ->
  exists l,
    lookup p (Node s') =
    pick (fold_left pick (map (lookup p) (files_of ops)) (lookup p (Node builtin)))
         (lookup p (override_doc l (overrides_of ops []))).
Proof.
  intros C Hp Hd Hw Lb Lf Lo. destruct (end_to_end_chain _ _ _ C) as (l & _ & E).
  exists l. rewrite E.
  rewrite lookup_after_merge; try assumption; try reflexivity.
  - rewrite map_app, fold_left_app. reflexivity.
  - apply Forall_app. split; [exact Hd|]. constructor; [|constructor].
    unfold is_doc, override_doc. cbn [is_mapping andb]. rewrite wf_node. cbn [dnodup dmem dget forallb snd negb andb].
    rewrite Hw. reflexivity.
  - apply Forall_app. split; [exact Lf|]. constructor; [apply Lo|constructor].
Qed.

(* a DefaultValue-marked override (CLI flag not given) never displaces what built-in + files made explicit *)
Corollary chain_default_override_never_displaces cur a b :
  pick (Some (Leaf false a)) (Some (Leaf true b)) = Some (Leaf false a)
  /\ pick cur (Some (Leaf false a)) = Some (Leaf false a)
  /\ pick cur None = cur.
Proof. repeat split; destruct cur; reflexivity. Qed.

(* ---- the effective option ------------------------------------------------------------------------------ *)
(* the option as merged from the sources (what the chain above computes at [section; "options"; k]) *)
Definition merged_option (sections : list (list N * cv)) (sec k : list N) : option cv :=
  dget k (dict_or_empty (dget key_options (dict_or_empty (dget sec sections)))).

Lemma merged_option_is_lookup sections sec k :
  merged_option sections sec k = lookup [sec; key_options; k] (Node sections).
Proof.
  unfold merged_option. cbn [lookup].
  destruct (dget sec sections) as [[d a|m]|]; cbn [dict_or_empty dget]; try reflexivity.
  destruct (dget key_options m) as [[d a|om]|]; cbn [dict_or_empty dget]; try reflexivity.
  destruct (dget k om); reflexivity.
Qed.

(* cpp: the option group selected by the MERGED value of `std`, looked up in the MERGED `defaults` of the section *)
Definition selected_group (sections : list (list N * cv)) (sec : list N) : option (list (list N * cv)) :=
  match merged_option sections sec cpp_key_std with
  | Some sv => match cv_str sv with
               | Some std => match dget std (dict_or_empty (dget key_defaults (dict_or_empty (dget sec sections)))) with
                             | Some (Node g) => Some g
                             | _ => None
                             end
               | None => None
               end
  | None => None
  end.

Definition key_esa : list N :=
  [101; 110; 97; 98; 108; 101; 95; 115; 101; 114; 105; 97; 108; 105; 122; 97; 116; 105; 111; 110; 95; 97; 115; 115; 101; 114; 116; 115].

(* What Language.get_option(k) / `options.k` in a template is, for EVERY key, after Language.__init__:
   the merged value, EXCEPT  (cpp) the keys of the group selected by `std`, which take the group's value whatever any
   source said explicitly, and (py) enable_serialization_asserts, which is forced to True. *)
Definition effective_option (lk : lang_kind) (sections : list (list N * cv)) (sec k : list N) : option cv :=
  match lk with
  | LkBase => merged_option sections sec k
  | LkPy => if str_eqb k key_esa then Some (Leaf false (ABool true)) else merged_option sections sec k
  | LkCpp => match selected_group sections sec with
             | Some g => match dget k g with Some v => Some v | None => merged_option sections sec k end
             | None => merged_option sections sec k
             end
  end.

Theorem effective_option_after_init lk sections sec opts :
  fst (language_init lk sections sec) = Some opts ->
  (forall g, selected_group sections sec = Some g -> dnodup g = true) ->
  forall k, dget k opts = effective_option lk sections sec k.
Proof.
  unfold language_init. cbn [fst]. intros V Hn k.
  unfold effective_option, selected_group, merged_option in *.
  set (options := dict_or_empty (dget key_options (dict_or_empty (dget sec sections)))) in *.
  set (defaults := dict_or_empty (dget key_defaults (dict_or_empty (dget sec sections)))) in *.
  destruct lk; cbn [validate] in V.
  - inversion V. reflexivity.
  - (* cpp *)
    destruct (dget cpp_key_std options) as [sv|] eqn:Hs.
    + destruct (cv_str sv) as [std|] eqn:Hc.
      * destruct (dget std defaults) as [[d a|g]|] eqn:Hg.
        -- unfold cpp_validate_language_options, cpp_apply_group in V. rewrite Hs, Hc, Hg in V. discriminate.
        -- apply (cpp_std_shorthand_unit defaults options opts sv std g Hs Hc Hg (Hn g eq_refl) V).
        -- rewrite (cpp_plain_std_keeps_options defaults options opts sv Hs); [reflexivity | rewrite Hc; exact Hg | exact V].
      * rewrite (cpp_plain_std_keeps_options defaults options opts sv Hs); [reflexivity | rewrite Hc; exact I | exact V].
    + unfold cpp_validate_language_options in V. rewrite Hs in V. discriminate.
  - (* py *)
    inversion V. unfold py_validate. fold key_esa.
    destruct (str_eqb k key_esa) eqn:E.
    + destruct (str_eqb_spec k key_esa); [subst|discriminate]. apply dget_dset_same.
    + apply dget_dset_other. exact E.
Qed.

(* the two halves reconciled in one statement: outside the exception keys the effective option IS the value the chain
   `built-in < files < overrides` gives; on the exception keys no source can change it *)
Theorem effective_option_is_chain_or_exception lk sections sec k :
  effective_option lk sections sec k = lookup [sec; key_options; k] (Node sections)
  \/ (lk = LkCpp /\ exists g v, selected_group sections sec = Some g /\ dget k g = Some v /\ effective_option lk sections sec k = Some v)
  \/ (lk = LkPy /\ k = key_esa /\ effective_option lk sections sec k = Some (Leaf false (ABool true))).
Proof.
  rewrite <- merged_option_is_lookup. destruct lk; cbn [effective_option].
  - left; reflexivity.
  - destruct (selected_group sections sec) as [g|] eqn:G; [|left; reflexivity].
    destruct (dget k g) as [v|] eqn:D; [|left; reflexivity].
    right; left. split; [reflexivity|]. exists g, v. auto.
  - destruct (str_eqb k key_esa) eqn:E; [|left; reflexivity].
    destruct (str_eqb_spec k key_esa); [subst|discriminate]. right; right. auto.
Qed.
