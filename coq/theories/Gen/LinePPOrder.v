(* Executable models added in round 5 for C15 (proofs: LinePPOrderThm.v):
   (a) `feed_loop`: the `while True` loop of CodeGenerator._generate_with_line_buffer written AS THE CODE HAS IT, with the
       translated regular expression `newline_pattern` (Generated/Gen_LinePP.v) -- the character scan `feed` of LinePP.v is
       proved equal to it, so the theorems about `write` are about the regex loop;
   (b) `handle_pps`: CodeGenerator._handle_post_processors with its two subroutines (hand model, tied by the shape pin
       pin_linebuf and by an exhaustive correspondence stratum of tools/checks/c15.py);
   (c) `emitted`: the list of lines a pipeline writes, whose concatenation is the file. *)
From Verif Require Export LinePPInst.
Open Scope N_scope.

Section Loop.
  Variable S : Type.
  Variable step : S -> line -> S * line.

  (* `rest` is part[search_pos:].  newline_pattern has no anchor and no look-behind, so
     newline_pattern.search(part, search_pos) is the search in that suffix; re_search returns (start - search_pos,
     part[match.end():]).  fuel: one iteration per match plus the final one. *)
  Fixpoint feed_loop (fuel : nat) (rest lb : str) (st : S) (out : str) : option (str * S * str) :=
    match fuel with
    | O => None
    | Datatypes.S f =>
        match rest with
        | [] => Some (lb, st, out)                                       (* search_pos >= len(part): break *)
        | _ :: _ =>
            match re_search py_uni newline_pattern rest with
            | None => Some (lb ++ rest, st, out)                         (* line_buffer.write(part[search_pos:]); break *)
            | Some (i, after) =>
                let line := lb ++ firstn i rest in                       (* line_buffer + part[search_pos:match.start()] *)
                let newline_chars := firstn (length rest - i - length after) (skipn i rest) in
                let '(st', out') := emit step st out (line, newline_chars) in
                feed_loop f after [] st' out'
            end
        end
    end.
End Loop.
Arguments feed_loop {S}.

(* ---------- _handle_post_processors ---------- *)
Inductive pk := KTrim | KLimit (n : Z) | KOther.   (* KOther: any other post-processor object (SetFileMode, user classes) *)

Definition is_trim (k : pk) : bool := match k with KTrim => true | _ => false end.
Definition is_limit (k : pk) : bool := match k with KLimit _ => true | _ => false end.

(* __augment_post_processors_with_ln_limit_empty_lines *)
Definition augment_limit (given : option (list pk)) (n : Z) : list pk :=
  match given with
  | None => [KLimit n]
  | Some l => if existsb is_limit l then l else l ++ [KLimit n]
  end.

(* [i for i, pp in enumerate(post_processors) if isinstance(pp, LimitEmptyLines)] *)
Fixpoint limiter_indices (i : nat) (l : list pk) : list nat :=
  match l with
  | [] => []
  | k :: l' => if is_limit k then i :: limiter_indices (Datatypes.S i) l' else limiter_indices (Datatypes.S i) l'
  end.

Definition insert_at {A} (i : nat) (x : A) (l : list A) : list A := firstn i l ++ x :: skipn i l.

(* __augment_post_processors_with_ln_trim_trailing_whitespace (since fix 436c2bd the trimmer goes before the first limiter) *)
Definition augment_trim (given : option (list pk)) : list pk :=
  match given with
  | None => [KTrim]
  | Some l =>
      if existsb is_trim l then l
      else insert_at (match limiter_indices 0 l with i :: _ => i | [] => length l end) KTrim l
  end.

(* the order before fix 436c2bd: append *)
Definition augment_trim_append (given : option (list pk)) : list pk :=
  match given with
  | None => [KTrim]
  | Some l => if existsb is_trim l then l else l ++ [KTrim]
  end.

(* cfg_limit = None models the KeyError branch (language without a limit_empty_lines value) *)
Definition handle_pps_with (aug_trim : option (list pk) -> list pk)
           (cfg_limit : option Z) (cfg_trim : bool) (given : option (list pk)) : option (list pk) :=
  let g1 := match cfg_limit with Some n => Some (augment_limit given n) | None => given end in
  if cfg_trim then Some (aug_trim g1) else g1.

Definition handle_pps := handle_pps_with augment_trim.
Definition handle_pps_old := handle_pps_with augment_trim_append.

(* ArgparseRunner._build_post_processor_list_from_args (cli/runners.py): what nnvg passes as `given`:
   --pp-trim-trailing-whitespace, --pp-max-emptylines N, --pp-run-program, then always SetFileMode *)
Definition cli_list (trim : bool) (limit : option Z) (ext : bool) : list pk :=
  (if trim then [KTrim] else []) ++ (match limit with Some n => [KLimit n] | None => [] end)
  ++ (if ext then [KOther] else []) ++ [KOther].

(* the line processors _generate_code extracts from the list, for lists whose KOther entries are file post-processors *)
Definition to_pps (l : list pk) : list pp :=
  flat_map (fun k => match k with KTrim => [PTrim] | KLimit n => [PLimit (LimitEmptyLines_init n)] | KOther => [] end) l.

(* ---------- what a pipeline writes, as lines ---------- *)
Fixpoint emitted {S : Type} (step : S -> line -> S * line) (st : S) (ls : list line) : list line :=
  match ls with
  | [] => []
  | l :: ls' => let '(st', l') := step st l in l' :: emitted step st' ls'
  end.

Definition flat (l : line) : str := fst l ++ snd l.

Definition py_ws_chr : chr -> bool := fun c => in_ranges (u_space py_uni) c.
Definition blank (l : line) : bool := forallb py_ws_chr (fst l).       (* empty or whitespace-only content *)
Definition is_elided (l : line) : bool := match l with ([], []) => true | _ => false end.

(* at most N consecutive blank lines among the lines that reach the file (elided lines write nothing) *)
Fixpoint blank_runs_ok (N c : Z) (ls : list line) : bool :=
  match ls with
  | [] => true
  | l :: ls' =>
      if is_elided l then blank_runs_ok N c ls'
      else if blank l then (c + 1 <=? N)%Z && blank_runs_ok N (c + 1)%Z ls'
      else blank_runs_ok N 0%Z ls'
  end.

(* What LimitEmptyLines(N) is documented to do, written independently of its code: of every maximal run of consecutive
   empty lines the first N are kept unaltered, the others are elided (nothing is written for them); every other line is
   kept unaltered.  c = number of empty lines seen in the current run. *)
Fixpoint limit_spec (N c : Z) (ls : list line) : list line :=
  match ls with
  | [] => []
  | l :: r =>
      match fst l with
      | [] => (if (c + 1 <=? N)%Z then l else ([], [])) :: limit_spec N (c + 1)%Z r
      | _ :: _ => l :: limit_spec N 0%Z r
      end
  end.
