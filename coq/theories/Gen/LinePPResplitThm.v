(* C15, file level: reading back the written file.  The lines of the file written through the default pipeline
   [TrimTrailingWhitespace; LimitEmptyLines N] -- split again by the same newline rule -- are exactly the lines the pipeline
   emitted (elided ones gone), hence contain at most N consecutive blank lines. *)
From Verif Require Import LinePP LinePPThm LinePPRejoinThm LinePPInst LinePPInstThm LinePPOrder LinePPOrderThm.
From Coq Require Import Lia.
Open Scope N_scope.

Definition no_lf (s : str) : bool := forallb (fun c => negb (c =? LF)) s.
Definition term_nl (t : str) : Prop := t = [LF] \/ t = [CR; LF].
Definition no_cr_end (s : str) : Prop := (last s 0 =? CR) = false.

(* all lines but the last satisfy P, the last satisfies Q *)
Fixpoint shape (P Q : line -> Prop) (X : list line) : Prop :=
  match X with
  | [] => True
  | l :: X' => match X' with [] => Q l | _ :: _ => P l /\ shape P Q X' end
  end.

Lemma shape_cons (P Q : line -> Prop) l X : P l -> (P l -> Q l) -> shape P Q X -> shape P Q (l :: X).
Proof. intros Hp Hq Hx. destruct X; cbn; auto. Qed.

Lemma shape_map (P Q P' Q' : line -> Prop) (f : line -> line) X :
  (forall l, P l -> P' (f l)) -> (forall l, Q l -> Q' (f l)) -> shape P Q X -> shape P' Q' (map f X).
Proof.
  intros Hp Hq. induction X as [|l X IH]; [auto|]. intros H. cbn [map].
  destruct X as [|l2 X]; cbn in *; [auto|]. destruct H as [H1 H2]. split; [auto|]. apply IH. exact H2.
Qed.

(* ---------- the lines split_lines produces ---------- *)
(* a line terminated by a bare LF never has content ending in CR (the scan would have taken CR LF as the terminator) *)
Definition cr_ok (l : line) : Prop := snd l = [LF] -> no_cr_end (fst l).
Definition raw_ok (l : line) : Prop := no_lf (fst l) = true /\ term_nl (snd l) /\ cr_ok l.
Definition raw_last (l : line) : Prop := raw_ok l \/ (snd l = [] /\ fst l <> [] /\ no_lf (fst l) = true).

Lemma no_lf_app a b : no_lf (a ++ b) = no_lf a && no_lf b.
Proof. apply forallb_app. Qed.

(* invariant of the scan: if the buffered content ends in CR, the next character is not LF *)
Definition cur_inv (cur s : str) : Prop :=
  (last cur 0 =? CR) = true -> match s with d :: _ => (d =? LF) = false | [] => True end.

Lemma split_lines_shape s : forall cur, no_lf cur = true -> cur_inv cur s -> shape raw_ok raw_last (split_lines_aux s cur).
Proof.
  induction s as [|c s IH]; intros cur Hc Hinv.
  - cbn. destruct cur as [|x cur]; cbn; [exact I|]. right. cbn. repeat split; [discriminate|exact Hc].
  - cbn [split_lines_aux]. destruct (c =? LF) eqn:EL.
    + assert (Hcr : no_cr_end cur).
      { unfold no_cr_end. destruct (last cur 0 =? CR) eqn:E; [|reflexivity]. specialize (Hinv E). cbn in Hinv. congruence. }
      apply shape_cons; [repeat split; [exact Hc|left; reflexivity|intros _; exact Hcr] | intros H; left; exact H |].
      apply IH; [reflexivity|intros H; cbn in H; discriminate].
    + assert (Hcc : no_lf (cur ++ [c]) = true).
      { rewrite no_lf_app, Hc. cbn. rewrite EL. reflexivity. }
      destruct s as [|d s'].
      * apply IH; [exact Hcc|intros _; exact I].
      * destruct ((c =? CR) && (d =? LF)) eqn:E2.
        -- apply shape_cons; [repeat split; [exact Hc|right; reflexivity|intros H; discriminate] | intros H; left; exact H|].
           (* IH is about (d :: s'); the tail here is s' *)
           assert (IH' : shape raw_ok raw_last (split_lines_aux (d :: s') [])).
           { apply IH; [reflexivity|intros H; cbn in H; discriminate]. }
           cbn [split_lines_aux] in IH'.
           apply andb_prop in E2. destruct E2 as [_ E2]. rewrite E2 in IH'.
           destruct (split_lines_aux s' []) as [|l2 X] eqn:EX; [exact I|]. cbn in IH'. destruct IH' as [_ IH']. exact IH'.
        -- apply IH; [exact Hcc|].
           intros H. rewrite last_last in H. rewrite H in E2. cbn in E2. exact E2.
Qed.

(* ---------- re-splitting ---------- *)
Definition good (l : line) : Prop := no_lf (fst l) = true /\ cr_ok l /\ term_nl (snd l).
Definition ok_line (l : line) : Prop := is_elided l = true \/ good l.
Definition ok_last (l : line) : Prop := ok_line l \/ (snd l = [] /\ fst l <> [] /\ no_lf (fst l) = true).

Lemma split_one content : forall cur t rest,
    no_lf content = true -> (t = [LF] -> no_cr_end content) -> term_nl t ->
    split_lines_aux (content ++ t ++ rest) cur = (cur ++ content, t) :: split_lines_aux rest [].
Proof.
  induction content as [|c content IH]; intros cur t rest Hn Hcr Ht.
  - rewrite app_nil_r. destruct Ht as [-> | ->]; reflexivity.
  - cbn [no_lf forallb] in Hn. apply andb_prop in Hn. destruct Hn as [Hc Hn].
    apply Bool.negb_true_iff in Hc.
    cbn [app split_lines_aux]. rewrite Hc.
    assert (Hnext : forall d s'', content ++ t ++ rest = d :: s'' -> (c =? CR) && (d =? LF) = false).
    { intros d s'' E. destruct content as [|x content'].
      - destruct Ht as [-> | ->]; cbn in E; inversion E; subst.
        + specialize (Hcr eq_refl). unfold no_cr_end in Hcr. cbn in Hcr. rewrite Hcr. reflexivity.
        + rewrite Bool.andb_false_r. reflexivity.
      - cbn in E. inversion E; subst. cbn in Hn. apply andb_prop in Hn. destruct Hn as [Hx _].
        apply Bool.negb_true_iff in Hx. rewrite Hx. apply Bool.andb_false_r. }
    assert (Hcr' : t = [LF] -> no_cr_end content).
    { intros Et. destruct content as [|x content']; [reflexivity|]. specialize (Hcr Et). unfold no_cr_end in *. exact Hcr. }
    destruct (content ++ t ++ rest) as [|d s''] eqn:E.
    + exfalso. destruct content; [destruct Ht as [-> | ->]; discriminate|discriminate].
    + rewrite (Hnext d s'' eq_refl). rewrite <- E.
      rewrite (IH (cur ++ [c]) t rest Hn Hcr' Ht). rewrite <- app_assoc. reflexivity.
Qed.

Lemma split_no_lf s : forall cur,
    no_lf s = true -> split_lines_aux s cur = match cur ++ s with [] => [] | _ => [(cur ++ s, [])] end.
Proof.
  induction s as [|c s IH]; intros cur Hn.
  - cbn. rewrite app_nil_r. destruct cur; reflexivity.
  - cbn [no_lf forallb] in Hn. apply andb_prop in Hn. destruct Hn as [Hc Hn]. apply Bool.negb_true_iff in Hc.
    cbn [split_lines_aux]. rewrite Hc.
    assert (R : split_lines_aux s (cur ++ [c]) = match cur ++ c :: s with [] => [] | _ => [(cur ++ c :: s, [])] end).
    { rewrite (IH (cur ++ [c]) Hn). rewrite <- app_assoc. reflexivity. }
    destruct s as [|d s']; [exact R|].
    cbn in Hn. apply andb_prop in Hn. destruct Hn as [Hd _]. apply Bool.negb_true_iff in Hd.
    rewrite Hd, Bool.andb_false_r. exact R.
Qed.

Lemma term_nl_nonempty t : term_nl t -> t <> [].
Proof. intros [-> | ->]; discriminate. Qed.

Lemma good_not_elided l : good l -> is_elided l = false.
Proof.
  intros (_ & _ & Ht). destruct l as [c t]. cbn in *. destruct c; [|reflexivity].
  destruct t; [exfalso; exact (term_nl_nonempty [] Ht eq_refl)|reflexivity].
Qed.

Lemma elided_flat l : is_elided l = true -> flat l = [].
Proof. destruct l as [[|c s] [|t ts]]; cbn; try discriminate. reflexivity. Qed.

Theorem resplit X :
  shape ok_line ok_last X ->
  split_lines (concat (map flat X)) = filter (fun l => negb (is_elided l)) X.
Proof.
  unfold split_lines. induction X as [|l X IH]; intros H; [reflexivity|].
  cbn [map concat filter].
  assert (Hline : ok_line l -> shape ok_line ok_last X ->
                  split_lines_aux (flat l ++ concat (map flat X)) [] =
                  (if negb (is_elided l) then l :: filter (fun l0 => negb (is_elided l0)) X
                   else filter (fun l0 => negb (is_elided l0)) X)).
  { intros [He|Hg] HX.
    - rewrite He, (elided_flat l He). cbn [negb app]. apply IH. exact HX.
    - rewrite (good_not_elided l Hg). cbn [negb]. destruct Hg as (Hn & Hcr & Ht).
      unfold flat at 1. rewrite <- app_assoc, (split_one (fst l) [] (snd l) _ Hn Hcr Ht). cbn [app].
      rewrite (IH HX). destruct l; reflexivity. }
  destruct X as [|l2 X].
  - cbn [shape] in H. destruct H as [Hl | (Ht & Hne & Hn)].
    + apply Hline; [exact Hl|exact I].
    + cbn [map concat filter]. rewrite app_nil_r. unfold flat. rewrite Ht, app_nil_r.
      rewrite (split_no_lf (fst l) [] Hn). cbn [app].
      destruct l as [c t]. cbn [fst snd] in *. subst t. destruct c as [|x c]; [contradiction|]. reflexivity.
  - destruct H as [Hl HX]. apply Hline; assumption.
Qed.

(* ---------- the default pipeline keeps the shape ---------- *)
Lemma py_ws_CR : py_ws CR = true.
Proof. vm_compute. reflexivity. Qed.

Lemma no_lf_prefix a b : no_lf (a ++ b) = true -> no_lf a = true.
Proof. rewrite no_lf_app. intros H. apply andb_prop in H. tauto. Qed.

Lemma rstrip_no_lf s : no_lf s = true -> no_lf (rstrip py_ws s) = true.
Proof.
  intros H. destruct (rstrip_decomp py_ws s) as (w & Hw & _). rewrite Hw in H. eapply no_lf_prefix. exact H.
Qed.

Lemma rstrip_no_cr_end s : no_cr_end (rstrip py_ws s).
Proof.
  unfold no_cr_end. destruct (rstrip py_ws s) as [|x t] eqn:E; [reflexivity|].
  assert (Hex : exists y c, x :: t = y ++ [c]).
  { destruct (exists_last (l := x :: t)) as (y & c & Hy); [discriminate|]. exists y, c. exact Hy. }
  destruct Hex as (y & c & Hy). rewrite Hy. rewrite last_last.
  rewrite <- E in Hy. pose proof (rstrip_no_trailing py_ws s y c Hy) as Hc.
  destruct (N.eqb_spec c CR) as [->|]; [|reflexivity]. rewrite py_ws_CR in Hc. discriminate.
Qed.

Lemma trim_raw_ok l : raw_ok l -> ok_line (trim_line l).
Proof.
  intros (Hn & Ht & _). right. unfold good, cr_ok, trim_line. cbn [fst snd].
  repeat split; [apply rstrip_no_lf; exact Hn|intros _; apply rstrip_no_cr_end|exact Ht].
Qed.

(* without a trimmer: the raw lines are already fit for re-splitting *)
Lemma raw_ok_line l : raw_ok l -> ok_line l.
Proof. intros (Hn & Ht & Hc). right. repeat split; assumption. Qed.

Lemma raw_last_ok l : raw_last l -> ok_last l.
Proof. intros [H|H]; [left; apply raw_ok_line; exact H|right; exact H]. Qed.

Lemma trim_raw_last l : raw_last l -> ok_last (trim_line l).
Proof.
  intros [H|(Ht & Hne & Hn)]; [left; apply trim_raw_ok; exact H|].
  unfold trim_line. destruct (rstrip py_ws (fst l)) as [|x t] eqn:E.
  - left. left. rewrite Ht. reflexivity.
  - right. cbn [fst snd]. repeat split; [exact Ht|discriminate|]. rewrite <- E. apply rstrip_no_lf. exact Hn.
Qed.

Lemma limit_lines_shape X : forall s, shape ok_line ok_last X -> shape ok_line ok_last (limit_lines s X).
Proof.
  induction X as [|l X IH]; intros s H; [exact I|].
  cbn [limit_lines].
  assert (Hout : forall (P : line -> Prop), P l -> P ([], []) -> P (snd (LimitEmptyLines_call s l))).
  { intros P Hl He. unfold LimitEmptyLines_call.
    repeat match goal with |- context [if ?b then _ else _] => destruct b end; cbn [snd]; assumption. }
  destruct (LimitEmptyLines_call s l) as [s' l'] eqn:E. cbn [snd] in Hout.
  destruct X as [|l2 X].
  - cbn in *. apply Hout; [exact H|left; left; reflexivity].
  - destruct H as [Hl HX]. specialize (IH s' HX). cbn [limit_lines] in *.
    destruct (LimitEmptyLines_call s' l2) as [s'' l2']. split; [|exact IH].
    apply Hout; [exact Hl|left; reflexivity].
Qed.

Theorem default_pipeline_shape (N : Z) (text : str) :
  shape ok_line ok_last (emitted pipe_step [PTrim; PLimit (LimitEmptyLines_init N)] (split_lines text)).
Proof.
  change [PTrim; PLimit (LimitEmptyLines_init N)] with ([PTrim] ++ [PLimit (LimitEmptyLines_init N)]).
  rewrite emitted_app, emitted_limit, emitted_trim. apply limit_lines_shape.
  apply (shape_map raw_ok raw_last); [exact trim_raw_ok|exact trim_raw_last|].
  apply split_lines_shape; [reflexivity|intros H; discriminate].
Qed.

Lemma shape_impl (P Q P' Q' : line -> Prop) X :
  (forall l, P l -> P' l) -> (forall l, Q l -> Q' l) -> shape P Q X -> shape P' Q' X.
Proof.
  intros Hp Hq. induction X as [|l X IH]; [auto|]. intros H.
  destruct X as [|l2 X]; cbn in *; [auto|]. destruct H as [H1 H2]. split; [auto|]. apply IH. exact H2.
Qed.

(* the limiter alone (CLI --pp-max-emptylines with a language that does not trim) *)
Theorem limit_only_shape (N : Z) (text : str) :
  shape ok_line ok_last (emitted pipe_step [PLimit (LimitEmptyLines_init N)] (split_lines text)).
Proof.
  rewrite emitted_limit. apply limit_lines_shape.
  apply (shape_impl raw_ok raw_last); [exact raw_ok_line|exact raw_last_ok|].
  apply split_lines_shape; [reflexivity|intros H; discriminate].
Qed.

Lemma runs_filter N X : forall c,
    runs_ok N c (filter (fun l => negb (is_elided l)) X) = runs_ok N c X.
Proof.
  induction X as [|l X IH]; intros c; [reflexivity|]. cbn [filter runs_ok]. change (elided l) with (is_elided l).
  destruct (is_elided l) eqn:E; cbn [negb]; [apply IH|].
  cbn [runs_ok]. change (elided l) with (is_elided l). rewrite E, !IH. reflexivity.
Qed.

(* with the limiter alone the file, read back, has at most N consecutive EMPTY lines (whitespace-only lines are not empty:
   nothing trimmed them) and every non-empty line is kept unaltered *)
Theorem limit_only_file_empty_bound (N : Z) (chunks : list str) :
  (0 <= N)%Z ->
  runs_ok N 0 (split_lines (snd (write_builtin [PLimit (LimitEmptyLines_init N)] chunks))) = true /\
  filter (fun l => negb (empty_content l)) (split_lines (snd (write_builtin [PLimit (LimitEmptyLines_init N)] chunks)))
  = filter (fun l => negb (empty_content l)) (split_lines (concat chunks)).
Proof.
  intros HN. unfold write_builtin. rewrite write_rj_linewise, linewise_is_concat_emitted.
  rewrite (resplit _ (limit_only_shape N (concat chunks))). split.
  - rewrite runs_filter, emitted_limit. apply limit_bound_lemma. exact HN.
  - rewrite emitted_limit. rewrite <- (limit_nonempty_subsequence_lemma N (split_lines (concat chunks)) HN).
    set (E := limit_lines (LimitEmptyLines_init N) (split_lines (concat chunks))).
    induction E as [|l E IH]; [reflexivity|]. cbn [filter].
    destruct l as [[|x c] [|t ts]]; cbn [is_elided negb empty_content fst filter]; rewrite ?IH; reflexivity.
Qed.

Lemma blank_runs_filter N X : forall c,
    blank_runs_ok N c (filter (fun l => negb (is_elided l)) X) = blank_runs_ok N c X.
Proof.
  induction X as [|l X IH]; intros c; [reflexivity|]. cbn [filter blank_runs_ok].
  destruct (is_elided l) eqn:E; cbn [negb]; [apply IH|].
  cbn [blank_runs_ok]. rewrite E, !IH. reflexivity.
Qed.

(* THE FILE, READ BACK: whatever the chunking, the file written through the default pipeline has at most N consecutive
   blank lines. *)
Theorem default_file_blank_bound (N : Z) (chunks : list str) :
  (0 <= N)%Z ->
  blank_runs_ok N 0 (split_lines (snd (write_builtin [PTrim; PLimit (LimitEmptyLines_init N)] chunks))) = true.
Proof.
  intros HN. unfold write_builtin. rewrite write_rj_linewise, linewise_is_concat_emitted.
  rewrite (resplit _ (default_pipeline_shape N (concat chunks))), blank_runs_filter.
  exact (file_blank_bound N [] [] (split_lines (concat chunks)) HN).
Qed.

(* ... and its non-blank lines are the non-blank lines of the generated text, in order, right-trimmed *)
Theorem default_file_nonblank_lines (N : Z) (chunks : list str) :
  (0 <= N)%Z ->
  filter (fun l => negb (empty_content l)) (split_lines (snd (write_builtin [PTrim; PLimit (LimitEmptyLines_init N)] chunks)))
  = map trim_line (filter (fun l => negb (blank l)) (split_lines (concat chunks))).
Proof.
  intros HN. unfold write_builtin. rewrite write_rj_linewise, linewise_is_concat_emitted.
  rewrite (resplit _ (default_pipeline_shape N (concat chunks))).
  rewrite <- (default_pipeline_keeps_nonblank N _ HN).
  set (E := emitted pipe_step [PTrim; PLimit (LimitEmptyLines_init N)] (split_lines (concat chunks))).
  induction E as [|l E IH]; [reflexivity|]. cbn [filter].
  destruct l as [[|x c] [|t ts]]; cbn [is_elided negb empty_content fst filter]; rewrite ?IH; reflexivity.
Qed.
