(* C20 -- (a) the translated filter_display_type renders exactly the pieces the emitter uses; (b) pieces_ok of every page
   follows from "documentation sinks escape" + "every other DSDL-derived string is quote_free": the per-page check is gone. *)
From Verif Require Import HtmlModel HtmlThm HtmlThmTree.
Open Scope N_scope.

(* ---------- (a) filter_display_type ---------- *)
Lemma render_app a b : render (a ++ b) = render a ++ render b.
Proof. unfold render. apply flat_map_app. Qed.

Theorem display_type_render d : filter_display_type (node_of_dtype d) = render (disp_type d).
Proof.
  induction d as [sat s|e IH cap|e IH cap|s]; cbn [node_of_dtype filter_display_type disp_type].
  - destruct sat; cbv zeta; cbn [concat app]; unfold render, elem; cbn [flat_map render_piece concat map render_attr fst snd app];
      rewrite ?app_nil_r, <- ?app_assoc; reflexivity.
  - cbv zeta. rewrite IH, render_app. f_equal. unfold render, elem. cbn [flat_map render_piece concat map render_attr fst snd app].
    cbn [concat app]. rewrite ?app_nil_r, <- ?app_assoc. reflexivity.
  - cbv zeta. rewrite IH, render_app. f_equal. unfold render, elem. cbn [flat_map render_piece concat map render_attr fst snd app].
    cbn [concat app]. rewrite ?app_nil_r, <- ?app_assoc. reflexivity.
  - unfold render. cbn. rewrite app_nil_r. reflexivity.
Qed.

Theorem display_inst_render di : filter_display_type (node_of_dinst di) = render (disp_inst di).
Proof.
  destruct di as [s|d nm|d nm val]; cbn [node_of_dinst filter_display_type disp_inst]; cbv zeta.
  - unfold render, elem. cbn [flat_map render_piece concat map render_attr fst snd app]. rewrite ?app_nil_r, <- ?app_assoc. reflexivity.
  - rewrite display_type_render, render_app. remember (render (disp_type d)) as X eqn:EX. clear EX.
    unfold render. cbn [flat_map render_piece concat app s_sp]. rewrite ?app_nil_r, <- ?app_assoc. reflexivity.
  - rewrite display_type_render, !render_app. remember (render (disp_type d)) as X eqn:EX. clear EX.
    unfold render, elem. cbn [flat_map render_piece concat map render_attr fst snd app s_sp s_eq]. rewrite ?app_nil_r, <- ?app_assoc. reflexivity.
Qed.

(* ---------- (b) closure of the "cannot open markup / cannot leave the attribute" predicates ---------- *)
Definition attr_safe (s : str) : bool := forallb (fun c => negb (c =? 62) && negb (c =? 34)) s.
Definition lt_free (s : str) : bool := forallb (fun c => negb (c =? 60)) s.

Lemma qf_attr_safe s : quote_free s = true -> attr_safe s = true.
Proof.
  unfold quote_free, attr_safe. intros H. rewrite forallb_forall in *. intros c Hc. specialize (H c Hc).
  destruct (c =? 62), (c =? 34), (c =? 60); cbn in *; try discriminate; reflexivity.
Qed.
Lemma qf_lt_free s : quote_free s = true -> lt_free s = true.
Proof.
  unfold quote_free, lt_free. intros H. rewrite forallb_forall in *. intros c Hc. specialize (H c Hc).
  destruct (c =? 60); cbn in *; try discriminate; reflexivity.
Qed.
Lemma attr_safe_app a b : attr_safe a = true -> attr_safe b = true -> attr_safe (a ++ b) = true.
Proof. unfold attr_safe. intros Ha Hb. rewrite forallb_app, Ha, Hb. reflexivity. Qed.
Lemma lt_free_app a b : lt_free a = true -> lt_free b = true -> lt_free (a ++ b) = true.
Proof. unfold lt_free. intros Ha Hb. rewrite forallb_app, Ha, Hb. reflexivity. Qed.
Lemma qf_app a b : quote_free a = true -> quote_free b = true -> quote_free (a ++ b) = true.
Proof. unfold quote_free. intros Ha Hb. rewrite forallb_app, Ha, Hb. reflexivity. Qed.
Lemma lt_free_text_ok s : lt_free s = true -> text_ok s = true.
Proof.
  induction s as [|c s IH]; intros H; [reflexivity|]. unfold lt_free in H. cbn [forallb] in H. apply andb_prop in H as [Hc Hs].
  cbn [text_ok]. destruct (c =? 60); [discriminate|]. cbn. apply IH, Hs.
Qed.
Lemma attr_safe_ok k v : no_gt k = true -> attr_safe v = true -> attr_ok (k, v) = true.
Proof.
  intros Hk Hv. unfold attr_ok. cbn [fst snd]. rewrite Hk. cbn [andb]. unfold attr_safe, no_gt in *.
  apply andb_true_intro. split; rewrite forallb_forall in *; intros c Hc; specialize (Hv c Hc); apply andb_prop in Hv as [A B]; assumption.
Qed.

Lemma attrs_ok_cons k v r : no_gt k = true -> attr_safe v = true -> forallb attr_ok r = true -> forallb attr_ok ((k, v) :: r) = true.
Proof. intros Hk Hv Hr. cbn [forallb]. rewrite (attr_safe_ok k v Hk Hv), Hr. reflexivity. Qed.

Lemma qf_ms_escape s : quote_free (markupsafe_escape s) = true.
Proof. pose proof (escape_no_markup_ms s) as H. unfold no_markup in H. apply andb_prop in H as [H _]. exact H. Qed.
Lemma qf_tx b s : quote_free s = true -> quote_free (tx b s) = true.
Proof. intros H. destruct b; [apply qf_ms_escape|exact H]. Qed.
Lemma qf_tx_esc s : quote_free (tx true s) = true.
Proof. apply qf_ms_escape. Qed.

Lemma qf_replace c rep s : quote_free rep = true -> quote_free s = true -> quote_free (str_replace1 c rep s) = true.
Proof.
  intros Hr Hs. unfold str_replace1, quote_free in *. apply forallb_flat_map. intros x.
  destruct (x =? c); [exact Hr|]. (* x must come from s: handled below *) Abort.

Lemma qf_replace c rep s : quote_free rep = true -> quote_free s = true -> quote_free (str_replace1 c rep s) = true.
Proof.
  intros Hr. induction s as [|x s IH]; intros Hs; [reflexivity|]. unfold str_replace1 in *. cbn [flat_map].
  unfold quote_free in Hs. cbn [forallb] in Hs. apply andb_prop in Hs as [Hx Hs]. apply qf_app.
  - destruct (x =? c); [exact Hr|]. unfold quote_free. cbn [forallb]. rewrite Hx. reflexivity.
  - apply IH. exact Hs.
Qed.

Lemma qf_dec_Z z : quote_free (dec_of_Z z) = true.
Proof.
  destruct z; [reflexivity| |]; cbn [dec_of_Z]; unfold dec_of_N; [|change (45 :: ?x) with ([45] ++ x); apply qf_app; [reflexivity|]];
    apply dec_fuel_quote_free; reflexivity.
Qed.

Lemma forallb_rev {A} (p : A -> bool) l : forallb p (rev l) = forallb p l.
Proof. induction l as [|x l IH]; [reflexivity|]. cbn. rewrite forallb_app, IH. cbn. rewrite andb_true_r, andb_comm. reflexivity. Qed.
Lemma forallb_take_while p q s : forallb p s = true -> forallb p (take_while q s) = true.
Proof. induction s as [|c s IH]; intros H; [reflexivity|]. cbn in *. apply andb_prop in H as [Hc Hs]. destruct (q c); [cbn; rewrite Hc; apply IH, Hs|reflexivity]. Qed.
Lemma forallb_drop_while p q s : forallb p s = true -> forallb p (drop_while q s) = true.
Proof. induction s as [|c s IH]; intros H; [reflexivity|]. cbn in *. pose proof H as H'. apply andb_prop in H as [Hc Hs]. destruct (q c); [apply IH, Hs|exact H']. Qed.
Lemma qf_last_word s : quote_free s = true -> quote_free (last_word s) = true.
Proof.
  intros H. unfold last_word, quote_free in *. rewrite forallb_rev. apply forallb_take_while, forallb_drop_while. rewrite forallb_rev. exact H.
Qed.

Lemma qf_tag_id t : tinfo_ok t = true -> quote_free (filter_tag_id t) = true.
Proof.
  unfold tinfo_ok. intros H. apply andb_prop in H as [H He]. apply andb_prop in H as [H Hns]. apply andb_prop in H as [Hf Hr].
  unfold filter_tag_id. destruct (ti_is_array t); cbn [concat app]; rewrite ?app_nil_r;
    repeat (apply qf_app || apply qf_replace || apply qf_dec_Z); try reflexivity; assumption.
Qed.
Lemma qf_url t : tinfo_ok t = true -> quote_free (filter_url_from_type t) = true.
Proof.
  unfold tinfo_ok. intros H. apply andb_prop in H as [H He]. apply andb_prop in H as [H Hns]. apply andb_prop in H as [Hf Hr].
  unfold filter_url_from_type. cbv zeta. cbn [concat app]. rewrite ?app_nil_r. destruct (ti_has_parent t);
    repeat (apply qf_app || apply qf_replace || apply qf_dec_Z); try reflexivity; assumption.
Qed.
Lemma qf_up_of s : quote_free (up_of s) = true.
Proof. unfold up_of, quote_free. apply forallb_flat_map. intros c. destruct (c =? 46); reflexivity. Qed.
Lemma qf_arr_tinfo es : quote_free es = true -> tinfo_ok (arr_tinfo es) = true.
Proof. intros H. unfold tinfo_ok, arr_tinfo. cbn [ti_full_name ti_root_ns ti_full_namespace ti_elem_str]. rewrite H. reflexivity. Qed.

(* ---------- pieces_ok, compositional ---------- *)
Lemma pieces_ok_app a b : pieces_ok (a ++ b) = pieces_ok a && pieces_ok b.
Proof. unfold pieces_ok. apply forallb_app. Qed.
Lemma pieces_ok_elem n at_ body :
  tag_name_ok n = true -> forallb attr_ok at_ = true -> pieces_ok body = true -> pieces_ok (elem n at_ body) = true.
Proof. intros Hn Ha Hb. unfold elem, pieces_ok in *. cbn [forallb piece_ok]. rewrite Hn, Ha, forallb_app, Hb. cbn. rewrite Hn. reflexivity. Qed.
Lemma pieces_ok_text s : lt_free s = true -> pieces_ok [PText s] = true.
Proof. intros H. unfold pieces_ok. cbn. rewrite (lt_free_text_ok s H). reflexivity. Qed.
Lemma pieces_ok_text_lble s : lt_free s = true -> pieces_ok [PText (s_lble ++ s)] = true.
Proof. intros H. unfold pieces_ok. cbn [forallb piece_ok s_lble app text_ok N.eqb Pos.eqb tag_start is_alpha]. cbn. rewrite (lt_free_text_ok s H). reflexivity. Qed.

Ltac qf :=
  repeat first
    [ assumption | reflexivity
    | apply qf_tx_esc | apply qf_ms_escape | apply qf_dec_Z | apply qf_up_of | apply make_unique_quote_free
    | apply qf_tx | apply qf_app | apply qf_replace | apply qf_last_word | apply qf_tag_id | apply qf_url | apply qf_arr_tinfo ].
Ltac asafe := repeat first [ assumption | reflexivity | apply attr_safe_app | (apply qf_attr_safe; qf) ].
Ltac ltf := repeat first [ assumption | reflexivity | apply lt_free_app | (apply qf_lt_free; qf) ].
Ltac attrs_ok_t := repeat (apply attrs_ok_cons; [reflexivity|asafe|]); try reflexivity.

Lemma ok_disp_type d : dtype_ok d = true -> pieces_ok (disp_type d) = true.
Proof.
  induction d as [sat s|e IH cap|e IH cap|s]; cbn [dtype_ok disp_type]; intros H.
  - assert (A : pieces_ok (elem t_span [(k_style, if sat then s_gray else s_orange)] [PText (if sat then s_saturated else s_truncated)]) = true)
      by (destruct sat; reflexivity).
    assert (B : pieces_ok (elem t_span [(k_style, s_green)] [PText (last_word s)]) = true)
      by (apply pieces_ok_elem; [reflexivity|reflexivity|apply pieces_ok_text; ltf]).
    rewrite !pieces_ok_app, A, B. reflexivity.
  - rewrite pieces_ok_app, (IH H). cbn [andb]. apply pieces_ok_elem; [reflexivity|reflexivity|]. apply pieces_ok_text. ltf.
  - rewrite pieces_ok_app, (IH H). cbn [andb]. apply pieces_ok_elem; [reflexivity|reflexivity|].
    apply pieces_ok_text_lble. ltf.
  - apply pieces_ok_text. ltf.
Qed.
Lemma ok_disp_inst di : dinst_ok di = true -> pieces_ok (disp_inst di) = true.
Proof.
  destruct di as [s|d nm|d nm val]; cbn [dinst_ok disp_inst]; intros H.
  - apply pieces_ok_elem; [reflexivity|reflexivity|]. apply pieces_ok_text. ltf.
  - apply andb_prop in H as [Hd Hn]. rewrite pieces_ok_app, (ok_disp_type d Hd). apply pieces_ok_text. ltf.
  - apply andb_prop in H as [H Hv]. apply andb_prop in H as [Hd Hn]. rewrite !pieces_ok_app, (ok_disp_type d Hd). cbn [andb].
    assert (A : pieces_ok (elem t_span [(k_style, s_magenta)] [PText nm]) = true)
      by (apply pieces_ok_elem; [reflexivity|reflexivity|apply pieces_ok_text; ltf]).
    assert (B : pieces_ok (elem t_span [(k_style, s_cyan)] [PText val]) = true)
      by (apply pieces_ok_elem; [reflexivity|reflexivity|apply pieces_ok_text; ltf]).
    rewrite A, B. reflexivity.
Qed.
Lemma ok_tx_markup b ps : pieces_ok ps = true -> pieces_ok (tx_markup b ps) = true.
Proof. intros H. unfold tx_markup. destruct b; [|exact H]. apply pieces_ok_text. ltf. Qed.
Lemma ok_toggle b h i t : attr_safe h = true -> quote_free i = true -> attr_safe t = true -> pieces_ok (toggle_anchor b h i t) = true.
Proof.
  intros Hh Hi Ht. unfold toggle_anchor. apply pieces_ok_elem; [reflexivity| |apply pieces_ok_text; reflexivity].
  attrs_ok_t.
Qed.
Lemma ok_doc_pre_esc cls d : forallb attr_ok cls = true -> pieces_ok (doc_pre true cls d) = true.
Proof. intros H. unfold doc_pre. apply pieces_ok_elem; [reflexivity|exact H|]. apply pieces_ok_text. ltf. Qed.
Lemma ok_span_cls c t : attr_safe c = true -> lt_free t = true -> pieces_ok (span_cls c t) = true.
Proof. intros Hc Ht. unfold span_cls. apply pieces_ok_elem; [reflexivity| |apply pieces_ok_text, Ht]. cbn [forallb]. rewrite attr_safe_ok; [reflexivity|reflexivity|exact Hc]. Qed.

Lemma pieces_ok_app_intro a b : pieces_ok a = true -> pieces_ok b = true -> pieces_ok (a ++ b) = true.
Proof. intros Ha Hb. rewrite pieces_ok_app, Ha, Hb. reflexivity. Qed.
Ltac papp := repeat match goal with |- pieces_ok (_ ++ _) = true => apply pieces_ok_app_intro end.

Ltac qf2 :=
  repeat match goal with
  | |- _ => assumption
  | |- _ => reflexivity
  | |- quote_free (if ?b then _ else _) = true => destruct b
  | |- quote_free (tx true _) = true => apply qf_tx_esc
  | |- quote_free (tx _ _) = true => apply qf_tx
  | |- quote_free (markupsafe_escape _) = true => apply qf_ms_escape
  | |- quote_free (dec_of_Z _) = true => apply qf_dec_Z
  | |- quote_free (up_of _) = true => apply qf_up_of
  | |- quote_free (snd (filter_make_unique _ _)) = true => apply make_unique_quote_free
  | |- quote_free (_ ++ _) = true => apply qf_app
  | |- quote_free (str_replace1 _ _ _) = true => apply qf_replace
  | |- quote_free (last_word _) = true => apply qf_last_word
  | |- quote_free (filter_tag_id _) = true => apply qf_tag_id
  | |- quote_free (filter_url_from_type _) = true => apply qf_url
  | |- tinfo_ok (arr_tinfo _) = true => apply qf_arr_tinfo
  end.
Ltac asafe2 := repeat first [ assumption | reflexivity | apply attr_safe_app | (apply qf_attr_safe; qf2) ].
Ltac ltf2 := repeat first [ assumption | reflexivity | apply lt_free_app | (apply qf_lt_free; qf2) ].
Ltac attrs2 := repeat (apply attrs_ok_cons; [reflexivity|asafe2|]); try reflexivity.
Ltac pok :=
  repeat match goal with
  | |- _ => assumption
  | |- pieces_ok (_ ++ _) = true => apply pieces_ok_app_intro
  | |- pieces_ok (toggle_anchor _ _ _ _) = true => apply ok_toggle; [asafe2|qf2|asafe2]
  | |- pieces_ok (doc_pre true _ _) = true => apply ok_doc_pre_esc; attrs2
  | |- pieces_ok (span_cls _ _) = true => apply ok_span_cls; [asafe2|ltf2]
  | |- pieces_ok (tx_markup _ _) = true => apply ok_tx_markup
  | |- pieces_ok (disp_type _) = true => apply ok_disp_type
  | |- pieces_ok (disp_inst _) = true => apply ok_disp_inst
  | |- pieces_ok (elem _ _ _) = true => apply pieces_ok_elem; [reflexivity|attrs2|]
  | |- pieces_ok [PText _] = true => apply pieces_ok_text; ltf2
  | |- pieces_ok (if ?b then _ else _) = true => destruct b
  | |- pieces_ok (match ?x with Some _ => _ | None => _ end) = true => destruct x
  | |- pieces_ok [] = true => reflexivity
  | |- pieces_ok [POpen _ []] = true => reflexivity
  end.

Section PiecesOk.
Variable cf : cfg.
Hypothesis Hde_ti : de_ti cf = true.
Hypothesis Hde_ni : de_ni cf = true.
Hypothesis Hde_sb : de_sb cf = true.
Hypothesis Hde_tb : de_tb cf = true.

Lemma tinfo_ok_parts t : tinfo_ok t = true ->
  quote_free (ti_full_name t) = true /\ quote_free (ti_root_ns t) = true /\ quote_free (ti_full_namespace t) = true /\ quote_free (ti_elem_str t) = true.
Proof. unfold tinfo_ok. intros H. apply andb_prop in H as [H He]. apply andb_prop in H as [H Hns]. apply andb_prop in H as [Hf Hr]. auto. Qed.

Lemma emit_ty_attrs_ok :
  (forall t up st nm nested, ty_ok t = true -> quote_free up = true -> quote_free nm = true ->
                             pieces_ok (snd (emit_ty cf up st t nm nested)) = true)
  /\ (forall a up st, attrs_ok a = true -> quote_free up = true -> pieces_ok (snd (emit_attrs cf up st a)) = true).
Proof.
  apply ty_attrs_ind.
  - intros c a IHa up st nm nested H Hup Hnm. cbn [ty_ok] in H. apply andb_prop in H as [Ht Ha].
    destruct (tinfo_ok_parts _ Ht) as (Q1 & Q2 & Q3 & Q4).
    assert (Hid : quote_free (snd (if nested then filter_make_unique st (filter_tag_id (ci_t c) ++ nested_id_sep) else (st, filter_tag_id (ci_t c)))) = true)
      by (destruct nested; cbn [snd]; qf2).
    assert (Hdoc : forall d (b : bool), pieces_ok (match d with [] => [] | _ :: _ => if b then [] else doc_pre (de_ti cf) [(k_class, s_docs)] d end) = true)
      by (intros d b; rewrite Hde_ti; destruct d; [reflexivity|destruct b; [reflexivity|pok]]).
    cbn [emit_ty]. cbv zeta. cbn [snd]. unfold version_text, dep_class, div_class.
    rewrite pieces_ok_app. apply andb_true_intro. split.
    + apply pieces_ok_elem; [reflexivity|attrs2|]. papp; pok.
    + apply pieces_ok_elem; [reflexivity|attrs2|]. papp; try reflexivity.
      * apply Hdoc.
      * destruct a; [pok|apply IHa; assumption|apply IHa; assumption].
  - intros es dep d e IHe up st nm nested H Hup Hnm. cbn [ty_ok] in H. apply andb_prop in H as [H He]. apply andb_prop in H as [Hes Hd].
    assert (Hid : quote_free (snd (if nested then filter_make_unique st (filter_tag_id (arr_tinfo es) ++ nested_id_sep) else (st, filter_tag_id (arr_tinfo es)))) = true)
      by (destruct nested; cbn [snd]; qf2).
    cbn [emit_ty]. cbv zeta. cbn [snd]. unfold dep_class, div_class.
    rewrite pieces_ok_app. apply andb_true_intro. split.
    + apply pieces_ok_elem; [reflexivity|attrs2|]. papp; pok.
    + apply pieces_ok_elem; [reflexivity|attrs2|]. rewrite pieces_ok_app. apply andb_true_intro. split; [|reflexivity].
      apply IHe; [exact He|exact Hup|reflexivity].
  - intros s up st nm nested H _ _. cbn [ty_ok] in H. cbn [emit_ty snd]. pok.
  - intros up st _ _. reflexivity.
  - intros nm doc t IHt rest IHr up st H Hup. cbn [attrs_ok] in H. apply andb_prop in H as [H Hr]. apply andb_prop in H as [Hn Ht].
    cbn [emit_attrs]. cbv zeta. cbn [snd]. papp.
    + apply IHt; assumption.
    + rewrite Hde_ti. pok.
    + apply IHr; assumption.
  - intros di isf lb doc rest IHr up st H Hup. cbn [attrs_ok] in H. apply andb_prop in H as [Hd Hr].
    cbn [emit_attrs]. cbv zeta. cbn [snd]. papp.
    + apply pieces_ok_elem; [reflexivity|attrs2|]. pok.
    + rewrite Hde_ti. pok.
    + apply IHr; assumption.
Qed.

Lemma emit_types_ok up ts : quote_free up = true -> forallb (fun e => ty_ok (snd e)) ts = true ->
  forall st, pieces_ok (snd (emit_types cf up st ts)) = true.
Proof.
  intros Hup. induction ts as [|[sn t] r IH]; intros H st; [reflexivity|]. cbn [forallb snd] in H. apply andb_prop in H as [Ht Hr].
  cbn [emit_types]. destruct (str_eqb sn namespace_doc_key); [apply IH, Hr|]. cbv zeta. cbn [snd]. rewrite pieces_ok_app.
  rewrite (proj1 emit_ty_attrs_ok t up st [] false Ht Hup eq_refl), (IH Hr). reflexivity.
Qed.

Lemma emit_ns_nsl_ok up : quote_free up = true ->
  (forall n st, nst_ok n = true -> pieces_ok (snd (emit_ns cf up st n)) = true)
  /\ (forall l st, nsl_ok l = true -> pieces_ok (snd (emit_nsl cf up st l)) = true).
Proof.
  intros Hup. apply nst_nsl_ind.
  - intros name docs types subs IH st H. cbn [nst_ok] in H. apply andb_prop in H as [H Hs]. apply andb_prop in H as [Hn Ht].
    assert (Hid : quote_free (ns_id name) = true) by (unfold ns_id; qf2).
    cbn [emit_ns]. cbv zeta. cbn [snd]. rewrite pieces_ok_app. apply andb_true_intro. split.
    + apply pieces_ok_elem; [reflexivity|attrs2|]. pok.
    + apply pieces_ok_elem; [reflexivity|attrs2|]. papp.
      * rewrite Hde_ni. destruct (filter_namespace_doc docs); pok.
      * apply emit_types_ok; assumption.
      * apply IH, Hs.
  - intros st _. reflexivity.
  - intros n IHn r IHr st H. cbn [nsl_ok] in H. apply andb_prop in H as [Hn Hr]. cbn [emit_nsl]. cbv zeta. cbn [snd].
    apply pieces_ok_app_intro; [apply IHn, Hn|apply IHr, Hr].
Qed.

Lemma sidebar_types_ok ts : forallb (fun e => ty_ok (snd e)) ts = true -> pieces_ok (sidebar_types cf ts) = true.
Proof.
  induction ts as [|[sn t] r IH]; intros H; [reflexivity|]. cbn [forallb snd] in H. apply andb_prop in H as [Ht Hr].
  cbn [sidebar_types]. rewrite pieces_ok_app, (IH Hr), andb_true_r. destruct (str_eqb sn namespace_doc_key); [reflexivity|].
  destruct t as [c a|es dep d e|s]; cbn [comp_info]; [|reflexivity|reflexivity]. cbn [ty_ok] in Ht. apply andb_prop in Ht as [Ht _].
  destruct (tinfo_ok_parts _ Ht) as (Q1 & Q2 & Q3 & Q4). unfold version_text. pok.
Qed.

Lemma emit_sidebar_ok :
  (forall n, nst_ok n = true -> pieces_ok (emit_sidebar cf n) = true) /\ (forall l, nsl_ok l = true -> pieces_ok (emit_sidebar_l cf l) = true).
Proof.
  apply nst_nsl_ind.
  - intros name docs types subs IH H. cbn [nst_ok] in H. apply andb_prop in H as [H Hs]. apply andb_prop in H as [Hn Ht].
    assert (Hid : quote_free (ns_id name) = true) by (unfold ns_id; qf2).
    cbn [emit_sidebar]. cbv zeta. rewrite pieces_ok_app. apply andb_true_intro. split.
    + apply pieces_ok_elem; [reflexivity|attrs2|]. pok.
    + apply pieces_ok_elem; [reflexivity|attrs2|]. papp.
      * rewrite Hde_sb. destruct (filter_namespace_doc docs); pok.
      * apply sidebar_types_ok, Ht.
      * apply IH, Hs.
  - intros _. reflexivity.
  - intros n IHn r IHr H. cbn [nsl_ok] in H. apply andb_prop in H as [Hn Hr]. cbn [emit_sidebar_l]. apply pieces_ok_app_intro; [apply IHn, Hn|apply IHr, Hr].
Qed.

(* the hypothesis of scan_render holds of every namespace page and every type page *)
Theorem ns_page_pieces_ok n : nst_ok n = true -> pieces_ok (ns_page cf n) = true.
Proof.
  intros H. assert (Hn : quote_free (ns_name n) = true) by (destruct n; cbn [nst_ok ns_name] in *; apply andb_prop in H as [H _]; apply andb_prop in H as [H _]; exact H).
  unfold ns_page, ns_page_sidebar, ns_page_main. papp.
  - apply pieces_ok_elem; [reflexivity|reflexivity|]. apply (proj1 emit_sidebar_ok), H.
  - pok.
  - apply pieces_ok_elem; [reflexivity|reflexivity|]. apply (proj1 (emit_ns_nsl_ok _ (qf_up_of _))), H.
Qed.
End PiecesOk.

(* emit_tree_wf without a per-page check *)
Theorem ns_page_wf_unconditional cf n :
  cfg_docs_escaped cf = true -> nst_ok n = true -> wf_tokens (scan None (render (ns_page cf n))) = true.
Proof.
  intros Hc Hn. unfold cfg_docs_escaped in Hc. apply andb_prop in Hc as [Hc H4]. apply andb_prop in Hc as [Hc H3]. apply andb_prop in Hc as [H1 H2].
  apply emit_tree_wf. apply ns_page_pieces_ok; assumption.
Qed.

(* ---------- type pages (type_base.j2) ---------- *)
Lemma qf_full_namespace_of s : quote_free s = true -> quote_free (full_namespace_of s) = true.
Proof.
  intros H. unfold full_namespace_of, quote_free in *. rewrite forallb_rev.
  assert (G : forallb (fun c => negb ((c =? 60) || (c =? 62) || (c =? 34) || (c =? 39)))
                      (drop_while (fun c => negb (c =? 46)) (rev s)) = true) by (apply forallb_drop_while; rewrite forallb_rev; exact H).
  destruct (drop_while (fun c => negb (c =? 46)) (rev s)) as [|x r]; [reflexivity|]. cbn [forallb] in G. apply andb_prop in G as [_ G]. exact G.
Qed.

Theorem type_page_pieces_ok cf c : de_tb cf = true -> tinfo_ok (ci_t c) = true -> pieces_ok (type_page cf c) = true.
Proof.
  intros Hde Ht. destruct (tinfo_ok_parts _ Ht) as (Q1 & Q2 & Q3 & Q4).
  pose proof (qf_full_namespace_of _ Q1) as Q5.
  unfold type_page. destruct (ci_service c); [reflexivity|]. rewrite Hde. unfold version_text.
  apply pieces_ok_elem; [reflexivity|attrs2|]. pok.
Qed.

Theorem type_page_wf_unconditional cf c :
  de_tb cf = true -> tinfo_ok (ci_t c) = true -> wf_tokens (scan None (render (type_page cf c))) = true.
Proof. intros Hde Ht. apply type_page_wf. apply type_page_pieces_ok; assumption. Qed.
