(* C14 history, Python: the Serializer writers as they were BEFORE /repo f2fd316 ("the Python serializer reports a too-small buffer
   instead of silently dropping single-byte writes at its end", finding F-PY-SER-SILENT-DROP, status fixed).  Documentation of what
   the old code did; nothing here is used by Properties/C14.v or by the check.

   The old writers had no capacity test of their own: they relied on NumPy to raise.  But `buf[a : a + 1] = x` with a one-element x
   and a >= len(buf) assigns into an EMPTY slice, which NumPy accepts (a length-1 source broadcasts): nothing stored, no exception,
   cursor advanced.  Sources of two or more bytes raised ValueError; the byte-wise writers raised IndexError, possibly after having
   stored a prefix of the value.  The current text (Prims/PyPrims.v) is `_ensure_writable(...)` followed by the same statements. *)
From Verif Require Import Bits CPrims CPrimsThm PyPrims PyPrimsThm PyPrimsMoreThm PyPrimsBitsThm PrimsExt PrimsExtThm PyComposeThm.
Open Scope N_scope.

Definition add_unaligned_bytes_old (s : ser) (value : bytes) : option ser :=
  add_unaligned_loop s (s_off s mod 8) (8 - s_off s mod 8) value.

Definition add_aligned_bytes_old (s : ser) (x : bytes) : option ser :=
  if negb (s_off s mod 8 =? 0) then None
  else match assign_slice (s_buf s) (s_off s / 8) x with
       | Some b => Some (mkser b (s_off s + blen x * 8))
       | None => None
       end.

Definition add_aligned_unsigned_old (s : ser) (value bit_length : N) : option ser :=
  if negb (s_off s mod 8 =? 0) then None
  else match unsigned_to_bytes value bit_length with
       | None => None
       | Some bs => match assign_slice (s_buf s) (s_off s / 8) bs with
                    | Some b => Some (mkser b (s_off s + bit_length))
                    | None => None
                    end
       end.

Definition add_aligned_u16_old (s : ser) (x : N) : option ser :=
  bind (add_aligned_u8 s (N.land x 255)) (fun s1 => add_aligned_u8 s1 (N.land (N.shiftr x 8) 255)).
Definition add_aligned_u32_old (s : ser) (x : N) : option ser :=
  bind (add_aligned_u16_old s x) (fun s1 => add_aligned_u16_old s1 (N.shiftr x 16)).
Definition add_aligned_u64_old (s : ser) (x : N) : option ser :=
  bind (add_aligned_u32_old s x) (fun s1 => add_aligned_u32_old s1 (N.shiftr x 32)).

Definition add_aligned_array_of_bits_old (s : ser) (x : list bool) : option ser :=
  if negb (s_off s mod 8 =? 0) then None
  else match assign_slice (s_buf s) (s_off s / 8) (packbits x) with
       | Some b => Some (mkser b (s_off s + N.of_nat (length x)))
       | None => None
       end.

(* "either the bits land or an error is raised" was FALSE of the old text: 3-byte buffer, cursor at its end (bit 24):
   add_aligned_bytes([0x77]), add_aligned_unsigned(5, 3) and add_aligned_array_of_bits([1,0,1]) succeed, store nothing and advance
   the cursor *)
Theorem py_old_one_byte_at_end_refuted :
  exists s, Inv s /\ bytes_ok (s_buf s) /\ s_off s mod 8 = 0 /\ blen (s_buf s) < s_off s / 8 + 1 /\
    add_aligned_bytes_old s [119] = Some (mkser (s_buf s) (s_off s + 8)) /\
    add_aligned_unsigned_old s 5 3 = Some (mkser (s_buf s) (s_off s + 3)) /\
    add_aligned_array_of_bits_old s [true; false; true] = Some (mkser (s_buf s) (s_off s + 3)).
Proof.
  exists (mkser [0; 0; 0] 24). split; [intros p _; apply (bit_repeat0 3)|]. split; [apply (bytes_ok_repeat0 3)|].
  vm_compute. repeat split.
Qed.

(* the current text on the same witness: all three raise *)
Example py_now_on_the_witness :
  add_aligned_bytes (mkser [0; 0; 0] 24) [119] = None /\ add_aligned_unsigned (mkser [0; 0; 0] 24) 5 3 = None /\
  add_aligned_array_of_bits (mkser [0; 0; 0] 24) [true; false; true] = None.
Proof. vm_compute. repeat split. Qed.

(* the strongest true statement about the old text: a slice source of two or more bytes that does not fit raised *)
Theorem py_old_too_small_partial s x :
  s_off s mod 8 = 0 -> blen (s_buf s) < s_off s / 8 + blen x -> 2 <= blen x -> add_aligned_bytes_old s x = None.
Proof.
  intros Hal Hc Hx. unfold add_aligned_bytes_old, assign_slice. rewrite Hal. cbn [N.eqb negb].
  replace (N.min (blen x) (blen (s_buf s) - N.min (blen (s_buf s)) (s_off s / 8)) =? blen x) with false by (symmetry; apply N.eqb_neq; lia).
  replace (blen x =? 1) with false by (symmetry; apply N.eqb_neq; lia). reflexivity.
Qed.

(* inside the capacity the old and the current text are the same function: f2fd316 changed nothing there *)
Theorem py_old_is_current_within_capacity s x value bits :
  (s_off s / 8 + blen x <= blen (s_buf s) -> add_aligned_bytes s x = add_aligned_bytes_old s x) /\
  (x = [] \/ s_off s / 8 + blen x < blen (s_buf s) -> add_unaligned_bytes s x = add_unaligned_bytes_old s x) /\
  (s_off s / 8 + 8 <= blen (s_buf s) -> add_aligned_u64 s value = add_aligned_u64_old s value) /\
  (1 <= bits -> s_off s / 8 + (bits + 7) / 8 <= blen (s_buf s) -> add_aligned_unsigned s value bits = add_aligned_unsigned_old s value bits) /\
  (forall l, s_off s / 8 + blen (packbits l) <= blen (s_buf s) -> add_aligned_array_of_bits s l = add_aligned_array_of_bits_old s l).
Proof.
  split; [|split; [|split; [|split]]].
  - intros Hc. unfold add_aligned_bytes, add_aligned_bytes_old. rewrite (ensure_writable_true s _ _ Hc). reflexivity.
  - intros Hc. unfold add_unaligned_bytes_old. apply add_unaligned_bytes_loop. exact Hc.
  - intros Hc. unfold add_aligned_u64, add_aligned_u64_old. rewrite (ensure_writable_true s _ _ Hc). cbn [negb].
    assert (H16 : forall t y, s_off t / 8 + 2 <= blen (s_buf t) -> add_aligned_u16 t y = add_aligned_u16_old t y).
    { intros t y H. unfold add_aligned_u16, add_aligned_u16_old. rewrite (ensure_writable_true t _ _ H). reflexivity. }
    assert (Hstep : forall t y t', add_aligned_u8 t y = Some t' -> s_off t' = s_off t + 8 /\ blen (s_buf t') = blen (s_buf t)).
    { intros t y t' H. unfold add_aligned_u8 in H. destruct (negb _); [discriminate|]. destruct (store _ _ _) as [b|] eqn:E; [|discriminate].
      injection H as <-. cbn [s_off s_buf]. apply store_inv in E as (_ & _ & ->). unfold blen. rewrite upd_length. auto. }
    assert (H16s : forall t y t', add_aligned_u16_old t y = Some t' -> s_off t' = s_off t + 16 /\ blen (s_buf t') = blen (s_buf t)).
    { intros t y t' H. unfold add_aligned_u16_old in H. destruct (add_aligned_u8 t _) as [t1|] eqn:E1; [|discriminate]. cbn [bind] in H.
      destruct (Hstep _ _ _ E1) as [A B]. destruct (Hstep _ _ _ H) as [C D]. split; [lia|congruence]. }
    assert (H32 : forall t y, s_off t / 8 + 4 <= blen (s_buf t) -> add_aligned_u32 t y = add_aligned_u32_old t y).
    { intros t y H. unfold add_aligned_u32, add_aligned_u32_old. rewrite (ensure_writable_true t _ _ H). cbn [negb].
      rewrite H16 by lia. destruct (add_aligned_u16_old t y) as [t1|] eqn:E1; [|reflexivity]. cbn [bind].
      destruct (H16s _ _ _ E1) as [A B]. apply H16. rewrite A, B. replace (s_off t + 16) with (s_off t + 2 * 8) by lia. rewrite N.div_add by lia. lia. }
    assert (H32s : forall t y t', add_aligned_u32_old t y = Some t' -> s_off t' = s_off t + 32 /\ blen (s_buf t') = blen (s_buf t)).
    { intros t y t' H. unfold add_aligned_u32_old in H. destruct (add_aligned_u16_old t _) as [t1|] eqn:E1; [|discriminate]. cbn [bind] in H.
      destruct (H16s _ _ _ E1) as [A B]. destruct (H16s _ _ _ H) as [C D]. split; [lia|congruence]. }
    rewrite H32 by lia. destruct (add_aligned_u32_old s value) as [t1|] eqn:E1; [|reflexivity]. cbn [bind].
    destruct (H32s _ _ _ E1) as [A B]. apply H32. rewrite A, B. replace (s_off s + 32) with (s_off s + 4 * 8) by lia. rewrite N.div_add by lia. lia.
  - intros Hb Hc. unfold add_aligned_unsigned, add_aligned_unsigned_old. destruct (negb (_ =? 0)); [reflexivity|].
    destruct (unsigned_to_bytes_spec value bits Hb) as (bs & E & L & _). rewrite E, L, (ensure_writable_true s _ _ Hc). reflexivity.
  - intros l Hc. unfold add_aligned_array_of_bits, add_aligned_array_of_bits_old. rewrite (ensure_writable_true s _ _ Hc). reflexivity.
Qed.
