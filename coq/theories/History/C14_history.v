(* C14 history: statements about support code that is NO LONGER in /repo.  Documentation of what the old code did;
   nothing here is used by Properties/C14.v or by the check.

   bitspan::setZeros before the fix commit 795c362 ("C++ bitspan::setZeros zeroes exactly the addressed bit range",
   finding F-CPP-ZEROS, status fixed): it cleared ceil(length/8) bytes from offset/8 and restored only the low bits of the first
   byte, so (a) a range that crosses a byte boundary from a non-zero bit offset was under-zeroed and (b) bits after the end of
   the range inside the last touched byte were cleared as well. *)
From Verif Require Import Bits CPrims CPrimsThm CppPrims CppPrimsThm CppPrimsMoreThm.
Open Scope N_scope.

Definition setZeros_old (s : span) (length : N) : option (bytes + err) :=
  if sp_bits s <? length then Some (inr TooSmall)
  else if length =? 0 then Some (inl (sp_data s))
  else
    let offset_bytes := sp_off s / 8 in
    let offset_bits_mod := sp_off s mod 8 in
    let length_bytes_ceil := w64 (length + 7) / 8 in
    match rd (sp_data s) offset_bytes with
    | None => None
    | Some b0 =>
        let first_byte_temp := N.land b0 (N.land (N.shiftr 255 (8 - offset_bits_mod)) 255) in
        match memset0 (sp_data s) offset_bytes length_bytes_ceil with
        | None => None
        | Some d1 =>
            match rd d1 offset_bytes with
            | None => None
            | Some x0 => match wr d1 offset_bytes (N.lor x0 first_byte_temp) with
                         | Some d2 => Some (inl d2)
                         | None => None
                         end
            end
        end
    end.

(* the witness of F-CPP-ZEROS: offset 7, length 2 on ff ff: bit 8 stays set (expected 7f fe, the old code gives 7f ff) *)
Theorem setZeros_old_refuted :
  exists s length r p,
    setZeros_old s length = Some (inl r) /\ sp_off s <= p < sp_off s + length /\ bit r p = true.
Proof. exists (mkspan [255; 255] 2 7), 2, [127; 255], 8. vm_compute. repeat split; discriminate. Qed.

(* the second half of the old behaviour: it also cleared bits beyond the range (offset 0, length 1 on ff: whole byte zeroed) *)
Theorem setZeros_old_overclears :
  exists s length r p,
    setZeros_old s length = Some (inl r) /\ sp_off s + length <= p /\ bit (sp_data s) p = true /\ bit r p = false.
Proof. exists (mkspan [255] 1 0), 1, [0], 1. vm_compute. repeat split; discriminate. Qed.

(* and the current model on the same inputs *)
Example setZeros_now_on_the_witnesses :
  setZeros (mkspan [255; 255] 2 7) 2 = Some (inl [127; 254]) /\ setZeros (mkspan [255] 1 0) 1 = Some (inl [254]).
Proof. vm_compute. split; reflexivity. Qed.

(* any_bitspan::subspan(bits) / subspan_bytes(n) before the fix commit 939fc9d ("subspan never forms a pointer beyond one past
   the end of the data"): pointer + offset_bytes without a clamp.  This is the text modelled by CppPrims.subspan /
   CppPrims.subspan_bytes (still in that file because Codec/CppWalkerInst.v unfolds it); the statement that used to be the second
   conjunct of C14_cpp_pad_and_subspans.  The current source is PrimsExt.subspan_clamped (theorem subspan_clamped_spec). *)
Theorem subspan_unclamped_spec :
  forall (s : span) (bits size_bytes bits_at size_bits : N),
    span_okb s = true -> (sp_off s + bits <? two64) && (sp_off s + bits_at <? two64) && (size_bits + 8 <? two64) = true ->
    (let k := (sp_off s + bits) / 8 in
     let s' := subspan s bits in
     sp_data s' = skipn (N.to_nat k) (sp_data s) /\ sp_off s' = (sp_off s + bits) mod 8 /\
     sp_size s' = sp_size s - k /\ 8 * k + sp_off s' = sp_off s + bits /\
     (forall p, bit (sp_data s') p = bit (sp_data s) (8 * k + p)) /\
     sp_bits s' = sp_size s * 8 - (sp_off s + bits)) /\
    (let s' := subspan_bytes s size_bytes in
     sp_data s' = skipn (N.to_nat (sp_off s / 8)) (sp_data s) /\ sp_off s' = sp_off s mod 8 /\
     sp_size s' = N.min size_bytes (sp_size s - sp_off s / 8)) /\
    (let k := (sp_off s + bits_at) / 8 in
     let o := (sp_off s + bits_at) mod 8 in
     if (sp_size s <? k) || ((sp_size s - k) * 8 <? o + size_bits)
     then subspan2 s bits_at size_bits = inr TooSmall
     else subspan2 s bits_at size_bits = inl (mkspan (skipn (N.to_nat k) (sp_data s)) ((o + size_bits) / 8) o) /\
          k + (o + size_bits) / 8 <= sp_size s).
Proof. exact subspans_spec_b. Qed.
