(* C14 history: statements about support code that is NO LONGER in /repo.  Documentation of what the old code did;
   nothing here is used by Properties/C14.v or by the check.

   bitspan::setZeros before the fix commit 795c362 ("C++ bitspan::setZeros zeroes exactly the addressed bit range",
   finding F-CPP-ZEROS, status fixed): it cleared ceil(length/8) bytes from offset/8 and restored only the low bits of the first
   byte, so (a) a range that crosses a byte boundary from a non-zero bit offset was under-zeroed and (b) bits after the end of
   the range inside the last touched byte were cleared as well. *)
From Verif Require Import Bits CPrims CPrimsThm CPrimsW CPrimsWThm CppPrims CppPrimsThm CppPrimsMoreThm.
Open Scope N_scope.

Definition setZeros_old (s : span) (length : N) : option (bytes + err) :=
  if sp_bits s <? length then Some (inr TooSmall)
  else if length =? 0 then Some (inl (sp_data s))
  else
    let offset_bytes := sp_off s / 8 in
    let offset_bits_mod := sp_off s mod 8 in
    let length_bytes_ceil := w64 (length + 7) / 8 in
    match rd (sp_data s) offset_bytes with
    | None => None
    | Some b0 =>
        let first_byte_temp := N.land b0 (N.land (N.shiftr 255 (8 - offset_bits_mod)) 255) in
        match memset0 (sp_data s) offset_bytes length_bytes_ceil with
        | None => None
        | Some d1 =>
            match rd d1 offset_bytes with
            | None => None
            | Some x0 => match wr d1 offset_bytes (N.lor x0 first_byte_temp) with
                         | Some d2 => Some (inl d2)
                         | None => None
                         end
            end
        end
    end.

(* the witness of F-CPP-ZEROS: offset 7, length 2 on ff ff: bit 8 stays set (expected 7f fe, the old code gives 7f ff) *)
Theorem setZeros_old_refuted :
  exists s length r p,
    setZeros_old s length = Some (inl r) /\ sp_off s <= p < sp_off s + length /\ bit r p = true.
Proof. exists (mkspan [255; 255] 2 7), 2, [127; 255], 8. vm_compute. repeat split; discriminate. Qed.

(* the second half of the old behaviour: it also cleared bits beyond the range (offset 0, length 1 on ff: whole byte zeroed) *)
Theorem setZeros_old_overclears :
  exists s length r p,
    setZeros_old s length = Some (inl r) /\ sp_off s + length <= p /\ bit (sp_data s) p = true /\ bit r p = false.
Proof. exists (mkspan [255] 1 0), 1, [0], 1. vm_compute. repeat split; discriminate. Qed.

(* and the current model on the same inputs *)
Example setZeros_now_on_the_witnesses :
  setZeros (mkspan [255; 255] 2 7) 2 = Some (inl [127; 254]) /\ setZeros (mkspan [255] 1 0) 1 = Some (inl [254]).
Proof. vm_compute. split; reflexivity. Qed.

(* ---------------------------------------------------------------------------------------------
   any_bitspan::subspan(bits) / subspan_bytes(n) before the fix commit 939fc9d ("subspan never forms a pointer beyond one past the
   end of the data"): pointer + offset_bytes without a clamp.  Current text: PrimsExt.subspan_clamped / subspan_bytes_clamped. *)

Definition subspan (s : span) (bits : N) : span :=
  let offset_bits := w64 (sp_off s + bits) in
  let offset_bytes := offset_bits / 8 in
  let offset_bits_mod := offset_bits mod 8 in
  let new_size := if offset_bytes <? sp_size s then sp_size s - offset_bytes else 0 in
  mkspan (skipn (N.to_nat offset_bytes) (sp_data s)) new_size offset_bits_mod.

(* any_bitspan::subspan_bytes(size_bytes) *)
Definition subspan_bytes (s : span) (size_bytes : N) : span :=
  let whole := subspan s 0 in
  let available := sp_size whole in
  mkspan (sp_data whole) (if size_bytes <? available then size_bytes else available) (sp_off whole).


Theorem subspan_spec s bits :
  span_ok s -> sp_off s + bits < two64 ->
  let k := (sp_off s + bits) / 8 in
  let s' := subspan s bits in
  sp_data s' = skipn (N.to_nat k) (sp_data s) /\ sp_off s' = (sp_off s + bits) mod 8 /\
  sp_size s' = sp_size s - k /\ 8 * k + sp_off s' = sp_off s + bits /\
  (forall p, bit (sp_data s') p = bit (sp_data s) (8 * k + p)) /\
  sp_bits s' = sp_size s * 8 - (sp_off s + bits) /\
  (k <= sp_size s -> span_ok s').
Proof.
  intros (S1 & S2 & S3) Hw k s'. subst s'. unfold subspan. rewrite (w64_small (sp_off s + bits)) by exact Hw. fold k.
  cbn [sp_data sp_off sp_size].
  assert (T64 : two64 = 18446744073709551616) by reflexivity.
  assert (Hsz : (if k <? sp_size s then sp_size s - k else 0) = sp_size s - k) by (destruct (N.ltb_spec k (sp_size s)); lia).
  rewrite Hsz. repeat split; try reflexivity.
  - subst k. lia.
  - intros p. apply bit_skipn.
  - unfold sp_bits. cbn [sp_size sp_off]. rewrite w64_small by lia.
    destruct (N.ltb_spec ((sp_size s - k) * 8) ((sp_off s + bits) mod 8)); subst k; lia.
  - cbn [sp_size sp_data]. unfold blen in *. rewrite skipn_length. lia.
  - cbn [sp_data]. unfold blen in *. rewrite skipn_length. lia.
  - cbn [sp_off]. pose proof (N.mod_lt (sp_off s + bits) 8). lia.
Qed.

Theorem subspan_bytes_spec s size_bytes :
  span_ok s ->
  let s' := subspan_bytes s size_bytes in
  sp_data s' = skipn (N.to_nat (sp_off s / 8)) (sp_data s) /\ sp_off s' = sp_off s mod 8 /\
  sp_size s' = N.min size_bytes (sp_size s - sp_off s / 8).
Proof.
  intros Hs. pose proof Hs as (S1 & S2 & S3).
  destruct (subspan_spec s 0 Hs ltac:(lia)) as (H1 & H2 & H3 & _).
  rewrite N.add_0_r in *. unfold subspan_bytes. cbn [sp_data sp_off sp_size]. rewrite H1, H2, H3.
  repeat split. destruct (N.ltb_spec size_bytes (sp_size s - sp_off s / 8)); lia.
Qed.

Theorem subspans_spec_b s bits size_bytes bits_at size_bits :
  span_okb s = true -> (sp_off s + bits <? two64) && (sp_off s + bits_at <? two64) && (size_bits + 8 <? two64) = true ->
  (let k := (sp_off s + bits) / 8 in
   let s' := subspan s bits in
   sp_data s' = skipn (N.to_nat k) (sp_data s) /\ sp_off s' = (sp_off s + bits) mod 8 /\
   sp_size s' = sp_size s - k /\ 8 * k + sp_off s' = sp_off s + bits /\
   (forall p, bit (sp_data s') p = bit (sp_data s) (8 * k + p)) /\
   sp_bits s' = sp_size s * 8 - (sp_off s + bits)) /\
  (let s' := subspan_bytes s size_bytes in
   sp_data s' = skipn (N.to_nat (sp_off s / 8)) (sp_data s) /\ sp_off s' = sp_off s mod 8 /\
   sp_size s' = N.min size_bytes (sp_size s - sp_off s / 8)) /\
  (let k := (sp_off s + bits_at) / 8 in
   let o := (sp_off s + bits_at) mod 8 in
   if (sp_size s <? k) || ((sp_size s - k) * 8 <? o + size_bits)
   then subspan2 s bits_at size_bits = inr TooSmall
   else subspan2 s bits_at size_bits = inl (mkspan (skipn (N.to_nat k) (sp_data s)) ((o + size_bits) / 8) o) /\
        k + (o + size_bits) / 8 <= sp_size s).
Proof.
  intros Hb H. apply span_okb_ok in Hb as [Hs _]. apply andb_prop in H as [H H3]. apply andb_prop in H as [H1 H2].
  apply N.ltb_lt in H1, H2, H3.
  split.
  { destruct (subspan_spec s bits Hs H1) as (A & B & C & D & E & F & _). repeat split; assumption. }
  split; [apply subspan_bytes_spec; assumption|apply subspan2_spec; assumption].
Qed.

(* ---------------------------------------------------------------------------------------------
   nunavutSetUxx / bitspan::setUxx before the fix commit ba46e0a (finding F-SETUXX-OFFSET-WRAP, status fixed): the capacity check
   `(buf_size_bytes * 8) < (off_bits + len_bits)` added in size_t, so for an offset within len_bits of the maximum the sum wrapped,
   the check passed and the copy left the buffer.  Current text: CPrims.set_uxx / CppPrims.cpp_set_uxx (saturating check, theorem
   set_uxx_exact_all: every offset). *)
Definition set_uxx_wrapM (M : N) (little : bool) (buf : bytes) (buf_size_bytes off_bits value len_bits : N) : option (bytes + err) :=
  if wM M (buf_size_bytes * 8) <? wM M (off_bits + len_bits) then Some (inr TooSmall)
  else
    let saturated := choose_min len_bits 64 in
    let tmp := if little then mem_le 8 (w64 value) else tmp_any (w64 value) in
    match copy_bitsM M buf off_bits saturated tmp 0 with
    | Some b => Some (inl b)
    | None => None
    end.
Definition set_uxx_old := set_uxx_wrapM two64.
Definition cpp_set_uxx_old (s : span) (value len_bits : N) : option (bytes + err) :=
  if w64 (sp_size s * 8) <? w64 (sp_off s + len_bits) then Some (inr TooSmall)
  else
    let saturated := N.min len_bits 64 in
    match copyTo (mkspan (tmp_any (w64 value)) 8 0) s saturated with
    | Some b => Some (inl b)
    | None => None
    end.

(* witness for both widths of size_t and the C++ twin: 2-byte buffer, offset 2^W - 8, 16 bits: out-of-range access (None)
   although buf_pre holds and the buffer is too small; the current text reports TooSmall *)
Theorem set_uxx_old_offset_wrap_refuted :
  (exists buf size off value len,
     buf_pre buf size off = true /\ size * 8 < off + len /\ set_uxx_old false buf size off value len = None /\
     set_uxx_old true buf size off value len = None /\ set_uxx false buf size off value len = Some (inr TooSmall)) /\
  (exists buf size off value len,
     buf_preM (2 ^ 32) buf size off = true /\ size * 8 < off + len /\ set_uxx_wrapM (2 ^ 32) false buf size off value len = None) /\
  (exists s value len, span_okb s = true /\ sp_bits s < len /\ cpp_set_uxx_old s value len = None /\
                       cpp_set_uxx s value len = Some (inr TooSmall)).
Proof.
  split; [|split].
  - exists [0; 0], 2, (two64 - 8), 255, 16. vm_compute. repeat split.
  - exists [0; 0], 2, (2 ^ 32 - 8), 255, 16. vm_compute. repeat split.
  - exists (mkspan [0; 0] 2 (two64 - 8)), 255, 16. vm_compute. repeat split.
Qed.

(* where the wrapping text was right: on off + len < 2^64 it agrees with the current one *)
Theorem set_uxx_old_agrees_on_domain little buf size off value len :
  size * 8 < two64 -> off + len < two64 -> set_uxx_old little buf size off value len = set_uxx little buf size off value len.
Proof.
  intros Hs Hl. unfold set_uxx_old, set_uxx_wrapM, set_uxx, wM, w64.
  rewrite (N.mod_small (size * 8)), (N.mod_small (off + len)) by lia.
  change (copy_bitsM two64) with copy_bits.
  destruct (N.ltb_spec (size * 8) off); destruct (N.ltb_spec (size * 8 - off) len); destruct (N.ltb_spec (size * 8) (off + len));
    cbn [orb]; first [reflexivity | exfalso; lia].
Qed.

(* ---------------------------------------------------------------------------------------------------------------------------
   bitspan::padAndMoveToAlignment and bitspan::subspan(bits_at, size_bits) before /repo fcc36ca (findings F-BITSPAN-PAD-TRUNC,
   F-BITSPAN-SUBSPAN-WRAP, status fixed): the padding amount was cast to uint8_t, and the two sums of subspan wrapped silently. *)
Definition padAndMoveToAlignment_old (s : span) (n_bits : N) : option ((bytes * N) + err) :=
  if n_bits =? 0 then None
  else
    let padding := cast_u 8 (n_bits - sp_off s mod n_bits) in            (* static_cast<uint8_t>(...) *)
    if negb (padding =? n_bits) then
      match setZeros s padding with
      | None => None
      | Some (inr e) => Some (inr e)
      | Some (inl d) => Some (inl (d, w64 (sp_off s + padding)))
      end
    else Some (inl (sp_data s, sp_off s)).

Definition subspan2_old (s : span) (bits_at size_bits : N) : span + err :=
  let offset_bits := w64 (sp_off s + bits_at) in
  let offset_bytes := offset_bits / 8 in
  let new_offset_bits := offset_bits mod 8 in
  if sp_size s <? offset_bytes then inr TooSmall
  else
    let new_size_bits := w64 (new_offset_bits + size_bits) in
    let size_available_bits := w64 ((sp_size s - offset_bytes) * 8) in
    if size_available_bits <? new_size_bits then inr TooSmall
    else inl (mkspan (skipn (N.to_nat offset_bytes) (sp_data s)) (new_size_bits / 8) new_offset_bits).

(* 80-byte zero buffer, cursor 8: padAndMoveToAlignment(512) reported success and left the cursor at 256 (504 truncated to uint8_t
   is 248), which is not a multiple of 512 *)
Theorem pad_old_truncates_refuted :
  exists s n, span_ok s /\ bytes_ok (sp_data s) /\ 1 <= n < two64 /\
    exists r o, padAndMoveToAlignment_old s n = Some (inl (r, o)) /\ o mod n <> 0.
Proof.
  assert (T64 : two64 = 18446744073709551616) by reflexivity.
  exists (mkspan (repeat 0 80) 80 8), 512.
  split; [unfold span_ok, blen; cbn [sp_size sp_data sp_off]; rewrite repeat_length; lia|].
  split; [apply (bytes_ok_repeat0 80)|]. split; [lia|].
  eexists _, _. split; [vm_compute; reflexivity|]. vm_compute. discriminate.
Qed.

(* 4-byte buffer, cursor 8: subspan(2^64 - 7, 8) reported success (8 + 2^64 - 7 wrapped to 1); subspan(0, 2^64 - 6) at cursor 7
   reported success (7 + 2^64 - 6 wrapped to 1: a span of size 0) *)
Theorem subspan2_old_wraps_refuted :
  exists s, span_ok s /\
    (exists r, subspan2_old s (two64 - 7) 8 = inl r) /\
    (exists r, subspan2_old (mkspan (sp_data s) (sp_size s) 7) 0 (two64 - 6) = inl r).
Proof.
  assert (T64 : two64 = 18446744073709551616) by reflexivity.
  exists (mkspan [0; 0; 0; 0] 4 8). split; [unfold span_ok, blen; cbn [sp_size sp_data sp_off length]; lia|].
  split; eexists; vm_compute; reflexivity.
Qed.

(* the current text on the same witnesses *)
Example bitspan_now_on_the_witnesses :
  (exists r, padAndMoveToAlignment (mkspan (repeat 0 80) 80 8) 512 = Some (inl (r, 512))) /\
  subspan2 (mkspan [0; 0; 0; 0] 4 8) (two64 - 7) 8 = inr TooSmall /\
  subspan2 (mkspan [0; 0; 0; 0] 4 7) 0 (two64 - 6) = inr TooSmall.
Proof. split; [eexists; vm_compute; reflexivity|]. split; vm_compute; reflexivity. Qed.

(* on the old domains fcc36ca changed nothing *)
Theorem pad_old_is_current_on_uint8 s n : n <= 255 -> padAndMoveToAlignment s n = padAndMoveToAlignment_old s n.
Proof.
  intros Hn. unfold padAndMoveToAlignment, padAndMoveToAlignment_old. destruct (N.eqb_spec n 0); [reflexivity|].
  rewrite cast_u_small; [reflexivity|]. change (2 ^ 8) with 256. lia.
Qed.

Theorem subspan2_old_is_current_without_wrap s bits_at size_bits :
  span_ok s -> sp_off s + bits_at < two64 -> size_bits + 8 < two64 ->
  subspan2 s bits_at size_bits = subspan2_old s bits_at size_bits.
Proof.
  intros (S1 & S2 & S3) Hw Hsb. pose proof (subspan2_spec s bits_at size_bits (conj S1 (conj S2 S3)) Hw Hsb) as A. cbn zeta in A.
  assert (T64 : two64 = 18446744073709551616) by reflexivity.
  unfold subspan2_old. rewrite (w64_small (sp_off s + bits_at)) by exact Hw.
  set (k := (sp_off s + bits_at) / 8) in *. set (o := (sp_off s + bits_at) mod 8) in *.
  assert (Ho : o < 8) by (subst o; apply N.mod_lt; discriminate).
  destruct (N.ltb_spec (sp_size s) k); cbn [orb] in A; [exact A|].
  rewrite (w64_small (o + size_bits)) by lia. rewrite (w64_small ((sp_size s - k) * 8)) by lia.
  destruct (N.ltb_spec ((sp_size s - k) * 8) (o + size_bits)); [exact A|exact (proj1 A)].
Qed.
