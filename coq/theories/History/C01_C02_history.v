(* COMPILED ARCHIVE - not a proof obligation of any property.

   Statements that used to live in Properties/C02.v and are stale there.  They are kept here (copied verbatim, names prefixed
   `hist_`) so that the record of what was claimed at which stage still type-checks against the current models; nothing in
   tools/checks/ reads this file and no property's verdict depends on it.

   1. hist_c02_walker_des_refines_partial, hist_c02_walker_des_refines_bytes_partial, hist_c02_fragment_inhabited:
      the FIRST-ROUND refinement of the code-shaped deserialization walker, restricted to `Refine.walk_fragment` (a top-level
      composite whose fields are primitives or arrays of primitives).  SUPERSEDED by the full theorem
      `c02_walker_des_refines : forall P t bits, prims_ok P -> length bits mod 8 = 0 -> walk_des P t bits = des_spec t bits`
      (Properties/C02.v, proof Codec/RefineDes.v `walk_des_refines_all`), which has no fragment hypothesis; the partial
      statements are instances of it.

   2. hist_c02_py_assert_refuted (with hist_ex_bar, hist_ex_outer, hist_ex_bytes): finding F-PY-DES-ASSERT.  The generated Python
      deserializer used to assert `min <= consumed <= t.bit_length_set.max`; `Wire.dec_body_pa` / `Wire.des_spec_pa` model that
      upper-bound assertion (error `EAssert`).  The assertion was REMOVED from /repo by commit 657d6ac, so `dec_body_pa` and
      `des_spec_pa` describe HISTORICAL behaviour only; the current template keeps the lower bound only
      (deserialization.j2 line 49: `assert {{ t.bit_length_set.min }} <= (_des_.consumed_bit_length - _base_offset_)`).
      Output of `git -C /repo log --oneline -3 -- src/nunavut/lang/py/templates/deserialization.j2` when this file was written:
          657d6ac fix: Python deserializer accepts nested delimited objects longer than the known extent
          50274f0 fix: Python deserializer applies implicit zero extension to truncated delimiter headers
          beadc7e snapshot
      The theorem below therefore documents what the OLD generated code did on the witness (the specification accepts it, the
      quirk model raises); on the current tree the witness decodes as `des_spec` says. *)
From Verif Require Import Wire Walker Refine.
Local Open Scope nat_scope.

(* ---- 1. first-round partial refinement (superseded by c02_walker_des_refines) ---- *)
Theorem hist_c02_walker_des_refines_partial : forall P t bits, prims_ok P -> walk_fragment t = true -> length bits mod 8 = 0 ->
  walk_des P t bits = des_spec t bits.
Proof. exact walk_des_refines_prims. Qed.
Print Assumptions hist_c02_walker_des_refines_partial.

Theorem hist_c02_walker_des_refines_bytes_partial : forall t bytes, walk_fragment t = true ->
  walk_des_obs t bytes = des_spec t (bits_of_bytes bytes).
Proof. exact walk_des_refines_partial. Qed.
Print Assumptions hist_c02_walker_des_refines_bytes_partial.

Example hist_c02_fragment_inhabited :
  walk_fragment (TComp true [TPrim (PU 13 false); TVar (TPrim PBool) 9; TFix (TPrim (PF 16 true)) 3] (Some 128)) = true.
Proof. reflexivity. Qed.

(* ---- 2. finding F-PY-DES-ASSERT (fixed in /repo by 657d6ac; dec_body_pa is the pre-fix behaviour) ---- *)
Definition hist_ex_bar : ty := TComp false [TPrim (PU 8 true); TPrim (PU 8 true)] (Some 64).
Definition hist_ex_outer : ty := TComp false [hist_ex_bar; TPrim (PU 8 true)] None.
Definition hist_ex_bytes : list N := [9; 0; 0; 0; 1; 2; 3; 4; 5; 6; 7; 8; 9; 10]%N.
Theorem hist_c02_py_assert_refuted : wf_ty hist_ex_outer = true /\
  des_spec hist_ex_outer (bits_of_bytes hist_ex_bytes) = Ok (VStruct [VStruct [VInt 1; VInt 2]; VInt 10], 14) /\
  des_spec_pa hist_ex_outer (bits_of_bytes hist_ex_bytes) = Err EAssert.
Proof. vm_compute. split; [|split]; reflexivity. Qed.
Print Assumptions hist_c02_py_assert_refuted.
