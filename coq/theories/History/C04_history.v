(* C04 history: refutations about renderings that are NO LONGER in /repo (kept as documentation of what the old code did).
   F-C-OVR-CAP (fixed by 2e84c7a): length checks against the DSDL capacity with a reduced storage, unchecked stores with the
   up-front test compiled out.  F-C-PTR-PAST-END (fixed by 9be3c74): &buffer[offset_bits / 8U] unclamped.
   F-CPP-PTR-PAST-END (fixed by 939fc9d): any_bitspan::subspan() returned data_.data() + offset_bytes unclamped.
   F-CPP-HDR-WRAP32 and F-C-OVR-ASSERT (fixed by f2f61d1): header test multiplying before comparing; maximum-fits assertion under the override.
   F-CPP-UNION14 (fixed by d43de40): destroy_current over the filtered field list.  F-CPP-VLA (fixed by 5719048): no clear(). *)
From Verif Require Import Wire WireThm Walker WalkerSafe WalkerSafeThm WalkerSafeCpp WalkerSafeCppThm.
From Coq Require Import Lia.
Local Open Scope nat_scope.

(* with the check compiled out (capacity override in effect) the first aligned store is unchecked *)
Theorem too_small_writes_without_check_refuted :
  exists c t o capB, up_front c = false /\ 8 * capB < bmax t /\ forallb (acc_ok capB) (snd (walk_ser_safe c t o capB)) = false.
Proof.
  exists {| ov := fun _ n => n; up_front := false; little := false; al := dyn_al; len_chk_storage := false; guarded := false; ptr_clamp := true; bulk_on := true; nested_strict := false; plan := all_first; asserts := false; assert_max := true |},
         (TComp false [TPrim (PU 8 true)] None), (CStruct [CPrim (VInt 1)]), 0.
  split; [reflexivity|]. split; [vm_compute; lia | vm_compute; reflexivity].
Qed.

(* the length checks compare against the DSDL capacity: with a user-reduced storage capacity a count between the two passes the
   check and indexes past the array (F-C-OVR-CAP) *)
Theorem des_in_bounds_override_refuted :
  exists c t prior buf capB, length buf = 8 * capB /\ wf_ty t = true /\
    fst (walk_des_safe c t prior buf) <> Err EBadLen /\ forallb (acc_ok capB) (snd (walk_des_safe c t prior buf)) = false.
Proof.
  exists {| ov := fun _ _ => 2; up_front := false; little := false; al := dyn_al; len_chk_storage := false; guarded := false; ptr_clamp := true; bulk_on := true; nested_strict := false; plan := all_first; asserts := false; assert_max := true |},
         (TComp false [TVar (TPrim (PU 7 true)) 8] None),
         (CStruct [CVar 0 [CPrim (VInt 0); CPrim (VInt 0)]]), (bits_of_bytes [5; 1; 2; 3; 4; 5; 0]%N), 7.
  split; [reflexivity|]. split; [reflexivity|]. split; [vm_compute; discriminate | vm_compute; reflexivity].
Qed.

Theorem ser_in_bounds_override_refuted :
  exists c t o capB, bmax t <= 8 * capB /\ wf_ty t = true /\
    fst (walk_ser_safe c t o capB) <> Err EBadLen /\ forallb (acc_ok capB) (snd (walk_ser_safe c t o capB)) = false.
Proof.
  exists {| ov := fun _ _ => 2; up_front := false; little := false; al := dyn_al; len_chk_storage := false; guarded := false; ptr_clamp := true; bulk_on := true; nested_strict := false; plan := all_first; asserts := false; assert_max := true |},
         (TComp false [TVar (TPrim (PU 7 true)) 8] None),
         (CStruct [CVar 5 [CPrim (VInt 0); CPrim (VInt 0)]]), 8.
  split; [vm_compute; lia|]. split; [reflexivity|]. split; [vm_compute; discriminate | vm_compute; reflexivity].
Qed.

(* =====================================================  pointer formation  ===================================================== *)
(* the pre-fix rendering (`&buffer[offset_bits / 8U]`, fixed in 9be3c74) once implicit zero extension has moved the cursor past
   the end: struct { uint64 big; In inner } decoded from 2 bytes forms &buffer[8] (F-C-PTR-PAST-END); kept as documentation *)
Definition old_ptr_cfg : cfg :=
  {| ov := fun _ n => n; up_front := true; little := false; al := dyn_al; len_chk_storage := false; guarded := false; ptr_clamp := false; bulk_on := true; nested_strict := false; plan := all_first; asserts := false; assert_max := true |}.
Theorem des_ptr_in_bounds_refuted :
  exists t prior buf capB, wf_ty t = true /\ length buf = 8 * capB /\
    forallb (ptr_ok capB) (snd (walk_des_safe old_ptr_cfg t prior buf)) = false.
Proof.
  exists (TComp false [TPrim (PU 64 true); TComp false [TPrim (PU 8 true); TPrim (PU 8 true)] None] None), dflt,
         (bits_of_bytes [1; 2]%N), 2.
  split; [reflexivity|]. split; [reflexivity | vm_compute; reflexivity].
Qed.


Theorem variant_filtered_refuted :
  exists np ops t0, ubad (run_ops old_dshape std_emplace np ops (ctor old_dshape std_emplace std_ctor np t0)) <> 0.
Proof. exists [false; true], [1; 0; 1], 0. vm_compute. discriminate. Qed.

Theorem vla_no_clear_refuted : exists prior decoded : list nat,
  vec nat (run_vla nat 0 [VSizeRead; VSizeCheck; VReserve; VLoop [LTmp; LDecodeTmp; LPushBack]] prior decoded) <> decoded.
Proof. exists [1; 2; 3], [9; 8]. vm_compute. discriminate. Qed.

(* any_bitspan::subspan() before 939fc9d: data_.data() + offset_bytes with offset_bytes > size (F-CPP-PTR-PAST-END) *)
Theorem cpp_des_ptr_in_bounds_refuted :
  exists t prior buf capB, wf_ty t = true /\ length buf = 8 * capB /\
    forallb (ptr_ok capB) (snd (walk_des_safe {| ov := fun _ n => n; up_front := true; little := false; al := fun _ => false; len_chk_storage := false; guarded := false;
     ptr_clamp := false; bulk_on := false; nested_strict := true; plan := all_first; asserts := false; assert_max := true |} t prior buf)) = false.
Proof.
  exists (TComp false [TPrim (PU 64 true); TComp false [TPrim (PU 8 true); TPrim (PU 8 true)] None] None), dflt,
         (bits_of_bytes [1; 2]%N), 2.
  split; [reflexivity|]. split; [reflexivity | vm_compute; reflexivity].
Qed.


(* the firing instance (D3): both options, the array of uint7[<=8] xs stored in 2 elements, a valid object, an exactly-sized buffer *)
Theorem override_assert_refuted : exists c t o capB, up_front c = false /\ asserts c = true /\ guarded c = true /\
  fst (walk_ser_safe c t o capB) = Err EAssert /\
  fst (walk_ser_safe {| ov := ov c; up_front := false; little := little c; al := al c; len_chk_storage := true; guarded := true;
                        ptr_clamp := true; bulk_on := true; nested_strict := false; plan := all_first; asserts := true; assert_max := false |}
         t o capB) = Ok 3.
Proof.
  exists {| ov := fun _ _ => 2; up_front := false; little := false; al := dyn_al; len_chk_storage := true; guarded := true; ptr_clamp := true;
            bulk_on := true; nested_strict := false; plan := all_first; asserts := true; assert_max := true |},
         (TComp false [TVar (TPrim (PU 7 true)) 8] None), (CStruct [CVar 2 [CPrim (VInt 1); CPrim (VInt 2)]]), 3.
  repeat split; vm_compute; reflexivity.
Qed.


(* D1: with a 32-bit size_t the multiplication form accepted header 0x20000001 in front of 2 bytes (WalkerSafeCppThm.hdr_mul_w32_refuted) *)
Theorem cpp_hdr_mul_w32_refuted : hchk_eval 32 HMulCmp 536870913 16 = false /\ (16 / 8 <? 536870913)%N = true.
Proof. exact hdr_mul_w32_refuted. Qed.
