(* C10, regression variants: theorems about code that is NO LONGER in /repo.  Kept because the check instantiates the model
   with lel_shared = true if the probe of F-LEL-LEAK ever reproduces again, and because they document why the finding needed
   user templates.  The variant: LimitEmptyLines objects shared by all files of a generator and never reset (before 88d3c81).
   Not part of the obligations of Properties/C10.v. *)
From Verif Require Import GenState GenStateThm GenStateSites GenStateThmSolid.
Open Scope N_scope.

Definition forest (bases : N -> list N) (rank : N -> nat) (fuel : nat) : Prop :=
  (forall c, (length (bases c) <= 1)%nat) /\ (forall c p, In p (bases c) -> (rank p < rank c)%nat) /\ (forall c, (rank c < fuel)%nat).

(* with the shared counter: same file in any two histories PROVIDED the counters of the writing generator were 0 when each file
   was started (e_clean: the excluded trigger of F-LEL-LEAK) *)
Theorem C10_history_file_indep_partial :
  forall (U : universe) (bases : N -> list N) (cname : N -> str) (fuel : nat) (rank : N -> nat), forest bases rank fuel ->
  forall (sites : list site) (stores : list store) (rfacts : bool),
    forallb site_ok sites = true -> forallb (store_ok rfacts) stores = true ->
  forall (reads : list wread), forallb read_ok reads = true ->
  forall (render : ambient -> list (list N) -> N -> option str -> tyobj -> prog), (forall a1 a2 I cf t o, render a1 I cf t o = render a2 I cf t o) ->
  forall (cfun : ckey -> str) (m1 m2 : option nat) (h1 h2 : list op) (e1 e2 : entry),
    In e1 (log U bases cname fuel sites stores rfacts reads render cfun m1 true true h1) ->
    In e2 (log U bases cname fuel sites stores rfacts reads render cfun m2 true true h2) ->
    e_cfg e1 = e_cfg e2 -> e_tset e1 = e_tset e2 -> e_pps0 e1 = e_pps0 e2 -> e_key e1 = e_key e2 ->
    e_clean e1 = true -> e_clean e2 = true ->
    e_tmpl e1 = e_tmpl e2 /\ e_text e1 = e_text e2.
Proof.
  intros U bases cname fuel rank (F1 & F2 & F3) sites stores rfacts Hs Hst reads Hrd render Hr cfun m1 m2 h1 h2 e1 e2 H1 H2 Hc Ht Hp Hk C1 C2.
  exact (file_indep_lemma U bases cname fuel rank F1 F2 F3 sites stores rfacts Hs Hst reads Hrd render Hr cfun true m1 m2 h1 h2 e1 e2
           H1 H2 Hc Ht Hp Hk (or_intror (conj C1 C2))).
Qed.
Print Assumptions C10_history_file_indep_partial.

(* the unrestricted statement was FALSE: limit 1, file of A = "a\n\n", file of B = "\nb"; whole namespace: B = "b";
   subset {B}: B = "\nb" *)
Theorem C10_history_lel_leak_refuted :
  exists (U : universe) (render : ambient -> list (list N) -> N -> option str -> tyobj -> prog) (cfun : ckey -> str) (h1 h2 : list op) (e1 e2 : entry),
    (forall a1 a2 I cf t o, render a1 I cf t o = render a2 I cf t o) /\
    In e1 (log U (ct_bases w_ct) (ct_name w_ct) 4 [] [] true [] render cfun None true true h1) /\
    In e2 (log U (ct_bases w_ct) (ct_name w_ct) 4 [] [] true [] render cfun None true true h2) /\
    e_cfg e1 = e_cfg e2 /\ e_tset e1 = e_tset e2 /\ e_pps0 e1 = e_pps0 e2 /\ e_key e1 = e_key e2 /\ e_text e1 <> e_text e2.
Proof. exact lel_leak_refuted_lemma. Qed.
Print Assumptions C10_history_lel_leak_refuted.

Theorem C10_history_lel_leak_witness :
  map e_text (exec_table w_ct w_U false w_tab None true true w_hist_whole) = [[97; 10; 10]; [98]] /\
  map e_text (exec_table w_ct w_U false w_tab None true true w_hist_subset) = [[10; 98]].
Proof. exact lel_leak_witness. Qed.
Print Assumptions C10_history_lel_leak_witness.

Theorem C10_history_witness_forest : forest (ct_bases w_ct) w_rank 4.
Proof. exact w_forest_ok. Qed.

(* why the built-in templates never showed the leak: a file whose last line contains a non-blank character leaves every
   LimitEmptyLines counter at 0 (non-negative limits, any pipeline order, any chunking) *)
Theorem C10_history_file_end_clean :
  forall (ps : list pp) (chunks : list str),
    pps_wf ps = true -> last_line_solid (concat chunks) = true ->
    pps_clean (fst (write_builtin ps chunks)) = true /\ pps_wf (fst (write_builtin ps chunks)) = true.
Proof. exact file_end_clean_lemma. Qed.
Print Assumptions C10_history_file_end_clean.
