(* C08 history: what --list-inputs did BEFORE the three repairs that are now in /repo (bf5515b lookup dependencies, 70fd25c
   non-.j2 template resources, 6e74e3d --support-templates overrides).  `old_code` is today's translated code with the three
   repairs switched off (k_fix flags false, the _dependency_source_files() listing removed); the witnesses are unconditional facts
   about that code.  Documentation only: nothing in Properties/C08.v depends on this file and the check does not count these
   as live findings (known_findings.d/C08.json: status fixed). *)
From Coq Require Import List NArith Bool.
From Verif Require Import Str Listing Gen_Listing ListingInst.
Import ListNotations.
Open Scope N_scope.

Fixpoint strip_deps (s : stmt) : stmt :=
  match s with
  | Seq a b => Seq (strip_deps a) (strip_deps b)
  | If c t e => If c (strip_deps t) (strip_deps e)
  | Do DoListDepSources => Skip
  | x => x
  end.

Definition old_code : code := {|
  k_sgs := k_sgs the_code; k_reject := k_reject the_code; k_read := k_read the_code; k_prog := strip_deps (k_prog the_code);
  k_ns_arg := k_ns_arg the_code; k_ns_decide := k_ns_decide the_code; k_sup_tpl := k_sup_tpl the_code;
  k_guard_type := k_guard_type the_code; k_guard_header := k_guard_header the_code; k_guard_copy := k_guard_copy the_code;
  k_types_all_when_ns := k_types_all_when_ns the_code;
  k_fix_lookup := false; k_fix_nonj2 := false; k_fix_suptpl := false; k_path_pure := k_path_pure the_code; k_ns_check := k_ns_check the_code; k_fix_constref := false; k_stem_check := k_stem_check the_code;
  k_fix_pyres := false; k_fix_linkdir := false |}.

Definition old_listed (c : cfg) (i : inputs) : list (list (list N)) := snd (fst (run old_code (li_of c) i fs_empty)).

(* F-LIST-INPUTS-LOOKUP (fixed): the .dsdl of a --lookup-dir dependency influenced the output and was not listed *)
Theorem C08_history_lookup_was_refuted :
  exists (c : cfg) (i : inputs) (x : list (list N)),
    trig_lookup i = true /\ trig_nonj2 old_code c i = false /\ trig_support_override old_code c = false
    /\ path_in x (influence_set old_code c i) = true /\ path_in x (old_listed c i) = false.
Proof. exists (w_cfg SAsNeeded false None None), w_inputs_lookup, [[108]; [68]]. vm_compute. repeat split; reflexivity. Qed.
Print Assumptions C08_history_lookup_was_refuted.

(* F-LIST-INPUTS-NONJ2 (fixed): a template without the .j2 suffix that is included by a class template was not listed *)
Definition w_tpl_nonj2 : list tfile := [w_tfr 65 true (Some CAny) [[120]]; w_tf 120 false None].
Theorem C08_history_nonj2_was_refuted :
  exists (c : cfg) (i : inputs) (x : list (list N)),
    trig_lookup i = false /\ trig_nonj2 old_code c i = true /\ trig_support_override old_code c = false
    /\ path_in x (influence_set old_code c i) = true /\ path_in x (old_listed c i) = false.
Proof. exists (w_cfg SAsNeeded false (Some w_tpl_nonj2) None), w_inputs_plain, [[112]; [120]]. vm_compute. repeat split; reflexivity. Qed.
Print Assumptions C08_history_nonj2_was_refuted.

(* F-LIST-INPUTS-SUPTPL (fixed): --support-templates DIR shadowed the packaged support template; the packaged one was listed *)
Definition w_sup_dir : list tfile :=
  [{| tf_name := [115]; tf_path := [[100]; [115]]; tf_j2 := true; tf_py := false; tf_pkg := false; tf_linked := false; tf_cls := None; tf_refs := []; tf_dyn := false |}].
Theorem C08_history_support_override_was_refuted :
  exists (c : cfg) (i : inputs) (x : list (list N)),
    trig_lookup i = false /\ trig_nonj2 old_code c i = false /\ trig_support_override old_code c = true
    /\ path_in x (influence_set old_code c i) = true /\ path_in x (old_listed c i) = false.
Proof. exists (w_cfg SAsNeeded false None (Some w_sup_dir)), w_inputs_plain, [[100]; [115]]. vm_compute. repeat split; reflexivity. Qed.
Print Assumptions C08_history_support_override_was_refuted.

(* F-LIST-INPUTS-CONSTREF (fixed by 430d028): with the dependency listing of bf5515b, which follows the types of fields only, a
   definition referred to only inside an expression (array capacity, constant value, @assert, @extent) influenced the output and
   was not listed.  `code_before_constref` is today's translation with that one repair switched off. *)
Definition code_before_constref : code := {|
  k_sgs := k_sgs the_code; k_reject := k_reject the_code; k_read := k_read the_code; k_prog := k_prog the_code;
  k_ns_arg := k_ns_arg the_code; k_ns_decide := k_ns_decide the_code; k_sup_tpl := k_sup_tpl the_code;
  k_guard_type := k_guard_type the_code; k_guard_header := k_guard_header the_code; k_guard_copy := k_guard_copy the_code;
  k_types_all_when_ns := k_types_all_when_ns the_code;
  k_fix_lookup := k_fix_lookup the_code; k_fix_nonj2 := k_fix_nonj2 the_code; k_fix_suptpl := k_fix_suptpl the_code;
  k_path_pure := k_path_pure the_code; k_ns_check := k_ns_check the_code; k_fix_constref := false;
  k_stem_check := k_stem_check the_code;
  k_fix_pyres := false; k_fix_linkdir := false |}.
Theorem C08_history_constref_was_refuted :
  exists (c : cfg) (i : inputs) (x : list (list N)),
    trig_constref i = true /\ trig_lookup i = false
    /\ path_in x (influence_set code_before_constref c i) = true
    /\ path_in x (snd (fst (run code_before_constref (li_of c) i fs_empty))) = false.
Proof. exists (w_cfg SAsNeeded false None None), w_inputs_constref, [[108]; [68]]. vm_compute. repeat split; reflexivity. Qed.
Print Assumptions C08_history_constref_was_refuted.

(* F-LIST-INPUTS-PYRES and F-LIST-INPUTS-SYMLINKDIR (fixed by 156042d): before, get_templates dropped every .py file and did not
   descend into symbolically linked sub-directories of a templates directory. `code_before_closure_fix` is today's translation with
   those two repairs switched off. *)
Definition code_before_closure_fix : code := {|
  k_sgs := k_sgs the_code; k_reject := k_reject the_code; k_read := k_read the_code; k_prog := k_prog the_code;
  k_ns_arg := k_ns_arg the_code; k_ns_decide := k_ns_decide the_code; k_sup_tpl := k_sup_tpl the_code;
  k_guard_type := k_guard_type the_code; k_guard_header := k_guard_header the_code; k_guard_copy := k_guard_copy the_code;
  k_types_all_when_ns := k_types_all_when_ns the_code;
  k_fix_lookup := k_fix_lookup the_code; k_fix_nonj2 := true; k_fix_suptpl := k_fix_suptpl the_code;
  k_path_pure := k_path_pure the_code; k_ns_check := k_ns_check the_code; k_fix_constref := k_fix_constref the_code;
  k_stem_check := k_stem_check the_code;
  k_fix_pyres := false; k_fix_linkdir := false |}.
Theorem C08_history_pyres_was_refuted :
  let c := w_cfg SNever false (Some w_tpl_pyres) None in let x := [[112]; [120]] in
  eff_trig_tpl code_before_closure_fix c w_inputs_plain = true
  /\ path_in x (influence_set code_before_closure_fix c w_inputs_plain) = true
  /\ path_in x (snd (fst (run code_before_closure_fix (li_of c) w_inputs_plain fs_empty))) = false.
Proof. vm_compute. repeat split; reflexivity. Qed.
Print Assumptions C08_history_pyres_was_refuted.
Theorem C08_history_linkdir_was_refuted :
  let c := w_cfg SNever false (Some w_tpl_linked) None in let x := [[112]; [120]] in
  eff_trig_tpl code_before_closure_fix c w_inputs_plain = true
  /\ path_in x (influence_set code_before_closure_fix c w_inputs_plain) = true
  /\ path_in x (snd (fst (run code_before_closure_fix (li_of c) w_inputs_plain fs_empty))) = false.
Proof. vm_compute. repeat split; reflexivity. Qed.
Print Assumptions C08_history_linkdir_was_refuted.
