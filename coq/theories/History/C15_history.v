(* C15 -- statements about code that is NO LONGER in /repo (compiled, but not obligations of the property):
   they document why each repaired finding needed its repair.  Property theorems are in Properties/C15.v. *)
From Verif Require Import LinePP LinePPThm LinePPRejoinThm LinePPInst LinePPInstThm LinePPFiles LinePPFilesThm LinePPOrder LinePPOrderThm.
Open Scope N_scope.

(* F-CRLF-SPLIT (fixed 982f275): the buffering loop alone (`write`, without _rejoin_split_crlf) is chunking-independent
   only when no chunk boundary separates CR from LF ... *)
Theorem C15_chunk_independence_partial :
  forall (S : Type) (step : S -> line -> S * line) (chunks : list str) (st : S),
    no_split_crlf false chunks = true ->
    write step chunks st = linewise step st (concat chunks).
Proof.
  intros S step chunks st H.
  rewrite (write_chunks_partial S step chunks st H).
  exact (write_single_linewise S step (concat chunks) st).
Qed.

(* ... and is refuted otherwise.  Witness: "abc \r" | "\ndef" through TrimTrailingWhitespace. *)
Theorem C15_chunk_independence_refuted :
  exists chunks : list str,
    snd (write pipe_step chunks [PTrim]) <> snd (linewise pipe_step [PTrim] (concat chunks)).
Proof.
  exists [[97; 98; 99; 32; 13]; [10; 100; 101; 102]]. vm_compute. discriminate.
Qed.

Example C15_partial_premise_satisfiable :
  no_split_crlf false [[97; 13; 10]; []; [98; 32]; [10; 10]; [99]] = true.
Proof. vm_compute. reflexivity. Qed.

(* F-LEL-LEAK (fixed 88d3c81): without the per-file reset the limiter's counter leaks into the next file *)
Example C15_reset_is_needed :
  gen_files_noreset [PLimit (LimitEmptyLines_init 1)] [[[97; 10; 10]]; [[10; 98]]]
  <> gen_files [PLimit (LimitEmptyLines_init 1)] [[[97; 10; 10]]; [[10; 98]]].
Proof. exact gen_files_noreset_leaks. Qed.

(* F-LIMIT-BEFORE-TRIM (fixed 436c2bd): _handle_post_processors used to append the trimmer AFTER the limiter; the default
   pipeline of the c and py languages was [LimitEmptyLines; TrimTrailingWhitespace] ... *)
Example C15_old_default_order :
  option_map to_pps (handle_pps_old (Some 1%Z) true None) = Some [PLimit (LimitEmptyLines_init 1); PTrim].
Proof. reflexivity. Qed.

(* ... through which "a\n \n \n \nb\n" with limit 1 is written with three consecutive empty lines *)
Theorem C15_old_default_order_refuted :
  exists text : str,
    blank_runs_ok 1 0 (split_lines (snd (linewise pipe_step [PLimit (LimitEmptyLines_init 1); PTrim] text))) = false.
Proof. exists [97; 10; 32; 10; 32; 10; 32; 10; 98; 10]. vm_compute. reflexivity. Qed.

(* F-COPY-UNIVERSAL-NEWLINES (fixed b0be4ff): _copy_header_using_line_pps used to open the resource with universal newlines:
   CR LF and lone CR arrive as LF before the loop sees them *)
Fixpoint universal_newlines (s : str) : str :=
  match s with
  | [] => []
  | c :: s' =>
      if c =? CR then LF :: (match s' with d :: s'' => if d =? LF then universal_newlines s'' else universal_newlines s' | [] => [] end)
      else c :: universal_newlines s'
  end.

Definition copy_header_old {S : Type} (step : S -> line -> S * line) (text : str) (st : S) : S * str :=
  copy_header step (py_lines (universal_newlines text)) st.

(* "a  \r\nb": the CR LF terminator is not kept *)
Theorem C15_copy_header_keeps_terminators_refuted :
  exists text : str,
    snd (copy_header_old pipe_step text [PTrim]) <> snd (linewise pipe_step [PTrim] text).
Proof. exists [97; 32; 32; 13; 10; 98]. vm_compute. discriminate. Qed.
