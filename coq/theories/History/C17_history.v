(* C17 -- theorems about code that is no longer in /repo (kept for the record, not counted as obligations).
   Before commit 83a730f ("key-set fingerprint", fix of finding F-OPTGUARD-KEYSET) the templates carried only the
   per-option assertions.  `without_keyset sd` is the regenerated side record with the fingerprint removed, i.e.
   the templates as they were. *)
From Verif Require Import Str Crc32 OptGuard Gen_OptGuard OptGuardThm.
From Coq Require Import ZArith.
Open Scope N_scope.

(* The full statement was false: a support header generated with `--language-standard c11` (adds the option
   `std`) was accepted by C type headers generated without it. *)
Theorem C17_history_guard_full_refuted :
  exists o_s o_t : opts,
    in_domainb c_domain o_s = true /\ in_domainb c_domain o_t = true /\
    keys_documentedb c_keysets o_s = true /\ keys_documentedb c_keysets o_t = true /\
    compiles_together_full sav (without_keyset c_support_side) (without_keyset c_type_side) o_s o_t = true /\
    ~ (forall kv, In kv o_s <-> In kv o_t).
Proof.
  exists (set_key k_std v_c11 c_defaults), c_defaults.
  repeat (split; [vm_compute; reflexivity|]).
  intros H. assert (Hin : In (k_std, v_c11) c_defaults) by (apply H; unfold set_key; apply in_or_app; right; left; reflexivity).
  apply (in_map fst) in Hin. cbn [fst] in Hin. apply str_in_spec in Hin. vm_compute in Hin. discriminate.
Qed.
Print Assumptions C17_history_guard_full_refuted.

(* In the opposite order the build was rejected, but by an undeclared symbol instead of the assertion. *)
Theorem C17_history_extra_type_key_undeclared :
  compile_full sav (without_keyset c_support_side) (without_keyset c_type_side) c_defaults (set_key k_std v_c11 c_defaults)
  = Some [Undeclared k_std].
Proof. vm_compute. reflexivity. Qed.
Print Assumptions C17_history_extra_type_key_undeclared.

(* Without the fingerprint the complete diagnostics are the per-option ones. *)
Theorem C17_history_compile_full_without_keyset :
  forall sup typ o_s o_t, sd_keyset typ = None -> compile_full sav sup typ o_s o_t = compile sav sup typ o_s o_t.
Proof. exact (compile_full_without_keyset sav). Qed.
