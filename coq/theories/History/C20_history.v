(* C20 -- history: theorems about states of /repo that no longer exist, or superseded by stronger statements in
   Properties/C20.v.  Kept compiling (they are true of the model), not part of the C20 obligations.
   - html_autoescape_refuted / _decision / doc_text_is_text_partial / autoescape_uniform: finding F-HTML-ESCAPE (doc sinks unescaped
     because autoescape is keyed on *.j2 names), fixed in /repo by fe8e693 (`| e` on the five sinks).
   - links_resolve_partial (root pages only), links_resolve_subns_by_state, links_resolve_svc_by_state: findings
     F-HTML-LINK-SUBNS / F-HTML-LINK-SVC, fixed in /repo by 5301250; superseded by C20_links_resolve_universal.
   - all_dsdl_text_sinks_escaped: classification done by the Python scanner; superseded by C20_html_sinks_classified_safe
     (classification recomputed in Coq from the regenerated expression ASTs) and C20_html_site_values_ok. *)
From Verif Require Import HtmlModel HtmlThm HtmlThmTree HtmlThmLinks HtmlThmLinksAll HtmlThmIds HtmlSkel HtmlThmSkel.
Open Scope N_scope.

(* html_autoescape_refuted: the full statement is false of a sink that does not escape; witness <script>alert(1)</script>
   (known finding F-HTML-ESCAPE).  Whether the working tree's sinks escape is `cfg_docs_escaped faithful_cfg`, computed from
   the regenerated template names, autoescape extensions and sink filters; the check reads it from the extracted model and
   records it in the evidence. *)
Theorem C20_html_autoescape_refuted : ~ doc_text_is_text false.
Proof. exact doc_sink_raw_refuted. Qed.
Print Assumptions C20_html_autoescape_refuted.

Theorem C20_html_autoescape_decision :
  forall b, b = de_ti faithful_cfg ->
    (b = false -> ~ doc_text_is_text (de_ti faithful_cfg)) /\ (b = true -> doc_text_is_text (de_ti faithful_cfg)).
Proof.
  intros b ->. split; intros E; rewrite E; [exact doc_sink_raw_refuted | exact doc_sink_escaped_is_text].
Qed.
Print Assumptions C20_html_autoescape_decision.

(* the autoescape decision is a function of the template name alone: *.html / *.htm / *.xml / *.json names escape,
   and every name under which the HTML templates are loaded now gets the same decision as `type_info.j2` *)
Theorem C20_autoescape_uniform_over_templates :
  forallb (fun n => Bool.eqb (autoescape_selected n) (autoescape_selected n_type_info)) html_template_names = true.
Proof. vm_compute. reflexivity. Qed.
Print Assumptions C20_autoescape_uniform_over_templates.

(* (3') the part of (3) that holds without escaping: texts free of the five special characters *)
Theorem C20_doc_text_is_text_partial : forall d, no_special d = true -> doc_text_is_text_for false d.
Proof. exact doc_sink_raw_partial. Qed.
Print Assumptions C20_doc_text_is_text_partial.

(* links_resolve, the part that holds: on a root namespace's index page the link for a reference to composite type c resolves
   to a generated page and an id on it, for every site that generates c's root namespace and lists a type with c's id there *)
Theorem C20_links_resolve_partial :
  forall cf roots r c r' c',
    ae_ti cf = false -> seg_ok (ns_name r) = true -> ti_is_array (ci_t c) = false -> ti_has_parent (ci_t c) = false ->
    In r' roots -> ns_name r' = ti_root_ns (ci_t c) -> seg_ok (ns_name r') = true ->
    In c' (all_listed r') -> filter_tag_id (ci_t c') = filter_tag_id (ci_t c) ->
    link_ok cf roots r (filter_url_from_type (ci_t c)) = true.
Proof. exact links_resolve_partial. Qed.
Print Assumptions C20_links_resolve_partial.

(* links_resolve on nested-namespace pages (F-HTML-LINK-SUBNS): false of the model without the depth prefix, true with it
   (design_notes/C20_links_fix.patch); the working tree is in the state `lk_up faithful_cfg`, regenerated from the templates *)
Theorem C20_links_resolve_subns_by_state :
  page_links_ok (set_lk_up faithful_cfg false) [w_site_subns] w_sub = false
  /\ page_links_ok (set_lk_up faithful_cfg true) [w_site_subns] w_sub = true
  /\ page_links_ok faithful_cfg [w_site_subns] w_site_subns = true
  /\ page_links_ok faithful_cfg [w_site_subns] w_sub = lk_up faithful_cfg.
Proof. exact links_subns_by_state. Qed.
Print Assumptions C20_links_resolve_subns_by_state.

(* links_resolve for the request/response halves of services (F-HTML-LINK-SVC): holds exactly when the translated
   filter_url_from_type sends them to the service's anchor *)
Theorem C20_links_resolve_svc_by_state : page_links_ok faithful_cfg [w_site_svc] w_site_svc = url_links_service.
Proof. exact links_svc_by_state. Qed.
Print Assumptions C20_links_resolve_svc_by_state.

(* all_dsdl_text_sinks_escaped: every output site of every template inserts a template constant, a number, a DSDL identifier,
   a value that went through an escaping filter applied to the WHOLE expression, or (text positions only) display_type markup;
   or its template is autoescaped.  (F-HTML-ESCAPE was: the five documentation sinks had class 8.) *)
Theorem C20_all_dsdl_text_sinks_escaped : all_dsdl_text_sinks_escaped = true.
Proof. exact html_sinks_escaped. Qed.
Print Assumptions C20_all_dsdl_text_sinks_escaped.

(* round 7: finding F-HTML-ID-COLLISION fixed in /repo by 7e67599; the '_' twin and the conditional '-' witness; the run-union
   alias (a renaming of C20_links_resolve_now) *)
(* the '_' scheme is refuted (finding F-HTML-ID-COLLISION): T v1.1 nested once gets the id of T v1.10; with the '-' scheme the
   same page has pairwise distinct ids.  Which scheme the working tree has is `tag_id_dashed` / `nested_id_sep` (regenerated). *)
Theorem C20_ids_collide_without_dashes : tag_id_dashed = false -> nodup_str (page_ids faithful_cfg w_site_collision) = false.
Proof. exact ids_collide_without_dashes. Qed.
Print Assumptions C20_ids_collide_without_dashes.

Theorem C20_ids_unique_with_dashes :
  tag_id_dashed = true -> nested_id_sep = s_dash_n -> nodup_str (page_ids faithful_cfg w_site_collision) = true.
Proof. exact ids_unique_on_witness_with_dashes. Qed.
Print Assumptions C20_ids_unique_with_dashes.

(* links and RUNS.  One nnvg run generates ONE root namespace into the output directory; root namespaces it reaches only through
   --lookup-dir are read, not written.  `roots` in the two theorems above is therefore the UNION of the roots generated by all
   the runs that share one output directory, and `ref_resolves` demands that every root a link points into is among them.
   A run whose cross-root references are lookup-only leaves those links dangling until the other root is generated too: *)
Theorem C20_links_resolve_union_of_runs :
  forall runs self, In self (site_pages runs) -> (forall c, In c (refs_ns (lk_us faithful_cfg) self) -> ref_resolves runs c) ->
    page_links_ok faithful_cfg runs self = true.
Proof. intros runs self A B. destruct faithful_cfg_links as (P & Q & R & S). exact (links_resolve_universal faithful_cfg runs self P Q R S A B). Qed.
Print Assumptions C20_links_resolve_union_of_runs.

(* round 8: findings F-HTML-LINK-US (c1311cb) and F-HTML-NS-ID-COLLISION (5a15038) fixed in /repo; the by-state witnesses *)
(* NAMESPACE ids (finding F-HTML-NS-ID-COLLISION, open): '_'-joined components collide (a.b_c beside a.b.c; a root named like a
   static id); with design_notes/C20_ns_id_fix.patch ('-'-joined components followed by --ns) they are injective and a class of
   their own.  The state of the working tree is `ns_ids_dashed` (regenerated); the witness page has pairwise distinct ids iff it holds. *)
Theorem C20_ns_ids_by_state : nodup_str (page_ids faithful_cfg w_site_nsdup) = ns_ids_dashed.
Proof. exact ns_ids_by_state. Qed.
Print Assumptions C20_ns_ids_by_state.

(* without the guard the link to r._.0.1 dangles although the front end accepts the reference; state = lk_us faithful_cfg *)
Theorem C20_links_us_by_state :
  page_links_ok (set_lk_us faithful_cfg false) [w_site_us] w_site_us = false
  /\ page_links_ok (set_lk_us faithful_cfg true) [w_site_us] w_site_us = true
  /\ page_links_ok faithful_cfg [w_site_us] w_site_us = lk_us faithful_cfg.
Proof. exact links_us_by_state. Qed.
Print Assumptions C20_links_us_by_state.
