(* C12 history: statements that are NOT part of the C12 obligations any more (documentation only).

   1. Round-2 forms about the model WITHOUT directories (Gen/RegenBase.v before the audit): `foreign_untouched : ~ In q
      (targets c) -> fst (step s c) q = s q` and `history_foreign` were unconditional.  Against the current model (directories
      are entries, mkdir(parents) creates them, shutil.copy lands inside a directory) that form is refuted:
      Properties/C12.v foreign_unconditional_refuted, copy_into_directory_refuted.
   2. The Python-API corner "no SetFileMode among the file post-processors": the mode of an overwritten file is old|0o220, the
      mode of a fresh one 0o666&~umask.  Not reachable through nnvg (cli_setfilemode_last); kept here as a computed fact about
      the current model.
   No code that C12 models has been removed from /repo since round 2 (git log of jinja/__init__.py, _postprocessors.py,
   cli/runners.py: line-post-processor fixes only; skeletons, gate, SetFileMode identical), so there is no theorem about
   deleted code to move. *)
From Coq Require Import NArith List Bool.
From Verif Require Import RegenBase Gen_Regen Regen RegenThm.
Import ListNotations.
Open Scope N_scope.

Theorem mode_without_setfilemode_refuted :
  exists e s c p, c_filepps c = [] /\ c_dryrun c = false /\ In p (targets c) /\
                  snd (step wit_render e s c) = Ok /\ snd (step wit_render e empty_fs c) = Ok /\
                  obs (fst (step wit_render e s c) p) <> obs (fst (step wit_render e empty_fs c) p).
Proof.
  exists (wit_env false), (upd empty_fs 1 (mkF 7 292 true false)),
         (mkCfg 1 0 true false false [] GSNever false [] [] [1] 420), 1.
  vm_compute. repeat split; try (now left). intros H. injection H. discriminate.
Qed.

(* ---- code BEFORE fix 7df01dd (finding F-COPY-INTO-DIR, status fixed) ----------------------------------------------------------
   _handle_overwrite accepted directories: `if exists: if allow_overwrite: chmod(mode | 0o220) else: raise`.  With a directory
   at the target of a copied support file and no line post-processor, the writer [gate; mkdir(parents); shutil.copy; SetFileMode]
   reported success, left the directory chmod-ed to the file mode and a new entry inside it.  Documented here on the
   primitives of the current model with the old gate written out by hand (paths as in RegenThm.wit_env: 1 = nunavut/,
   2 = nunavut/extra.hpp -- a directory --, 3 = nunavut/extra.hpp/extra.h). *)
Definition old_handle_overwrite (e : env) (s : fs) (p : path) (allow : bool) : fs * result :=
  if fs_exists s p then (if allow then fs_chmod e s p (N.lor (fs_st_mode s p) 144) else (s, Err EExists)) else (s, Ok).

Definition old_copy_writer (e : env) (s : fs) (p : path) (cid resmode filemode : N) : fs * result :=
  bind (old_handle_overwrite e s p true) (fun s1 =>
  bind (mkdirs e None (ancestors e p) s1) (fun s2 =>
  bind (fs_copy e s2 p cid resmode) (fun s3 => fs_chmod e s3 p filemode))).

Definition old_dir_fs : fs := wit_dir_fs.

Theorem copy_into_directory_before_7df01dd :
  let r := old_copy_writer (wit_env false) old_dir_fs 2 1070002 416 292 in
  snd r = Ok /\ fs_is_dir (fst r) 2 = true /\ obs (fst r 2) = Some (0, 292) /\
  old_dir_fs 3 = None /\ obs (fst r 3) = Some (1070002, 416).
Proof. vm_compute. repeat split; reflexivity. Qed.

(* ---- code BEFORE fix 84a8551 (finding F-SYMLINK-TARGET, status fixed) --------------------------------------------------------
   The gate of 7df01dd looked at exists()/is_dir() only, both of which FOLLOW symbolic links.  (a) A dangling link at a target
   under --no-overwrite: exists() False, no conflict, the file is created at the link's destination (9: outside the output
   directory).  (b) A live link to a foreign read-only file with overwriting allowed: the foreign file is chmod-ed and rewritten.
   Documented on the primitives of the current model with that gate written out by hand. *)
Definition gate_7df01dd (e : env) (s : fs) (p : path) (allow : bool) : fs * result :=
  if fs_exists_at e s (resolve e p)
  then (if allow && negb (fs_is_dir s (resolve e p)) then fs_chmod e s (resolve e p) (N.lor (fs_st_mode s (resolve e p)) 144)
        else (s, Err EExists))
  else (s, Ok).

Definition writer_7df01dd (e : env) (s : fs) (p : path) (allow : bool) (cid filemode : N) : fs * result :=
  bind (gate_7df01dd e s p allow) (fun s1 =>
  bind (mkdirs e None (ancestors e p) s1) (fun s2 =>
  bind (fs_write e s2 (resolve e p) cid) (fun s3 => fs_chmod e s3 (resolve e p) filemode))).

Theorem dangling_link_no_overwrite_before_84a8551 :
  let r := writer_7df01dd (wit_env_link false) wit_dirs 4 false 1070004 292 in
  links (wit_env_link false) 4 = Some 9 /\ wit_dirs 9 = None /\ snd r = Ok /\ obs (fst r 9) = Some (1070004, 292).
Proof. vm_compute. repeat split; reflexivity. Qed.

Theorem live_link_overwrite_before_84a8551 :
  let s := upd wit_dirs 9 (mkF 55 292 true false) in
  let r := writer_7df01dd (wit_env_link false) s 4 true 1070004 292 in
  obs (s 9) = Some (55, 292) /\ snd r = Ok /\ obs (fst r 9) = Some (1070004, 292).
Proof. vm_compute. repeat split; reflexivity. Qed.

(* ---- code BEFORE fix 5a15038 (finding F-NONREGULAR-TARGET, status fixed) ------------------------------------------------------
   The gate of 84a8551 refused directories and links only (`not is_dir() and not is_symlink()`): a character device at a target
   was chmod-ed and opened for writing, swallowed the text, and the run reported success with the target still a device (a FIFO
   made nnvg block forever: not modelled).  With that gate written out by hand, on the primitives of the current model: *)
Definition gate_84a8551 (e : env) (s : fs) (p : path) (allow : bool) : fs * result :=
  if fs_exists_at e s (resolve e p) || is_symlink e p
  then (if allow && (negb (fs_is_dir s (resolve e p)) && negb (is_symlink e p))
        then fs_chmod e s (resolve e p) (N.lor (fs_st_mode s (resolve e p)) 144) else (s, Err EExists))
  else (s, Ok).

Theorem special_at_target_before_5a15038 :
  let e := wit_env_special false in
  let r := bind (gate_84a8551 e wit_special_fs 4 true) (fun s1 =>
           bind (mkdirs e None (ancestors e 4) s1) (fun s2 =>
           bind (fs_write e s2 (resolve e 4) 1070004) (fun s3 => fs_chmod e s3 (resolve e 4) 292))) in
  special e 4 = true /\ snd r = Ok /\ obs (fst r 4) = Some (0, 292).     (* success, no generated text at the target *)
Proof. vm_compute. repeat split; reflexivity. Qed.
