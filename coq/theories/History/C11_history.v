(* C11 history: theorems about code that is NO LONGER in /repo (documentation only; not part of the C11 obligations).
   Before fix f08a0a1 Namespace.__eq__/__hash__ compared the STROPPED full namespace (model: eqkey = strop); finding F-NS-FOLD,
   reproduced on the real nnvg in round 2, fixed since. *)
From Verif Require Import NamespaceBase NamespaceThm NamespaceFsThm.
Open Scope N_scope.

Lemma w_fold : ns_fold w_strop [w_Q; w_R] = true.
Proof. vm_compute. reflexivity. Qed.

Lemma w_dropped :
  let b := build w_strop w_strop true w_ext w_out w_id [w_Q; w_R] in
  existsb (fun tp => ty_eqb (fst tp) w_R) (get_all_datatypes w_id (fst b) (snd b)) = false /\
  find_output_path w_strop w_id (fst b) [w_ns] w_R = None /\
  In [w_ns; 95 :: w_class] (keys (fst b)).
Proof. vm_compute. split; [reflexivity | split; [reflexivity | right; left; reflexivity]]. Qed.


(* ---- documentation of the code BEFORE fix f08a0a1 (F-NS-FOLD, status fixed) -----------------------------------------------
   With eqkey = strop (Namespace.__eq__ comparing the stropped name) the model loses a type: ns.class.Q.1.0 and
   ns._class.R.1.0 with class -> _class.  All premises hold; ns._class is a Namespace object but not a child of ns, its
   type R is never enumerated and cannot be found from the root.  The same input under the current code (eqkey = same)
   is fine (instance of C11_types_each_once; second Example). *)
Theorem C11_prefix_code_types_each_once_refuted :
  exists (strop : str -> str) (types : list ty) (r : str) (perm cperm : list key -> list key) (t : ty),
    NoDup types /\ one_root r types /\ types <> [] /\
    (forall l, Permutation (perm l) l) /\ (forall l, Permutation (cperm l) l) /\
    ns_fold strop types = true /\ In t types /\
    let b := build strop strop true w_ext w_out perm types in
    existsb (fun tp => ty_eqb (fst tp) t) (get_all_datatypes cperm (fst b) (snd b)) = false /\
    find_output_path strop cperm (fst b) [r] t = None /\
    In (t_ns t) (keys (fst b)).
Proof.
  exists w_strop, [w_Q; w_R], w_ns, w_id, w_id, w_R.
  destruct w_premises as (A & B & C & D).
  repeat (split; [first [exact A | exact B | exact C | exact D | exact w_fold | (right; left; reflexivity)]|]).
  exact w_dropped.
Qed.
Print Assumptions C11_prefix_code_types_each_once_refuted.


(* ---- before fix 39680a3 (F-NS-STEM-COLLIDE): no collision check in build_namespace_tree ---------------------------------- *)
(* WITHOUT the stem check (build_checked false = build; the state of /repo while pin_c11tree_stem_check = false) the full statement
   of (15) (every stem) is FALSE of the faithful model: known finding F-NS-STEM-COLLIDE.  Fixed by 39680a3 (collision check).  Witness: ns.T.1.0
   with namespace-file stem "T_1_0": namespace file and type file are one path, written twice. *)
Theorem c11_targets_distinct_refuted_before_39680a3 :
  exists (strop : str -> str) (stem : str) (types : list ty) (r : str) (k : key) (t : ty),
    NoDup types /\ one_root r types /\ types <> [] /\ In t types /\
    In k (keys (fst (build strop same true w_ext w_out w_id types))) /\
    ns_path strop w_ext stem w_out k = out_path strop true w_ext w_out t /\
    c11_targets strop true w_ext stem w_out true w_id types = [ns_path strop w_ext stem w_out k; out_path strop true w_ext w_out t].
Proof.
  exists same, w_stem, [w_T], w_ns, [w_ns], w_T. destruct stem_collision_witness as (A & B & C & D).
  split; [repeat constructor; intros []|]. split; [intros t [<-|[]]; eexists; reflexivity|]. split; [discriminate|]. auto.
Qed.
Print Assumptions c11_targets_distinct_refuted_before_39680a3.

(* ---- before fix b107faf (F-NS-STEM-PATH): the namespace-file stem was not validated ----------------------------------------- *)
(* WITHOUT the validation (build_checked false _ = the state of /repo while pin_c11path_stem_validated = false) the full statement
   of (14') and of (15) (every stem) is FALSE of the faithful model: known finding F-NS-STEM-PATH (audit G-C11-1).  Witness:
   ns.T.1.0, ns.a.U.1.0; stem "/x": nothing raises, both namespace files are the ONE path /x.h which does not start with the output
   directory; stem "../../../e": the namespace file of ns is out/ns/../../../e.h, which resolves ABOVE out.  The validating code
   refuses both.  Fixed by b107faf (stem validation). *)
Theorem C11_written_paths_inside_outdir_refuted_before_b107faf :
  exists (types : list ty) (abs_stem up_stem : str) (q1 q2 : path),
    NoDup types /\ one_root w_ns types /\ types <> [] /\
    build_checked false true same same true w_ext abs_stem w_out w_id types <> None /\
    build_checked true true same same true w_ext abs_stem w_out w_id types = None /\
    build_checked true true same same true w_ext up_stem w_out w_id types = None /\
    ns_path same w_ext abs_stem w_out [w_ns] = q1 /\ ns_path same w_ext abs_stem w_out [w_ns; [97]] = q1 /\
    In q1 (c11_targets same true w_ext abs_stem w_out true w_id types) /\ (forall rel, q1 <> w_out ++ rel) /\
    In (w_out ++ q2) (c11_targets same true w_ext up_stem w_out true w_id types) /\
    resolve (rev w_out) q2 = [[101; 46; 104]].
Proof.
  exists [w_T; w_U], w_abs_stem, w_up_stem, [[47]; [120; 46; 104]], [w_ns; [46; 46]; [46; 46]; [46; 46]; [101; 46; 104]].
  destruct stem_path_witness as (A & B & C & D & E & F & G & H).
  split; [repeat constructor; cbn [In]; intuition discriminate|]. split; [intros t [<-|[<-|[]]]; eexists; reflexivity|].
  split; [discriminate|]. repeat (split; [assumption|]). split; [intros rel X; discriminate X|]. split; assumption.
Qed.
Print Assumptions C11_written_paths_inside_outdir_refuted_before_b107faf.

(* ---- before fix 5a15038 (F-SUPPORT-NS-PATH): the support namespace was not validated ------------------------------------------ *)
(* the unvalidated code puts the support files of support_namespace "/esc" at /esc/<file>, outside the output directory; the
   validating code refuses; a dotted identifier namespace gives outdir/n/s/<file>.  Fixed by 5a15038 (support namespace validation). *)
Theorem C11_support_paths_inside_outdir_refuted_before_5a15038 :
  exists sn f q, support_targets false w_out sn [f] = Some [q] /\ (forall rel, q <> w_out ++ rel) /\
                 support_targets true w_out sn [f] = None /\
                 support_targets true w_out [110; 46; 115] [f] = Some [w_out ++ [[110]; [115]; f]].
Proof.
  exists w_sn_abs, [102], [[47]; [101; 115; 99]; [102]]. destruct support_ns_witness as (A & B & C).
  split; [exact A|]. split; [intros rel X; discriminate X|]. split; assumption.
Qed.
Print Assumptions C11_support_paths_inside_outdir_refuted_before_5a15038.
