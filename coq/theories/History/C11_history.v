(* C11 history: theorems about code that is NO LONGER in /repo (documentation only; not part of the C11 obligations).
   Before fix f08a0a1 Namespace.__eq__/__hash__ compared the STROPPED full namespace (model: eqkey = strop); finding F-NS-FOLD,
   reproduced on the real nnvg in round 2, fixed since. *)
From Verif Require Import NamespaceBase NamespaceThm.
Open Scope N_scope.

Lemma w_fold : ns_fold w_strop [w_Q; w_R] = true.
Proof. vm_compute. reflexivity. Qed.

Lemma w_dropped :
  let b := build w_strop w_strop true w_ext w_out w_id [w_Q; w_R] in
  existsb (fun tp => ty_eqb (fst tp) w_R) (get_all_datatypes w_id (fst b) (snd b)) = false /\
  find_output_path w_strop w_id (fst b) [w_ns] w_R = None /\
  In [w_ns; 95 :: w_class] (keys (fst b)).
Proof. vm_compute. split; [reflexivity | split; [reflexivity | right; left; reflexivity]]. Qed.


(* ---- documentation of the code BEFORE fix f08a0a1 (F-NS-FOLD, status fixed) -----------------------------------------------
   With eqkey = strop (Namespace.__eq__ comparing the stropped name) the model loses a type: ns.class.Q.1.0 and
   ns._class.R.1.0 with class -> _class.  All premises hold; ns._class is a Namespace object but not a child of ns, its
   type R is never enumerated and cannot be found from the root.  The same input under the current code (eqkey = same)
   is fine (instance of C11_types_each_once; second Example). *)
Theorem C11_prefix_code_types_each_once_refuted :
  exists (strop : str -> str) (types : list ty) (r : str) (perm cperm : list key -> list key) (t : ty),
    NoDup types /\ one_root r types /\ types <> [] /\
    (forall l, Permutation (perm l) l) /\ (forall l, Permutation (cperm l) l) /\
    ns_fold strop types = true /\ In t types /\
    let b := build strop strop true w_ext w_out perm types in
    existsb (fun tp => ty_eqb (fst tp) t) (get_all_datatypes cperm (fst b) (snd b)) = false /\
    find_output_path strop cperm (fst b) [r] t = None /\
    In (t_ns t) (keys (fst b)).
Proof.
  exists w_strop, [w_Q; w_R], w_ns, w_id, w_id, w_R.
  destruct w_premises as (A & B & C & D).
  repeat (split; [first [exact A | exact B | exact C | exact D | exact w_fold | (right; left; reflexivity)]|]).
  exact w_dropped.
Qed.
Print Assumptions C11_prefix_code_types_each_once_refuted.

