(* C03 history: statements that were in Properties/C03.v in the first round and have been SUPERSEDED.  Still compiled, not counted as
   obligations.  The first-round model made every target the wire specification by DEFINITION (the option record and - apart from the
   Python float16 pre-map - the target were ignored), so its cross-target / cross-option theorems held by reflexivity (audit
   design_notes/audit_C01-C05.md, C03 #1).  They are replaced by Codec/ObsC03.v (observables = walkers over the shipped primitive
   models) and Codec/ObsC03Thm.v (equalities derived from the instance refinement theorems). *)
From Verif Require Import Wire WireThm Walker Refine TargetsC03.
Local Open Scope nat_scope.

Definition old_target_ser (tg : target) (o : options) (t : ty) (v : val) (cap_bytes : nat) : res (list bool) :=
  ser_spec t (target_pre tg t v) cap_bytes.
Definition old_target_des (tg : target) (o : options) (t : ty) (bs : list bool) : res (val * nat) := des_spec t bs.

Theorem old_c03_cross_target_ser_c_cpp : forall o1 o2 t v cap, old_target_ser TgC o1 t v cap = old_target_ser TgCpp o2 t v cap.
Proof. reflexivity. Qed.
Theorem old_c03_cross_target_des : forall tg1 tg2 o1 o2 t bs, old_target_des tg1 o1 t bs = old_target_des tg2 o2 t bs.
Proof. reflexivity. Qed.
Theorem old_c03_option_indep_ser : forall tg o1 o2 t v cap, old_target_ser tg o1 t v cap = old_target_ser tg o2 t v cap.
Proof. reflexivity. Qed.
Theorem old_c03_option_indep_des : forall tg o1 o2 t bs, old_target_des tg o1 t bs = old_target_des tg o2 t bs.
Proof. reflexivity. Qed.

(* superseded `_partial`: walker independence of the primitive record on the `walk_fragment` subset only; now
   ObsC03Thm.cross_target_des for every well-formed type and the shipped primitive models *)
Theorem old_c03_walker_des_prims_indep_partial : forall P1 P2 t bits, prims_ok P1 -> prims_ok P2 -> walk_fragment t = true ->
  length bits mod 8 = 0 -> walk_des P1 t bits = walk_des P2 t bits.
Proof.
  intros P1 P2 t bits H1 H2 Hf Hl. rewrite (walk_des_refines_prims P1 t bits H1 Hf Hl), (walk_des_refines_prims P2 t bits H2 Hf Hl).
  reflexivity.
Qed.
