(* History/C16_history.v -- theorems about code that is NO LONGER in /repo (documentation; not part of the C16 obligations):
     q_shared    = memo keyed by class only, shared by both walks      (before fix 1341207, F-LOOKUP-MEMO-CROSS)
     q_dt_only   = _field_is_instance looked only at .data_type        (before fix d35e4ad, F-ATTR-TESTS-CONST-FALSE)
     q_unchecked = additional_globals checked against reserved names   (before fix 6db3613, F-ENV-GLOBALS) *)
From Verif Require Import Str Lookup LookupThm LookupSortThm LookupEnv LookupEnvThm Gen_Lookup LookupInst LookupInstThm LookupComposeThm.
Import ListNotations.
Open Scope N_scope.

(* antichainb t = true  ->  the Prop used by the general theorem *)
Lemma antichainb_sound t : aget t [] = None -> antichainb t = true -> antichain p_bases p_rank (tmap p_name t).
Proof.
  intros Hempty H c a Hc Ha. unfold antichainb in H. rewrite forallb_forall in H.
  destruct (memN c p_ids) eqn:M.
  - apply memN_In in M. specialize (H c M). destruct (tmap p_name t c) eqn:Tc; [|contradiction Hc; reflexivity].
    rewrite forallb_forall in H. unfold proper_ancestors in H. rewrite p_chain in H. specialize (H a Ha).
    destruct (tmap p_name t a); [discriminate H | reflexivity].
  - exfalso. apply Hc. unfold tmap, p_name.
    destruct (tbl_get g_classes c) as [[n x]|] eqn:G; [|exact Hempty].
    apply tbl_get_In in G. assert (In c p_ids) as I by (unfold p_ids; apply in_map_iff; exists (c, (n, x)); split; [reflexivity | exact G]).
    apply memN_In in I. rewrite I in M. discriminate M.
Qed.

Definition shipped_ok (t : tset) : bool :=
  antichainb t && match aget t [] with None => true | Some _ => false end.

Lemma shipped_sets_ok : forallb (fun e => shipped_ok (snd e)) g_builtin_templates = true.
Proof. vm_compute. reflexivity. Qed.

(* every sequence of lookups against a SHIPPED built-in template set, any user directory listing, either policy, the shared
   memo of the unchanged code: every result is the nearest-ancestor result *)
Lemma p_shipped_transparent lang l pol dirs cs : In (lang, l) g_builtin_listings ->
  p_lookup_seq true pol dirs (Some l) cs = p_spec_seq pol dirs (Some l) cs.
Proof.
  intros Hin0. set (t := p_tset (list_templates l)).
  assert (Hin : In (lang, t) g_builtin_templates).
  { unfold g_builtin_templates. apply in_map_iff. exists (lang, l). split; [reflexivity | exact Hin0]. }
  pose proof shipped_sets_ok as S. rewrite forallb_forall in S. specialize (S _ Hin). cbn [snd] in S.
  unfold shipped_ok in S. apply andb_prop in S. destruct S as [S1 S2].
  assert (E : aget t [] = None) by (destruct (aget t []); [discriminate S2 | reflexivity]).
  unfold p_lookup_seq, p_spec_seq. destruct (mk_loaders pol dirs (Some l)) as [fs pk] eqn:ML.
  assert (Hok : transparent_cond p_bases p_rank (p_index_fs fs) (p_index_pkg pk)).
  { unfold mk_loaders in ML. destruct pol, dirs as [d|]; inversion ML; subst; unfold p_index_fs, p_index_pkg, p_idx; cbn [option_map];
      try (right; left; reflexivity); try (left; reflexivity); right; right; apply antichainb_sound; assumption. }
  transitivity (map (spec p_bases p_rank (p_index_fs fs) (p_index_pkg pk)) cs).
  { apply (run_seq_sh p_bases p_rank p_single p_rank_ok _ _ p_fuel Hok cs st0 (fun c _ => p_rank_fuel c) (inv_sh_nil _ _ _ _)). }
  apply map_ext. intros c. unfold spec. rewrite p_chain. reflexivity.
Qed.

(* (A3) documentation of the code before fix 1341207 (memo keyed by class only, shared by both walks).  The full statement was false:
   forest 1 -> 0 <- 2, no user template, built-in templates for 0 and 1; looking up 2 and then 1 yields the template of 0
   for class 1 (finding F-LOOKUP-MEMO-CROSS). *)
Theorem C16_cache_transparent_refuted :
  exists (bases : cls -> list cls) (rank : cls -> nat) (fs pkg : option (cls -> option path)) (cs : list cls),
    (forall c, (length (bases c) <= 1)%nat) /\ (forall c p, In p (bases c) -> (rank p < rank c)%nat) /\
    (forall c, In c cs -> (rank c < 3)%nat) /\
    run_seq bases true fs pkg 3 st0 cs <> map (fun c => spec_lookup fs pkg (chain_n bases (rank c) c)) cs.
Proof.
  exists w_bases, w_rank, (Some (fun _ => None)), (Some w_pkg), [2; 1].
  split; [exact w_single|]. split; [exact w_rank_ok|]. split; [|exact shared_memo_refuted].
  intros c [<-|[<-|[]]]; vm_compute; lia.
Qed.
Print Assumptions C16_cache_transparent_refuted.

(* (A4) ... and the strongest true statement: the shared memo is transparent for every sequence whenever only one loader
   exists or the built-in set has no template for a class AND for one of its proper ancestors. *)
Theorem C16_cache_transparent_partial :
  forall (bases : cls -> list cls) (rank : cls -> nat),
    (forall c, (length (bases c) <= 1)%nat) -> (forall c p, In p (bases c) -> (rank p < rank c)%nat) ->
  forall (fs pkg : option (cls -> option path)) (fuel : nat) (cs : list cls), (forall c, In c cs -> (rank c < fuel)%nat) ->
    (fs = None \/ pkg = None \/
     (forall c a, Tof pkg c <> None -> In a (tl (chain_n bases (rank c) c)) -> Tof pkg a = None)) ->
    run_seq bases true fs pkg fuel st0 cs = map (fun c => spec_lookup fs pkg (chain_n bases (rank c) c)) cs.
Proof.
  intros bases rank H1 H2 fs pkg fuel cs Hf Hok.
  exact (run_seq_sh bases rank H1 H2 fs pkg fuel Hok cs st0 Hf (inv_sh_nil bases rank fs pkg)).
Qed.
Print Assumptions C16_cache_transparent_partial.

(* (A5) every built-in template set shipped in /repo (regenerated listing) satisfies the condition of (A4): for every
   user-directory listing, either search policy and EVERY sequence of lookups on the real pydsdl hierarchy the unchanged
   loader returns the nearest-ancestor result. *)
Theorem C16_shipped_sets_cache_transparent :
  forall lang l pol dirs cs, In (lang, l) g_builtin_listings ->
    p_lookup_seq true pol dirs (Some l) cs = p_spec_seq pol dirs (Some l) cs.
Proof. exact p_shipped_transparent. Qed.
Print Assumptions C16_shipped_sets_cache_transparent.


(* documentation of the code before fix d35e4ad: it looked only at .data_type when the value is an attribute: false for an attribute that is itself an
   instance of the root class (finding F-ATTR-TESTS-CONST-FALSE: `f is padding`, `attr is Field` are never true) *)
Theorem C16_test_agrees_with_membership_refuted :
  exists bases fuel attr root v, field_is_instance bases true fuel attr root v <> spec_test bases fuel attr root v.
Proof. exists w_bases, 3%nat, 0, 1, {| v_cls := 1; v_dt := 5 |}. exact test_agrees_refuted_lemma. Qed.
Print Assumptions C16_test_agrees_with_membership_refuted.

Theorem C16_test_agrees_with_membership_partial :
  forall bases fuel attr root v,
    isinst bases fuel (v_cls v) attr && isinst bases fuel (v_cls v) root = false ->
    field_is_instance bases true fuel attr root v = spec_test bases fuel attr root v.
Proof. exact test_agrees_partial_lemma. Qed.
Print Assumptions C16_test_agrees_with_membership_partial.


(* documentation of the code before fix 6db3613: the gate only checked the reserved names (F-ENV-GLOBALS) *)
Theorem C16_user_global_shadows_builtin_refuted :
  forall defaults reserved written lang n,
    str_in n defaults = true -> str_in n reserved = false -> str_in n written = false -> str_in n lang = false ->
    exists g, init_globals true defaults reserved written lang [(n, 0)] = Some g /\ dget g n = Some (OUser 0).
Proof. exact user_global_shadows_builtin. Qed.
Print Assumptions C16_user_global_shadows_builtin_refuted.

Theorem C16_user_global_shadows_builtin_partial :
  forall defaults reserved written lang user g n, init_globals true defaults reserved written lang user = Some g ->
    str_in n (map fst user) = false ->
    str_in n defaults = true -> str_in n written = false -> str_in n lang = false -> dget g n = Some OBuiltin.
Proof. exact builtin_globals_protected_partial. Qed.
Print Assumptions C16_user_global_shadows_builtin_partial.


(* ---- before fix af716bd (type_to_template indexed the templates of sub-directories; F-LOOKUP-SUBDIR-NAME) ---- *)
(* (1) refuted (finding F-LOOKUP-SUBDIR-NAME) AS LONG AS type_to_template indexes the templates of sub-directories -- a fact
   regenerated from /repo (g_index_top_level_only = false; p_flatb is `g_index_top_level_only || ...`): user dir
   {sub/StructureType.j2, CompositeType.j2}, package {StructureType.j2}: type_to_template chooses sub/StructureType.j2, .name drops
   the directory; FIND_ALL renders the PACKAGE's StructureType.j2, FIND_FIRST raises TemplateNotFound; the property designates the
   user's CompositeType.j2 *)
Theorem C16_rendered_file_refuted_subdir : g_index_top_level_only = false ->
  p_lookup_seq false FIND_ALL (Some [[f_sub_struct; f_comp]]) (Some [f_struct]) [g_cls_StructureType] = [Some f_sub_struct] /\
  p_rendered_seq false FIND_ALL (Some [[f_sub_struct; f_comp]]) (Some [f_struct]) [g_cls_StructureType] = [Rendered OPkg f_struct] /\
  p_rendered_seq false FIND_FIRST (Some [[f_sub_struct; f_comp]]) (Some [f_struct]) [g_cls_StructureType] = [NotFound f_struct] /\
  p_spec_rendered FIND_FIRST (Some [[f_sub_struct; f_comp]]) (Some [f_struct]) g_cls_StructureType = Rendered (OUserDir 0) f_comp /\
  p_flatb FIND_FIRST (Some [[f_sub_struct; f_comp]]) (Some [f_struct]) = false.
Proof. exact subdir_name_refuted. Qed.
Print Assumptions C16_rendered_file_refuted_subdir.


(* ---- before fix 52035ba (the walk continued past pydsdl.Any; F-LOOKUP-CHAIN-PAST-ANY) ---- *)
(* (A5''') the chain ENDS AT pydsdl.Any (property text).  The code walks on to the bases of Any (abc.ABC) unless the walk stops at Any
   -- a fact regenerated from /repo (g_chain_ends_at_any; design_notes/C16_chain_ends_at_any_fix.patch).  As long as it does not,
   a user ABC.j2 is chosen and rendered for every type (finding F-LOOKUP-CHAIN-PAST-ANY): *)
Theorem C16_chain_past_any_refuted : g_chain_ends_at_any = false ->
  chain_end_ok = false /\
  exists abc, p_name abc = [65; 66; 67] /\
    p_rendered_seq false FIND_FIRST (Some [[p_exact_name abc]]) None [g_cls_StructureType] = [Rendered (OUserDir 0) (p_exact_name abc)] /\
    p_spec_rendered FIND_FIRST (Some [[p_exact_name abc]]) None g_cls_StructureType = NoTemplate /\
    isinst p_bases p_fuel abc g_cls_Any = false.
Proof. exact chain_past_any_refuted. Qed.
Print Assumptions C16_chain_past_any_refuted.


(* ---- before fix 5a15038 (F-LOOKUP-DANGLING-LINK) ----
   type_to_template indexed every name FileSystemLoader.list_templates() returned, including dangling links: user dir
   {CompositeType.j2, StructureType.j2 -> /nonexistent}, FIND_FIRST, lookup StructureType chose StructureType.j2 and get_source raised
   TemplateNotFound (property: CompositeType.j2).  There was no Coq statement: such names were outside the model (its listings are
   listings of loadable files); since the fix the code's index is built from loadable files too (g_index_checks_loadable, required
   by C16_fix_state) and the dangling-link cases of the check are compared with the model like all others. *)
