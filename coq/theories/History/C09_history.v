(* C09 -- HISTORY (compiled, not an obligation of the property): theorems about code that is no longer in /repo, and
   about hypothetical variants the live theorems exclude.  Nothing in Properties/C09.v depends on this file.

   1. F-STROP-HANDLER-UNVERIFIED (fixed by /repo 2e53e9f): before the fix TokenEncoder.strop returned the failure handler's
      result without re-checking it (model: sc_reverify := false).  With reserved_identifiers overridden to [a; _a] the C
      encoder returned the reserved `_a` for `a`.
   2. A cache key without `self`: what Properties/C09.v two_encoders_isolated excludes. *)
From Verif Require Import StropInst StropThmRe StropThmEnc StropThm StropThmInst.
Open Scope N_scope.

(* The quirk-faithful model of a tree WITHOUT the final re-verification (sc_reverify := false), C configuration with
   reserved_identifiers overridden to ["a"; "_a"]:  "a" -> "_a" (keyword) -> dry-run keyword check fails -> handler returns "_a"
   unchanged -> returned although reserved.  The side condition chk_sound excludes exactly this. *)
Definition cfg_c_override : strop_cfg :=
  {| sc_reserved := [[97]; [95; 97]]; sc_patterns := sc_patterns cfg_c; sc_rules := sc_rules cfg_c;
     sc_prefix := sc_prefix cfg_c; sc_suffix := sc_suffix cfg_c; sc_enc_prefix := sc_enc_prefix cfg_c;
     sc_ws_char := sc_ws_char cfg_c; sc_collapse := sc_collapse cfg_c;
     sc_strop_handler := sc_strop_handler cfg_c; sc_enc_handler := sc_enc_handler cfg_c; sc_reverify := false; sc_full_check := false |}.

Lemma strop_sound_override_refuted_thm :
  exists ty s t, s <> [] /\ strop py_uni py_isspace cfg_c_override ty s = Ok t /\ is_reserved cfg_c_override t = true.
Proof. exists ty_any, [97], [95; 97]. split; [discriminate|]. vm_compute. split; reflexivity. Qed.

Lemma chk_sound_override_false : chk_sound py_uni cfg_c_override = false.
Proof. vm_compute; reflexivity. Qed.

(* the same override on the configuration /repo has NOW (sc_reverify as regenerated) *)
Definition cfg_c_override_now : strop_cfg :=
  {| sc_reserved := [[97]; [95; 97]]; sc_patterns := sc_patterns cfg_c; sc_rules := sc_rules cfg_c;
     sc_prefix := sc_prefix cfg_c; sc_suffix := sc_suffix cfg_c; sc_enc_prefix := sc_enc_prefix cfg_c;
     sc_ws_char := sc_ws_char cfg_c; sc_collapse := sc_collapse cfg_c;
     sc_strop_handler := sc_strop_handler cfg_c; sc_enc_handler := sc_enc_handler cfg_c; sc_reverify := strop_reverifies;
     sc_full_check := strop_full_check |}.

(* which of the two holds is decided by the regenerated flag: with the fix, every override with chk_base is sound (and the
   witness override is rejected with RuntimeError); without it, the witness override returns the reserved `_a` *)
Definition override_state : Prop :=
  if strop_reverifies
  then (forall l, sc_reverify (cfg_of l) = true)
       /\ chk_sound py_uni cfg_c_override_now = true
       /\ strop py_uni py_isspace cfg_c_override_now ty_any [97] = ErrRuntime
  else strop py_uni py_isspace cfg_c_override_now ty_any [97] = Ok [95; 97] /\ is_reserved cfg_c_override_now [95; 97] = true.

Lemma override_state_thm : override_state.
Proof.
  unfold override_state. destruct strop_reverifies eqn:E.
  - first [vm_compute in E; discriminate E
          |split; [intros l; destruct l; vm_compute; reflexivity|split; vm_compute; reflexivity]].
  - first [vm_compute in E; discriminate E|split; vm_compute; reflexivity].
Qed.


Theorem C09_history_override_refuted :
  exists ty s t, s <> [] /\ strop py_uni py_isspace cfg_c_override ty s = Ok t /\ is_reserved cfg_c_override t = true.
Proof. exact strop_sound_override_refuted_thm. Qed.

Theorem C09_history_override_state : override_state.
Proof. exact override_state_thm. Qed.

(* with a key that forgets `self`, the second encoder (prefix _pre_/suffix _post_) is served the first one's `_if` *)
Example C09_history_keyless_cache_interferes :
  let enc := enc2 cfg_c (cfg_sel 1 LC) in
  let r1 := strop_shared_noself py_uni py_isspace enc (Some 8%nat) [] 0 ty_any [105; 102] in
  let r2 := strop_shared_noself py_uni py_isspace enc (Some 8%nat) (fst r1) 1 ty_any [105; 102] in
  snd r2 = Ok [95; 105; 102] /\ strop py_uni py_isspace (enc 1%nat) ty_any [105; 102] <> Ok [95; 105; 102].
Proof. vm_compute. split; [reflexivity|discriminate]. Qed.

(* 3. Until round 6 the clause-3 theorem for cpp used a notion of "unreserved" that ignored C++ [lex.name] 3.1 (identifiers
      containing `__`); against that over-narrow predicate the clause is refuted by `__x`.  The live theorem
      (Properties/C09.v strop_id_cpp_ascii) uses clean_ascii. *)
Theorem C09_history_cpp_identity_narrow_predicate :
  exists ty t, str_eqb (lower ty) ty_all = false /\ clean_lang LCpp ty t = true /\ strop_cpp ty t <> Ok t.
Proof. exact strop_id_cpp_refuted_thm. Qed.
