(* C13 — statements about code that is NO LONGER in /repo (kept as a record of what the repaired defects did; not part of
   the obligations of Properties/C13.v).
   F-CFG-ALIAS (fixed in d1e1da9): deep_update used the shallow copy.copy when a mapping replaced a scalar.
   F-CFG-REUSE (fixed in 2d863d6): create() handed the context the builder's own LanguageConfig object.
   F-CFG-ALIASMAP (fixed): the deep copy kept sub-maps that were one object inside the source shared. *)
From Verif Require Import Config ConfigAlias ConfigThmAlias.
Require Import List Bool Lia.
Import ListNotations.
Open Scope N_scope.

Theorem c13_history_shallow_copy_modifies_source :
  exists base srcs, is_doc base = true /\ forallb is_doc srcs = true /\ sources_modified false base srcs = true.
Proof. exact shallow_copy_modifies_source. Qed.
Print Assumptions c13_history_shallow_copy_modifies_source.

Theorem c13_history_shallow_copy_reaches_source :
  exists base srcs, is_doc base = true /\ forallb is_doc srcs = true /\ has_src (tmerge_all false base srcs) = true.
Proof. exact shallow_copy_reaches_source. Qed.
Print Assumptions c13_history_shallow_copy_reaches_source.

(* with a shared LanguageConfig object (create_detaches_config = false) a second create() on the same builder with another
   override changed what the first context reported *)
Definition reuse_builtin : list (list N * cv) :=
  [([110; 117; 110; 97; 118; 117; 116; 46; 108; 97; 110; 103; 46; 99],        (* nunavut.lang.c *)
    Node [(key_options, Node [([101], Leaf false (AStr [97]))])])].            (* options: {e: "a"} *)
Definition reuse_ops1 : list pop :=
  [PNew; POp 0 (SetLanguage (Some [99])); POp 0 (SetOverride key_options (Some (Node [([101], Leaf false (AStr [98]))])));
   PCreate 0].
Definition reuse_ops2 : list pop :=
  [POp 0 (SetOverride key_options (Some (Node [([101], Leaf false (AStr [99]))]))); PCreate 0].

Theorem c13_history_builder_reuse_refuted :
  exists builtin ops1 ops2 c,
    (c < length (p_ctxs (prun false builtin ops1 empty_proc)))%nat /\
    forallb (fun o => negb (pop_observes c o)) ops2 = true /\
    ctx_report (prun false builtin ops2 (prun false builtin ops1 empty_proc)) c <> ctx_report (prun false builtin ops1 empty_proc) c.
Proof.
  exists reuse_builtin, reuse_ops1, reuse_ops2, 0%nat. split; [vm_compute; lia|]. split; [reflexivity|].
  vm_compute. discriminate.
Qed.
Print Assumptions c13_history_builder_reuse_refuted.

(* with the plain deepcopy (rebuild = false) the copy kept the internal sharing of the source: the later source, which does not
   mention e.b, changed e.b.k *)
Theorem c13_history_aliased_submap_changes_unmentioned_key :
  untouched [[101]; [98]; [107]] (dag_expand 8 [] am_src2) = true
  /\ lookup [[101]; [98]; [107]] (fst (hmerge_dag_scenario true false am_base [am_src1])) = Some (Leaf false (AInt 1))
  /\ lookup [[101]; [98]; [107]] (fst (hmerge_dag_scenario true false am_base [am_src1; am_src2])) = Some (Leaf false (AInt 2)).
Proof. exact aliased_submap_changes_unmentioned_key. Qed.
Print Assumptions c13_history_aliased_submap_changes_unmentioned_key.
