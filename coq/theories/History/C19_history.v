(* C19 -- theorems about code that is NO LONGER in /repo (kept as documentation of what the old code did; not part of the
   obligations of Properties/C19.v, not cited by the check).
   Before commit 8b27d3f the root rule of the bundled lexer carried the auto-indent alternative for the COMMENT delimiter as
   well (`model_bundled_rules_q true`); finding F-JINJA-COMMENT-STAR, now status fixed. *)
From Verif Require Import JinjaScan JinjaScanThm.
Open Scope N_scope.

(* The hypothesis is necessary, also for "{#*": a COMMENT that merely starts with `*` loses the blanks before it in the
   bundled engine (known finding F-JINJA-COMMENT-STAR: the template contains neither "{%*" nor "{{*").  Stated about the
   quirk-faithful rule set `model_bundled_rules_q true`; JinjaScanThm.rules_shape decides on every run whether the regenerated
   rules are that set or the repaired one (`_q false`), and every other theorem here holds in both cases.
   Witness: "a  {#* c #}b" -- bundled data token "a", stock data token "a  ". *)
Theorem C19_history_scan_conservative_refuted :
  exists (src : str),
    has_marker_documented src = false /\
    scan_all py_uni (model_bundled_rules_q true) (fun _ _ => Some ([], 7%nat)) src <> scan_stock (fun _ _ => Some ([], 7%nat)) src.
Proof. exact comment_star_refuted. Qed.
Print Assumptions C19_history_scan_conservative_refuted.

