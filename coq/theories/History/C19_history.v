(* C19 -- theorems about code that is NO LONGER in /repo (kept as documentation of what the old code did; not part of the
   obligations of Properties/C19.v, not cited by the check).
   Before commit 8b27d3f the root rule of the bundled lexer carried the auto-indent alternative for the COMMENT delimiter as
   well (`model_bundled_rules_q true`); finding F-JINJA-COMMENT-STAR, now status fixed. *)
From Verif Require Import JinjaScan JinjaScanThm JinjaMarkerThm.
Open Scope N_scope.

(* The hypothesis is necessary, also for "{#*": a COMMENT that merely starts with `*` loses the blanks before it in the
   bundled engine (known finding F-JINJA-COMMENT-STAR: the template contains neither "{%*" nor "{{*").  Stated about the
   quirk-faithful rule set `model_bundled_rules_q true`; JinjaScanThm.rules_shape decides on every run whether the regenerated
   rules are that set or the repaired one (`_q false`), and every other theorem here holds in both cases.
   Witness: "a  {#* c #}b" -- bundled data token "a", stock data token "a  ". *)
Theorem C19_history_scan_conservative_refuted :
  exists (src : str),
    has_marker_documented src = false /\
    scan_all py_uni (model_bundled_rules_q true) (fun _ _ => Some ([], 7%nat)) src <> scan_stock (fun _ _ => Some ([], 7%nat)) src.
Proof. exact comment_star_refuted. Qed.
Print Assumptions C19_history_scan_conservative_refuted.


(* Before commit a6cc424 Parser.subparse tested `token.value.endswith('*')` and sliced `token.value[:-3]` whatever the delimiters
   were (`marker_m false`); finding F-JINJA-MARKER-DELIM (D1 + D2), now status fixed. *)
(* the LEGACY marker code (`endswith('*')`, `[:-3]`) is wrong outside two-character delimiters: finding F-JINJA-MARKER-DELIM.
   D1: with start string "\VAR{" the prefix of "  \VAR{*" is not "  ";  D2: the PLAIN opener "<*" is taken for a marker.
 *)
Theorem C19_history_legacy_marker_prefix_refuted : exists D w : str, D <> [] /\ marker_m false [D] (w ++ D ++ [42]) <> Some w.
Proof. exact legacy_prefix_refuted. Qed.
Print Assumptions C19_history_legacy_marker_prefix_refuted.

Theorem C19_history_legacy_marker_plain_opener_refuted : exists D : str, marker_m false [D] D <> None /\ marker_m true [D] D = None.
Proof. exact legacy_plain_opener_refuted. Qed.
Print Assumptions C19_history_legacy_marker_plain_opener_refuted.

(* tie of the legacy constant: while the code is not delimiter-aware its slice bound is the 3 of the legacy model *)
Theorem C19_history_marker_mode_tie : autoindent_delimiter_aware = false -> autoindent_drop = 3%nat.
Proof. intros H. first [reflexivity | discriminate H]. Qed.
Print Assumptions C19_history_marker_mode_tie.

