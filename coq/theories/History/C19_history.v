(* C19 -- theorems about code that is NO LONGER in /repo (kept as documentation of what the old code did; not part of the
   obligations of Properties/C19.v, not cited by the check).
   Before commit 8b27d3f the root rule of the bundled lexer carried the auto-indent alternative for the COMMENT delimiter as
   well (`model_bundled_rules_q true`); finding F-JINJA-COMMENT-STAR, now status fixed. *)
From Verif Require Import JinjaScan JinjaScanThm JinjaMarkerThm JinjaLinePrefixThm.
Open Scope N_scope.

(* The hypothesis is necessary, also for "{#*": a COMMENT that merely starts with `*` loses the blanks before it in the
   bundled engine (known finding F-JINJA-COMMENT-STAR: the template contains neither "{%*" nor "{{*").  Stated about the
   quirk-faithful rule set `model_bundled_rules_q true`; JinjaScanThm.rules_shape decides on every run whether the regenerated
   rules are that set or the repaired one (`_q false`), and every other theorem here holds in both cases.
   Witness: "a  {#* c #}b" -- bundled data token "a", stock data token "a  ". *)
Theorem C19_history_scan_conservative_refuted :
  exists (src : str),
    has_marker_documented src = false /\
    scan_all py_uni (model_bundled_rules_q true) (fun _ _ => Some ([], 7%nat)) src <> scan_stock (fun _ _ => Some ([], 7%nat)) src.
Proof. exact comment_star_refuted. Qed.
Print Assumptions C19_history_scan_conservative_refuted.


(* Before commit a6cc424 Parser.subparse tested `token.value.endswith('*')` and sliced `token.value[:-3]` whatever the delimiters
   were (`marker_m false`); finding F-JINJA-MARKER-DELIM (D1 + D2), now status fixed. *)
(* the LEGACY marker code (`endswith('*')`, `[:-3]`) is wrong outside two-character delimiters: finding F-JINJA-MARKER-DELIM.
   D1: with start string "\VAR{" the prefix of "  \VAR{*" is not "  ";  D2: the PLAIN opener "<*" is taken for a marker.
 *)
Theorem C19_history_legacy_marker_prefix_refuted : exists D w : str, D <> [] /\ marker_m false [D] (w ++ D ++ [42]) <> Some w.
Proof. exact legacy_prefix_refuted. Qed.
Print Assumptions C19_history_legacy_marker_prefix_refuted.

Theorem C19_history_legacy_marker_plain_opener_refuted : exists D : str, marker_m false [D] D <> None /\ marker_m true [D] D = None.
Proof. exact legacy_plain_opener_refuted. Qed.
Print Assumptions C19_history_legacy_marker_plain_opener_refuted.

(* tie of the legacy constant: while the code is not delimiter-aware its slice bound is the 3 of the legacy model *)
Theorem C19_history_marker_mode_tie : autoindent_delimiter_aware = false -> autoindent_drop = 3%nat.
Proof. intros H. first [reflexivity | discriminate H]. Qed.
Print Assumptions C19_history_marker_mode_tie.


(* Before the "lineprefix_terminator" fix filters.do_lineprefix was `lineprefix_legacy`; finding F-JINJA-LINEPREFIX-TERMINATOR, fixed.
   (The "marker_minus" fix, F-JINJA-MARKER-MINUS, had no theorem of its own: the old parser simply had no guard.) *)
(* (3) lineprefix.  The translated filter is one of two shapes (flag regenerated from filters.py):
   `lineprefix_legacy` = '\n'.join(prefix + l if l else l for l in s.splitlines())   -- what /repo has now; it DROPS the final
   terminator of the value and rewrites every terminator to LF: finding F-JINJA-LINEPREFIX-TERMINATOR (with trim_blocks + lstrip_blocks
   the template line after a marker block is glued to its last line), patch design_notes/C19_history_lineprefix_terminator_fix.patch;
   `lineprefix_keep`   = ''.join(prefix + l if l.splitlines()[0] else l for l in s.splitlines(True))   -- the patched shape.
   LEGACY shape: split at "\n", the output consists of exactly the lines str.splitlines()
   finds in the input, each non-empty one prefixed, empty ones unchanged.  Consequences spelled out below:
   every terminator (CR LF, CR, VT, FF, FS, GS, RS, NEL, LS, PS) becomes one LF and the final terminator is dropped. *)
Theorem C19_history_lineprefix_spec :
  forall (s p : str),
    forallb (fun c => negb (c =? 10)) p = true ->
    py_splitlines s <> [] ->
    split_lf (lineprefix_legacy s p) = map (prefix_line p) (py_splitlines s).
Proof. exact lineprefix_spec_lemma. Qed.
Print Assumptions C19_history_lineprefix_spec.

Theorem C19_history_lineprefix_empty : forall p : str, lineprefix_legacy [] p = [] /\ (forall s, py_splitlines s = [] -> s = []).
Proof. intros p. split; [reflexivity | exact splitlines_nil_inv]. Qed.
Print Assumptions C19_history_lineprefix_empty.

Theorem C19_history_lineprefix_lines_have_no_terminator :
  forall s : str, Forall (fun l => forallb (fun c => negb (is_linebreak c)) l = true) (py_splitlines s).
Proof. exact splitlines_no_break. Qed.
Print Assumptions C19_history_lineprefix_lines_have_no_terminator.

(* the final line terminator of the filtered text is dropped (whatever terminator it is) *)
Theorem C19_history_lineprefix_drops_final_terminator :
  forall (s p : str) (b : N),
    s <> [] -> is_linebreak (last s 0) = false -> is_linebreak b = true ->
    lineprefix_legacy (s ++ [b]) p = lineprefix_legacy s p.
Proof. exact lineprefix_final_terminator. Qed.
Print Assumptions C19_history_lineprefix_drops_final_terminator.

(* the legacy shape does NOT preserve the text (finding F-JINJA-LINEPREFIX-TERMINATOR: final terminator dropped, CR LF -> LF);
   lead: moves to History/C19_history.v together with the other lineprefix_legacy theorems when the patch lands *)
Theorem C19_history_lineprefix_preserves_text_refuted :
  exists s : str, lineprefix_legacy s [] <> s.
Proof. exists [97; 13; 10; 98; 10]. vm_compute. discriminate. Qed.
Print Assumptions C19_history_lineprefix_preserves_text_refuted.

Example C19_history_lineprefix_example :
  lineprefix_legacy [97; 13; 10; 10; 98; 11; 99; 10] [32; 32] = [32; 32; 97; 10; 10; 32; 32; 98; 10; 32; 32; 99].
Proof. vm_compute. reflexivity. Qed.

