(* C18 -- records of what earlier versions of /repo did and model-sensitivity statements.  Compiled with the rest of the
   development, but NOT obligations of the property: nothing here is about the code as it is now (arrelem_quirk_gen = false,
   t_arr_precheck = true in the scanned tree).  Each statement instantiates the faithful model with the quirk flag q = true or
   with `set_precheck false`, i.e. with the behaviour before the fixes of F-PY-ARRELEM / F-PY-ARRWRAP. *)
From Coq Require Import List NArith ZArith Bool.
From Verif Require Import PyObj Gen_PyObj PyObjThm PyObjThmWrap PyObjThmReject PyObjThmLegal.
Import ListNotations.
Open Scope Z_scope.

(* F-PY-ARRELEM (fixed): with q = true assign_array stored whatever NumPy had converted; the DSDL range of the elements of an
   integer array of non-standard width was not enforced (same-dtype ndarray, bytes) *)
Theorem C18h_array_elem_range_refuted : exists db tid ops, wfv PW db true (run TG PW true db tid ops) = false.
Proof. exact array_elem_range_refuted. Qed.

Theorem C18h_array_elem_bytes_refuted : exists db tid ops, wfv PW db true (run TG PW true db tid ops) = false.
Proof. exact array_elem_bytes_refuted. Qed.

(* ... and a finite double beyond float16 became +inf in a float16 array without an exception, while the scalar setter raised *)
Theorem C18h_float_array_elem_unchecked :
  assign_array TG PW true false 2 false (EPrim (KF 16)) (PList [PFloat 4696837146684686336])
  = Ok (PArr (DF 16) [PFloat 9218868437227405312]).
Proof. exact float_array_elem_unchecked. Qed.

Theorem C18h_float_scalar_checked : set_prim TG (KF 16) (PFloat 4696837146684686336) = Raise ValueError.
Proof. exact float_scalar_checked. Qed.

(* what was true of that code: the full contract for data bases without integer arrays of non-standard element width *)
Theorem C18h_obj_invariant_partial : forall db tid ops, db_wok db = true -> db_std_elems PW db = true ->
  wfv PW db true (run TG PW true db tid ops) = true.
Proof. exact obj_invariant_partial. Qed.

(* F-PY-ARRWRAP (fixed): without the range check of the source, the C cast of an ndarray of another dtype wrapped around *)
Theorem C18h_array_elem_wrap_refuted : forall q,
  assign_array (set_precheck false TG) PW q false 4 false (EPrim (KU 8)) (PArr (DS 64) [PInt 256; PInt 1])
  = Ok (PArr (DU 8) [PInt 0; PInt 1]).
Proof. exact array_elem_wrap_refuted. Qed.

Theorem C18h_array_elem_wrap_signed_refuted : forall q,
  assign_array (set_precheck false TG) PW q true 2 false (EPrim (KS 16)) (PArr (DS 64) [PInt 70000; PInt 1])
  = Ok (PArr (DS 16) [PInt 4464; PInt 1]).
Proof. exact array_elem_wrap_signed_refuted. Qed.

(* ... while Python ints (a list) were never wrapped: the trigger was the foreign-dtype ndarray *)
Theorem C18h_array_src_partial : forall q fixed cap sl k zs v, (exists w, k = KU w \/ k = KS w) ->
  assign_array (set_precheck false TG) PW q fixed cap sl (EPrim k) (PList (map PInt zs)) = Ok v ->
  v = PArr (dtype_of PW (EPrim k)) (map PInt zs) /\
  Forall (fun z => fits (dtype_of PW (EPrim k)) (PInt z) = true) zs.
Proof. exact array_src_partial. Qed.

(* F-PY-NUMTEXT: without the text guard, bytes that cannot be taken as an array of bytes (illegal length) go to the conversion
   path, and np.array(b'123', uint8) parses ONE integer.  Until the fix lands in /repo this describes the current tree
   (t_text_guard tmpl_gen = false); afterwards it is a record of the defect. *)
Theorem C18h_numeric_text_refuted : forall q,
  assign_array (set_text_guard false TG) PW q false 2 false (EPrim (KU 8)) (PBytes [49%N; 50%N; 51%N]) = Ok (PArr (DU 8) [PInt 123]) /\
  assign_array (set_text_guard false TG) PW q true 1 false (EPrim (KU 8)) (PBytes [49%N; 50%N]) = Ok (PArr (DU 8) [PInt 12]).
Proof. exact numeric_text_refuted. Qed.

(* F-PY-NPSCALAR: without the exact source check (_int_elements_ok_), a NumPy scalar or an ndarray inside a list is C-cast by np.array
   and wraps around (300.0 -> 44); the range check of the source exempted lists that contain a float.  Until the fix lands in /repo
   this describes the current tree (t_src_exact tmpl_gen = false); afterwards it is a record of the defect. *)
Theorem C18h_npscalar_wrap_refuted : forall q,
  assign_array (set_src_exact false TGf) PW q false 4 false (EPrim (KU 8)) (PList [PArr (DF 64) [PFloat 4643985272004935680]])
  = Ok (PArr (DU 8) [PInt 44]).
Proof. exact npscalar_wrap_refuted. Qed.

Theorem C18h_nested_ndarray_wrap_refuted : forall q,
  assign_array (set_src_exact false TGf) PW q false 4 false (EPrim (KU 8))
    (PList [PArr (DF 64) [PFloat 4643985272004935680; PFloat 4607182418800017408]]) = Ok (PArr (DU 8) [PInt 44; PInt 1]).
Proof. exact nested_ndarray_wrap_refuted. Qed.
