(* C07 -- model-sensitivity statements and records of what earlier versions of /repo did.  Compiled with the rest of the
   development, but NOT obligations of the property: nothing here is about the code as it is now.  Each statement says that
   the faithful model, instantiated with a hand-written quirk table / fact record describing a defect (some were real in the
   pinned tree and are fixed, some were only ever introduced by mutation drills), produces different files in two
   environments -- i.e. that the corresponding premise of C07_run_env_indep is needed. *)
From Coq Require Import List NArith Bool Permutation.
From Verif Require Import Str Repro ReproThm.
Import ListNotations.
Open Scope N_scope.

(* F-C-ABSPATH (fixed 2362c8f): absolute source path in the C/C++ static_assert message *)
Theorem C07h_c_abs_path_refuted :
  exists I e1 e2 p,
    files _ facts_all_true tbl_c_abspath render0 e1 (mk_cfg LC false) I p
    <> files _ facts_all_true tbl_c_abspath render0 e2 (mk_cfg LC false) I p.
Proof. exact c_abs_path_refuted. Qed.

(* F-PY-NSTIME (fixed a40c69a): `Generated at: {{ now_utc }}` unconditionally in every Python __init__.py *)
Theorem C07h_py_ns_timestamp_refuted :
  exists I e1 e2 p,
    files _ facts_all_true tbl_py_nstime render0 e1 (mk_cfg LPy false) I p
    <> files _ facts_all_true tbl_py_nstime render0 e2 (mk_cfg LPy false) I p.
Proof. exact py_ns_timestamp_refuted. Qed.

(* F-HTML-NATSORT-TIE (fixed 94984ee) together with unsorted nested namespaces (fixed 9b93945) *)
Theorem C07h_natsort_tie_refuted :
  exists I e1 e2 p,
    files _ facts_natsort_ties [] render0 e1 (mk_cfg LHtml false) I p
    <> files _ facts_natsort_ties [] render0 e2 (mk_cfg LHtml false) I p.
Proof. exact natsort_tie_refuted. Qed.

Theorem C07h_keyed_sort_without_tiebreak_refuted :
  exists l1 l2, Permutation l1 l2 /\ gsort (key_leb natkey) l1 <> gsort (key_leb natkey) l2.
Proof. exact keyed_sort_without_tiebreak_refuted. Qed.

(* F-PY-PICKLESTATE era: generation order followed the hash seed (fixed 9b93945) *)
Theorem C07h_orders_differed :
  gen_order facts_nested_unsorted env_a (mk_cfg LPy false) ex_inputs <> gen_order facts_nested_unsorted env_c (mk_cfg LPy false) ex_inputs.
Proof. exact ex_orders_differ. Qed.

(* mutation drills: never in /repo *)
Theorem C07h_unsorted_includes_refuted :
  exists I e1 e2 p,
    files _ facts_inc_unsorted [] render0 e1 (mk_cfg LC false) I p
    <> files _ facts_inc_unsorted [] render0 e2 (mk_cfg LC false) I p.
Proof. exact unsorted_includes_refuted. Qed.

Theorem C07h_unsorted_namespace_iteration_refuted :
  exists I e1 e2 p,
    files _ facts_nested_unsorted tbl_nsiter render0 e1 (mk_cfg LPy false) I p
    <> files _ facts_nested_unsorted tbl_nsiter render0 e2 (mk_cfg LPy false) I p.
Proof. exact unsorted_namespace_iteration_refuted. Qed.

Theorem C07h_template_sets_paths_refuted :
  exists I e1 e2 p,
    files _ facts_tmplsets_paths tbl_tmplsets render0 e1 (cfg_user_templates LCpp) I p
    <> files _ facts_tmplsets_paths tbl_tmplsets render0 e2 (cfg_user_templates LCpp) I p.
Proof. exact template_sets_paths_refuted. Qed.

Theorem C07h_config_sorted_by_spelling_refuted :
  exists I e1 e2 p,
    files _ facts_config_sorted [] render0 e1 (cfg_two_configs LC) I p
    <> files _ facts_config_sorted [] render0 e2 (cfg_two_configs LC) I p.
Proof. exact config_sorted_by_spelling_refuted. Qed.

Theorem C07h_support_kept_refuted :
  exists I e p fs0,
    In p (out_paths _ facts_support_kept [] render0 e (cfg_two_configs LC) I) /\
    files_into _ facts_support_kept [] render0 fs0 e (cfg_two_configs LC) I p
    <> files _ facts_support_kept [] render0 e (cfg_two_configs LC) I p.
Proof. exact support_kept_refuted. Qed.

(* an inventory row that is not accounted for (unknown ambient read in a filter, unscanned include, ...) leaks *)
Theorem C07h_unaccounted_row_refuted :
  exists I e1 e2 p,
    files _ facts_unknown_read [] render0 e1 (mk_cfg LHtml false) I p
    <> files _ facts_unknown_read [] render0 e2 (mk_cfg LHtml false) I p.
Proof. exact unaccounted_row_refuted. Qed.

(* the Namespace path API printed ungated (never in /repo): the OUTPUT location shows although the inputs did not move *)
Theorem C07h_output_location_refuted :
  exists I e1 e2 p,
    e_abs e1 = e_abs e2 /\
    files _ facts_all_true tbl_outpath render0 e1 (mk_cfg LC false) I p
    <> files _ facts_all_true tbl_outpath render0 e2 (mk_cfg LC false) I p.
Proof. exact output_location_refuted. Qed.

(* F-PY-PICKLEPATH (fixed b86b49b): while `T | pickle` carried the absolute source path, the Python statement held only for
   runs at the same location; these are the statements of that era, on the quirk table [tbl_py_pickle] *)
Theorem C07h_py_pickle_abs_path_refuted :
  exists I e1 e2 p,
    files _ facts_all_true tbl_py_pickle render0 e1 (mk_cfg LPy false) I p
    <> files _ facts_all_true tbl_py_pickle render0 e2 (mk_cfg LPy false) I p.
Proof. exact py_pickle_abs_path_refuted. Qed.

Theorem C07h_run_env_indep_py_same_location_only :
  forall (B : Type) sf tbl (render : env -> cfg -> item -> list (list str) -> B),
    render_sees_only_body_view B sf render ->
    forall (c : cfg) (I : list tydecl) (e1 e2 : env),
      c_embed_audit c = false -> src_facts_ok sf = true -> lang_clean_but_pickle sf tbl (c_lang c) = true -> e_abs e1 = e_abs e2 ->
      forall p, files B sf tbl render e1 c I p = files B sf tbl render e2 c I p.
Proof. intros B sf tbl render Hr c I e1 e2. exact (run_env_indep_same_location B sf tbl render Hr e1 e2 c I). Qed.
