(* C05 history: statements that document what the code did BEFORE defects found by this check were repaired in /repo.  They are not
   part of the C05 claim (not built by the C05 check); kept compiling for reference. *)
From Coq Require Import List NArith ZArith Bool.
From Verif Require Import Str Wire MetaC05Base MetaC05Rne Gen_C05 MetaC05 MetaC05LitThm MetaC05Float MetaC05FltThm.
Import ListNotations.
Local Open Scope Z_scope.

(* documentation of the repaired defect F-INT64MIN: the plain spelling is diagnosed in every data model *)
Theorem c05_int64_min_plain_literal_refuted : forall dm, In dm dmodels -> c_token_denotes dm old_int64_min_token = None.
Proof. exact int64_min_plain_literal_refuted. Qed.
Print Assumptions c05_int64_min_plain_literal_refuted.

(* documentation of the repaired defect F-FLOAT-LIT-RANGE (what the code did before bc63e58): the old rendering of DBL_MIN written in
   decimal had an operand outside the range of double; the repaired code hands that constant to the oracle *)
Theorem c05_float_operands_in_range_refuted : exists n d,
  0 < d /\ d <= n * 2 ^ 1022 /\ n < d /\ parse_fexpr (old_filter_literal_float_expr (n, d)) = Some (n, d) /\
  old_const_float_operands_in_range n d = false /\ (forall rf, const_float_expr rf n d = rf (n, d)).
Proof. exact float_operands_in_range_refuted. Qed.
Print Assumptions c05_float_operands_in_range_refuted.

(* what the code did before the repair of F-FLOAT-OPERAND-ROUNDING (5d24ccd): under the rule "division whenever both operands are below
   2^1023" a float64 constant could be two ulps off.  Conditional on the regenerated rule, hence vacuous on the repaired tree. *)
Theorem c05_float64_one_ulp_refuted : float_rule = DivIfBelowLimit -> exists n d,
  0 < d /\ d <> 1 /\ division_rendered n d = true /\
  forall rf, exists x, c_eval64 rf n d = Some x /\ ford binary64 x - ford binary64 (rne binary64 n d) = 2.
Proof. exact float64_one_ulp_refuted. Qed.
Print Assumptions c05_float64_one_ulp_refuted.
