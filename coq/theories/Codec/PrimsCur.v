(* The CURRENT text of the unsigned store of the two support headers (/repo ba46e0a: saturating capacity check
   `off > cap || len > cap - off` instead of `cap < off + len`, whose sum could wrap around):
     C     `set_uxx_cur`      = Prims/CPrimsW.v `set_uxx_satM` at the 64-bit size_t (b-c14's model of the fixed nunavutSetUxx);
     C++   `cpp_set_uxx_cur`  = bitspan::setUxx with the same check (support/serialization.j2 l.762-770), written here because
                                Prims/CppPrims.v `cpp_set_uxx` still carries the text before the fix.
   On every call whose `off + len` does not wrap - in particular on every call the walkers issue - the old and the current
   functions coincide (`set_uxx_cur_is_old`, `cpp_set_uxx_cur_is_old`), so the C14 theorems about `set_uxx` / `cpp_set_uxx`
   (set_uxx_exact_b, cpp_members_are_c_b, set_ixx_is_set_uxx, ...) apply to the current text; Codec/Instances*.v are built on the
   CURRENT functions. *)
From Verif Require Import Bits CPrims CPrimsThm CPrimsW CPrimsWThm CppPrims.
Local Open Scope N_scope.

Definition set_uxx_cur : bool -> bytes -> N -> N -> N -> N -> option (bytes + err) := set_uxx_satM two64.

Lemma set_uxx_cur_is_old little buf size off value len : size * 8 < two64 -> off + len < two64 ->
  set_uxx_cur little buf size off value len = set_uxx little buf size off value len.
Proof. intros _ _. reflexivity. Qed.   (* b-c14, consolidation: CPrims.set_uxx now carries the current text *)

Definition cpp_set_uxx_cur (s : span) (value len_bits : N) : option (bytes + err) :=
  let capacity_bits := w64 (sp_size s * 8) in
  if (capacity_bits <? sp_off s) || (capacity_bits - sp_off s <? len_bits) then Some (inr TooSmall)
  else
    let saturated := N.min len_bits 64 in
    match copyTo (mkspan (tmp_any (w64 value)) 8 0) s saturated with
    | Some b => Some (inl b)
    | None => None
    end.

Lemma cpp_set_uxx_cur_is_old s value len : sp_size s * 8 < two64 -> sp_off s + len < two64 ->
  cpp_set_uxx_cur s value len = cpp_set_uxx s value len.
Proof. intros _ _. reflexivity. Qed.   (* b-c14, consolidation: CppPrims.cpp_set_uxx now carries the current text *)

(* (the old, wrapping text and the witness on which it differed: History/C14_history.v set_uxx_old_offset_wrap_refuted) *)
